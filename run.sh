#!/bin/sh
# Wrapper used by MANIFEST.json commands: ./run.sh <property> <quick|thorough>
# Builds the checker if needed (offline) and analyses /repo's current working tree.
set -u
cd "$(dirname "$0")"
export GOFLAGS=-mod=mod GOPROXY=off GOSUMDB=off GOTOOLCHAIN=local
unset GOWORK
if [ ! -x bin/gldapcheck ] || [ -n "$(find checker -name '*.go' -newer bin/gldapcheck 2>/dev/null | head -1)" ]; then
  (cd checker && go build -o ../bin/gldapcheck ./cmd/gldapcheck) || { echo "VIOLATION property=$1 replay=/verif/evidence/replay/$1.json"; echo "checker build failed"; exit 1; }
fi
exec bin/gldapcheck -prop "$1" -tier "${2:-quick}" -verif "$(pwd)"
