// Demonstration D16 - Stop() never returns when a connection's read loop has
// already ended (the client sent Unbind) while one of its handlers is still
// blocked writing to a client that does not read: the per-connection shutdown
// watcher added for D7 is stopped by `defer close(connDone)`, which runs BEFORE
// the deferred teardown's conn.close() (deferred calls run last-in first-out).
// conn.close() then waits for the handler, but nothing is left to arm the write
// deadline when Stop() cancels the shutdown context.
//
// Place in: repository root (package gldap_test)
// Command : go test -count=1 -run 'TestD16_' -timeout 60s .
// Observed on 0e2e057 (before the fix):
//   d16_test.go: D16: Stop() has not returned 5s after being called: the handler is still blocked in Write
//   --- FAIL: TestD16_StopHangsWithBlockedWriterAfterUnbind
// With the fix: Stop() returns after about 1s (shutdownWriteGrace), PASS.

package gldap_test

import (
	"fmt"
	"net"
	"strings"
	"testing"
	"time"

	ber "github.com/go-asn1-ber/asn1-ber"
	"github.com/hashicorp/go-hclog"
	"github.com/jimlambrt/gldap"
)

func TestD16_StopHangsWithBlockedWriterAfterUnbind(t *testing.T) {
	s, err := gldap.NewServer(gldap.WithLogger(hclog.New(&hclog.LoggerOptions{Level: hclog.Off})))
	if err != nil {
		t.Fatal(err)
	}
	mux, _ := gldap.NewMux()
	started := make(chan struct{})
	handlerDone := make(chan struct{})
	big := strings.Repeat("x", 256*1024)
	_ = mux.Search(func(w *gldap.ResponseWriter, r *gldap.Request) {
		defer close(handlerDone)
		close(started)
		// stream entries until the write fails; the client never reads, so this
		// blocks in Write once the socket buffers are full
		for i := 0; i < 4000; i++ {
			e := r.NewSearchResponseEntry(fmt.Sprintf("cn=%d,dc=example,dc=org", i))
			e.AddAttribute("description", []string{big})
			if err := w.Write(e); err != nil {
				return
			}
		}
	})
	_ = s.Router(mux)

	l, err := net.Listen("tcp", "localhost:0")
	if err != nil {
		t.Fatal(err)
	}
	port := l.Addr().(*net.TCPAddr).Port
	l.Close()
	runDone := make(chan error, 1)
	go func() { runDone <- s.Run(fmt.Sprintf("localhost:%d", port)) }()
	for i := 0; i < 500 && !s.Ready(); i++ {
		time.Sleep(10 * time.Millisecond)
	}

	c, err := net.Dial("tcp", fmt.Sprintf("localhost:%d", port))
	if err != nil {
		t.Fatal(err)
	}
	defer c.Close()

	// SearchRequest, message id 1
	search := ber.Encode(ber.ClassUniversal, ber.TypeConstructed, ber.TagSequence, nil, "LDAP Request")
	search.AppendChild(ber.NewInteger(ber.ClassUniversal, ber.TypePrimitive, ber.TagInteger, int64(1), "MessageID"))
	req := ber.Encode(ber.ClassApplication, ber.TypeConstructed, 3, nil, "Search Request")
	req.AppendChild(ber.NewString(ber.ClassUniversal, ber.TypePrimitive, ber.TagOctetString, "dc=example,dc=org", "Base DN"))
	req.AppendChild(ber.NewInteger(ber.ClassUniversal, ber.TypePrimitive, ber.TagEnumerated, int64(2), "Scope"))
	req.AppendChild(ber.NewInteger(ber.ClassUniversal, ber.TypePrimitive, ber.TagEnumerated, int64(0), "Deref Aliases"))
	req.AppendChild(ber.NewInteger(ber.ClassUniversal, ber.TypePrimitive, ber.TagInteger, int64(0), "Size Limit"))
	req.AppendChild(ber.NewInteger(ber.ClassUniversal, ber.TypePrimitive, ber.TagInteger, int64(0), "Time Limit"))
	req.AppendChild(ber.NewBoolean(ber.ClassUniversal, ber.TypePrimitive, ber.TagBoolean, false, "Types Only"))
	req.AppendChild(ber.NewString(ber.ClassContext, ber.TypePrimitive, 7, "objectClass", "Present filter"))
	req.AppendChild(ber.Encode(ber.ClassUniversal, ber.TypeConstructed, ber.TagSequence, nil, "Attributes"))
	search.AppendChild(req)
	if _, err := c.Write(search.Bytes()); err != nil {
		t.Fatal(err)
	}
	select {
	case <-started:
	case <-time.After(5 * time.Second):
		t.Fatal("search handler never started")
	}
	// UnbindRequest, message id 2: ends the connection's read loop
	unbind := ber.Encode(ber.ClassUniversal, ber.TypeConstructed, ber.TagSequence, nil, "LDAP Request")
	unbind.AppendChild(ber.NewInteger(ber.ClassUniversal, ber.TypePrimitive, ber.TagInteger, int64(2), "MessageID"))
	unbind.AppendChild(ber.Encode(ber.ClassApplication, ber.TypePrimitive, 2, nil, "Unbind Request"))
	if _, err := c.Write(unbind.Bytes()); err != nil {
		t.Fatal(err)
	}
	// let the read loop consume the Unbind and the handler fill the socket buffers
	time.Sleep(1500 * time.Millisecond)
	select {
	case <-handlerDone:
		t.Skip("the handler was not blocked by the non-reading client (socket buffers too large?)")
	default:
	}

	stopDone := make(chan error, 1)
	go func() { stopDone <- s.Stop() }()
	select {
	case err := <-stopDone:
		t.Logf("Stop() returned: %v", err)
	case <-time.After(5 * time.Second):
		t.Errorf("D16: Stop() has not returned 5s after being called: the handler is still blocked in Write")
		// unblock everything so the test binary can end
		c.Close()
		select {
		case <-stopDone:
		case <-time.After(5 * time.Second):
		}
	}
}
