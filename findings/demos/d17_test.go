// Demonstration D17 - testdirectory: the Users()/Groups() getters hand out the
// directory's own slice, and a client's Delete removes an entry by shifting
// the elements of that same backing array in place
// (d.users = append(d.users[:i], d.users[i+1:]...)). A test that ranges over
// what Users() returned while clients are being served races with the delete
// handler although every access to the field itself is under d.mu.
//
// Place in: testdirectory/ (package testdirectory_test)
// Command : go test -race -count=1 -run 'TestD17_' -timeout 120s ./testdirectory/

package testdirectory_test

import (
	"fmt"
	"testing"
	"time"

	"github.com/go-ldap/ldap/v3"
	"github.com/hashicorp/go-hclog"
	"github.com/jimlambrt/gldap/testdirectory"
)

func TestD17_GetterSliceVsDelete(t *testing.T) {
	td := testdirectory.Start(t,
		testdirectory.WithLogger(t, hclog.New(&hclog.LoggerOptions{Level: hclog.Off})),
		testdirectory.WithDefaults(t, &testdirectory.Defaults{AllowAnonymousBind: true}),
	)
	names := make([]string, 0, 40)
	for i := 0; i < 40; i++ {
		names = append(names, fmt.Sprintf("user%02d", i))
	}
	td.SetUsers(testdirectory.NewUsers(t, names)...)

	done := make(chan struct{})
	go func() {
		defer close(done)
		client := td.Conn()
		defer client.Close()
		for i := 0; i < 20; i++ {
			dn := fmt.Sprintf("%s=%s,%s", testdirectory.DefaultUserAttr, names[i], testdirectory.DefaultUserDN)
			if err := client.Del(&ldap.DelRequest{DN: dn}); err != nil {
				t.Errorf("delete %s: %v", dn, err)
				return
			}
			time.Sleep(5 * time.Millisecond)
		}
	}()
	// meanwhile the test looks at the directory through its getter
	n := 0
	for {
		select {
		case <-done:
			t.Logf("looked at %d entries", n)
			return
		default:
		}
		for _, u := range td.Users() {
			if u != nil {
				n++
			}
		}
		time.Sleep(time.Millisecond)
	}
}
