// Demonstration D7 - Stop() never returns while a single idle client is
// connected: the per-connection goroutine is blocked in ber.ReadPacket (no
// read deadline, nothing closes the accepted net.Conn), so it never observes
// the cancelled shutdown context, never calls connWg.Done() and Stop() blocks
// in connWg.Wait() for as long as the client likes.
//
// Place in: repository root (package gldap_test)
// Command : go test -count=1 -run 'TestD7_' -timeout 60s .
// Observed on f883866:
//   d07_test.go:62: D7: Stop() has not returned 3s after being called while one idle client connection is open
//   d07_test.go:72: Stop() returned only after the client closed its socket (+0s)
//   --- FAIL: TestD7_StopHangsWithIdleClient

package gldap_test

import (
	"fmt"
	"net"
	"testing"
	"time"

	"github.com/hashicorp/go-hclog"
	"github.com/jimlambrt/gldap"
)

func TestD7_StopHangsWithIdleClient(t *testing.T) {
	s, err := gldap.NewServer(gldap.WithLogger(hclog.New(&hclog.LoggerOptions{Level: hclog.Off})))
	if err != nil {
		t.Fatal(err)
	}
	mux, _ := gldap.NewMux()
	_ = s.Router(mux)

	l, err := net.Listen("tcp", "localhost:0")
	if err != nil {
		t.Fatal(err)
	}
	port := l.Addr().(*net.TCPAddr).Port
	l.Close()
	runDone := make(chan error, 1)
	go func() { runDone <- s.Run(fmt.Sprintf("localhost:%d", port)) }()
	for i := 0; i < 500 && !s.Ready(); i++ {
		time.Sleep(10 * time.Millisecond)
	}

	// an idle client: connects and sends nothing
	idle, err := net.Dial("tcp", fmt.Sprintf("localhost:%d", port))
	if err != nil {
		t.Fatal(err)
	}
	defer idle.Close()
	time.Sleep(200 * time.Millisecond) // let the server accept it

	stopDone := make(chan error, 1)
	go func() { stopDone <- s.Stop() }()

	select {
	case err := <-stopDone:
		t.Logf("Stop() returned: %v", err)
		return // no defect
	case <-time.After(3 * time.Second):
		t.Errorf("D7: Stop() has not returned 3s after being called while one idle client connection is open")
	}

	// show that it's really the client which holds the server hostage: once
	// the client goes away, Stop() returns (bounded wait so the test never
	// hangs)
	closedAt := time.Now()
	_ = idle.Close()
	select {
	case <-stopDone:
		t.Logf("Stop() returned only after the client closed its socket (+%s)", time.Since(closedAt).Round(time.Millisecond))
	case <-time.After(5 * time.Second):
		t.Logf("Stop() still blocked 5s after the client closed its socket")
	}
}
