// Demonstration D10 - server.go: Run does connWg.Add(1) for a freshly accepted
// connection without any ordering against Stop()'s connWg.Wait(). A connection
// which Accept() handed out just before Stop() closed the listener is
// registered (Add), served and torn down (OnClose) AFTER Stop() has returned:
// Stop()'s "all connections are finished" guarantee doesn't hold (and it's the
// documented WaitGroup misuse "Add with a zero counter concurrent with Wait").
//
// Two tests:
//
//   - TestD10_Forced: makes the narrow window wide WITHOUT touching gldap: the
//     user supplied hclog.Logger (gldap.WithLogger) is called by Run between
//     Accept() and connWg.Add(1) (Debug "new connection accepted"); the test's
//     logger simply is slow for that one message (it waits until the test has
//     seen Stop() return). This stands for an arbitrary scheduling delay of the
//     Run goroutine at that point. Deterministic.
//
//   - TestD10_Stress: no hook at all besides a passive, non blocking logger
//     used as an event recorder; N iterations of "dial concurrently with
//     Stop()", counts the iterations where Run logged the acceptance of a
//     connection after Stop() had already returned.
//
// Place in: repository root (package gldap_test)
// Command : go test -count=1 -run 'TestD10_Forced' -timeout 60s .
//           go test -count=1 -run 'TestD10_Stress' -timeout 600s .        (D10_ITER=n changes the iteration count, default 3000)
//           go test -race -count=1 -run 'TestD10_Stress' -timeout 600s .
// Observed on f883866:
//   d10_test.go:152: D10: OnClose(1) called 170µs AFTER Stop() returned; the connection was registered (connWg.Add), served (client received 35 bytes: notice of disconnection) and closed by a server which had already reported itself stopped
//   --- FAIL: TestD10_Forced
//   d10_test.go:230: iteration 171: Run logged 'new connection accepted' (and then did connWg.Add(1)) AFTER Stop() had returned
//   d10_test.go:238: 3000 iterations in 11.509s: 2141 with an accepted connection; accepted-after-Stop-returned=6; OnClose-after-Stop-returned=190 (the latter also includes D8)
//   d10_test.go:241: D10: in 6 of 3000 iterations a connection was accepted/registered after Stop() returned
//   --- FAIL: TestD10_Stress          (4 more runs: 5, 7, 5, 8 of 3000 iterations; ~10s per run)
//   with -race additionally (38 of 3000 iterations in that run):
//   WARNING: DATA RACE
//   Write at 0x... by goroutine N:  gldap.(*Server).Stop()  server.go:273   <- connWg.Wait()
//   Previous read at 0x... by goroutine M:  gldap.(*Server).Run()  server.go:194   <- connWg.Add(1)

package gldap_test

import (
	"fmt"
	"net"
	"os"
	"strconv"
	"sync"
	"sync/atomic"
	"testing"
	"time"

	"github.com/hashicorp/go-hclog"
	"github.com/jimlambrt/gldap"
)

// d10Logger is a hclog.Logger which calls onAccepted when Server.Run logs
// "new connection accepted" (which it does after Accept() and before
// connWg.Add(1)); everything else is discarded.
type d10Logger struct {
	hclog.Logger
	onAccepted func()
}

func (l *d10Logger) Debug(msg string, args ...interface{}) {
	if msg == "new connection accepted" && l.onAccepted != nil {
		l.onAccepted()
	}
}

func d10Port(t *testing.T) int {
	t.Helper()
	l, err := net.Listen("tcp", "localhost:0")
	if err != nil {
		t.Fatal(err)
	}
	defer l.Close()
	return l.Addr().(*net.TCPAddr).Port
}

func TestD10_Forced(t *testing.T) {
	var (
		entered      = make(chan struct{})
		release      = make(chan struct{})
		once         sync.Once
		stopReturned atomic.Int64 // unix nano of Stop()'s return, 0 == not yet
		onClose      = make(chan string, 4)
	)
	logger := &d10Logger{Logger: hclog.NewNullLogger(), onAccepted: func() {
		once.Do(func() {
			close(entered)
			select { // a slow logger == Run is delayed between Accept and connWg.Add(1)
			case <-release:
			case <-time.After(10 * time.Second):
			}
		})
	}}
	s, err := gldap.NewServer(
		gldap.WithLogger(logger),
		gldap.WithOnClose(func(connID int) {
			if at := stopReturned.Load(); at != 0 {
				onClose <- fmt.Sprintf("OnClose(%d) called %s AFTER Stop() returned", connID, time.Since(time.Unix(0, at)).Round(time.Microsecond))
			} else {
				onClose <- ""
			}
		}),
	)
	if err != nil {
		t.Fatal(err)
	}
	mux, _ := gldap.NewMux()
	_ = s.Router(mux)
	port := d10Port(t)
	runDone := make(chan error, 1)
	go func() { runDone <- s.Run(fmt.Sprintf("localhost:%d", port)) }()
	for i := 0; i < 500 && !s.Ready(); i++ {
		time.Sleep(10 * time.Millisecond)
	}

	client, err := net.Dial("tcp", fmt.Sprintf("localhost:%d", port))
	if err != nil {
		t.Fatal(err)
	}
	defer client.Close()

	select {
	case <-entered: // Accept() has returned the connection, connWg.Add(1) not done yet
	case <-time.After(5 * time.Second):
		t.Fatal("server never accepted the connection")
	}

	stopDone := make(chan error, 1)
	go func() { stopDone <- s.Stop() }()
	select {
	case err := <-stopDone:
		stopReturned.Store(time.Now().UnixNano())
		t.Logf("Stop() returned (err=%v) while Run still holds an accepted, not yet registered connection", err)
	case <-time.After(3 * time.Second):
		// a Stop() which waits for Run to be done with the connection it's
		// holding would be correct
		close(release)
		<-stopDone
		t.Log("Stop() waited for Run")
		return
	}
	close(release)

	select {
	case msg := <-onClose:
		if msg != "" {
			// what did the client see meanwhile?
			_ = client.SetReadDeadline(time.Now().Add(time.Second))
			buf := make([]byte, 256)
			n, _ := client.Read(buf)
			t.Fatalf("D10: %s; the connection was registered (connWg.Add), served (client received %d bytes: notice of disconnection) and closed by a server which had already reported itself stopped", msg, n)
		}
	case <-time.After(3 * time.Second):
		t.Log("OnClose was never called for the connection")
	}
}

func TestD10_Stress(t *testing.T) {
	iterations := 3000
	if v, err := strconv.Atoi(os.Getenv("D10_ITER")); err == nil && v > 0 {
		iterations = v
	}
	var lateAccepted, lateOnClose, accepted int
	started := time.Now()
	for i := 0; i < iterations; i++ {
		var (
			seq          atomic.Int64
			acceptedSeq  atomic.Int64
			onCloseSeq   atomic.Int64
			stopReturned int64
		)
		logger := &d10Logger{Logger: hclog.NewNullLogger(), onAccepted: func() { acceptedSeq.Store(seq.Add(1)) }}
		s, err := gldap.NewServer(
			gldap.WithLogger(logger),
			gldap.WithOnClose(func(int) { onCloseSeq.Store(seq.Add(1)) }),
		)
		if err != nil {
			t.Fatal(err)
		}
		mux, _ := gldap.NewMux()
		_ = s.Router(mux)
		port := d10Port(t)
		runDone := make(chan struct{})
		go func() { _ = s.Run(fmt.Sprintf("localhost:%d", port)); close(runDone) }()
		for j := 0; j < 5000 && !s.Ready(); j++ {
			time.Sleep(100 * time.Microsecond)
		}

		// the client connects and hangs up at once (so that Stop() can't hang
		// on an idle connection, see D7); the established connection sits in
		// the listener's backlog until Accept() picks it up.
		dialed := make(chan struct{})
		go func() {
			defer close(dialed)
			c, err := net.DialTimeout("tcp", fmt.Sprintf("localhost:%d", port), time.Second)
			if err == nil {
				_ = c.Close()
			}
		}()
		// vary the head start of the dialer: 0 .. 975us in 25us steps
		for t0, d := time.Now(), time.Duration(i%40)*25*time.Microsecond; time.Since(t0) < d; {
		}
		stopDone := make(chan struct{})
		go func() { _ = s.Stop(); close(stopDone) }()
		select {
		case <-stopDone:
			stopReturned = seq.Add(1)
		case <-time.After(2 * time.Second):
			// D7 (idle client keeps Stop() hanging): not what we look for here
		}
		<-dialed
		// let a late accepted connection be processed
		if stopReturned != 0 {
			select {
			case <-runDone:
			case <-time.After(time.Second):
			}
			time.Sleep(200 * time.Microsecond)
		}
		if stopReturned == 0 {
			<-stopDone
			continue
		}
		if a := acceptedSeq.Load(); a != 0 {
			accepted++
			if a > stopReturned {
				lateAccepted++
				if lateAccepted <= 3 {
					t.Logf("iteration %d: Run logged 'new connection accepted' (and then did connWg.Add(1)) AFTER Stop() had returned", i)
				}
			}
		}
		if o := onCloseSeq.Load(); o > stopReturned {
			lateOnClose++
		}
	}
	t.Logf("%d iterations in %s: %d with an accepted connection; accepted-after-Stop-returned=%d; OnClose-after-Stop-returned=%d (the latter also includes D8)",
		iterations, time.Since(started).Round(time.Millisecond), accepted, lateAccepted, lateOnClose)
	if lateAccepted > 0 {
		t.Fatalf("D10: in %d of %d iterations a connection was accepted/registered after Stop() returned", lateAccepted, iterations)
	}
}
