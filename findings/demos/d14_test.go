// Demonstration D14 - server.go Run sets listenerReady = true even when
// net.Listen failed: Run returns an error but Ready() reports true for a
// server which isn't listening at all (callers polling Ready(), like
// testdirectory.Start, continue as if the server was up).
//
// Place in: repository root (package gldap_test)
// Command : go test -count=1 -run 'TestD14_' -timeout 60s .
// Observed on f883866:
//   d14_test.go:45: D14: Run failed ("gldap.(Server).Run: unable to listen to addr localhost:33877: listen tcp 127.0.0.1:33877: bind: address already in use") but Ready() == true
//   --- FAIL: TestD14_ReadyIsTrueAfterListenFailed

package gldap_test

import (
	"fmt"
	"net"
	"testing"

	"github.com/hashicorp/go-hclog"
	"github.com/jimlambrt/gldap"
)

func TestD14_ReadyIsTrueAfterListenFailed(t *testing.T) {
	// occupy a port
	l, err := net.Listen("tcp", "localhost:0")
	if err != nil {
		t.Fatal(err)
	}
	defer l.Close()
	port := l.Addr().(*net.TCPAddr).Port

	s, err := gldap.NewServer(gldap.WithLogger(hclog.New(&hclog.LoggerOptions{Level: hclog.Off})))
	if err != nil {
		t.Fatal(err)
	}
	if s.Ready() {
		t.Fatal("Ready() == true before Run")
	}
	runErr := s.Run(fmt.Sprintf("localhost:%d", port)) // returns immediately: port is in use
	if runErr == nil {
		_ = s.Stop()
		t.Fatal("Run unexpectedly succeeded on a port which is in use")
	}
	if s.Ready() {
		t.Fatalf("D14: Run failed (%q) but Ready() == true", runErr)
	}
}
