// Demonstration D8 - server.go per-connection teardown calls connWg.Done()
// FIRST, before conn.close() (which waits for the in-flight handlers of the
// connection) and before the OnClose callback. Stop() (connWg.Wait()) can
// therefore return while a handler of that connection is still running, the
// socket is still open and OnClose has not been called yet.
//
// Place in: repository root (package gldap_test)
// Command : go test -count=1 -run 'TestD8_' -timeout 60s .
// Observed on f883866:
//   d08_test.go:106: D8: Stop() returned after 0s while the Search handler of connection 1 is still running (handlerDone=false) and OnClose has been called 0 time(s)
//   --- FAIL: TestD8_StopReturnsBeforeHandlersAndOnClose

package gldap_test

import (
	"fmt"
	"net"
	"sync/atomic"
	"testing"
	"time"

	ber "github.com/go-asn1-ber/asn1-ber"
	"github.com/go-ldap/ldap/v3"
	"github.com/hashicorp/go-hclog"
	"github.com/jimlambrt/gldap"
)

func TestD8_StopReturnsBeforeHandlersAndOnClose(t *testing.T) {
	var (
		onCloseCalls   int32
		handlerDone    int32
		handlerStarted = make(chan struct{})
		release        = make(chan struct{})
	)
	s, err := gldap.NewServer(
		gldap.WithLogger(hclog.New(&hclog.LoggerOptions{Level: hclog.Off})),
		gldap.WithOnClose(func(connID int) { atomic.AddInt32(&onCloseCalls, 1) }),
	)
	if err != nil {
		t.Fatal(err)
	}
	mux, _ := gldap.NewMux()
	_ = mux.Search(func(w *gldap.ResponseWriter, r *gldap.Request) {
		close(handlerStarted)
		<-release // a slow handler (e.g. waiting for a backend)
		atomic.StoreInt32(&handlerDone, 1)
	})
	_ = s.Router(mux)

	l, err := net.Listen("tcp", "localhost:0")
	if err != nil {
		t.Fatal(err)
	}
	port := l.Addr().(*net.TCPAddr).Port
	l.Close()
	go func() { _ = s.Run(fmt.Sprintf("localhost:%d", port)) }()
	for i := 0; i < 500 && !s.Ready(); i++ {
		time.Sleep(10 * time.Millisecond)
	}

	// raw client: send one search request, wait until its handler runs, then
	// close the socket (an impatient client).
	nc, err := net.Dial("tcp", fmt.Sprintf("localhost:%d", port))
	if err != nil {
		t.Fatal(err)
	}
	envelope := ber.Encode(ber.ClassUniversal, ber.TypeConstructed, ber.TagSequence, nil, "LDAP Request")
	envelope.AppendChild(ber.NewInteger(ber.ClassUniversal, ber.TypePrimitive, ber.TagInteger, int64(1), "MessageID"))
	search := ber.Encode(ber.ClassApplication, ber.TypeConstructed, ber.Tag(gldap.ApplicationSearchRequest), nil, "Search Request")
	search.AppendChild(ber.NewString(ber.ClassUniversal, ber.TypePrimitive, ber.TagOctetString, "dc=example,dc=org", "Base DN"))
	search.AppendChild(ber.NewInteger(ber.ClassUniversal, ber.TypePrimitive, ber.TagEnumerated, int64(2), "Scope"))
	search.AppendChild(ber.NewInteger(ber.ClassUniversal, ber.TypePrimitive, ber.TagEnumerated, int64(0), "Deref Aliases"))
	search.AppendChild(ber.NewInteger(ber.ClassUniversal, ber.TypePrimitive, ber.TagInteger, int64(0), "Size Limit"))
	search.AppendChild(ber.NewInteger(ber.ClassUniversal, ber.TypePrimitive, ber.TagInteger, int64(0), "Time Limit"))
	search.AppendChild(ber.NewBoolean(ber.ClassUniversal, ber.TypePrimitive, ber.TagBoolean, false, "Types Only"))
	filter, err := ldap.CompileFilter("(objectClass=*)")
	if err != nil {
		t.Fatal(err)
	}
	search.AppendChild(filter)
	search.AppendChild(ber.Encode(ber.ClassUniversal, ber.TypeConstructed, ber.TagSequence, nil, "Attributes"))
	envelope.AppendChild(search)
	if _, err := nc.Write(envelope.Bytes()); err != nil {
		t.Fatal(err)
	}
	select {
	case <-handlerStarted:
	case <-time.After(5 * time.Second):
		t.Fatal("search handler never started")
	}
	_ = nc.Close()
	// give the server's read loop time to see EOF and start the teardown of
	// the connection (which then waits for the handler)
	time.Sleep(300 * time.Millisecond)

	stopDone := make(chan struct{})
	started := time.Now()
	go func() { _ = s.Stop(); close(stopDone) }()

	select {
	case <-stopDone:
		// Stop() says: everything is shut down.
		hd, oc := atomic.LoadInt32(&handlerDone), atomic.LoadInt32(&onCloseCalls)
		close(release)
		if hd == 0 || oc == 0 {
			t.Fatalf("D8: Stop() returned after %s while the Search handler of connection 1 is still running (handlerDone=%v) and OnClose has been called %d time(s)",
				time.Since(started).Round(time.Millisecond), hd == 1, oc)
		}
	case <-time.After(2 * time.Second):
		// correct behaviour: Stop() waits for the connection; let it finish
		close(release)
		select {
		case <-stopDone:
			if oc := atomic.LoadInt32(&onCloseCalls); oc != 1 {
				t.Fatalf("Stop() returned, OnClose called %d time(s), want 1", oc)
			}
			t.Logf("Stop() waited for the handler and for OnClose (calls=%d)", atomic.LoadInt32(&onCloseCalls))
		case <-time.After(5 * time.Second):
			t.Fatal("Stop() did not return 5s after the handler was released")
		}
	}
}
