// Demonstration D1 - packet.go modifyParameters: multi-valued modification is
// decoded as ONE value holding the concatenated BER TLVs of the SET OF values.
//
// Place in: repository root (package gldap_test)
// Command : go test -count=1 -run 'TestD1_' -timeout 60s .
// Observed on f883866:
//   d01_test.go:74: D1: Modification.Vals has 1 element(s), want 2: ["\x04\x01a\x04\x01b"]
//   --- FAIL: TestD1_ModifyMultiValueDecodedAsOneValue

package gldap_test

import (
	"fmt"
	"net"
	"testing"
	"time"

	"github.com/go-ldap/ldap/v3"
	"github.com/hashicorp/go-hclog"
	"github.com/jimlambrt/gldap"
)

func d1FreePort(t *testing.T) int {
	t.Helper()
	l, err := net.Listen("tcp", "localhost:0")
	if err != nil {
		t.Fatal(err)
	}
	defer l.Close()
	return l.Addr().(*net.TCPAddr).Port
}

func TestD1_ModifyMultiValueDecodedAsOneValue(t *testing.T) {
	got := make(chan []string, 1)

	s, err := gldap.NewServer(gldap.WithLogger(hclog.New(&hclog.LoggerOptions{Level: hclog.Off})))
	if err != nil {
		t.Fatal(err)
	}
	mux, _ := gldap.NewMux()
	_ = mux.Modify(func(w *gldap.ResponseWriter, r *gldap.Request) {
		resp := r.NewModifyResponse(gldap.WithResponseCode(gldap.ResultSuccess))
		defer func() { _ = w.Write(resp) }()
		m, err := r.GetModifyMessage()
		if err != nil || len(m.Changes) == 0 {
			got <- nil
			return
		}
		got <- m.Changes[0].Modification.Vals
	})
	_ = s.Router(mux)
	port := d1FreePort(t)
	go func() { _ = s.Run(fmt.Sprintf("localhost:%d", port)) }()
	defer func() { go func() { _ = s.Stop() }() }()
	for i := 0; i < 500 && !s.Ready(); i++ {
		time.Sleep(10 * time.Millisecond)
	}

	c, err := ldap.DialURL(fmt.Sprintf("ldap://localhost:%d", port))
	if err != nil {
		t.Fatal(err)
	}
	defer c.Close()
	c.SetTimeout(5 * time.Second)

	mr := ldap.NewModifyRequest("cn=alice,ou=people,dc=example,dc=org", nil)
	mr.Replace("description", []string{"a", "b"})
	if err := c.Modify(mr); err != nil {
		t.Fatalf("modify: %v", err)
	}
	select {
	case vals := <-got:
		if len(vals) != 2 {
			t.Fatalf("D1: Modification.Vals has %d element(s), want 2: %q", len(vals), vals)
		}
	case <-time.After(5 * time.Second):
		t.Fatal("handler was never called")
	}
}
