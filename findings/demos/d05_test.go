// Demonstration D5 - conn.go serveRequests dispatches every request on its own
// goroutine (go func(){ ...; c.router.serve(w, r) }()) and that goroutine has
// no recover(): the "panic recovery" installed by Server.Run only covers the
// connection goroutine. With panic recovery ENABLED (the default), a handler
// which panics therefore kills the whole process.
//
// Because the defect kills the test binary, the test re-executes itself as a
// child process (env GLDAP_D5_CHILD=1) which runs the server + one client
// search; the parent asserts on the child's fate.
//
// Place in: repository root (package gldap_test)
// Command : go test -count=1 -run 'TestD5_' -timeout 60s .
// Observed on f883866:
//   d05_test.go:121: D5: a panicking Search handler killed the server process although panic recovery is enabled: child exit status 2; child output (excerpt):
//         panic: boom
//         goroutine 34 [running]:
//         github.com/jimlambrt/gldap.(*conn).serveRequests.func1()
//         created by github.com/jimlambrt/gldap.(*conn).serveRequests in goroutine 18
//   --- FAIL: TestD5_HandlerPanicKillsProcessDespiteRecovery

package gldap_test

import (
	"fmt"
	"net"
	"os"
	"os/exec"
	"strings"
	"testing"
	"time"

	"github.com/go-ldap/ldap/v3"
	"github.com/hashicorp/go-hclog"
	"github.com/jimlambrt/gldap"
)

const d5ChildEnv = "GLDAP_D5_CHILD"

// d5Child runs in the child process: a server with DEFAULT options (panic
// recovery enabled) and a Search handler which panics.
func d5Child(t *testing.T) {
	s, err := gldap.NewServer(gldap.WithLogger(hclog.New(&hclog.LoggerOptions{Level: hclog.Off})))
	if err != nil {
		t.Fatal(err)
	}
	mux, _ := gldap.NewMux()
	_ = mux.Search(func(w *gldap.ResponseWriter, r *gldap.Request) {
		panic("boom")
	})
	_ = s.Router(mux)
	l, err := net.Listen("tcp", "localhost:0")
	if err != nil {
		t.Fatal(err)
	}
	port := l.Addr().(*net.TCPAddr).Port
	l.Close()
	go func() { _ = s.Run(fmt.Sprintf("localhost:%d", port)) }()
	for i := 0; i < 500 && !s.Ready(); i++ {
		time.Sleep(10 * time.Millisecond)
	}

	c, err := ldap.DialURL(fmt.Sprintf("ldap://localhost:%d", port))
	if err != nil {
		t.Fatal(err)
	}
	c.SetTimeout(2 * time.Second)
	_, searchErr := c.Search(&ldap.SearchRequest{BaseDN: "dc=example,dc=org", Scope: ldap.ScopeWholeSubtree, Filter: "(objectClass=*)"})
	// if we get here, the process survived the handler's panic
	fmt.Printf("D5-CHILD-SURVIVED: search returned err=%v\n", searchErr)

	// and the server must still be able to serve another connection
	c2, err := ldap.DialURL(fmt.Sprintf("ldap://localhost:%d", port))
	if err != nil {
		t.Fatalf("server is not accepting connections after the handler panic: %v", err)
	}
	c.Close()
	c2.Close()
	go func() { _ = s.Stop() }()
	time.Sleep(100 * time.Millisecond)
}

func TestD5_HandlerPanicKillsProcessDespiteRecovery(t *testing.T) {
	if os.Getenv(d5ChildEnv) == "1" {
		d5Child(t)
		return
	}

	cmd := exec.Command(os.Args[0], "-test.run=^TestD5_HandlerPanicKillsProcessDespiteRecovery$", "-test.count=1", "-test.timeout=30s")
	cmd.Env = append(os.Environ(), d5ChildEnv+"=1")
	type result struct {
		out []byte
		err error
	}
	done := make(chan result, 1)
	go func() {
		out, err := cmd.CombinedOutput()
		done <- result{out, err}
	}()
	var res result
	select {
	case res = <-done:
	case <-time.After(40 * time.Second):
		_ = cmd.Process.Kill()
		t.Fatal("child did not finish in 40s")
	}
	out := string(res.out)

	if res.err == nil && strings.Contains(out, "D5-CHILD-SURVIVED") {
		t.Logf("child survived the handler panic:\n%s", out)
		return // no defect
	}

	// keep the interesting part of the child's output
	var keep []string
	for _, line := range strings.Split(out, "\n") {
		if strings.HasPrefix(line, "panic:") || strings.Contains(line, "serveRequests") || strings.Contains(line, "goroutine ") && strings.Contains(line, "[running]") {
			keep = append(keep, strings.TrimSpace(line))
		}
	}
	if strings.Contains(out, "panic: boom") {
		t.Fatalf("D5: a panicking Search handler killed the server process although panic recovery is enabled: child %v; child output (excerpt):\n  %s", res.err, strings.Join(keep, "\n  "))
	}
	t.Fatalf("child failed in an unexpected way: %v\n%s", res.err, out)
}
