// Demonstration D12 - request.go ConvertString (exported helper, documented as
// returning an error for unsupported input) indexes its input without any
// length check and panics on empty / truncated strings.
//
// Place in: repository root (package gldap_test)
// Command : go test -count=1 -run 'TestD12_' -timeout 60s .
// Observed on f883866:
//   --- FAIL: TestD12_ConvertStringPanics
//       d12_test.go:39: D12: ConvertString("") panicked: runtime error: index out of range [0] with length 0
//       d12_test.go:39: D12: ConvertString("\x04") panicked: runtime error: index out of range [0] with length 0
//       d12_test.go:39: D12: ConvertString("\x04\x82\x01") panicked: runtime error: index out of range [2] with length 2

package gldap_test

import (
	"testing"

	"github.com/jimlambrt/gldap"
)

func TestD12_ConvertStringPanics(t *testing.T) {
	inputs := []string{
		"",             // no tag byte at all
		"\x04",         // OCTET STRING tag, no length byte
		"\x04\x82\x01", // OCTET STRING tag, long form length announcing 2 length bytes, only 1 present
	}
	for _, in := range inputs {
		var (
			out      []string
			err      error
			panicked interface{}
		)
		func() {
			defer func() { panicked = recover() }()
			out, err = gldap.ConvertString(in)
		}()
		switch {
		case panicked != nil:
			t.Errorf("D12: ConvertString(%q) panicked: %v", in, panicked)
		case err == nil:
			t.Errorf("ConvertString(%q) = %q, want an error", in, out)
		default:
			t.Logf("ConvertString(%q) returned the expected error: %v", in, err)
		}
	}
}
