// Demonstration D9 - Stop() called before Run() has created its listener:
// Stop finds s.listener == nil, only cancels the context and returns. Run
// then listens, sees the cancelled context at the top of its accept loop and
// returns nil WITHOUT closing the listener it just created: both calls have
// returned "successfully" and the port stays bound for the life of the
// process.
//
// Place in: repository root (package gldap_test)
// Command : go test -count=1 -run 'TestD9_' -timeout 60s .
// Observed on f883866:
//   d09_test.go:49: D9: Stop() and Run() both returned nil, yet the port is still bound: listen tcp 127.0.0.1:46153: bind: address already in use
//   --- FAIL: TestD9_StopBeforeRunLeaksListener

package gldap_test

import (
	"fmt"
	"net"
	"testing"

	"github.com/hashicorp/go-hclog"
	"github.com/jimlambrt/gldap"
)

func TestD9_StopBeforeRunLeaksListener(t *testing.T) {
	l, err := net.Listen("tcp", "localhost:0")
	if err != nil {
		t.Fatal(err)
	}
	port := l.Addr().(*net.TCPAddr).Port
	l.Close()
	addr := fmt.Sprintf("localhost:%d", port)

	s, err := gldap.NewServer(gldap.WithLogger(hclog.New(&hclog.LoggerOptions{Level: hclog.Off})))
	if err != nil {
		t.Fatal(err)
	}
	// deterministic version of the race "go s.Run(); s.Stop()" where Stop wins
	if err := s.Stop(); err != nil {
		t.Fatalf("Stop: %v", err)
	}
	if err := s.Run(addr); err != nil { // returns at once: context is cancelled
		t.Fatalf("Run: %v", err)
	}

	// both returned: the server is "stopped", its port must be free
	l2, err := net.Listen("tcp", addr)
	if err != nil {
		t.Fatalf("D9: Stop() and Run() both returned nil, yet the port is still bound: %v", err)
	}
	l2.Close()
}
