// Demonstration D11 - testdirectory data race: the exported setters
// (SetUsers, SetGroups, ...) write d.users under d.mu, but the request
// handlers (handleSearchUsers, handleBind, handleSearchGeneric, handleModify
// ...) read d.users WITHOUT holding d.mu, on the server's per-request
// goroutines.
//
// The test body itself has no assertion: it fails because the race detector
// reports the race (exit with "testing.go: race detected during execution of
// test").
//
// Place in: testdirectory/ (package testdirectory_test)
// Command : go test -race -count=1 -run 'TestD11_' -timeout 120s ./testdirectory
// Observed on f883866:
//   WARNING: DATA RACE
//   Read at 0x... by goroutine N:
//     github.com/jimlambrt/gldap/testdirectory.(*Directory).handleSearchUsers.func1()
//         .../testdirectory/directory.go:475
//   Previous write at 0x... by goroutine M:
//     github.com/jimlambrt/gldap/testdirectory.(*Directory).SetUsers()
//         .../testdirectory/directory.go:863
//   ...
//   testing.go:1399: race detected during execution of test
//   --- FAIL: TestD11_SetUsersRacesWithSearchHandler

package testdirectory_test

import (
	"fmt"
	"sync"
	"testing"
	"time"

	"github.com/go-ldap/ldap/v3"
	"github.com/hashicorp/go-hclog"
	"github.com/jimlambrt/gldap/testdirectory"
)

func TestD11_SetUsersRacesWithSearchHandler(t *testing.T) {
	td := testdirectory.Start(t,
		testdirectory.WithNoTLS(t),
		testdirectory.WithLogger(t, hclog.New(&hclog.LoggerOptions{Level: hclog.Off})),
		testdirectory.WithDefaults(t, &testdirectory.Defaults{AllowAnonymousBind: true}),
	)
	usersA := testdirectory.NewUsers(t, []string{"alice", "bob"})
	usersB := testdirectory.NewUsers(t, []string{"alice", "bob", "eve"})
	td.SetUsers(usersA...)

	c := td.Conn()
	defer c.Close()
	c.SetTimeout(5 * time.Second)

	const iterations = 300
	var wg sync.WaitGroup
	wg.Add(2)
	go func() { // "test code" reconfiguring the directory
		defer wg.Done()
		for i := 0; i < iterations; i++ {
			if i%2 == 0 {
				td.SetUsers(usersB...)
			} else {
				td.SetUsers(usersA...)
			}
			time.Sleep(100 * time.Microsecond)
		}
	}()
	go func() { // a client searching users meanwhile
		defer wg.Done()
		for i := 0; i < iterations; i++ {
			_, err := c.Search(&ldap.SearchRequest{
				BaseDN: testdirectory.DefaultUserDN,
				Scope:  ldap.ScopeWholeSubtree,
				Filter: fmt.Sprintf("(%s=alice)", testdirectory.DefaultUserAttr),
			})
			if err != nil {
				t.Errorf("search: %v", err)
				return
			}
		}
	}()
	wg.Wait()
}
