// Demonstration D4 - mux.go serve: when no route matches and there is no
// default route, the fallback answer is built with req.NewResponse() without
// an application code, so it is always an ExtendedResponse (APPLICATION 24),
// whatever the request was. A SearchRequest must be answered with a
// SearchResultDone (APPLICATION 5); the go-ldap client can't make sense of
// the answer.
//
// Place in: repository root (package gldap_test)
// Command : go test -count=1 -run 'TestD4_' -timeout 60s .
// Observed on f883866:
//   d04_test.go:87: D4: answer to a SearchRequest has protocolOp APPLICATION 24, want 5 (SearchResultDone)
//   d04_test.go:101: D4: go-ldap client Search against the empty mux: result=&{[] [] []} err=LDAP Result Code 200 "Network Error": ldap: connection timed out (want LDAP result code 53 from a SearchResultDone)
//   --- FAIL: TestD4_NoRouteAnswerIsAlwaysExtendedResponse

package gldap_test

import (
	"bufio"
	"fmt"
	"net"
	"testing"
	"time"

	ber "github.com/go-asn1-ber/asn1-ber"
	"github.com/go-ldap/ldap/v3"
	"github.com/hashicorp/go-hclog"
	"github.com/jimlambrt/gldap"
)

func TestD4_NoRouteAnswerIsAlwaysExtendedResponse(t *testing.T) {
	s, err := gldap.NewServer(gldap.WithLogger(hclog.New(&hclog.LoggerOptions{Level: hclog.Off})))
	if err != nil {
		t.Fatal(err)
	}
	mux, _ := gldap.NewMux() // empty: no routes, no default route
	_ = s.Router(mux)

	l, err := net.Listen("tcp", "localhost:0")
	if err != nil {
		t.Fatal(err)
	}
	port := l.Addr().(*net.TCPAddr).Port
	l.Close()
	go func() { _ = s.Run(fmt.Sprintf("localhost:%d", port)) }()
	defer func() { go func() { _ = s.Stop() }() }()
	for i := 0; i < 500 && !s.Ready(); i++ {
		time.Sleep(10 * time.Millisecond)
	}

	// 1) raw client: look at the protocolOp tag of the answer
	nc, err := net.Dial("tcp", fmt.Sprintf("localhost:%d", port))
	if err != nil {
		t.Fatal(err)
	}
	defer nc.Close()
	_ = nc.SetDeadline(time.Now().Add(5 * time.Second))

	envelope := ber.Encode(ber.ClassUniversal, ber.TypeConstructed, ber.TagSequence, nil, "LDAP Request")
	envelope.AppendChild(ber.NewInteger(ber.ClassUniversal, ber.TypePrimitive, ber.TagInteger, int64(1), "MessageID"))
	search := ber.Encode(ber.ClassApplication, ber.TypeConstructed, ber.Tag(gldap.ApplicationSearchRequest), nil, "Search Request")
	search.AppendChild(ber.NewString(ber.ClassUniversal, ber.TypePrimitive, ber.TagOctetString, "dc=example,dc=org", "Base DN"))
	search.AppendChild(ber.NewInteger(ber.ClassUniversal, ber.TypePrimitive, ber.TagEnumerated, int64(2), "Scope"))
	search.AppendChild(ber.NewInteger(ber.ClassUniversal, ber.TypePrimitive, ber.TagEnumerated, int64(0), "Deref Aliases"))
	search.AppendChild(ber.NewInteger(ber.ClassUniversal, ber.TypePrimitive, ber.TagInteger, int64(0), "Size Limit"))
	search.AppendChild(ber.NewInteger(ber.ClassUniversal, ber.TypePrimitive, ber.TagInteger, int64(0), "Time Limit"))
	search.AppendChild(ber.NewBoolean(ber.ClassUniversal, ber.TypePrimitive, ber.TagBoolean, false, "Types Only"))
	filter, err := ldap.CompileFilter("(objectClass=*)")
	if err != nil {
		t.Fatal(err)
	}
	search.AppendChild(filter)
	search.AppendChild(ber.Encode(ber.ClassUniversal, ber.TypeConstructed, ber.TagSequence, nil, "Attributes"))
	envelope.AppendChild(search)
	if _, err := nc.Write(envelope.Bytes()); err != nil {
		t.Fatal(err)
	}
	resp, err := ber.ReadPacket(bufio.NewReader(nc))
	if err != nil {
		t.Fatalf("reading the answer: %v", err)
	}
	if len(resp.Children) < 2 {
		t.Fatalf("malformed answer: %d children", len(resp.Children))
	}
	op := resp.Children[1]
	t.Logf("answer: messageID=%v protocolOp class=%d tag=%d", resp.Children[0].Value, op.ClassType, op.Tag)
	if op.ClassType != ber.ClassApplication || int(op.Tag) != gldap.ApplicationSearchResultDone {
		t.Errorf("D4: answer to a SearchRequest has protocolOp APPLICATION %d, want %d (SearchResultDone)", op.Tag, gldap.ApplicationSearchResultDone)
	}

	// 2) real client: what does go-ldap make of it
	c, err := ldap.DialURL(fmt.Sprintf("ldap://localhost:%d", port))
	if err != nil {
		t.Fatal(err)
	}
	defer c.Close()
	c.SetTimeout(3 * time.Second)
	res, err := c.Search(&ldap.SearchRequest{BaseDN: "dc=example,dc=org", Scope: ldap.ScopeWholeSubtree, Filter: "(objectClass=*)"})
	// a proper SearchResultDone(unwillingToPerform) would give an *ldap.Error
	// with ResultCode 53
	if !ldap.IsErrorWithCode(err, ldap.LDAPResultUnwillingToPerform) {
		t.Errorf("D4: go-ldap client Search against the empty mux: result=%v err=%v (want LDAP result code 53 from a SearchResultDone)", res, err)
	}
}
