// Demonstration D6 - server.go Run accept loop: ANY Accept error other than
// "use of closed network connection" makes Run return, e.g. the transient
// EMFILE ("too many open files") a server gets when many clients connect at
// once. After that nobody accepts connections any more although nothing asked
// the server to stop (net/http and friends retry temporary accept errors with
// a back-off).
//
// The descriptor limit has to be lowered for the server only, so the test
// re-executes itself as a child process (env GLDAP_D6_CHILD=1). The child
// lowers RLIMIT_NOFILE to (descriptors in use + 6), runs the server with
// DEFAULT options and reports on stdout; the parent (normal limits) plays the
// clients: it opens 64 idle connections, closes all of them again (so the
// exhaustion was transient) and then checks whether the server still answers
// a request.
//
// Place in: repository root (package gldap_test); linux only (uses /proc/self/fd)
// Command : go test -count=1 -run 'TestD6_' -timeout 120s .
// Observed on f883866:
//   d06_test.go:191: child: RLIMIT_NOFILE lowered to 12 (6 in use)
//   d06_test.go:191: child: RUN-RETURNED err=gldap.(Server).Run: error accepting conn: accept tcp 127.0.0.1:32797: accept4: too many open files
//   d06_test.go:231: D6: a transient EMFILE made Server.Run return ("RUN-RETURNED err=gldap.(Server).Run: error accepting conn: accept tcp 127.0.0.1:32797: accept4: too many open files"); after the 64 clients went away, a new client gets no service: no answer: read tcp 127.0.0.1:54278->127.0.0.1:32797: i/o timeout
//   --- FAIL: TestD6_AcceptErrorStopsServer

package gldap_test

import (
	"bufio"
	"fmt"
	"io"
	"net"
	"os"
	"os/exec"
	"strings"
	"syscall"
	"testing"
	"time"

	ber "github.com/go-asn1-ber/asn1-ber"
	"github.com/go-ldap/ldap/v3"
	"github.com/hashicorp/go-hclog"
	"github.com/jimlambrt/gldap"
)

const d6ChildEnv = "GLDAP_D6_CHILD"

// d6Child runs in the child process: the server under a small descriptor
// limit. It talks to the parent via stdout and exits when stdin is closed.
func d6Child() {
	s, err := gldap.NewServer(gldap.WithLogger(hclog.New(&hclog.LoggerOptions{Level: hclog.Off})))
	if err != nil {
		fmt.Printf("CHILD-ERROR %v\n", err)
		return
	}
	mux, _ := gldap.NewMux() // empty mux: every request gets the "no matching handler" answer
	_ = s.Router(mux)
	l, err := net.Listen("tcp", "localhost:0")
	if err != nil {
		fmt.Printf("CHILD-ERROR %v\n", err)
		return
	}
	port := l.Addr().(*net.TCPAddr).Port
	l.Close()
	runDone := make(chan error, 1)
	go func() { runDone <- s.Run(fmt.Sprintf("localhost:%d", port)) }()
	for i := 0; i < 500 && !s.Ready(); i++ {
		time.Sleep(10 * time.Millisecond)
	}

	// lower the soft descriptor limit: in use + 6
	ents, err := os.ReadDir("/proc/self/fd")
	if err != nil {
		fmt.Printf("CHILD-ERROR %v\n", err)
		return
	}
	inUse := len(ents) - 1 // minus the descriptor ReadDir used itself
	var lim syscall.Rlimit
	if err := syscall.Getrlimit(syscall.RLIMIT_NOFILE, &lim); err != nil {
		fmt.Printf("CHILD-ERROR getrlimit %v\n", err)
		return
	}
	lim.Cur = uint64(inUse + 6)
	if err := syscall.Setrlimit(syscall.RLIMIT_NOFILE, &lim); err != nil {
		fmt.Printf("CHILD-ERROR setrlimit %v\n", err)
		return
	}
	fmt.Printf("INFO RLIMIT_NOFILE lowered to %d (%d in use)\n", lim.Cur, inUse)
	fmt.Printf("PORT %d\n", port)

	stdinClosed := make(chan struct{})
	go func() { _, _ = io.Copy(io.Discard, os.Stdin); close(stdinClosed) }()

	select {
	case err := <-runDone:
		fmt.Printf("RUN-RETURNED err=%v\n", err)
		<-stdinClosed
	case <-stdinClosed:
		fmt.Printf("RUN-STILL-RUNNING\n")
	case <-time.After(60 * time.Second):
		fmt.Printf("CHILD-TIMEOUT\n")
	}
}

// d6Probe sends one search request and waits for any answer
func d6Probe(port int) error {
	nc, err := net.DialTimeout("tcp", fmt.Sprintf("localhost:%d", port), 3*time.Second)
	if err != nil {
		return err
	}
	defer nc.Close()
	_ = nc.SetDeadline(time.Now().Add(3 * time.Second))
	envelope := ber.Encode(ber.ClassUniversal, ber.TypeConstructed, ber.TagSequence, nil, "LDAP Request")
	envelope.AppendChild(ber.NewInteger(ber.ClassUniversal, ber.TypePrimitive, ber.TagInteger, int64(1), "MessageID"))
	search := ber.Encode(ber.ClassApplication, ber.TypeConstructed, ber.Tag(gldap.ApplicationSearchRequest), nil, "Search Request")
	search.AppendChild(ber.NewString(ber.ClassUniversal, ber.TypePrimitive, ber.TagOctetString, "dc=example,dc=org", "Base DN"))
	search.AppendChild(ber.NewInteger(ber.ClassUniversal, ber.TypePrimitive, ber.TagEnumerated, int64(2), "Scope"))
	search.AppendChild(ber.NewInteger(ber.ClassUniversal, ber.TypePrimitive, ber.TagEnumerated, int64(0), "Deref Aliases"))
	search.AppendChild(ber.NewInteger(ber.ClassUniversal, ber.TypePrimitive, ber.TagInteger, int64(0), "Size Limit"))
	search.AppendChild(ber.NewInteger(ber.ClassUniversal, ber.TypePrimitive, ber.TagInteger, int64(0), "Time Limit"))
	search.AppendChild(ber.NewBoolean(ber.ClassUniversal, ber.TypePrimitive, ber.TagBoolean, false, "Types Only"))
	filter, err := ldap.CompileFilter("(objectClass=*)")
	if err != nil {
		return err
	}
	search.AppendChild(filter)
	search.AppendChild(ber.Encode(ber.ClassUniversal, ber.TypeConstructed, ber.TagSequence, nil, "Attributes"))
	envelope.AppendChild(search)
	if _, err := nc.Write(envelope.Bytes()); err != nil {
		return err
	}
	if _, err := ber.ReadPacket(bufio.NewReader(nc)); err != nil {
		return fmt.Errorf("no answer: %w", err)
	}
	return nil
}

func TestD6_AcceptErrorStopsServer(t *testing.T) {
	if os.Getenv(d6ChildEnv) == "1" {
		d6Child()
		return
	}

	cmd := exec.Command(os.Args[0], "-test.run=^TestD6_AcceptErrorStopsServer$", "-test.count=1", "-test.timeout=90s")
	cmd.Env = append(os.Environ(), d6ChildEnv+"=1")
	stdin, err := cmd.StdinPipe()
	if err != nil {
		t.Fatal(err)
	}
	stdout, err := cmd.StdoutPipe()
	if err != nil {
		t.Fatal(err)
	}
	cmd.Stderr = cmd.Stdout
	if err := cmd.Start(); err != nil {
		t.Fatal(err)
	}
	lines := make(chan string, 100)
	go func() {
		sc := bufio.NewScanner(stdout)
		for sc.Scan() {
			lines <- sc.Text()
		}
		close(lines)
	}()
	defer func() {
		_ = stdin.Close()
		done := make(chan struct{})
		go func() { _ = cmd.Wait(); close(done) }()
		select {
		case <-done:
		case <-time.After(10 * time.Second):
			_ = cmd.Process.Kill()
		}
	}()

	// wait for the child's port
	var (
		port        int
		runReturned string
	)
	// next reads the child's output until a line with the given prefix shows
	// up (returns "" on timeout / EOF); it records RUN-RETURNED on the way.
	next := func(prefix string, d time.Duration) string {
		deadline := time.After(d)
		for {
			select {
			case line, ok := <-lines:
				if !ok {
					return ""
				}
				if strings.HasPrefix(line, "INFO ") || strings.HasPrefix(line, "RUN-") || strings.HasPrefix(line, "CHILD-") {
					t.Logf("child: %s", strings.TrimPrefix(line, "INFO "))
				}
				if strings.HasPrefix(line, "RUN-RETURNED") {
					runReturned = line
				}
				if strings.HasPrefix(line, prefix) {
					return line
				}
			case <-deadline:
				return ""
			}
		}
	}
	if l := next("PORT ", 20*time.Second); l == "" {
		t.Fatal("child never reported its port")
	} else if _, err := fmt.Sscanf(l, "PORT %d", &port); err != nil {
		t.Fatal(err)
	}
	if err := d6Probe(port); err != nil {
		t.Fatalf("server doesn't answer before the experiment: %v", err)
	}

	// a burst of 64 idle clients: more than the child's descriptor limit
	var conns []net.Conn
	for i := 0; i < 64; i++ {
		c, err := net.DialTimeout("tcp", fmt.Sprintf("localhost:%d", port), 2*time.Second)
		if err != nil {
			break // backlog full, good enough
		}
		conns = append(conns, c)
	}
	next("RUN-RETURNED", 3*time.Second) // give the child time to hit EMFILE
	// the burst is over: every client goes away, descriptors are free again
	for _, c := range conns {
		_ = c.Close()
	}
	time.Sleep(500 * time.Millisecond)

	probeErr := d6Probe(port)
	if runReturned != "" || probeErr != nil {
		t.Fatalf("D6: a transient EMFILE made Server.Run return (%q); after the %d clients went away, a new client gets no service: %v", runReturned, len(conns), probeErr)
	}
	t.Logf("server survived the descriptor exhaustion and still answers")
}
