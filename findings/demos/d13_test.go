// Demonstration D13 - request.go NewModifyResponse() without options
// dereferences a nil *int (opts.withResponseCode) and panics, although every
// sibling constructor (NewResponse, NewBindResponse, NewSearchDoneResponse,
// NewExtendedResponse ...) accepts being called without options.
//
// Place in: repository root (package gldap_test)
// Command : go test -count=1 -run 'TestD13_' -timeout 60s .
// Observed on f883866:
//   d13_test.go:75: D13: r.NewModifyResponse() (no options) panicked inside the Modify handler: runtime error: invalid memory address or nil pointer dereference
//   --- FAIL: TestD13_NewModifyResponseWithoutOptionsPanics

package gldap_test

import (
	"fmt"
	"net"
	"testing"
	"time"

	"github.com/go-ldap/ldap/v3"
	"github.com/hashicorp/go-hclog"
	"github.com/jimlambrt/gldap"
)

func TestD13_NewModifyResponseWithoutOptionsPanics(t *testing.T) {
	type outcome struct {
		panicked interface{}
		resp     *gldap.ModifyResponse
	}
	got := make(chan outcome, 1)

	s, err := gldap.NewServer(gldap.WithLogger(hclog.New(&hclog.LoggerOptions{Level: hclog.Off})))
	if err != nil {
		t.Fatal(err)
	}
	mux, _ := gldap.NewMux()
	_ = mux.Modify(func(w *gldap.ResponseWriter, r *gldap.Request) {
		var o outcome
		func() {
			defer func() { o.panicked = recover() }()
			o.resp = r.NewModifyResponse() // <- no options
		}()
		// always answer the client, so the test doesn't depend on the outcome
		_ = w.Write(r.NewModifyResponse(gldap.WithResponseCode(gldap.ResultSuccess)))
		got <- o
	})
	_ = s.Router(mux)

	l, err := net.Listen("tcp", "localhost:0")
	if err != nil {
		t.Fatal(err)
	}
	port := l.Addr().(*net.TCPAddr).Port
	l.Close()
	go func() { _ = s.Run(fmt.Sprintf("localhost:%d", port)) }()
	defer func() { go func() { _ = s.Stop() }() }()
	for i := 0; i < 500 && !s.Ready(); i++ {
		time.Sleep(10 * time.Millisecond)
	}

	c, err := ldap.DialURL(fmt.Sprintf("ldap://localhost:%d", port))
	if err != nil {
		t.Fatal(err)
	}
	defer c.Close()
	c.SetTimeout(5 * time.Second)
	mr := ldap.NewModifyRequest("cn=alice,ou=people,dc=example,dc=org", nil)
	mr.Replace("description", []string{"a"})
	if err := c.Modify(mr); err != nil {
		t.Fatalf("modify: %v", err)
	}
	select {
	case o := <-got:
		if o.panicked != nil {
			t.Fatalf("D13: r.NewModifyResponse() (no options) panicked inside the Modify handler: %v", o.panicked)
		}
		if o.resp == nil {
			t.Fatal("nil response")
		}
	case <-time.After(5 * time.Second):
		t.Fatal("handler was never called")
	}
}
