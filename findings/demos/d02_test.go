// Demonstration D2 - packet.go requestPacket: a BindRequest carrying LDAP
// version 2 makes the decoder panic (requestPacket.Value.(int64) on a nil
// interface while formatting the error) instead of returning an error.
//
// Place in: repository root (package gldap, in-package test: newMessage is unexported)
// Command : go test -count=1 -run 'TestD2_' -timeout 60s .
// Observed on f883866:
//   d02_test.go:46: D2: newMessage panicked on an LDAPv2 bind instead of returning an error: interface conversion: interface {} is nil, not int64
//   --- FAIL: TestD2_BindVersion2PanicsDecoder

package gldap

import (
	"testing"

	ber "github.com/go-asn1-ber/asn1-ber"
)

func TestD2_BindVersion2PanicsDecoder(t *testing.T) {
	// LDAPMessage ::= SEQUENCE { messageID 1, bindRequest [APPLICATION 0] { version 2, name "cn", simple [0] "pw" } }
	envelope := ber.Encode(ber.ClassUniversal, ber.TypeConstructed, ber.TagSequence, nil, "LDAP Request")
	envelope.AppendChild(ber.NewInteger(ber.ClassUniversal, ber.TypePrimitive, ber.TagInteger, int64(1), "MessageID"))
	bind := ber.Encode(ber.ClassApplication, ber.TypeConstructed, ber.Tag(ApplicationBindRequest), nil, "Bind Request")
	bind.AppendChild(ber.NewInteger(ber.ClassUniversal, ber.TypePrimitive, ber.TagInteger, int64(2), "Version"))
	bind.AppendChild(ber.NewString(ber.ClassUniversal, ber.TypePrimitive, ber.TagOctetString, "cn", "User Name"))
	bind.AppendChild(ber.NewString(ber.ClassContext, ber.TypePrimitive, 0, "pw", "Password"))
	envelope.AppendChild(bind)

	// go through the wire encoding, exactly as conn.readPacket would see it
	p, err := ber.DecodePacketErr(envelope.Bytes())
	if err != nil {
		t.Fatalf("unable to decode hand built packet: %v", err)
	}

	var (
		msg      Message
		msgErr   error
		panicked interface{}
	)
	func() {
		defer func() { panicked = recover() }()
		msg, msgErr = newMessage(&packet{Packet: p})
	}()

	if panicked != nil {
		t.Fatalf("D2: newMessage panicked on an LDAPv2 bind instead of returning an error: %v", panicked)
	}
	if msgErr == nil {
		t.Fatalf("expected an error for LDAPv2 bind, got message %#v", msg)
	}
	t.Logf("got the expected error: %v", msgErr)
}
