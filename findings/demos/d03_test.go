// Demonstration D3 - control.go decodeControl panics on malformed controls
// (unchecked type assertions and unchecked child indexes) instead of returning
// an error. decodeControl is reached from every request decoder
// (bind/search/modify/add/delete), i.e. with client supplied bytes.
//
// Place in: repository root (package gldap, in-package test: decodeControl is unexported)
// Command : go test -count=1 -run 'TestD3_' -timeout 60s .
// Observed on f883866:
//   --- FAIL: TestD3_DecodeControlPanicsOnMalformedControl
//       --- FAIL: .../control-type-is-an-integer
//           d03_test.go:86: D3: decodeControl panicked instead of returning an error: interface conversion: interface {} is int64, not string
//       --- FAIL: .../criticality-is-not-a-boolean
//           d03_test.go:86: D3: decodeControl panicked instead of returning an error: interface conversion: interface {} is string, not bool
//       --- FAIL: .../paging-value-sequence-with-one-child
//           d03_test.go:86: D3: decodeControl panicked instead of returning an error: runtime error: index out of range [1] with length 1
//       --- FAIL: .../paging-value-is-not-a-sequence
//           d03_test.go:86: D3: decodeControl panicked instead of returning an error: runtime error: index out of range [0] with length 0

package gldap

import (
	"testing"

	ber "github.com/go-asn1-ber/asn1-ber"
)

func TestD3_DecodeControlPanicsOnMalformedControl(t *testing.T) {
	seq := func(children ...*ber.Packet) *ber.Packet {
		s := ber.Encode(ber.ClassUniversal, ber.TypeConstructed, ber.TagSequence, nil, "Control")
		for _, c := range children {
			s.AppendChild(c)
		}
		return s
	}
	octet := func(v string) *ber.Packet {
		return ber.NewString(ber.ClassUniversal, ber.TypePrimitive, ber.TagOctetString, v, "")
	}
	integer := func(v int64) *ber.Packet {
		return ber.NewInteger(ber.ClassUniversal, ber.TypePrimitive, ber.TagInteger, v, "")
	}

	tests := []struct {
		name    string
		control *ber.Packet
	}{
		{
			// controlType must be an OCTET STRING, here it is an INTEGER
			name:    "control-type-is-an-integer",
			control: seq(integer(7)),
		},
		{
			// 3 children: type, criticality (must be BOOLEAN, here OCTET STRING), value
			name:    "criticality-is-not-a-boolean",
			control: seq(octet(ControlTypeManageDsaIT), octet("x"), octet("y")),
		},
		{
			// paging control whose value is SEQUENCE{ INTEGER 1 } (the cookie is missing)
			name:    "paging-value-sequence-with-one-child",
			control: seq(octet(ControlTypePaging), octet(string(seq(integer(1)).Bytes()))),
		},
		{
			// paging control whose value is a bare INTEGER and not a SEQUENCE
			name:    "paging-value-is-not-a-sequence",
			control: seq(octet(ControlTypePaging), octet(string(integer(1).Bytes()))),
		},
	}
	for _, tc := range tests {
		tc := tc
		t.Run(tc.name, func(t *testing.T) {
			// go through the wire encoding, exactly as a request read from a
			// client connection would be presented to decodeControl
			p, err := ber.DecodePacketErr(tc.control.Bytes())
			if err != nil {
				t.Fatalf("unable to decode hand built control: %v", err)
			}
			var (
				ctrl     Control
				ctrlErr  error
				panicked interface{}
			)
			func() {
				defer func() { panicked = recover() }()
				ctrl, ctrlErr = decodeControl(p)
			}()
			if panicked != nil {
				t.Fatalf("D3: decodeControl panicked instead of returning an error: %v", panicked)
			}
			if ctrlErr == nil {
				t.Fatalf("expected an error for a malformed control, got %#v", ctrl)
			}
			t.Logf("got the expected error: %v", ctrlErr)
		})
	}
}
