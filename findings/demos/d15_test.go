// Demonstration D15 - testdirectory handleModify, ReplaceAttribute case: the
// new attribute is assigned to the local variable foundAttr only
// (foundAttr = gldap.NewEntryAttribute(...)), the entry is never updated. The
// Modify is answered with success, but the directory still returns the old
// value.
//
// Place in: testdirectory/ (package testdirectory_test)
// Command : go test -count=1 -run 'TestD15_' -timeout 60s ./testdirectory
// Observed on f883866:
//   d15_test.go:63: D15: Modify(replace email) returned success but a later search still returns email=["alice@example.com"], want a value containing "new@example.org"
//   --- FAIL: TestD15_ReplaceIsSilentlyIgnored

package testdirectory_test

import (
	"fmt"
	"strings"
	"testing"
	"time"

	"github.com/go-ldap/ldap/v3"
	"github.com/hashicorp/go-hclog"
	"github.com/jimlambrt/gldap/testdirectory"
)

func TestD15_ReplaceIsSilentlyIgnored(t *testing.T) {
	td := testdirectory.Start(t,
		testdirectory.WithNoTLS(t),
		testdirectory.WithLogger(t, hclog.New(&hclog.LoggerOptions{Level: hclog.Off})),
		testdirectory.WithDefaults(t, &testdirectory.Defaults{AllowAnonymousBind: true}),
	)
	users := testdirectory.NewUsers(t, []string{"alice", "bob"})
	td.SetUsers(users...)
	aliceDN := users[0].DN

	c := td.Conn()
	defer c.Close()
	c.SetTimeout(5 * time.Second)

	const newEmail = "new@example.org"
	mr := ldap.NewModifyRequest(aliceDN, nil)
	mr.Replace("email", []string{newEmail})
	if err := c.Modify(mr); err != nil {
		t.Fatalf("modify failed: %v", err)
	}
	t.Logf("Modify(replace email=%q) on %q returned success", newEmail, aliceDN)

	res, err := c.Search(&ldap.SearchRequest{
		BaseDN: aliceDN,
		Scope:  ldap.ScopeWholeSubtree,
		Filter: fmt.Sprintf("(%s)", aliceDN),
	})
	if err != nil {
		t.Fatalf("search failed: %v", err)
	}
	if len(res.Entries) != 1 {
		t.Fatalf("expected 1 entry, got %d", len(res.Entries))
	}
	got := res.Entries[0].GetAttributeValues("email")
	// tolerant comparison: the modify decoder of f883866 hands BER encoded
	// values to the handler (see D1), so only look for the new address
	if len(got) != 1 || !strings.Contains(got[0], newEmail) {
		t.Fatalf("D15: Modify(replace email) returned success but a later search still returns email=%q, want a value containing %q", got, newEmail)
	}
}
