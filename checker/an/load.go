// Package an holds the analysis substrate shared by all rules: loading the
// repository under analysis, SSA construction, function lookup, value
// resolution, access paths, instruction-level path queries and call graphs.
package an

import (
	"fmt"
	"go/token"
	"go/types"
	"os"
	"sort"
	"strings"

	"golang.org/x/tools/go/packages"
	"golang.org/x/tools/go/ssa"
	"golang.org/x/tools/go/ssa/ssautil"
)

const (
	ModPath  = "github.com/jimlambrt/gldap"
	PkgGldap = ModPath
	PkgTD    = ModPath + "/testdirectory"
	PkgBer   = "github.com/go-asn1-ber/asn1-ber"
	PkgLdap  = "github.com/go-ldap/ldap/v3"
)

// Prog is the loaded, type-checked and SSA-built program.
type Prog struct {
	Dir   string
	Pkgs  []*packages.Package // root packages (module packages)
	All   map[string]*packages.Package
	SSA   *ssa.Program
	Fset  *token.FileSet
	funcs map[string]*ssa.Function // "pkgpath.(*T).m" / "pkgpath.f" / "pkgpath.f$1"
	byPkg map[string][]*ssa.Function
}

// Load loads ./... of dir. Overlay may be nil. goarch may be "".
func Load(dir string, tests bool, goarch string, overlay map[string][]byte) (*Prog, error) {
	env := append(os.Environ(), "GOFLAGS=-mod=mod", "GOPROXY=off", "GOSUMDB=off", "GOTOOLCHAIN=local", "GOWORK=off")
	if goarch != "" {
		env = append(env, "GOARCH="+goarch)
	}
	cfg := &packages.Config{
		Mode:    packages.LoadAllSyntax,
		Dir:     dir,
		Tests:   tests,
		Env:     env,
		Overlay: overlay,
	}
	pkgs, err := packages.Load(cfg, "./...")
	if err != nil {
		return nil, fmt.Errorf("packages.Load: %w", err)
	}
	if len(pkgs) == 0 {
		return nil, fmt.Errorf("no packages loaded from %s", dir)
	}
	var errs []string
	all := map[string]*packages.Package{}
	packages.Visit(pkgs, nil, func(p *packages.Package) {
		all[p.PkgPath] = p
		if strings.HasPrefix(p.PkgPath, ModPath) {
			for _, e := range p.Errors {
				errs = append(errs, e.Error())
			}
		}
	})
	if len(errs) > 0 {
		return nil, fmt.Errorf("type/parse errors in module packages: %s", strings.Join(errs, "; "))
	}
	prog, _ := ssautil.AllPackages(pkgs, ssa.InstantiateGenerics)
	prog.Build()
	p := &Prog{Dir: dir, Pkgs: pkgs, All: all, SSA: prog, Fset: prog.Fset,
		funcs: map[string]*ssa.Function{}, byPkg: map[string][]*ssa.Function{}}
	for fn := range ssautil.AllFunctions(prog) {
		if fn.Pkg == nil && fn.Parent() == nil {
			// wrappers / synthetic without package
			if fn.Synthetic != "" {
				continue
			}
		}
		key := FuncKey(fn)
		if key == "" {
			continue
		}
		if _, dup := p.funcs[key]; !dup {
			p.funcs[key] = fn
		}
		pp := FuncPkgPath(fn)
		p.byPkg[pp] = append(p.byPkg[pp], fn)
	}
	// unique-caller argument map for unexported module functions
	UniqueCallerArg = map[*ssa.Parameter]ssa.Value{}
	sites := map[*ssa.Function][]ssa.CallInstruction{}
	for key, fn := range p.funcs {
		if !strings.HasPrefix(key, ModPath) || len(fn.Blocks) == 0 {
			continue
		}
		if strings.HasSuffix(p.Fset.Position(fn.Pos()).Filename, "_test.go") {
			continue
		}
		for _, b := range fn.Blocks {
			for _, in := range b.Instrs {
				if ci, ok := in.(ssa.CallInstruction); ok {
					if callee := ci.Common().StaticCallee(); callee != nil && InModule(callee) {
						sites[callee] = append(sites[callee], ci)
					}
				}
			}
		}
	}
	for callee, cs := range sites {
		if len(cs) != 1 {
			continue
		}
		if callee.Parent() != nil {
			// a function literal: unique only if the literal is used nowhere but in this call
			mc, ok := cs[0].Common().Value.(*ssa.MakeClosure)
			if !ok || mc.Referrers() == nil {
				continue
			}
			n := 0
			for _, r := range *mc.Referrers() {
				if _, dbg := r.(*ssa.DebugRef); !dbg {
					n++
				}
			}
			if n != 1 {
				continue
			}
		} else if callee.Object() == nil || callee.Object().Exported() {
			continue
		}
		args := cs[0].Common().Args
		for i, prm := range callee.Params {
			if i < len(args) {
				UniqueCallerArg[prm] = args[i]
			}
		}
	}
	for k := range p.byPkg {
		fs := p.byPkg[k]
		sort.Slice(fs, func(i, j int) bool { return FuncKey(fs[i]) < FuncKey(fs[j]) })
	}
	Current = p
	return p, nil
}

// FuncPkgPath returns the package path a function belongs to (following
// closures to their parents).
func FuncPkgPath(fn *ssa.Function) string {
	for fn.Parent() != nil {
		fn = fn.Parent()
	}
	if fn.Pkg != nil {
		return fn.Pkg.Pkg.Path()
	}
	if o := fn.Object(); o != nil && o.Pkg() != nil {
		return o.Pkg().Path()
	}
	return ""
}

// FuncKey is a stable identifier: "<pkgpath>.<name>" where name is
// "f", "(*T).m", "(T).m", "f$1" ...
func FuncKey(fn *ssa.Function) string {
	if fn.Synthetic != "" && fn.Parent() == nil && fn.Object() == nil {
		return ""
	}
	pp := FuncPkgPath(fn)
	return pp + "." + ShortName(fn)
}

// ShortName is the function name without package qualification:
// "(*conn).serveRequests", "newConn", "(*Server).Run$1$2".
func ShortName(fn *ssa.Function) string {
	if fn.Parent() != nil {
		// anonymous: Name() is like "Run$1"; build from root
		root := fn
		for root.Parent() != nil {
			root = root.Parent()
		}
		suffix := strings.TrimPrefix(fn.Name(), root.Name())
		return ShortName(root) + suffix
	}
	if recv := fn.Signature.Recv(); recv != nil {
		t := recv.Type()
		star := ""
		if pt, ok := t.(*types.Pointer); ok {
			star = "*"
			t = pt.Elem()
		}
		if nt, ok := t.(*types.Named); ok {
			return "(" + star + nt.Obj().Name() + ")." + fn.Name()
		}
		return "(" + star + t.String() + ")." + fn.Name()
	}
	return fn.Name()
}

// Func finds a function by package path and short name; nil if absent.
func (p *Prog) Func(pkg, name string) *ssa.Function {
	return p.funcs[pkg+"."+name]
}

// MustFunc is Func, recording an unresolved anchor when missing.
func (p *Prog) MustFunc(pkg, name string) (*ssa.Function, error) {
	if f := p.Func(pkg, name); f != nil && len(f.Blocks) > 0 {
		return f, nil
	}
	return nil, fmt.Errorf("anchor %s.%s does not resolve to a function with a body", pkg, name)
}

// FuncsOf lists all functions (incl. methods and closures) of a package.
func (p *Prog) FuncsOf(pkg string) []*ssa.Function { return p.byPkg[pkg] }

// ModuleFuncs lists functions of gldap and testdirectory (and examples).
func (p *Prog) ModuleFuncs() []*ssa.Function {
	var out []*ssa.Function
	var keys []string
	for k := range p.byPkg {
		if strings.HasPrefix(k, ModPath) {
			keys = append(keys, k)
		}
	}
	sort.Strings(keys)
	for _, k := range keys {
		out = append(out, p.byPkg[k]...)
	}
	return out
}

// InModule reports whether fn belongs to the module under analysis.
func InModule(fn *ssa.Function) bool {
	return fn != nil && strings.HasPrefix(FuncPkgPath(fn), ModPath)
}

// IsTestFile reports whether the position is in a _test.go file.
func (p *Prog) IsTestFile(pos token.Pos) bool {
	if !pos.IsValid() {
		return false
	}
	return strings.HasSuffix(p.Fset.Position(pos).Filename, "_test.go")
}

// Pos renders a position relative to the repo dir.
func (p *Prog) Pos(pos token.Pos) string {
	if !pos.IsValid() {
		return "-"
	}
	ps := p.Fset.Position(pos)
	f := strings.TrimPrefix(ps.Filename, p.Dir+"/")
	return fmt.Sprintf("%s:%d", f, ps.Line)
}

// InstrPos renders the best-known position of an instruction.
func (p *Prog) InstrPos(i ssa.Instruction) string {
	if i == nil {
		return "-"
	}
	if i.Pos().IsValid() {
		return p.Pos(i.Pos())
	}
	// fall back: nearest instruction in the block with a position
	b := i.Block()
	if b != nil {
		idx := -1
		for k, x := range b.Instrs {
			if x == i {
				idx = k
			}
		}
		for d := 1; d < len(b.Instrs); d++ {
			for _, k := range []int{idx - d, idx + d} {
				if k >= 0 && k < len(b.Instrs) && b.Instrs[k].Pos().IsValid() {
					return p.Pos(b.Instrs[k].Pos()) + "~"
				}
			}
		}
		if fn := b.Parent(); fn != nil {
			return p.Pos(fn.Pos()) + "~"
		}
	}
	return "-"
}

// NamedType looks up a named type in a package.
func (p *Prog) NamedType(pkg, name string) *types.Named {
	pp := p.All[pkg]
	if pp == nil || pp.Types == nil {
		return nil
	}
	o := pp.Types.Scope().Lookup(name)
	if o == nil {
		return nil
	}
	nt, _ := o.Type().(*types.Named)
	return nt
}

// ConstVal returns the exact constant value of a package-level constant as
// int64 (ok=false if absent or not an integer).
func (p *Prog) ConstInt(pkg, name string) (int64, bool) {
	pp := p.All[pkg]
	if pp == nil || pp.Types == nil {
		return 0, false
	}
	c, ok := pp.Types.Scope().Lookup(name).(*types.Const)
	if !ok {
		return 0, false
	}
	return constInt(c.Val())
}

// ConstStr returns the value of a package-level string constant.
func (p *Prog) ConstStr(pkg, name string) (string, bool) {
	pp := p.All[pkg]
	if pp == nil || pp.Types == nil {
		return "", false
	}
	c, ok := pp.Types.Scope().Lookup(name).(*types.Const)
	if !ok {
		return "", false
	}
	return constStr(c.Val())
}

// UniqueCallerArg maps a parameter of an unexported module function that has
// exactly one (non-test) call site to the argument passed there.
var UniqueCallerArg = map[*ssa.Parameter]ssa.Value{}

// StripX is Strip that additionally follows parameters of unexported
// functions with a single call site to the caller's argument (so that an
// extracted helper method is seen through).
func StripX(v ssa.Value) ssa.Value {
	for i := 0; i < 16; i++ {
		v = Strip(v)
		p, ok := v.(*ssa.Parameter)
		if !ok {
			return v
		}
		a, ok := UniqueCallerArg[p]
		if !ok {
			return v
		}
		v = a
	}
	return v
}
