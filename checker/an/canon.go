package an

import (
	"fmt"
	"go/token"
	"go/types"
	"sort"
	"strings"

	"golang.org/x/tools/go/ssa"
)

// TrivialGetter: fn is `func (r T) m() X { return r.f1.f2 }`; returns the
// field chain.
func TrivialGetter(fn *ssa.Function) ([]string, bool) {
	if fn == nil || len(fn.Blocks) != 1 || len(fn.Params) != 1 {
		return nil, false
	}
	rets := Returns(fn)
	if len(rets) != 1 || len(rets[0].Results) != 1 {
		return nil, false
	}
	root, names := FieldChain(rets[0].Results[0])
	if Strip(root) != ssa.Value(fn.Params[0]) || len(names) == 0 {
		return nil, false
	}
	for _, in := range fn.Blocks[0].Instrs {
		switch in.(type) {
		case *ssa.FieldAddr, *ssa.UnOp, *ssa.Field, *ssa.Return, *ssa.DebugRef:
		default:
			return nil, false
		}
	}
	return names, true
}

// Canon renders a value as a canonical expression: parameters of the
// enclosing top-level function become $0,$1,...; trivial getters are inlined;
// embedded-pointer hops keep their field names. Used for atom keys.
func Canon(v ssa.Value) string { return canon(v, 0) }

// paramIndex: parameters of top-level functions are $0,$1,...; parameters of
// an anonymous function are $$0,$$1,... (so that a closure's own parameters
// and the captured parameters of its parent do not collide).
func paramIndex(p *ssa.Parameter) string {
	fn := p.Parent()
	pre := "$"
	if fn.Parent() != nil {
		pre = "$$"
	}
	for i, q := range fn.Params {
		if q == p {
			return fmt.Sprintf("%s%d", pre, i)
		}
	}
	return p.Name()
}

func canon(v ssa.Value, d int) string {
	if d > 40 {
		return "?"
	}
	v = Strip(v)
	switch x := v.(type) {
	case *ssa.Parameter:
		return paramIndex(x)
	case *ssa.Const:
		if x.Value == nil {
			return "nil"
		}
		return x.Value.ExactString()
	case *ssa.Global:
		return x.Pkg.Pkg.Name() + "." + x.Name()
	case *ssa.UnOp:
		switch x.Op {
		case token.MUL:
			return canonAddr(x.X, d+1)
		case token.NOT:
			return "!" + canon(x.X, d+1)
		case token.SUB:
			return "-" + canon(x.X, d+1)
		}
	case *ssa.Field:
		return canon(x.X, d+1) + "." + FieldValName(x)
	case *ssa.FieldAddr:
		return "&" + canonAddr(x, d+1)
	case *ssa.Extract:
		return fmt.Sprintf("%s#%d", canon(x.Tuple, d+1), x.Index)
	case *ssa.TypeAssert:
		return "assert(" + canon(x.X, d+1) + "," + types.TypeString(x.AssertedType, shortQual) + ")"
	case *ssa.Convert:
		return "conv<" + types.TypeString(x.Type(), shortQual) + ">(" + canon(x.X, d+1) + ")"
	case *ssa.Index:
		return canon(x.X, d+1) + "[" + canon(x.Index, d+1) + "]"
	case *ssa.Lookup:
		return canon(x.X, d+1) + "[" + canon(x.Index, d+1) + "]"
	case *ssa.Slice:
		return canon(x.X, d+1) + "[:]"
	case *ssa.BinOp:
		a, b := canon(x.X, d+1), canon(x.Y, d+1)
		op := x.Op
		if op == token.EQL || op == token.NEQ || op == token.ADD || op == token.MUL || op == token.AND || op == token.OR {
			if b < a {
				a, b = b, a
			}
		}
		return op.String() + "(" + a + "," + b + ")"
	case *ssa.Call:
		cc := x.Common()
		if b, ok := cc.Value.(*ssa.Builtin); ok {
			var as []string
			for _, a := range cc.Args {
				as = append(as, canon(a, d+1))
			}
			return b.Name() + "(" + strings.Join(as, ",") + ")"
		}
		if f := StaticCallee(cc); f != nil {
			if names, ok := TrivialGetter(f); ok && len(cc.Args) == 1 {
				return canon(cc.Args[0], d+1) + "." + strings.Join(names, ".")
			}
			var as []string
			for _, a := range cc.Args {
				as = append(as, canon(a, d+1))
			}
			name := ShortName(f)
			if p := FuncPkgPath(f); !strings.HasPrefix(p, ModPath) {
				name = p + "." + name
			}
			if name == "strings.EqualFold" {
				sort.Strings(as)
			}
			return name + "(" + strings.Join(as, ",") + ")"
		}
		if cc.IsInvoke() {
			var as []string
			for _, a := range cc.Args {
				as = append(as, canon(a, d+1))
			}
			return canon(cc.Value, d+1) + "." + cc.Method.Name() + "(" + strings.Join(as, ",") + ")"
		}
		return "dyncall(" + canon(cc.Value, d+1) + ")"
	case *ssa.Phi:
		return "phi:" + x.Name()
	case *ssa.Alloc:
		return "alloc:" + x.Name()
	case *ssa.IndexAddr:
		return "&" + canonAddr(x, d+1)
	case *ssa.Next:
		return "next(" + canon(x.Iter, d+1) + ")"
	case *ssa.Range:
		return "range(" + canon(x.X, d+1) + ")"
	}
	return "%" + v.Name()
}

func canonAddr(a ssa.Value, d int) string {
	switch x := a.(type) {
	case *ssa.FieldAddr:
		if al, ok := cellRoot(x.X).(*ssa.Alloc); ok {
			if sv, ok := localFieldStore(al, x.Field); ok {
				return canon(sv, d+1)
			}
			return "alloc:" + al.Name() + "." + FieldAddrName(x)
		}
		switch x.X.(type) {
		case *ssa.FieldAddr, *ssa.IndexAddr:
			// field of an addressable struct value (no pointer hop)
			return canonAddr(x.X, d+1) + "." + FieldAddrName(x)
		}
		return canon(x.X, d+1) + "." + FieldAddrName(x)
	case *ssa.IndexAddr:
		idx := canon(x.Index, d+1)
		if isRangeIdx(x.Index) {
			idx = "*"
		}
		switch x.X.(type) {
		case *ssa.FieldAddr, *ssa.IndexAddr:
			return canonAddr(x.X, d+1) + "[" + idx + "]"
		}
		return canon(x.X, d+1) + "[" + idx + "]"
	case *ssa.Global:
		return x.Pkg.Pkg.Name() + "." + x.Name()
	case *ssa.FreeVar:
		if b := FreeVarBinding(x); b != nil {
			return canonAddr(b, d+1)
		}
		return "freevar:" + x.Name()
	case *ssa.Alloc:
		// variable cell: resolved by Strip when single-assignment
		return "alloc:" + x.Name()
	}
	return canon(a, d+1) + ".*"
}

func isRangeIdx(v ssa.Value) bool {
	if p, ok := v.(*ssa.Phi); ok {
		return classicIndexPhi(p) != nil
	}
	x, ok := v.(*ssa.BinOp)
	if !ok || x.Op != token.ADD {
		return false
	}
	phi, ok := x.X.(*ssa.Phi)
	if !ok {
		return false
	}
	for _, e := range phi.Edges {
		if k, ok := IntConst(e); ok && k == -1 {
			return true
		}
	}
	return false
}

// classicIndexPhi recognises the index variable of `for i := 0; i < len(s); i++`:
// a phi(0, phi+1) whose block ends in `if phi < len(s)`, the increment being the
// variable's only other definition. Such a loop visits every element of s in
// order, like `for i := range s`. Returns the len(s) call.
func classicIndexPhi(p *ssa.Phi) *ssa.Call {
	if len(p.Edges) != 2 {
		return nil
	}
	zero, inc := false, false
	for _, e := range p.Edges {
		if c, ok := e.(*ssa.Const); ok {
			if k, isK := IntConst(c); isK && k == 0 {
				zero = true
			}
			continue
		}
		if bo, ok := e.(*ssa.BinOp); ok && bo.Op == token.ADD && bo.X == ssa.Value(p) {
			if k, isK := IntConst(bo.Y); isK && k == 1 {
				inc = true
			}
		}
	}
	if !zero || !inc {
		return nil
	}
	b := p.Block()
	if len(b.Instrs) == 0 {
		return nil
	}
	iff, ok := b.Instrs[len(b.Instrs)-1].(*ssa.If)
	if !ok {
		return nil
	}
	bo, ok := iff.Cond.(*ssa.BinOp)
	if !ok || bo.Op != token.LSS || bo.X != ssa.Value(p) {
		return nil
	}
	lc, ok := bo.Y.(*ssa.Call)
	if !ok {
		return nil
	}
	if bi, ok := lc.Common().Value.(*ssa.Builtin); !ok || bi.Name() != "len" {
		return nil
	}
	return lc
}

// IsRangeIdx exposes isRangeIdx.
func IsRangeIdx(v ssa.Value) bool { return isRangeIdx(v) }

// CanonAtom renders a boolean condition as a canonical atom and a polarity:
// `a != b` becomes ("==(a,b)", negated).
func CanonAtom(cond ssa.Value) (string, bool) {
	neg := false
	cond, neg = Not(cond)
	if bo, ok := cond.(*ssa.BinOp); ok {
		// emptiness tests in all their spellings: len(x) == 0, != 0, > 0, >= 1, < 1, <= 0
		if x, empty, ok := emptinessTest(bo); ok {
			if b, isB := x.Type().Underlying().(*types.Basic); isB && b.Info()&types.IsString != 0 {
				a, c := "\"\"", canon(x, 0)
				if c < a {
					a, c = c, a
				}
				return "==(" + a + "," + c + ")", neg != !empty
			}
			return "<(0,len(" + canon(x, 0) + "))", neg != empty
		}
		switch bo.Op {
		case token.NEQ:
			a, b := canon(bo.X, 0), canon(bo.Y, 0)
			if b < a {
				a, b = b, a
			}
			return "==(" + a + "," + b + ")", !neg
		case token.GEQ: // a >= b  ==  !(a < b)
			return "<(" + canon(bo.X, 0) + "," + canon(bo.Y, 0) + ")", !neg
		case token.GTR: // a > b == b < a
			return "<(" + canon(bo.Y, 0) + "," + canon(bo.X, 0) + ")", neg
		case token.LEQ: // a <= b == !(b < a)
			return "<(" + canon(bo.Y, 0) + "," + canon(bo.X, 0) + ")", !neg
		}
	}
	return canon(cond, 0), neg
}

// emptinessTest recognises comparisons of len(x) with 0 / 1 and reports
// whether the condition being true means "x is empty".
func emptinessTest(bo *ssa.BinOp) (x ssa.Value, empty bool, ok bool) {
	lenOf := func(v ssa.Value) (ssa.Value, bool) {
		call, ok := v.(*ssa.Call)
		if !ok {
			return nil, false
		}
		if b, ok := call.Common().Value.(*ssa.Builtin); ok && b.Name() == "len" {
			return call.Common().Args[0], true
		}
		return nil, false
	}
	op := bo.Op
	l, r := bo.X, bo.Y
	if _, isLen := lenOf(r); isLen {
		// mirror: k op len(x)  ==  len(x) op' k
		l, r = r, l
		switch op {
		case token.LSS:
			op = token.GTR
		case token.LEQ:
			op = token.GEQ
		case token.GTR:
			op = token.LSS
		case token.GEQ:
			op = token.LEQ
		}
	}
	x, isLen := lenOf(l)
	if !isLen {
		return nil, false, false
	}
	k, isK := IntConst(r)
	if !isK {
		return nil, false, false
	}
	switch {
	case op == token.EQL && k == 0, op == token.LSS && k == 1, op == token.LEQ && k == 0:
		return x, true, true
	case op == token.NEQ && k == 0, op == token.GTR && k == 0, op == token.GEQ && k == 1:
		return x, false, true
	}
	return nil, false, false
}
