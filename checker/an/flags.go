package an

import (
	"go/token"
	"go/types"

	"golang.org/x/tools/go/ssa"
)

// Current is the program most recently loaded (set by Load); the accessor
// flag analysis needs the module's functions to establish who writes a field.
var Current *Prog

// FlagAccess describes a call that reads or sets a monotone boolean flag
// field of a struct through an accessor method (or a direct store):
// `func (c *T) isX() bool { lock; defer unlock; return c.x }` /
// `func (c *T) setX() { lock; defer unlock; c.x = true }`.
type FlagAccess struct {
	Key string // "flag:<T>.<field>@<path of the receiver>"
	Set bool   // a write (the flag now has value Val) rather than a read
	Val bool
}

func isLockCall(cc *ssa.CallCommon) bool {
	f := cc.StaticCallee()
	if f == nil || FuncPkgPath(f) != "sync" {
		return false
	}
	switch f.Name() {
	case "Lock", "Unlock", "RLock", "RUnlock":
		return true
	}
	return false
}

// flagField: addr is &param0.F with F a bool field of a named struct; returns "T.F".
func flagField(addr ssa.Value, recv ssa.Value) (string, bool) {
	fa, ok := addr.(*ssa.FieldAddr)
	if !ok || (recv != nil && fa.X != recv) {
		return "", false
	}
	pt, ok := fa.X.Type().Underlying().(*types.Pointer)
	if !ok {
		return "", false
	}
	nt, ok := pt.Elem().(*types.Named)
	if !ok {
		return "", false
	}
	st, ok := nt.Underlying().(*types.Struct)
	if !ok {
		return "", false
	}
	if b, isB := st.Field(fa.Field).Type().Underlying().(*types.Basic); !isB || b.Kind() != types.Bool {
		return "", false
	}
	return nt.Obj().Name() + "." + st.Field(fa.Field).Name(), true
}

// onlyLockCalls: the function calls nothing but mutex operations.
func onlyLockCalls(f *ssa.Function) bool {
	ok := true
	Instrs(f, func(in ssa.Instruction) {
		if ci, isC := in.(ssa.CallInstruction); isC && !isLockCall(ci.Common()) {
			ok = false
		}
	})
	return ok
}

// flagGetter: f returns the bool field F of its receiver and does nothing else.
func flagGetter(f *ssa.Function) (string, bool) {
	if f == nil || len(f.Blocks) == 0 || len(f.Params) != 1 || f.Signature.Results().Len() != 1 || !onlyLockCalls(f) {
		return "", false
	}
	field := ""
	n := 0
	for _, ret := range Returns(f) {
		n++
		res := ReturnResults(ret)
		ld, ok := Strip(res[0]).(*ssa.UnOp)
		if !ok || ld.Op != token.MUL {
			return "", false
		}
		fl, ok := flagField(ld.X, f.Params[0])
		if !ok || (field != "" && fl != field) {
			return "", false
		}
		field = fl
	}
	stores := 0
	Instrs(f, func(in ssa.Instruction) {
		if st, isS := in.(*ssa.Store); isS {
			if _, isAl := st.Addr.(*ssa.Alloc); !isAl { // result cell of a function with defers
				stores++
			}
		}
	})
	return field, n > 0 && stores == 0
}

// flagSetter: f unconditionally stores one bool constant into field F of its receiver and does nothing else.
func flagSetter(f *ssa.Function) (string, bool, bool) {
	if f == nil || len(f.Blocks) == 0 || len(f.Params) != 1 || f.Signature.Results().Len() != 0 || !onlyLockCalls(f) {
		return "", false, false
	}
	var the *ssa.Store
	n := 0
	Instrs(f, func(in ssa.Instruction) {
		if st, isS := in.(*ssa.Store); isS {
			n++
			the = st
		}
	})
	if n != 1 {
		return "", false, false
	}
	fl, ok := flagField(the.Addr, f.Params[0])
	v, isC := BoolConst(the.Val)
	if !ok || !isC {
		return "", false, false
	}
	for _, ret := range Returns(f) {
		if !the.Block().Dominates(ret.Block()) {
			return "", false, false
		}
	}
	return fl, v, true
}

var monotoneCache = map[*Prog]map[string]int{}

// monotoneFlag: every store to the field anywhere in the module writes the
// constant val, except stores into a freshly allocated struct (construction):
// once the flag has been seen equal to val it keeps that value, whatever other
// goroutines do.
func monotoneFlag(field string, val bool) bool {
	p := Current
	if p == nil {
		return false
	}
	m := monotoneCache[p]
	if m == nil {
		m = map[string]int{} // bit 1: some store of true, bit 2: some store of false, bit 4: a non-constant store
		for _, f := range p.ModuleFuncs() {
			Instrs(f, func(in ssa.Instruction) {
				st, ok := in.(*ssa.Store)
				if !ok {
					return
				}
				fl, ok := flagField(st.Addr, nil)
				if !ok {
					return
				}
				if _, fresh := Strip(st.Addr.(*ssa.FieldAddr).X).(*ssa.Alloc); fresh {
					return
				}
				if v, isC := BoolConst(st.Val); isC {
					if v {
						m[fl] |= 1
					} else {
						m[fl] |= 2
					}
				} else {
					m[fl] |= 4
				}
			})
		}
		monotoneCache[p] = m
	}
	if val {
		return m[field] == 1
	}
	return m[field] == 2
}

// FlagAccessOf classifies an instruction as an access to a monotone flag.
func FlagAccessOf(in ssa.Instruction) (FlagAccess, bool) {
	switch x := in.(type) {
	case *ssa.Call:
		f := StaticCallee(x.Common())
		if f == nil || !InModule(f) || len(x.Common().Args) != 1 {
			return FlagAccess{}, false
		}
		recv := Path(x.Common().Args[0])
		if fl, ok := flagGetter(f); ok {
			return FlagAccess{Key: "flag:" + fl + "@" + recv}, true
		}
		if fl, v, ok := flagSetter(f); ok && monotoneFlag(fl, v) {
			return FlagAccess{Key: "flag:" + fl + "@" + recv, Set: true, Val: v}, true
		}
	case *ssa.Store:
		if fl, ok := flagField(x.Addr, nil); ok {
			if v, isC := BoolConst(x.Val); isC && monotoneFlag(fl, v) {
				return FlagAccess{Key: "flag:" + fl + "@" + Path(x.Addr.(*ssa.FieldAddr).X), Set: true, Val: v}, true
			}
		}
	}
	return FlagAccess{}, false
}

// FieldGetter: f is a method that does nothing but return field F of its
// receiver (mutex operations around the read are allowed): an accessor.
// Returns the receiver's struct type name and the field name.
func FieldGetter(f *ssa.Function) (typ, field string, ok bool) {
	if f == nil || f.Signature.Results().Len() != 1 {
		return "", "", false
	}
	return FieldGetterK(f, 0)
}

// FieldGetterK: result k of accessor f is field F of its receiver (the other
// results, if any, are other fields read in the same critical section).
func FieldGetterK(f *ssa.Function, k int) (typ, field string, ok bool) {
	if f == nil || len(f.Blocks) == 0 || len(f.Params) != 1 || f.Signature.Results().Len() <= k || !onlyLockCalls(f) {
		return "", "", false
	}
	n := 0
	for _, ret := range Returns(f) {
		n++
		res := ReturnResults(ret)
		if len(res) <= k {
			return "", "", false
		}
		ld, isLd := Strip(res[k]).(*ssa.UnOp)
		if !isLd || ld.Op != token.MUL {
			return "", "", false
		}
		fa, isFA := ld.X.(*ssa.FieldAddr)
		if !isFA || fa.X != ssa.Value(f.Params[0]) {
			return "", "", false
		}
		nt := StructOf(fa.X.Type())
		if nt == nil {
			return "", "", false
		}
		t, fl := nt.Obj().Name(), FieldAddrName(fa)
		if field != "" && (fl != field || t != typ) {
			return "", "", false
		}
		typ, field = t, fl
	}
	stores := 0
	Instrs(f, func(in ssa.Instruction) {
		if st, isS := in.(*ssa.Store); isS {
			if _, isAl := st.Addr.(*ssa.Alloc); !isAl {
				stores++
			}
		}
	})
	return typ, field, n > 0 && stores == 0
}
