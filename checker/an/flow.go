package an

import (
	"go/token"
	"sort"
	"strings"

	"golang.org/x/tools/go/ssa"
)

// Point is a program point: before executing instruction I of block B.
type Point struct {
	B *ssa.BasicBlock
	I int
}

// PointOf returns the point of an instruction.
func PointOf(in ssa.Instruction) Point {
	b := in.Block()
	for i, x := range b.Instrs {
		if x == in {
			return Point{b, i}
		}
	}
	return Point{b, 0}
}

// After is the point just after an instruction.
func After(in ssa.Instruction) Point {
	p := PointOf(in)
	p.I++
	return p
}

// Entry is the entry point of fn.
func Entry(fn *ssa.Function) Point { return Point{fn.Blocks[0], 0} }

// IsExit reports whether the instruction leaves the function.
func IsExit(in ssa.Instruction) bool {
	switch in.(type) {
	case *ssa.Return, *ssa.Panic:
		return true
	}
	return false
}

// IsReturn reports a normal return.
func IsReturn(in ssa.Instruction) bool {
	_, ok := in.(*ssa.Return)
	return ok
}

// constBranch returns (taken successor index, true) if the If's condition is a
// compile-time constant.
func constBranch(in *ssa.If) (int, bool) {
	if b, ok := BoolConst(in.Cond); ok {
		if b {
			return 0, true
		}
		return 1, true
	}
	if ForcedBranch != nil {
		return ForcedBranch(in)
	}
	return 0, false
}

// ForcedBranch, when set, tells the path searches that only one successor of
// an If is feasible (e.g. the last test of a switch over the result of a
// classifier whose other values have all been excluded on the way).
var ForcedBranch func(*ssa.If) (int, bool)

// Search explores instruction-level control flow from `from`. It stops a path
// at any instruction for which avoid returns true (the instruction is not
// executed), and succeeds when it is about to execute an instruction for which
// target returns true. It returns a witness path (the target instruction plus
// the block trail) or nil. The recover block is not followed.
func Search(from Point, target, avoid func(ssa.Instruction) bool) []ssa.Instruction {
	return SearchKnown(from, target, avoid, nil)
}

// CondKey normalises a branch condition so that two evaluations of the same
// comparison on the same operands get the same key.
func CondKey(v ssa.Value) (string, bool) {
	neg := false
	v, neg = Not(v)
	if bo, ok := v.(*ssa.BinOp); ok {
		op := bo.Op
		if op == token.NEQ {
			op = token.EQL
			neg = !neg
		}
		return op.String() + "(" + Path(bo.X) + "," + Path(bo.Y) + ")", neg
	}
	return Path(v), neg
}

// SearchKnown is Search with a set of branch conditions whose value is
// already decided on the path (key from CondKey -> truth of the un-negated
// key): at an If on such a condition only the consistent successor is taken.
func SearchKnown(from Point, target, avoid func(ssa.Instruction) bool, known map[string]bool) []ssa.Instruction {
	type node struct {
		b *ssa.BasicBlock
	}
	// First handle the partial first block.
	visited := map[*ssa.BasicBlock]bool{}
	prev := map[*ssa.BasicBlock]*ssa.BasicBlock{}
	var queue []*ssa.BasicBlock

	scan := func(b *ssa.BasicBlock, start int) (hit ssa.Instruction, fallthroughOK bool) {
		for i := start; i < len(b.Instrs); i++ {
			in := b.Instrs[i]
			if target != nil && target(in) {
				return in, false
			}
			if avoid != nil && avoid(in) {
				return nil, false
			}
			if IsExit(in) {
				return nil, false
			}
		}
		return nil, true
	}
	succs := func(b *ssa.BasicBlock) []*ssa.BasicBlock {
		if len(b.Instrs) > 0 {
			if iff, ok := b.Instrs[len(b.Instrs)-1].(*ssa.If); ok {
				if k, ok := constBranch(iff); ok {
					return []*ssa.BasicBlock{b.Succs[k]}
				}
				if known != nil {
					if key, neg := CondKey(iff.Cond); true {
						if val, ok := known[key]; ok {
							if val != neg {
								return []*ssa.BasicBlock{b.Succs[0]}
							}
							return []*ssa.BasicBlock{b.Succs[1]}
						}
					}
				}
			}
		}
		return b.Succs
	}
	trail := func(b *ssa.BasicBlock, hit ssa.Instruction) []ssa.Instruction {
		var blocks []*ssa.BasicBlock
		seenT := map[*ssa.BasicBlock]bool{}
		for x := b; x != nil && !seenT[x]; x = prev[x] {
			seenT[x] = true
			blocks = append(blocks, x)
		}
		var out []ssa.Instruction
		for i := len(blocks) - 1; i >= 0; i-- {
			if len(blocks[i].Instrs) > 0 {
				out = append(out, blocks[i].Instrs[0])
			}
		}
		out = append(out, hit)
		return out
	}
	hit, ft := scan(from.B, from.I)
	if hit != nil {
		return []ssa.Instruction{hit}
	}
	if !ft {
		return nil
	}
	for _, s := range succs(from.B) {
		if !visited[s] {
			visited[s] = true
			prev[s] = from.B
			queue = append(queue, s)
		}
	}
	for len(queue) > 0 {
		b := queue[0]
		queue = queue[1:]
		hit, ft := scan(b, 0)
		if hit != nil {
			return trail(b, hit)
		}
		if !ft {
			continue
		}
		for _, s := range succs(b) {
			if !visited[s] {
				visited[s] = true
				prev[s] = b
				queue = append(queue, s)
			}
		}
	}
	return nil
}

// CanReachExitAvoiding reports a path from `from` to a normal return that
// does not execute any `avoid` instruction; returns the Return reached.
func ReturnAvoiding(from Point, avoid func(ssa.Instruction) bool) []ssa.Instruction {
	return Search(from, IsReturn, avoid)
}

// InstrDominates reports whether a is executed before b on every path
// reaching b (a != b).
func InstrDominates(a, b ssa.Instruction) bool {
	ba, bb := a.Block(), b.Block()
	if ba == nil || bb == nil || ba.Parent() != bb.Parent() {
		return false
	}
	if ba == bb {
		return PointOf(a).I < PointOf(b).I
	}
	return ba.Dominates(bb)
}

// Instrs iterates over all instructions of fn.
func Instrs(fn *ssa.Function, f func(ssa.Instruction)) {
	for _, b := range fn.Blocks {
		for _, in := range b.Instrs {
			f(in)
		}
	}
}

// Calls lists call-like instructions (call, go, defer) of fn.
func Calls(fn *ssa.Function) []ssa.CallInstruction {
	var out []ssa.CallInstruction
	Instrs(fn, func(in ssa.Instruction) {
		if c, ok := in.(ssa.CallInstruction); ok {
			out = append(out, c)
		}
	})
	return out
}

// Closures lists anonymous functions directly created in fn.
func Closures(fn *ssa.Function) []*ssa.Function { return fn.AnonFuncs }

// WithClosures returns fn and all (transitively) nested anonymous functions.
func WithClosures(fn *ssa.Function) []*ssa.Function {
	out := []*ssa.Function{fn}
	for _, a := range fn.AnonFuncs {
		out = append(out, WithClosures(a)...)
	}
	return out
}

// EdgeCond describes what is known on a CFG edge out of an If.
type EdgeCond struct {
	Cond ssa.Value
	True bool
}

// BranchFacts returns, for block b, the list of (cond, polarity) pairs that
// hold on entry to b because b is only reachable through those branch edges:
// walks up the dominator tree and records an If whose taken edge leads to a
// single-predecessor block on the dominator chain.
func BranchFacts(b *ssa.BasicBlock) []EdgeCond {
	var out []EdgeCond
	for x := b; x != nil; x = x.Idom() {
		if len(x.Preds) != 1 {
			continue
		}
		p := x.Preds[0]
		if len(p.Instrs) == 0 {
			continue
		}
		iff, ok := p.Instrs[len(p.Instrs)-1].(*ssa.If)
		if !ok {
			continue
		}
		if p.Succs[0] == x && p.Succs[1] != x {
			out = append(out, EdgeCond{iff.Cond, true})
		} else if p.Succs[1] == x && p.Succs[0] != x {
			out = append(out, EdgeCond{iff.Cond, false})
		}
	}
	return out
}

// NilCheck decomposes cond as `x == nil` / `x != nil`; returns x and whether
// the condition being true means x is nil.
func NilCheck(cond ssa.Value) (x ssa.Value, trueMeansNil bool, ok bool) {
	bo, isb := cond.(*ssa.BinOp)
	if !isb || (bo.Op != token.EQL && bo.Op != token.NEQ) {
		return nil, false, false
	}
	switch {
	case IsNilConst(bo.Y):
		x = bo.X
	case IsNilConst(bo.X):
		x = bo.Y
	default:
		return nil, false, false
	}
	return x, bo.Op == token.EQL, true
}

// Not peels logical negations; returns the inner value and whether an odd
// number of negations was removed.
func Not(v ssa.Value) (ssa.Value, bool) {
	neg := false
	for {
		u, ok := v.(*ssa.UnOp)
		if !ok || u.Op != token.NOT {
			return v, neg
		}
		v = u.X
		neg = !neg
	}
}

// ReturnResults returns the values a Return yields, looking through the
// result cells that go/ssa introduces in functions with defers
// (`*t0 = v; rundefers; t1 = *t0; return t1`).
func ReturnResults(ret *ssa.Return) []ssa.Value {
	out := make([]ssa.Value, len(ret.Results))
	b := ret.Block()
	for i, r := range ret.Results {
		out[i] = r
		u, ok := r.(*ssa.UnOp)
		if !ok || u.Op != token.MUL {
			continue
		}
		al, ok := u.X.(*ssa.Alloc)
		if !ok {
			continue
		}
		// last store to the cell in this block before the return
		var val ssa.Value
		for _, in := range b.Instrs {
			if in == ssa.Instruction(ret) {
				break
			}
			if st, ok := in.(*ssa.Store); ok && st.Addr == al {
				val = st.Val
			}
		}
		if val != nil {
			out[i] = val
			continue
		}
		// unique store in a dominating block
		stores, esc := CellStores(al)
		if !esc && len(stores) == 1 && InstrDominates(stores[0], ret) {
			out[i] = stores[0].Val
		}
	}
	return out
}

// Returns lists the Return instructions of fn (excluding the recover block).
func Returns(fn *ssa.Function) []*ssa.Return {
	var out []*ssa.Return
	for _, b := range fn.Blocks {
		if b == fn.Recover {
			continue
		}
		for _, in := range b.Instrs {
			if r, ok := in.(*ssa.Return); ok {
				out = append(out, r)
			}
		}
	}
	return out
}

// SearchCorr is a path-sensitive Search: a branch on a condition that the path
// has already decided (the same comparison of the same SSA values, by CondKey)
// can only go the way it went before. A decision is forgotten when the path
// re-executes the instruction that computes the condition (next loop
// iteration). known holds decisions valid at the start. Used where the code
// tests one boolean twice (`stopping := ...; if !stopping {...}; ...; if stopping {...}`).
func SearchCorr(from Point, target, avoid func(ssa.Instruction) bool, known map[string]bool) []ssa.Instruction {
	fn := from.B.Parent()
	// conditions worth tracking: those tested by more than one If, plus the initially known ones
	count := map[string]int{}
	defOf := map[ssa.Instruction][]string{} // instruction computing a tracked condition -> keys to forget
	loadsLocal := map[*ssa.Alloc][]string{} // local variable read by a tracked condition -> keys
	var loadsOther []string                 // keys of tracked conditions that read memory reached through pointers
	// the conditions an If can depend on: its condition, or - for a short-circuit && / || compiled to a phi of
	// booleans - the non-constant operands of that phi
	condsOf := func(iff *ssa.If) []ssa.Value {
		if phi, ok := iff.Cond.(*ssa.Phi); ok && phi.Block() == iff.Block() {
			var out []ssa.Value
			for _, e := range phi.Edges {
				if _, isC := e.(*ssa.Const); !isC {
					out = append(out, e)
				}
			}
			return out
		}
		return []ssa.Value{iff.Cond}
	}
	for _, b := range fn.Blocks {
		if len(b.Instrs) == 0 {
			continue
		}
		if iff, ok := b.Instrs[len(b.Instrs)-1].(*ssa.If); ok {
			for _, cv := range condsOf(iff) {
				key, _ := CondKey(cv)
				count[key]++
			}
		}
	}
	tracked := map[string]bool{}
	for k := range known {
		tracked[k] = true
	}
	for k, n := range count {
		if n > 1 {
			tracked[k] = true
		}
	}
	for _, b := range fn.Blocks {
		if len(b.Instrs) == 0 {
			continue
		}
		if iff, ok := b.Instrs[len(b.Instrs)-1].(*ssa.If); ok {
			for _, cv := range condsOf(iff) {
				key, _ := CondKey(cv)
				if !tracked[key] {
					continue
				}
				// the decision is stale once an operand of the comparison is computed anew
				inner, _ := Not(cv)
				var ops []ssa.Value
				if bo, ok := inner.(*ssa.BinOp); ok {
					ops = []ssa.Value{bo.X, bo.Y}
				} else {
					ops = []ssa.Value{inner}
				}
				for _, o := range ops {
					for i := 0; i < 4; i++ { // through value-preserving wrappers
						if ld, isLoad := o.(*ssa.UnOp); isLoad && ld.Op == token.MUL {
							// a load reads memory again, which gives the same value unless that memory was
							// written in between: remember what it reads
							if al := allocRootOf(ld.X); al != nil {
								loadsLocal[al] = append(loadsLocal[al], key)
							} else {
								loadsOther = append(loadsOther, key)
							}
						} else if def, ok := o.(ssa.Instruction); ok {
							defOf[def] = append(defOf[def], key)
						}
						n := Strip(o)
						if n == o {
							break
						}
						o = n
					}
				}
			}
		}
	}
	for _, b := range fn.Blocks {
		for _, in := range b.Instrs {
			switch x := in.(type) {
			case *ssa.Store:
				if al := allocRootOf(x.Addr); al != nil {
					if ks := loadsLocal[al]; len(ks) > 0 {
						defOf[in] = append(defOf[in], ks...)
					}
				} else if len(loadsOther) > 0 {
					defOf[in] = append(defOf[in], loadsOther...)
				}
			case *ssa.Call:
				if _, isB := x.Common().Value.(*ssa.Builtin); !isB && len(loadsOther) > 0 {
					defOf[in] = append(defOf[in], loadsOther...)
				}
			}
		}
	}
	type state struct {
		b, pred *ssa.BasicBlock
		sig     string
	}
	sigOf := func(d map[string]bool) string {
		var ks []string
		for k, v := range d {
			if v {
				ks = append(ks, k+"=1")
			} else {
				ks = append(ks, k+"=0")
			}
		}
		sort.Strings(ks)
		return strings.Join(ks, ";")
	}
	type item struct {
		b, pred *ssa.BasicBlock
		start   int
		dec     map[string]bool
		trail   []ssa.Instruction
	}
	clone := func(d map[string]bool) map[string]bool {
		o := map[string]bool{}
		for k, v := range d {
			o[k] = v
		}
		return o
	}
	visited := map[state]bool{}
	queue := []item{{from.B, nil, from.I, clone(known), nil}}
	steps := 0
	for len(queue) > 0 && steps < 20000 {
		steps++
		it := queue[0]
		queue = queue[1:]
		b := it.b
		dec := it.dec
		stop := false
		for i := it.start; i < len(b.Instrs); i++ {
			in := b.Instrs[i]
			if target != nil && target(in) {
				return append(append([]ssa.Instruction{}, it.trail...), in)
			}
			if avoid != nil && avoid(in) {
				stop = true
				break
			}
			if IsExit(in) {
				stop = true
				break
			}
			if ks, ok := defOf[in]; ok {
				for _, k := range ks {
					delete(dec, k)
				}
			}
			// a monotone flag field set on the path (directly or through its setter method)
			if fa, ok := FlagAccessOf(in); ok && fa.Set {
				dec[fa.Key] = fa.Val
			}
		}
		if stop || len(b.Instrs) == 0 {
			continue
		}
		var nexts []*ssa.BasicBlock
		var decided []map[string]bool
		if iff, ok := b.Instrs[len(b.Instrs)-1].(*ssa.If); ok {
			// a phi of booleans in this block: its value is the operand of the edge the path came by
			cv := iff.Cond
			forced := -1
			if inner, ineg := Not(cv); true {
				if phi, isPhi := inner.(*ssa.Phi); isPhi && phi.Block() == b && it.pred != nil {
					var ev ssa.Value
					for pi, p := range b.Preds {
						if p == it.pred {
							ev = phi.Edges[pi]
						}
					}
					if ev != nil {
						if c, isC := ev.(*ssa.Const); isC {
							if bv, okb := BoolConst(c); okb {
								if bv != ineg {
									forced = 0
								} else {
									forced = 1
								}
							}
						} else if !ineg {
							cv = ev
						}
					}
				}
			}
			// a test of a monotone flag (through its getter method) that the path has set
			if forced < 0 {
				if inner, ineg := Not(cv); true {
					if call, isCall := inner.(*ssa.Call); isCall {
						if fa, ok := FlagAccessOf(call); ok && !fa.Set {
							if v, has := dec[fa.Key]; has {
								if v != ineg {
									forced = 0
								} else {
									forced = 1
								}
							}
						}
					}
				}
			}
			if forced >= 0 {
				nexts, decided = []*ssa.BasicBlock{b.Succs[forced]}, []map[string]bool{dec}
			} else if k, isC := constBranch(iff); isC {
				nexts, decided = []*ssa.BasicBlock{b.Succs[k]}, []map[string]bool{dec}
			} else {
				key, neg := CondKey(cv)
				if val, ok := dec[key]; ok && tracked[key] {
					if val != neg {
						nexts = []*ssa.BasicBlock{b.Succs[0]}
					} else {
						nexts = []*ssa.BasicBlock{b.Succs[1]}
					}
					decided = []map[string]bool{dec}
				} else {
					nexts = b.Succs
					for si := range b.Succs {
						d := dec
						if tracked[key] {
							d = clone(dec)
							// successor 0 is taken when iff.Cond is true, i.e. the un-negated key is (true != neg)
							d[key] = (si == 0) != neg
						}
						decided = append(decided, d)
					}
				}
			}
		} else {
			nexts = b.Succs
			for range b.Succs {
				decided = append(decided, dec)
			}
		}
		for i, s := range nexts {
			st := state{s, b, sigOf(decided[i])}
			if visited[st] {
				continue
			}
			visited[st] = true
			tr := it.trail
			if len(s.Instrs) > 0 {
				tr = append(append([]ssa.Instruction{}, it.trail...), s.Instrs[0])
			}
			queue = append(queue, item{s, b, 0, clone(decided[i]), tr})
		}
	}
	return nil
}

// allocRootOf returns the local variable (Alloc) an address points into,
// following field and element selections; nil when the address is reached
// through a pointer loaded from elsewhere.
func allocRootOf(a ssa.Value) *ssa.Alloc {
	for i := 0; i < 16; i++ {
		switch x := a.(type) {
		case *ssa.Alloc:
			return x
		case *ssa.FieldAddr:
			a = x.X
		case *ssa.IndexAddr:
			a = x.X
		default:
			return nil
		}
	}
	return nil
}
