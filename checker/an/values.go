package an

import (
	"fmt"
	"go/constant"
	"go/token"
	"go/types"
	"strings"

	"golang.org/x/tools/go/ssa"
)

func constInt(v constant.Value) (int64, bool) {
	if v == nil || v.Kind() != constant.Int {
		return 0, false
	}
	return constant.Int64Val(v)
}

func constStr(v constant.Value) (string, bool) {
	if v == nil || v.Kind() != constant.String {
		return "", false
	}
	return constant.StringVal(v), true
}

// IntConst returns the integer value of an SSA constant (after Strip).
func IntConst(v ssa.Value) (int64, bool) {
	v = Strip(v)
	c, ok := v.(*ssa.Const)
	if !ok || c.Value == nil {
		return 0, false
	}
	return constInt(c.Value)
}

// StrConst returns the string value of an SSA constant (after Strip).
func StrConst(v ssa.Value) (string, bool) {
	v = Strip(v)
	c, ok := v.(*ssa.Const)
	if !ok || c.Value == nil {
		return "", false
	}
	return constStr(c.Value)
}

// BoolConst returns the bool value of an SSA constant.
func BoolConst(v ssa.Value) (bool, bool) {
	v = Strip(v)
	c, ok := v.(*ssa.Const)
	if !ok || c.Value == nil || c.Value.Kind() != constant.Bool {
		return false, false
	}
	return constant.BoolVal(c.Value), true
}

// IsNilConst reports whether v is the nil constant.
func IsNilConst(v ssa.Value) bool {
	c, ok := v.(*ssa.Const)
	return ok && c.IsNil()
}

// closureSite finds the MakeClosure that creates anonymous function fn.
func closureSite(fn *ssa.Function) *ssa.MakeClosure {
	par := fn.Parent()
	if par == nil {
		return nil
	}
	for _, b := range par.Blocks {
		for _, in := range b.Instrs {
			if mc, ok := in.(*ssa.MakeClosure); ok && mc.Fn == fn {
				return mc
			}
		}
	}
	return nil
}

// ClosureSite is the exported form of closureSite.
func ClosureSite(fn *ssa.Function) *ssa.MakeClosure { return closureSite(fn) }

// FreeVarBinding maps a free variable of a closure to the value bound at its
// (unique) MakeClosure site in the parent.
func FreeVarBinding(fv *ssa.FreeVar) ssa.Value {
	fn := fv.Parent()
	mc := closureSite(fn)
	if mc == nil {
		return nil
	}
	for i, x := range fn.FreeVars {
		if x == fv && i < len(mc.Bindings) {
			return mc.Bindings[i]
		}
	}
	return nil
}

// cellInfo describes an Alloc used as a variable cell.
type cellInfo struct {
	stores  []*ssa.Store // whole-cell stores, in all functions sharing the cell
	escaped bool         // address used in a way we do not model
}

// cellUses walks all uses of an address value (an Alloc or a FreeVar bound to
// it), including inside closures that capture it.
func cellUses(addr ssa.Value, ci *cellInfo, seen map[ssa.Value]bool) {
	if seen[addr] {
		return
	}
	seen[addr] = true
	refs := addr.Referrers()
	if refs == nil {
		ci.escaped = true
		return
	}
	for _, r := range *refs {
		switch x := r.(type) {
		case *ssa.Store:
			if x.Addr == addr {
				ci.stores = append(ci.stores, x)
			} else {
				ci.escaped = true // address stored somewhere
			}
		case *ssa.UnOp:
			// load: fine
		case *ssa.FieldAddr, *ssa.IndexAddr:
			// partial access: does not replace the cell's whole value
		case *ssa.MakeClosure:
			for i, b := range x.Bindings {
				if b == addr {
					fn := x.Fn.(*ssa.Function)
					if i < len(fn.FreeVars) {
						cellUses(fn.FreeVars[i], ci, seen)
					}
				}
			}
		case *ssa.DebugRef:
		default:
			ci.escaped = true
		}
	}
}

// CellStores returns the whole-value stores to a variable cell and whether
// the cell's address escapes into something unmodelled.
func CellStores(addr ssa.Value) ([]*ssa.Store, bool) {
	root := cellRoot(addr)
	ci := &cellInfo{}
	cellUses(root, ci, map[ssa.Value]bool{})
	return ci.stores, ci.escaped
}

// cellRoot follows FreeVar bindings up to the Alloc (or other value).
func cellRoot(addr ssa.Value) ssa.Value {
	for {
		fv, ok := addr.(*ssa.FreeVar)
		if !ok {
			return addr
		}
		b := FreeVarBinding(fv)
		if b == nil {
			return addr
		}
		addr = b
	}
}

// Strip peels value-preserving wrappers: ChangeType, ChangeInterface,
// MakeInterface, loads of single-assignment variable cells, single-edge phis
// and FreeVars bound by value.
// PhiHook, when set, lets a path-sensitive client resolve a phi to the one
// operand that is live under its path condition (nil: no resolution).
var PhiHook func(*ssa.Phi) ssa.Value

func Strip(v ssa.Value) ssa.Value {
	for i := 0; i < 64; i++ {
		switch x := v.(type) {
		case *ssa.ChangeType:
			v = x.X
		case *ssa.ChangeInterface:
			v = x.X
		case *ssa.MakeInterface:
			v = x.X
		case *ssa.FreeVar:
			b := FreeVarBinding(x)
			if b == nil {
				return v
			}
			v = b
		case *ssa.Phi:
			if PhiHook != nil {
				if a := PhiHook(x); a != nil {
					v = a
					continue
				}
			}
			var u ssa.Value
			same := true
			for _, e := range x.Edges {
				if e == x {
					continue
				}
				if u == nil {
					u = e
				} else if u != e {
					same = false
				}
			}
			if !same || u == nil {
				return v
			}
			v = u
		case *ssa.UnOp:
			if x.Op != token.MUL {
				return v
			}
			root := cellRoot(x.X)
			al, ok := root.(*ssa.Alloc)
			if !ok {
				return v
			}
			stores, esc := CellStores(al)
			if esc {
				return v
			}
			if len(stores) == 1 {
				v = stores[0].Val
				continue
			}
			// several assignments: the one store of the same function that reaches this load on
			// every path (it dominates the load and no other store can run in between)
			s := reachingStore(x, al, stores)
			if s == nil {
				return v
			}
			v = s.Val
		default:
			return v
		}
	}
	return v
}

var reachCache = map[*ssa.UnOp]*ssa.Store{}
var reachDone = map[*ssa.UnOp]bool{}

// reachingStore returns the unique store to the local variable al whose value
// the load ld observes: all stores are in ld's function, the store dominates
// the load and no other store lies on a path from it to the load.
func reachingStore(ld *ssa.UnOp, al *ssa.Alloc, stores []*ssa.Store) *ssa.Store {
	if reachDone[ld] {
		return reachCache[ld]
	}
	reachDone[ld] = true
	if ld.X != ssa.Value(al) {
		return nil
	}
	for _, s := range stores {
		if s.Parent() != ld.Parent() || s.Addr != ssa.Value(al) {
			return nil // assigned from a closure or through a derived address: no local reasoning
		}
	}
	isI := func(t ssa.Instruction) func(ssa.Instruction) bool {
		return func(in ssa.Instruction) bool { return in == t }
	}
	var found *ssa.Store
	for _, s := range stores {
		if !InstrDominates(s, ld) {
			continue
		}
		clean := true
		for _, o := range stores {
			if o == s {
				continue
			}
			// o can run after s (possibly after an earlier execution of the load, in a loop) and its value can then
			// reach the load without s running again
			if Search(After(s), isI(o), nil) != nil && Search(After(o), isI(ld), isI(s)) != nil {
				clean = false
			}
		}
		// the store itself must not be re-executed between itself and the load in a way that matters: same value
		if clean {
			if found != nil {
				return nil
			}
			found = s
		}
	}
	reachCache[ld] = found
	return found
}

// StripConv is Strip that also peels numeric/string conversions.
func StripConv(v ssa.Value) ssa.Value {
	for {
		v = Strip(v)
		c, ok := v.(*ssa.Convert)
		if !ok {
			return v
		}
		v = c.X
	}
}

// fieldName returns the name of field i of the struct (or pointer to struct) type t.
func fieldName(t types.Type, i int) string {
	if p, ok := t.Underlying().(*types.Pointer); ok {
		t = p.Elem()
	}
	st, ok := t.Underlying().(*types.Struct)
	if !ok || i >= st.NumFields() {
		return fmt.Sprintf("#%d", i)
	}
	return st.Field(i).Name()
}

// FieldAddrName names the field selected by a FieldAddr.
func FieldAddrName(fa *ssa.FieldAddr) string { return fieldName(fa.X.Type(), fa.Field) }

// FieldValName names the field selected by a Field.
func FieldValName(f *ssa.Field) string { return fieldName(f.X.Type(), f.Field) }

// StructOf returns the named struct type that a FieldAddr selects from.
func StructOf(t types.Type) *types.Named {
	if p, ok := t.Underlying().(*types.Pointer); ok {
		t = p.Elem()
	}
	if p, ok := t.(*types.Pointer); ok {
		t = p.Elem()
	}
	nt, _ := t.(*types.Named)
	return nt
}

// TypeIs reports whether t (possibly behind pointers) is the named type pkg.name.
func TypeIs(t types.Type, pkg, name string) bool {
	for {
		p, ok := t.(*types.Pointer)
		if !ok {
			break
		}
		t = p.Elem()
	}
	nt, ok := t.(*types.Named)
	if !ok || nt.Obj() == nil {
		return false
	}
	if nt.Obj().Name() != name {
		return false
	}
	if nt.Obj().Pkg() == nil {
		return pkg == ""
	}
	return nt.Obj().Pkg().Path() == pkg
}

// Path is a canonical access path for a value: a root followed by field /
// index steps. Two values with equal paths denote the same memory or the same
// immutable value provided nothing on the path was overwritten in between.
func Path(v ssa.Value) string {
	return pathOf(v, 0)
}

func localFieldStore(al *ssa.Alloc, field int) (ssa.Value, bool) {
	// the alloc is a local struct (composite literal / var); find the unique
	// store to its field `field`; also require that the struct is never
	// overwritten as a whole.
	refs := al.Referrers()
	if refs == nil {
		return nil, false
	}
	var val ssa.Value
	n := 0
	// whole-struct initialisation from a composite literal temporary:
	//   t1 = local T (complit); t1.f = v; t2 = *t1; *al = t2
	var whole []*ssa.Store
	for _, r := range *refs {
		if st, ok := r.(*ssa.Store); ok && st.Addr == ssa.Value(al) {
			whole = append(whole, st)
		}
	}
	if len(whole) == 1 {
		if ld, ok := whole[0].Val.(*ssa.UnOp); ok && ld.Op == token.MUL {
			if src, ok := ld.X.(*ssa.Alloc); ok && src != al {
				// no direct field stores to al.field
				direct := false
				for _, r := range *refs {
					if fa, ok := r.(*ssa.FieldAddr); ok && fa.Field == field && fa.Referrers() != nil {
						for _, rr := range *fa.Referrers() {
							if st, ok := rr.(*ssa.Store); ok && st.Addr == ssa.Value(fa) {
								direct = true
							}
						}
					}
				}
				if !direct {
					return localFieldStore(src, field)
				}
			}
		}
		return nil, false
	}
	for _, r := range *refs {
		switch x := r.(type) {
		case *ssa.FieldAddr:
			if x.Field != field {
				continue
			}
			if x.Referrers() == nil {
				return nil, false
			}
			for _, rr := range *x.Referrers() {
				switch y := rr.(type) {
				case *ssa.Store:
					if y.Addr == x {
						val = y.Val
						n++
					} else {
						return nil, false
					}
				case *ssa.UnOp, *ssa.FieldAddr, *ssa.DebugRef, *ssa.IndexAddr:
				default:
					// address of the field escapes (e.g. passed to a call)
					if _, isCall := rr.(ssa.CallInstruction); isCall {
						return nil, false
					}
				}
			}
		case *ssa.Store:
			if x.Addr == al {
				return nil, false // whole-struct store
			}
		}
	}
	if n == 1 {
		return val, true
	}
	return nil, false
}

func pathOf(v ssa.Value, depth int) string {
	if depth > 40 {
		return "?deep"
	}
	v = Strip(v)
	switch x := v.(type) {
	case *ssa.Parameter:
		return x.Name()
	case *ssa.Global:
		return "global:" + x.Pkg.Pkg.Name() + "." + x.Name()
	case *ssa.Const:
		if x.Value == nil {
			return "const:nil"
		}
		return "const:" + x.Value.ExactString()
	case *ssa.UnOp:
		if x.Op == token.MUL {
			if fa, ok := x.X.(*ssa.FieldAddr); ok {
				if al, ok := cellRoot(fa.X).(*ssa.Alloc); ok {
					if sv, ok := localFieldStore(al, fa.Field); ok {
						return pathOf(sv, depth+1)
					}
				}
			}
			return addrPath(x.X, depth+1)
		}
		return "%" + valueID(x)
	case *ssa.FieldAddr:
		return "&" + addrPath(x, depth+1)
	case *ssa.Field:
		if ld, ok := x.X.(*ssa.UnOp); ok && ld.Op == token.MUL {
			if al, ok := cellRoot(ld.X).(*ssa.Alloc); ok {
				if sv, ok := localFieldStore(al, x.Field); ok {
					return pathOf(sv, depth+1)
				}
				return "alloc:" + valueID(al) + "." + FieldValName(x)
			}
		}
		return pathOf(x.X, depth+1) + "." + FieldValName(x)
	case *ssa.Index:
		if k, ok := IntConst(x.Index); ok {
			return fmt.Sprintf("%s[%d]", pathOf(x.X, depth+1), k)
		}
		return fmt.Sprintf("%s[%s]", pathOf(x.X, depth+1), idxPath(x.Index, depth+1))
	case *ssa.Lookup:
		return fmt.Sprintf("%s[%s]", pathOf(x.X, depth+1), idxPath(x.Index, depth+1))
	case *ssa.Extract:
		return fmt.Sprintf("%s#%d", pathOf(x.Tuple, depth+1), x.Index)
	case *ssa.Alloc:
		return "alloc:" + valueID(x)
	case *ssa.Slice:
		lo := ""
		if x.Low != nil {
			lo = idxPath(x.Low, depth+1)
		}
		hi := ""
		if x.High != nil {
			hi = idxPath(x.High, depth+1)
		}
		return fmt.Sprintf("%s[%s:%s]", pathOf(x.X, depth+1), lo, hi)
	case *ssa.Convert:
		return fmt.Sprintf("conv<%s>(%s)", types.TypeString(x.Type(), shortQual), pathOf(x.X, depth+1))
	case *ssa.Call:
		return "call:" + valueID(x)
	}
	return "%" + valueID(v)
}

func shortQual(p *types.Package) string { return p.Name() }

// IdxHook, when set, lets a client that knows the value of an index
// expression (e.g. an option value under a known option context) render it.
var IdxHook func(ssa.Value) (string, bool)

func idxPath(v ssa.Value, depth int) string {
	if k, ok := IntConst(v); ok {
		return fmt.Sprint(k)
	}
	if IdxHook != nil {
		if s, ok := IdxHook(v); ok {
			return s
		}
	}
	return pathOf(v, depth)
}

// addrPath gives the path of the memory an address denotes.
func addrPath(a ssa.Value, depth int) string {
	if depth > 40 {
		return "?deep"
	}
	switch x := a.(type) {
	case *ssa.FieldAddr:
		// field of a local struct with a unique store: forward
		if al, ok := cellRoot(x.X).(*ssa.Alloc); ok {
			if _, isStruct := al.Type().(*types.Pointer).Elem().Underlying().(*types.Struct); isStruct {
				return "alloc:" + valueID(al) + "." + FieldAddrName(x)
			}
		}
		if inner, ok := x.X.(*ssa.FieldAddr); ok {
			// field of an embedded / nested struct value: &(&p.A).B is the memory p.A.B
			return addrPath(inner, depth+1) + "." + FieldAddrName(x)
		}
		return pathOf(x.X, depth+1) + "." + FieldAddrName(x)
	case *ssa.IndexAddr:
		return fmt.Sprintf("%s[%s]", pathOf(x.X, depth+1), idxPath(x.Index, depth+1))
	case *ssa.Alloc:
		return "alloc:" + valueID(x)
	case *ssa.FreeVar:
		if b := FreeVarBinding(x); b != nil {
			return addrPath(b, depth+1)
		}
		return "freevar:" + x.Name()
	case *ssa.Global:
		return "global:" + x.Pkg.Pkg.Name() + "." + x.Name()
	}
	return pathOf(a, depth+1) + ".*"
}

func valueID(v ssa.Value) string {
	fn := ""
	if p := v.Parent(); p != nil {
		fn = ShortName(p) + ":"
	}
	return fn + v.Name()
}

// LoadField resolves a load `*(&X.f)` and returns (X, fieldname, true).
func LoadField(v ssa.Value) (ssa.Value, string, bool) {
	v = Strip(v)
	switch x := v.(type) {
	case *ssa.UnOp:
		if x.Op != token.MUL {
			return nil, "", false
		}
		if fa, ok := x.X.(*ssa.FieldAddr); ok {
			return fa.X, FieldAddrName(fa), true
		}
	case *ssa.Field:
		return x.X, FieldValName(x), true
	}
	return nil, "", false
}

// FieldChain resolves v as root.f1.f2...fn (through loads, local struct
// forwarding and embedded pointers) and returns the root value and the field
// names. For a local struct with unique field stores the chain continues
// through the stored value.
func FieldChain(v ssa.Value) (ssa.Value, []string) {
	var names []string
	for i := 0; i < 40; i++ {
		v = Strip(v)
		switch x := v.(type) {
		case *ssa.UnOp:
			if x.Op != token.MUL {
				return v, rev(names)
			}
			fa, ok := x.X.(*ssa.FieldAddr)
			if !ok {
				return v, rev(names)
			}
			if al, ok := cellRoot(fa.X).(*ssa.Alloc); ok {
				if sv, ok := localFieldStore(al, fa.Field); ok {
					v = sv
					continue
				}
			}
			names = append(names, FieldAddrName(fa))
			v = fa.X
		case *ssa.Field:
			names = append(names, FieldValName(x))
			v = x.X
		default:
			return v, rev(names)
		}
	}
	return v, rev(names)
}

func rev(s []string) []string {
	out := make([]string, len(s))
	for i := range s {
		out[len(s)-1-i] = s[i]
	}
	return out
}

// ChainString renders FieldChain as "root.f1.f2".
func ChainString(v ssa.Value) string {
	root, names := FieldChain(v)
	r := Path(root)
	if len(names) == 0 {
		return r
	}
	return r + "." + strings.Join(names, ".")
}

// CallCommon helpers ---------------------------------------------------

// StaticCallee returns the statically known callee, looking through closures.
func StaticCallee(c *ssa.CallCommon) *ssa.Function {
	if f := c.StaticCallee(); f != nil {
		return f
	}
	if c.IsInvoke() {
		return nil
	}
	switch x := Strip(c.Value).(type) {
	case *ssa.MakeClosure:
		if f, ok := x.Fn.(*ssa.Function); ok {
			return f
		}
	case *ssa.Function:
		return x
	}
	return nil
}

// CalleeIs reports whether the call statically targets pkg.name
// (name in ShortName form).
func CalleeIs(c *ssa.CallCommon, pkg, name string) bool {
	if f := StaticCallee(c); f != nil {
		return FuncPkgPath(f) == pkg && ShortName(f) == name
	}
	return false
}

// InvokeIs reports whether the call is an interface method invocation of
// method `name` on an interface type declared as pkg.iface (iface may be ""
// to match any interface of pkg).
func InvokeIs(c *ssa.CallCommon, pkg, iface, name string) bool {
	if !c.IsInvoke() || c.Method == nil || c.Method.Name() != name {
		return false
	}
	t := c.Value.Type()
	if nt, ok := t.(*types.Named); ok && nt.Obj() != nil && nt.Obj().Pkg() != nil {
		return nt.Obj().Pkg().Path() == pkg && (iface == "" || nt.Obj().Name() == iface)
	}
	return false
}

// MethodCallOn reports a call (static or invoke) of method `name` whose
// receiver has type pkg.typ (pointer or not). Returns the receiver value.
func MethodCallOn(c *ssa.CallCommon, pkg, typ, name string) (ssa.Value, bool) {
	if c.IsInvoke() {
		if c.Method != nil && c.Method.Name() == name && TypeIs(c.Value.Type(), pkg, typ) {
			return c.Value, true
		}
		return nil, false
	}
	f := StaticCallee(c)
	if f == nil || f.Signature.Recv() == nil || f.Name() != name {
		return nil, false
	}
	if !TypeIs(f.Signature.Recv().Type(), pkg, typ) {
		return nil, false
	}
	if len(c.Args) == 0 {
		return nil, false
	}
	return c.Args[0], true
}

// CellLoads returns all loads of a variable cell (an Alloc or FreeVar bound to
// one), including loads inside closures that capture it.
func CellLoads(addr ssa.Value) []*ssa.UnOp {
	var out []*ssa.UnOp
	seen := map[ssa.Value]bool{}
	var walk func(a ssa.Value)
	walk = func(a ssa.Value) {
		if seen[a] {
			return
		}
		seen[a] = true
		refs := a.Referrers()
		if refs == nil {
			return
		}
		for _, r := range *refs {
			switch x := r.(type) {
			case *ssa.UnOp:
				if x.Op == token.MUL && x.X == a {
					out = append(out, x)
				}
			case *ssa.MakeClosure:
				for i, b := range x.Bindings {
					if b == a {
						fn := x.Fn.(*ssa.Function)
						if i < len(fn.FreeVars) {
							walk(fn.FreeVars[i])
						}
					}
				}
			}
		}
	}
	walk(cellRoot(addr))
	return out
}

// CellRoot exposes cellRoot.
func CellRoot(addr ssa.Value) ssa.Value { return cellRoot(addr) }

// LocalFieldStore exposes localFieldStore: the unique value stored into
// field `field` of a local struct allocation.
func LocalFieldStore(al *ssa.Alloc, field int) (ssa.Value, bool) { return localFieldStore(al, field) }

// ValueID exposes valueID (function-qualified SSA name).
func ValueID(v ssa.Value) string { return valueID(v) }

// MapTable is a package-level map that is filled once, by its composite
// literal in the package initialiser, and never written again: a lookup table.
type MapTable struct {
	Global  *ssa.Global
	Entries []MapEntry
}

type MapEntry struct{ Key, Val ssa.Value }

// GlobalMapTable recognises v as a load of such a table and returns its
// entries. ok is false when the global is assigned or updated anywhere else
// (any store to it outside init, any MapUpdate / delete / clear on a load of it).
func GlobalMapTable(v ssa.Value) (*MapTable, bool) {
	ld, ok := v.(*ssa.UnOp)
	if !ok || ld.Op != token.MUL {
		return nil, false
	}
	g, ok := ld.X.(*ssa.Global)
	if !ok || g.Pkg == nil {
		return nil, false
	}
	if _, isMap := g.Type().(*types.Pointer).Elem().Underlying().(*types.Map); !isMap {
		return nil, false
	}
	initFn := g.Pkg.Func("init")
	if initFn == nil {
		return nil, false
	}
	t := &MapTable{Global: g}
	var made ssa.Value
	nStores := 0
	for _, m := range g.Pkg.Members {
		fns := []*ssa.Function{}
		switch x := m.(type) {
		case *ssa.Function:
			fns = append(fns, WithClosures(x)...)
		case *ssa.Type:
			for _, tt := range []types.Type{x.Type(), types.NewPointer(x.Type())} {
				ms := g.Pkg.Prog.MethodSets.MethodSet(tt)
				for i := 0; i < ms.Len(); i++ {
					if f := g.Pkg.Prog.MethodValue(ms.At(i)); f != nil && f.Pkg == g.Pkg && f.Synthetic == "" {
						fns = append(fns, WithClosures(f)...)
					}
				}
			}
		}
		for _, f := range fns {
			for _, b := range f.Blocks {
				for _, in := range b.Instrs {
					switch x := in.(type) {
					case *ssa.Store:
						if x.Addr == ssa.Value(g) {
							nStores++
							if f != initFn {
								return nil, false
							}
							made = x.Val
						}
					case *ssa.MapUpdate:
						if l2, ok := x.Map.(*ssa.UnOp); ok && l2.X == ssa.Value(g) {
							return nil, false
						}
					case *ssa.Call:
						if bi, ok := x.Common().Value.(*ssa.Builtin); ok && (bi.Name() == "delete" || bi.Name() == "clear") && len(x.Common().Args) > 0 {
							if l2, ok := x.Common().Args[0].(*ssa.UnOp); ok && l2.X == ssa.Value(g) {
								return nil, false
							}
						}
					}
				}
			}
		}
	}
	if nStores != 1 || made == nil {
		return nil, false
	}
	if _, ok := made.(*ssa.MakeMap); !ok || made.Referrers() == nil {
		return nil, false
	}
	for _, r := range *made.Referrers() {
		switch x := r.(type) {
		case *ssa.MapUpdate:
			t.Entries = append(t.Entries, MapEntry{x.Key, x.Value})
		case *ssa.Store, *ssa.DebugRef:
		default:
			return nil, false
		}
	}
	return t, true
}
