package an

import (
	"fmt"
	"go/token"
	"go/types"
	"sort"

	"golang.org/x/tools/go/ssa"
)

// Walker interprets the branch structure of one function under a valuation
// of boolean atoms (engine E4). Nothing of the analysed program is executed:
// at each If the successor dictated by the valuation is taken, at each phi the
// operand of the edge the walk came by.
type Walker struct {
	Fn *ssa.Function
	// Atom names a boolean condition and tells whether the condition is the
	// negation of the named atom. Defaults to CanonAtom.
	Atom func(cond ssa.Value) (name string, neg bool)
	// Event is called for every instruction on the walked path.
	Event func(in ssa.Instruction, w *Walk)
	// Choose, when set, decides a branch before the valuation is consulted:
	// it returns the successor index to take, or -1 to fall back to the
	// valuation, or -2 to stop the walk (recorded in Walk.Fork).
	Choose func(iff *ssa.If, w *Walk) int
	// NoInline disables the evaluation of in-module bool helpers used as
	// branch conditions through their own truth table.
	NoInline bool
	// Helpers are calls in Fn of module functions whose own branch atoms
	// (translated into Fn's vocabulary) take part in the valuation, so that a
	// client can interpret them under the same valuation (HelperVal).
	Helpers []*ssa.Call
	inl     map[*ssa.Call]*inlined
}

// helperInl builds the translation for a value-returning helper call.
func (w *Walker) helperInl(call *ssa.Call) *inlined {
	if il, ok := w.inl[call]; ok {
		return il
	}
	f := call.Common().StaticCallee()
	if f == nil || len(f.Blocks) == 0 {
		return nil
	}
	sw := &Walker{Fn: f, Atom: w.Atom}
	il := &inlined{w: sw, atoms: map[string]string{}}
	subst := map[int]string{}
	for i, a := range call.Common().Args {
		subst[i] = Canon(a)
	}
	for _, a := range sw.CondAtoms() {
		il.atoms[translateAtom(a, subst)] = a
	}
	if w.inl == nil {
		w.inl = map[*ssa.Call]*inlined{}
	}
	w.inl[call] = il
	return il
}

// HelperAtoms returns, for a helper call, the map caller-side atom -> callee-side atom.
func (w *Walker) HelperAtoms(call *ssa.Call) map[string]string {
	if il := w.helperInl(call); il != nil {
		return il.atoms
	}
	return nil
}

// HelperVal gives the valuation of a helper call's own atoms under this walk.
func (k *Walk) HelperVal(call *ssa.Call) (map[string]bool, bool) {
	il := k.W.inl[call]
	if il == nil {
		return nil, false
	}
	sub := map[string]bool{}
	for callerAtom, calleeAtom := range il.atoms {
		x, has := k.Val[callerAtom]
		if !has {
			return nil, false
		}
		sub[calleeAtom] = x
	}
	return sub, true
}

// inlined is a boolean helper of the module used as a branch condition: its
// own walker, and its atoms translated into the caller's vocabulary.
type inlined struct {
	w     *Walker
	atoms map[string]string // caller-side atom -> callee-side atom
	// lookup helper compared with nil (`find(...) != nil`): the condition is true when the helper returns a non-nil
	// value (nilCmp), negated for `== nil` (nilEq)
	nilCmp, nilEq bool
}

// boolHelper recognises `if helper(args...)`: a static call of a module
// function with a body that returns a single bool.
func (w *Walker) boolHelper(v ssa.Value, depth int) *inlined {
	if w.NoInline || depth > 3 {
		return nil
	}
	call, ok := v.(*ssa.Call)
	nilCmp, nilEq := false, false
	if bo, isBO := v.(*ssa.BinOp); isBO && (bo.Op == token.EQL || bo.Op == token.NEQ) {
		// `lookup(args...) != nil`: a helper that returns one of the things it searched, or nil
		x, y := bo.X, bo.Y
		if IsNilConst(x) {
			x, y = y, x
		}
		if xc, isC := x.(*ssa.Call); isC && IsNilConst(y) {
			if g := xc.Common().StaticCallee(); g != nil && InModule(g) && len(g.Blocks) > 0 && g.Signature.Results().Len() == 1 {
				if _, isPtr := g.Signature.Results().At(0).Type().Underlying().(*types.Pointer); isPtr && lookupHelper(g) {
					call, ok, nilCmp, nilEq = xc, true, true, bo.Op == token.EQL
				}
			}
		}
	}
	if !ok {
		return nil
	}
	if il, ok := w.inl[call]; ok {
		return il
	}
	f := call.Common().StaticCallee()
	// slices.ContainsFunc(xs, func(x) bool {...}): "some element satisfies the predicate" - the function literal is the
	// helper, applied to the symbolic element xs[*] (one symbolic element = existential, as for range loops)
	var elemSubst string
	if f != nil && (FuncPkgPath(f) == "slices" || FuncPkgPath(f) == "golang.org/x/exp/slices") && len(call.Common().Args) == 2 {
		name := f.Name()
		if o := f.Origin(); o != nil {
			name = o.Name()
		}
		if mc, isMC := call.Common().Args[1].(*ssa.MakeClosure); isMC && name == "ContainsFunc" {
			if cf, isF := mc.Fn.(*ssa.Function); isF && len(cf.Blocks) > 0 && len(cf.Params) == 1 {
				f, elemSubst = cf, Canon(call.Common().Args[0])+"[*]"
			}
		}
	}
	if f == nil || !InModule(f) || len(f.Blocks) == 0 || f.Signature.Results().Len() != 1 || f == w.Fn {
		return nil
	}
	if b, ok := f.Signature.Results().At(0).Type().Underlying().(*types.Basic); !nilCmp && (!ok || b.Kind() != types.Bool) {
		return nil
	}
	if _, trivial := TrivialGetter(f); trivial {
		return nil
	}
	sw := &Walker{Fn: f, Atom: w.Atom}
	il := &inlined{w: sw, atoms: map[string]string{}, nilCmp: nilCmp, nilEq: nilEq}
	subst := map[int]string{}
	for i, a := range call.Common().Args {
		subst[i] = Canon(a)
	}
	if elemSubst != "" {
		subst = map[int]string{0: elemSubst}
	}
	for _, a := range sw.CondAtoms() {
		ta := translateAtom(a, subst)
		if elemSubst != "" {
			// the function literal's own parameter is printed $$0: it stands for the symbolic element
			ta = normCommutative(replaceParam(ta, "$$0", elemSubst))
		}
		il.atoms[ta] = a
	}
	if w.inl == nil {
		w.inl = map[*ssa.Call]*inlined{}
	}
	w.inl[call] = il
	return il
}

// replaceParam replaces the parameter token (e.g. "$$0") by repl where it is
// not followed by another digit.
func replaceParam(a, tok, repl string) string {
	var sb []byte
	for i := 0; i < len(a); {
		if i+len(tok) <= len(a) && a[i:i+len(tok)] == tok && (i+len(tok) == len(a) || a[i+len(tok)] < '0' || a[i+len(tok)] > '9') && (i == 0 || a[i-1] != '$') {
			sb = append(sb, repl...)
			i += len(tok)
			continue
		}
		sb = append(sb, a[i])
		i++
	}
	return string(sb)
}

// Inlined lists the helper functions whose truth tables were folded into this walker's atoms.
func (w *Walker) Inlined() []*ssa.Function {
	var out []*ssa.Function
	for _, il := range w.inl {
		out = append(out, il.w.Fn)
		out = append(out, il.w.Inlined()...)
	}
	return out
}

// translateAtom rewrites the callee's parameter references ($i, not $$i) by the
// caller-side expressions and re-normalises commutative comparisons.
func TranslateAtom(a string, subst map[int]string) string { return translateAtom(a, subst) }

func translateAtom(a string, subst map[int]string) string {
	var sb []byte
	for i := 0; i < len(a); i++ {
		if a[i] == '$' && (i == 0 || a[i-1] != '$') && i+1 < len(a) && a[i+1] >= '0' && a[i+1] <= '9' {
			j := i + 1
			n := 0
			for j < len(a) && a[j] >= '0' && a[j] <= '9' {
				n = n*10 + int(a[j]-'0')
				j++
			}
			if r, ok := subst[n]; ok {
				sb = append(sb, r...)
				i = j - 1
				continue
			}
		}
		sb = append(sb, a[i])
	}
	return normCommutative(string(sb))
}

// normCommutative sorts the two operands of a top-level ==(A,B).
func normCommutative(s string) string {
	if len(s) < 5 || s[:3] != "==(" || s[len(s)-1] != ')' {
		return s
	}
	body := s[3 : len(s)-1]
	depth := 0
	inStr := false
	for i := 0; i < len(body); i++ {
		c := body[i]
		switch {
		case c == '"' && (i == 0 || body[i-1] != '\\'):
			inStr = !inStr
		case inStr:
		case c == '(' || c == '[' || c == '{':
			depth++
		case c == ')' || c == ']' || c == '}':
			depth--
		case c == ',' && depth == 0:
			a, b := body[:i], body[i+1:]
			if b < a {
				a, b = b, a
			}
			return "==(" + a + "," + b + ")"
		}
	}
	return s
}

// Walk is the state of one walk.
type Walk struct {
	W         *Walker
	Val       map[string]bool
	Prev      *ssa.BasicBlock // predecessor of the current block
	Trace     []*ssa.BasicBlock
	Events    []string
	Ret       *ssa.Return
	Panicked  bool
	Undecided string
	Fork      *ssa.If // set when Choose asked to stop at an undecided fork
	loopSeen  map[*ssa.BasicBlock]int
	InLoop    int // >0 while inside the symbolic iteration of a range loop
	phiEdge   map[*ssa.Phi]ssa.Value
	Data      map[string]any // scratch for the client
}

// rangeHeader reports whether the If ending block b is the bound test of a
// slice range loop (`i+1 < len`) or of a map/string range (`ok` of Next).
func rangeHeader(iff *ssa.If) bool {
	switch c := iff.Cond.(type) {
	case *ssa.BinOp:
		if c.Op == token.LSS {
			// for i := 0; i < len(s); i++ : visits every element in order, like a range loop
			if p, ok := c.X.(*ssa.Phi); ok && p.Block() == iff.Block() && classicIndexPhi(p) != nil {
				return true
			}
			if bo, ok := c.X.(*ssa.BinOp); ok && bo.Op == token.ADD {
				if phi, ok := bo.X.(*ssa.Phi); ok {
					for _, e := range phi.Edges {
						if k, ok := IntConst(e); ok && k == -1 {
							return true
						}
					}
				}
			}
		}
	case *ssa.Extract:
		if _, ok := c.Tuple.(*ssa.Next); ok && c.Index == 0 {
			return true
		}
	}
	return false
}

// IsRangeHeader exposes rangeHeader.
func IsRangeHeader(iff *ssa.If) bool { return rangeHeader(iff) }

// CondAtoms lists the atoms the function branches on (after stripping
// negations); unknown conditions are returned separately. Range-loop bound
// tests and compile-time constants are skipped.
func (w *Walker) CondAtoms() (atoms []string) {
	if w.Atom == nil {
		w.Atom = CanonAtom
	}
	seen := map[string]bool{}
	for _, b := range w.Fn.Blocks {
		if len(b.Instrs) == 0 {
			continue
		}
		iff, ok := b.Instrs[len(b.Instrs)-1].(*ssa.If)
		if !ok {
			continue
		}
		if _, isC := BoolConst(iff.Cond); isC {
			continue
		}
		if rangeHeader(iff) {
			continue
		}
		if phi, isPhi := iff.Cond.(*ssa.Phi); isPhi {
			// boolean variable assembled from several conditions: its operands are the atoms
			for _, e := range phi.Edges {
				if _, isC := BoolConst(e); isC {
					continue
				}
				if inner, _ := Not(e); true {
					if il := w.boolHelper(inner, 0); il != nil {
						for a := range il.atoms {
							if !seen[a] {
								seen[a] = true
								atoms = append(atoms, a)
							}
						}
						continue
					}
				}
				n, _ := w.Atom(e)
				if !seen[n] {
					seen[n] = true
					atoms = append(atoms, n)
				}
			}
			continue
		}
		if inner, _ := Not(iff.Cond); true {
			if il := w.boolHelper(inner, 0); il != nil {
				for a := range il.atoms {
					if !seen[a] {
						seen[a] = true
						atoms = append(atoms, a)
					}
				}
				continue
			}
		}
		name, _ := w.Atom(iff.Cond)
		if !seen[name] {
			seen[name] = true
			atoms = append(atoms, name)
		}
	}
	// boolean results assembled from comparisons that are never branched on
	// (`ok := a == "" || f(x); return ok && ...`): their leaves are atoms too
	var leaves func(v ssa.Value, depth int)
	visited := map[ssa.Value]bool{}
	leaves = func(v ssa.Value, depth int) {
		if v == nil || depth > 12 || visited[v] {
			return
		}
		visited[v] = true
		if _, isC := BoolConst(v); isC {
			return
		}
		inner, _ := Not(v)
		if phi, ok := inner.(*ssa.Phi); ok {
			for _, e := range phi.Edges {
				leaves(e, depth+1)
			}
			return
		}
		if il := w.boolHelper(inner, 0); il != nil {
			for a := range il.atoms {
				if !seen[a] {
					seen[a] = true
					atoms = append(atoms, a)
				}
			}
			return
		}
		n, _ := w.Atom(inner)
		if !seen[n] {
			seen[n] = true
			atoms = append(atoms, n)
		}
	}
	for _, b := range w.Fn.Blocks {
		if len(b.Instrs) == 0 {
			continue
		}
		ret, ok := b.Instrs[len(b.Instrs)-1].(*ssa.Return)
		if !ok {
			continue
		}
		for _, r := range ReturnResults(ret) {
			if bt, ok := r.Type().Underlying().(*types.Basic); ok && bt.Kind() == types.Bool {
				leaves(r, 0)
			}
		}
	}
	for _, hc := range w.Helpers {
		if il := w.helperInl(hc); il != nil {
			for a := range il.atoms {
				if !seen[a] {
					seen[a] = true
					atoms = append(atoms, a)
				}
			}
		}
	}
	sort.Strings(atoms)
	return
}

// EvalBool evaluates a boolean SSA value under the walk's valuation.
func (k *Walk) EvalBool(v ssa.Value) (val bool, ok bool) {
	if b, isC := BoolConst(v); isC {
		return b, true
	}
	inner, neg := Not(v)
	if neg {
		x, ok := k.EvalBool(inner)
		return !x, ok
	}
	if phi, isPhi := v.(*ssa.Phi); isPhi {
		if e, has := k.phiEdge[phi]; has {
			return k.EvalBool(e)
		}
		return false, false
	}
	if il := k.W.boolHelper(v, 0); il != nil {
		sub := map[string]bool{}
		for callerAtom, calleeAtom := range il.atoms {
			x, has := k.Val[callerAtom]
			if !has {
				return false, false
			}
			sub[calleeAtom] = x
		}
		k2 := il.w.Run(sub)
		if k2.Undecided != "" || k2.Ret == nil || len(k2.Ret.Results) != 1 {
			return false, false
		}
		if il.nilCmp {
			// lookupHelper established: every return is the constant nil or a value the helper has dereferenced
			nonNil := !IsNilConst(k2.Resolve(k2.Ret.Results[0]))
			return nonNil != il.nilEq, true
		}
		return k2.EvalBool(k2.Resolve(k2.Ret.Results[0]))
	}
	name, aneg := k.W.Atom(v)
	x, has := k.Val[name]
	if !has {
		return false, false
	}
	return x != aneg, true
}

// PhiValue returns the operand a phi took on this walk.
func (k *Walk) PhiValue(phi *ssa.Phi) (ssa.Value, bool) {
	e, ok := k.phiEdge[phi]
	return e, ok
}

// Resolve follows phis (by walked edge) and value-preserving wrappers.
func (k *Walk) Resolve(v ssa.Value) ssa.Value {
	for i := 0; i < 32; i++ {
		v = Strip(v)
		phi, ok := v.(*ssa.Phi)
		if !ok {
			return v
		}
		e, ok := k.phiEdge[phi]
		if !ok {
			return v
		}
		v = e
	}
	return v
}

// Run walks the function under the valuation.
func (w *Walker) Run(val map[string]bool) *Walk {
	if w.Atom == nil {
		w.Atom = CanonAtom
	}
	k := &Walk{W: w, Val: val, loopSeen: map[*ssa.BasicBlock]int{}, phiEdge: map[*ssa.Phi]ssa.Value{}, Data: map[string]any{}}
	b := w.Fn.Blocks[0]
	for steps := 0; steps < 10000; steps++ {
		k.Trace = append(k.Trace, b)
		// bind phis
		for _, in := range b.Instrs {
			phi, ok := in.(*ssa.Phi)
			if !ok {
				break
			}
			if k.Prev != nil {
				for i, p := range b.Preds {
					if p == k.Prev {
						k.phiEdge[phi] = phi.Edges[i]
					}
				}
			}
		}
		var next *ssa.BasicBlock
		for _, in := range b.Instrs {
			if w.Event != nil {
				w.Event(in, k)
				if k.Undecided != "" {
					return k
				}
			}
			switch x := in.(type) {
			case *ssa.Return:
				k.Ret = x
				return k
			case *ssa.Panic:
				k.Panicked = true
				return k
			case *ssa.Jump:
				next = b.Succs[0]
			case *ssa.If:
				if rangeHeader(x) {
					k.loopSeen[b]++
					if k.loopSeen[b] == 1 {
						k.InLoop++
						next = b.Succs[0]
					} else {
						k.InLoop--
						next = b.Succs[1]
					}
					break
				}
				if w.Choose != nil {
					c := w.Choose(x, k)
					if c == -2 {
						k.Fork = x
						k.Undecided = "fork"
						return k
					}
					if c >= 0 {
						next = b.Succs[c]
						break
					}
				}
				v, ok := k.EvalBool(x.Cond)
				if !ok {
					k.Undecided = fmt.Sprintf("branch on an unrecognised condition %s", Path(x.Cond))
					return k
				}
				if v {
					next = b.Succs[0]
				} else {
					next = b.Succs[1]
				}
			}
		}
		if next == nil {
			k.Undecided = "block without terminator"
			return k
		}
		// a non-range cycle
		if !isRangeHead(next) {
			cnt := 0
			for _, t := range k.Trace {
				if t == next {
					cnt++
				}
			}
			if cnt > 2 {
				k.Undecided = "cycle that is not a range loop"
				return k
			}
		}
		k.Prev = b
		b = next
	}
	k.Undecided = "walk too long"
	return k
}

func isRangeHead(b *ssa.BasicBlock) bool {
	if len(b.Instrs) == 0 {
		return false
	}
	iff, ok := b.Instrs[len(b.Instrs)-1].(*ssa.If)
	return ok && rangeHeader(iff)
}

// Valuations enumerates all 2^n assignments of the atoms.
func Valuations(atoms []string) []map[string]bool {
	n := len(atoms)
	if n > 16 {
		n = 16
	}
	out := make([]map[string]bool, 0, 1<<n)
	for m := 0; m < 1<<n; m++ {
		v := map[string]bool{}
		for i := 0; i < n; i++ {
			v[atoms[i]] = m&(1<<i) != 0
		}
		out = append(out, v)
	}
	return out
}

// ValString renders a valuation compactly.
func ValString(v map[string]bool) string {
	var ks []string
	for k := range v {
		ks = append(ks, k)
	}
	sort.Strings(ks)
	s := ""
	for _, k := range ks {
		if v[k] {
			s += " " + k
		} else {
			s += " !" + k
		}
	}
	return s
}

// AliasTupleHelpers looks for calls of small module helpers of the form
//
//	func h(x T) (V, bool) { v := f(x); if <cond> { return zero, false }; return g(v), true }
//
// and makes the walker see through them: the atom `h(a)#1` is replaced by the
// helper's own condition and the expression `h(a)#0` by what it returns when
// that condition holds. Only helpers with exactly one branch atom whose bool
// result is that atom (or its negation) are aliased; anything else is left
// as an opaque call.
func (w *Walker) AliasTupleHelpers() {
	if w.Atom == nil {
		w.Atom = CanonAtom
	}
	alias := map[string]string{}
	Instrs(w.Fn, func(in ssa.Instruction) {
		call, ok := in.(*ssa.Call)
		if !ok {
			return
		}
		f := call.Common().StaticCallee()
		if f == nil || !InModule(f) || len(f.Blocks) == 0 || f.Signature.Results().Len() != 2 {
			return
		}
		bi := -1
		for i := 0; i < 2; i++ {
			if b, ok := f.Signature.Results().At(i).Type().Underlying().(*types.Basic); ok && b.Kind() == types.Bool {
				bi = i
			}
		}
		if bi < 0 {
			return
		}
		vi := 1 - bi
		sw := &Walker{Fn: f}
		atoms := sw.CondAtoms()
		if len(atoms) != 1 {
			return
		}
		subst := map[int]string{}
		for i, a := range call.Common().Args {
			subst[i] = Canon(a)
		}
		var whenTrue string
		okShape := true
		var atomMeansTrue bool
		for _, av := range []bool{true, false} {
			k := sw.Run(map[string]bool{atoms[0]: av})
			if k.Undecided != "" || k.Ret == nil {
				okShape = false
				break
			}
			res := ReturnResults(k.Ret)
			bv, isC := BoolConst(k.Resolve(res[bi]))
			if !isC {
				okShape = false
				break
			}
			if bv {
				atomMeansTrue = av
				whenTrue = translateAtom(Canon(k.Resolve(res[vi])), subst)
			}
		}
		if !okShape || whenTrue == "" {
			return
		}
		self := Canon(call)
		cond := translateAtom(atoms[0], subst)
		if !atomMeansTrue {
			cond = "!" + cond
		}
		alias[self+fmt.Sprintf("#%d", bi)] = cond
		alias[self+fmt.Sprintf("#%d", vi)] = whenTrue
	})
	if len(alias) == 0 {
		return
	}
	inner := w.Atom
	w.Atom = func(cond ssa.Value) (string, bool) {
		name, neg := inner(cond)
		for from, to := range alias {
			if name == from {
				if len(to) > 0 && to[0] == '!' {
					return to[1:], !neg
				}
				return to, neg
			}
		}
		changed := false
		for from, to := range alias {
			if len(to) > 0 && to[0] == '!' {
				continue
			}
			if i := indexOf(name, from); i >= 0 {
				name = name[:i] + to + name[i+len(from):]
				changed = true
			}
		}
		if changed {
			name = normCommutative(name)
		}
		return name, neg
	}
}

func indexOf(s, sub string) int {
	for i := 0; i+len(sub) <= len(s); i++ {
		if s[i:i+len(sub)] == sub {
			return i
		}
	}
	return -1
}

// lookupHelper: every value g returns is the constant nil or a pointer that g
// itself has dereferenced (a field of it was read), hence non-nil: whether the
// result is nil is decided by which return is taken.
func lookupHelper(g *ssa.Function) bool {
	var ok func(v ssa.Value, depth int) bool
	ok = func(v ssa.Value, depth int) bool {
		v = Strip(v)
		if IsNilConst(v) {
			return true
		}
		if depth > 4 {
			return false
		}
		if phi, isPhi := v.(*ssa.Phi); isPhi {
			for _, e := range phi.Edges {
				if !ok(e, depth+1) {
					return false
				}
			}
			return true
		}
		refs := v.Referrers()
		if refs == nil {
			return false
		}
		for _, r := range *refs {
			if fa, isFA := r.(*ssa.FieldAddr); isFA && fa.X == v {
				return true
			}
		}
		return false
	}
	rets := Returns(g)
	if len(rets) == 0 {
		return false
	}
	for _, ret := range rets {
		res := ReturnResults(ret)
		if len(res) != 1 || !ok(res[0], 0) {
			return false
		}
	}
	return true
}
