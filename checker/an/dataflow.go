package an

import (
	"sort"
	"strings"

	"golang.org/x/tools/go/ssa"
)

// ---------------------------------------------------------------------
// Must-held lock sets.

// LockOp classifies a call as a lock operation on sync.Mutex / sync.RWMutex.
// kind: "Lock", "Unlock", "RLock", "RUnlock", "TryLock", "TryRLock" or "".
func LockOp(c *ssa.CallCommon) (kind string, mutex ssa.Value) {
	f := c.StaticCallee()
	if f == nil || f.Signature.Recv() == nil || FuncPkgPath(f) != "sync" {
		return "", nil
	}
	rt := f.Signature.Recv().Type()
	if !TypeIs(rt, "sync", "Mutex") && !TypeIs(rt, "sync", "RWMutex") {
		return "", nil
	}
	switch f.Name() {
	case "Lock", "Unlock", "RLock", "RUnlock", "TryLock", "TryRLock":
		if len(c.Args) > 0 {
			return f.Name(), c.Args[0]
		}
	}
	return "", nil
}

// LockSet is a set of held locks, keyed "path" (write mode) or "path(r)".
type LockSet map[string]bool

func (s LockSet) clone() LockSet {
	o := LockSet{}
	for k := range s {
		o[k] = true
	}
	return o
}

func (s LockSet) String() string {
	var ks []string
	for k := range s {
		ks = append(ks, k)
	}
	sort.Strings(ks)
	return "{" + strings.Join(ks, ",") + "}"
}

// Holds reports whether the set holds the lock in write mode, or (if
// readOK) in read mode.
func (s LockSet) Holds(path string, readOK bool) bool {
	if s[path] {
		return true
	}
	return readOK && s[path+"(r)"]
}

func intersect(a, b LockSet) LockSet {
	o := LockSet{}
	for k := range a {
		if b[k] {
			o[k] = true
		}
	}
	return o
}

func equalSets(a, b LockSet) bool {
	if len(a) != len(b) {
		return false
	}
	for k := range a {
		if !b[k] {
			return false
		}
	}
	return true
}

// MutexPath names the mutex a Lock/Unlock call operates on: the address
// path of its receiver (e.g. "rw.writerMu", "c.mu", "s.mu").
func MutexPath(m ssa.Value) string {
	m = Strip(m)
	switch x := m.(type) {
	case *ssa.FieldAddr:
		return addrPath(x, 0)
	}
	return Path(m)
}

// LockSets computes, for every instruction of fn, the set of mutexes that are
// held on every path reaching it (forward must analysis). A deferred Unlock
// keeps the lock until exit. entry is the set held on entry.
func LockSets(fn *ssa.Function, entry LockSet) map[ssa.Instruction]LockSet {
	in := map[*ssa.BasicBlock]LockSet{}
	out := map[*ssa.BasicBlock]LockSet{}
	res := map[ssa.Instruction]LockSet{}
	if len(fn.Blocks) == 0 {
		return res
	}
	if entry == nil {
		entry = LockSet{}
	}
	transfer := func(b *ssa.BasicBlock, s LockSet, record bool) LockSet {
		cur := s.clone()
		for _, ins := range b.Instrs {
			if record {
				res[ins] = cur.clone()
			}
			call, ok := ins.(*ssa.Call)
			if !ok {
				continue
			}
			kind, m := LockOp(call.Common())
			if kind == "" {
				continue
			}
			p := MutexPath(m)
			switch kind {
			case "Lock":
				cur[p] = true
			case "RLock":
				cur[p+"(r)"] = true
			case "Unlock":
				delete(cur, p)
			case "RUnlock":
				delete(cur, p+"(r)")
			}
		}
		return cur
	}
	// initialise: entry block gets entry; others "top" (nil = unvisited)
	in[fn.Blocks[0]] = entry
	work := []*ssa.BasicBlock{fn.Blocks[0]}
	for len(work) > 0 {
		b := work[0]
		work = work[1:]
		o := transfer(b, in[b], false)
		if prev, ok := out[b]; ok && equalSets(prev, o) {
			continue
		}
		out[b] = o
		for _, s := range b.Succs {
			var ni LockSet
			first := true
			for _, p := range s.Preds {
				po, ok := out[p]
				if !ok {
					continue
				}
				if first {
					ni = po.clone()
					first = false
				} else {
					ni = intersect(ni, po)
				}
			}
			if s == fn.Blocks[0] {
				ni = intersect(ni, entry)
			}
			if old, ok := in[s]; !ok || !equalSets(old, ni) {
				in[s] = ni
				work = append(work, s)
			} else if _, done := out[s]; !done {
				work = append(work, s)
			}
		}
	}
	for _, b := range fn.Blocks {
		if s, ok := in[b]; ok {
			transfer(b, s, true)
		}
	}
	return res
}

// ---------------------------------------------------------------------
// Event counting on paths (typestate 0 / 1 / 2+).

// CountSet is a bitset over {0,1,2+} of how many events may have happened.
type CountSet uint8

const (
	C0 CountSet = 1 << iota
	C1
	C2 // two or more
)

func (c CountSet) inc() CountSet {
	var o CountSet
	if c&C0 != 0 {
		o |= C1
	}
	if c&(C1|C2) != 0 {
		o |= C2
	}
	return o
}

func (c CountSet) String() string {
	var p []string
	if c&C0 != 0 {
		p = append(p, "0")
	}
	if c&C1 != 0 {
		p = append(p, "1")
	}
	if c&C2 != 0 {
		p = append(p, "2+")
	}
	return "{" + strings.Join(p, ",") + "}"
}

// CountEvents computes for each instruction the set of possible numbers of
// event instructions executed on paths from `from` before reaching it.
// Blocks not reachable from `from` are absent. stop(ins) ends a path (the
// instruction is not passed).
func CountEvents(fn *ssa.Function, from Point, event func(ssa.Instruction) bool, stop func(ssa.Instruction) bool) map[ssa.Instruction]CountSet {
	res := map[ssa.Instruction]CountSet{}
	in := map[*ssa.BasicBlock]CountSet{}
	// process possibly-partial first block separately
	run := func(b *ssa.BasicBlock, start int, s CountSet) (CountSet, bool) {
		cur := s
		for i := start; i < len(b.Instrs); i++ {
			ins := b.Instrs[i]
			res[ins] |= cur
			if stop != nil && stop(ins) {
				return cur, false
			}
			if event(ins) {
				cur = cur.inc()
			}
			if IsExit(ins) {
				return cur, false
			}
		}
		return cur, true
	}
	succs := func(b *ssa.BasicBlock) []*ssa.BasicBlock {
		if len(b.Instrs) > 0 {
			if iff, ok := b.Instrs[len(b.Instrs)-1].(*ssa.If); ok {
				if k, ok := constBranch(iff); ok {
					return []*ssa.BasicBlock{b.Succs[k]}
				}
			}
		}
		return b.Succs
	}
	var work []*ssa.BasicBlock
	o, ft := run(from.B, from.I, C0)
	if ft {
		for _, s := range succs(from.B) {
			if in[s]|o != in[s] {
				in[s] |= o
				work = append(work, s)
			}
		}
	}
	for len(work) > 0 {
		b := work[0]
		work = work[1:]
		o, ft := run(b, 0, in[b])
		if !ft {
			continue
		}
		for _, s := range succs(b) {
			if in[s]|o != in[s] {
				in[s] |= o
				work = append(work, s)
			}
		}
	}
	return res
}

// MayLockSets is the may-analysis counterpart of LockSets: the set of
// mutexes that are held on SOME path reaching each instruction (union at
// joins). A deferred Unlock keeps the lock until exit.
func MayLockSets(fn *ssa.Function, entry LockSet) map[ssa.Instruction]LockSet {
	in := map[*ssa.BasicBlock]LockSet{}
	res := map[ssa.Instruction]LockSet{}
	if len(fn.Blocks) == 0 {
		return res
	}
	if entry == nil {
		entry = LockSet{}
	}
	transfer := func(b *ssa.BasicBlock, s LockSet, record bool) LockSet {
		cur := s.clone()
		for _, ins := range b.Instrs {
			if record {
				res[ins] = cur.clone()
			}
			call, ok := ins.(*ssa.Call)
			if !ok {
				continue
			}
			kind, m := LockOp(call.Common())
			if kind == "" {
				continue
			}
			p := MutexPath(m)
			switch kind {
			case "Lock", "TryLock":
				cur[p] = true
			case "RLock", "TryRLock":
				cur[p+"(r)"] = true
			case "Unlock":
				delete(cur, p)
			case "RUnlock":
				delete(cur, p+"(r)")
			}
		}
		return cur
	}
	in[fn.Blocks[0]] = entry.clone()
	work := []*ssa.BasicBlock{fn.Blocks[0]}
	for len(work) > 0 {
		b := work[0]
		work = work[1:]
		o := transfer(b, in[b], false)
		for _, s := range b.Succs {
			old, ok := in[s]
			ni := LockSet{}
			if ok {
				ni = old.clone()
			}
			for k := range o {
				ni[k] = true
			}
			if !ok || !equalSets(old, ni) {
				in[s] = ni
				work = append(work, s)
			}
		}
	}
	for _, b := range fn.Blocks {
		if s, ok := in[b]; ok {
			transfer(b, s, true)
		}
	}
	return res
}
