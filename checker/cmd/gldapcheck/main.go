// gldapcheck decides the properties of /verif/properties.jsonl for the gldap
// source tree by static analysis (go/types + go/ssa). Nothing under the
// analysed tree is executed.
package main

import (
	"flag"
	"fmt"
	"os"
	"path/filepath"
	"sort"
	"strconv"
	"strings"
	"time"

	"gldapverif/an"
	"gldapverif/report"
	"gldapverif/rules"
)

func main() {
	prop := flag.String("prop", "", "property id (C01..C20), comma list, or 'all'")
	tier := flag.String("tier", "quick", "quick | thorough")
	repo := flag.String("repo", "/repo", "tree to analyse")
	verif := flag.String("verif", "", "verif dir (default: directory above the binary, or /verif)")
	goarch := flag.String("goarch", "", "GOARCH for the load (thorough tier uses 386)")
	overlay := flag.String("overlay", "", "directory whose files overlay the same relative paths of -repo (mutant self-test)")
	noev := flag.Bool("noevidence", false, "do not write evidence / replay files (sub-runs of the thorough tier)")
	flag.Parse()
	if t := os.Getenv("VERIF_TIER"); t != "" && *tier == "" {
		*tier = t
	}
	seed := int64(0)
	if s := os.Getenv("VERIF_SEED"); s != "" {
		seed, _ = strconv.ParseInt(s, 10, 64)
	}
	vdir := *verif
	if vdir == "" {
		vdir = "/verif"
		if exe, err := os.Executable(); err == nil {
			d := filepath.Dir(filepath.Dir(exe))
			if _, err := os.Stat(filepath.Join(d, "MANIFEST.json")); err == nil {
				vdir = d
			}
		}
	}
	var props []string
	if *prop == "all" {
		for k := range rules.Registry {
			props = append(props, k)
		}
		sort.Strings(props)
	} else {
		props = strings.Split(*prop, ",")
	}
	if len(props) == 0 || props[0] == "" {
		fmt.Fprintln(os.Stderr, "usage: gldapcheck -prop Cxx [-tier quick|thorough]")
		os.Exit(2)
	}
	start := time.Now()
	findings, ferr := report.LoadFindings(filepath.Join(vdir, "known_findings.jsonl"))
	var ov map[string][]byte
	if *overlay != "" {
		ov = map[string][]byte{}
		_ = filepath.Walk(*overlay, func(path string, info os.FileInfo, err error) error {
			if err != nil || info.IsDir() {
				return nil
			}
			rel, _ := filepath.Rel(*overlay, path)
			b, rerr := os.ReadFile(path)
			if rerr == nil {
				ov[filepath.Join(*repo, rel)] = b
			}
			return nil
		})
	}
	P, err := an.Load(*repo, false, *goarch, ov)
	exit := 0
	for _, id := range props {
		r := report.New(id)
		if ferr != nil {
			r.Fatal("known_findings.jsonl unreadable: %v", ferr)
		}
		check, ok := rules.Registry[id]
		switch {
		case !ok:
			r.Fatal("no check registered for %s", id)
		case err != nil:
			r.Fatal("cannot load /repo: %v", err)
		default:
			func() {
				defer func() {
					if x := recover(); x != nil {
						r.Fatal("checker panic: %v", x)
						if os.Getenv("GLDAPCHECK_DEBUG") != "" {
							panic(x)
						}
					}
				}()
				if n := len(P.Pkgs); n < 3 {
					r.Fatal("only %d packages loaded, expected >= 3", n)
				}
				r.Explanation = rules.Descriptions[id]
				ctx := &rules.Ctx{P: P, R: r, Tier: *tier, Repo: *repo, Verif: vdir}
				check(ctx)
				if *tier == "thorough" && !*noev {
					rules.Thorough(ctx, id)
				}
			}()
		}
		r.NoEvidence = *noev
		out := r.Finish(vdir, *tier, seed, start, findings)
		if out.ExitCode != 0 {
			exit = 1
		}
	}
	os.Exit(exit)
}
