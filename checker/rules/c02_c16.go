package rules

import (
	"gldapverif/an"
	"gldapverif/report"

	"golang.org/x/tools/go/ssa"
)

func init() {
	Registry["C02"] = checkC02
	Descriptions["C02"] = "Engine E2 on the request-decoding slice (everything reachable from (*conn).readRequest): every instruction of gldap's own code that can raise a run-time panic - unchecked type assertion, slice/string index, re-slice, explicit panic, make with a computed size, integer division, dereference of pointers that are nil by design, library calls with panicking preconditions - is enumerated and must be discharged by facts established on every path " +
		"(length tests, comma-ok assertions, nil tests, success of (*packet).assert evaluated under the options given at the call site, callee success summaries, the validated-flag invariant). The attacker controls child counts, class/type/tag and content of every BER node. The deferred recover in Server.Run is not accepted as a guard. " +
		"C02-errpath: every decode error propagates to a return of serveRequests. Does not decide resource exhaustion inside asn1-ber."
}

func checkC02(c *Ctx) {
	R := c.R
	readRequest := c.fn(G, "(*conn).readRequest")
	serve := c.fn(G, "(*conn).serveRequests")
	if readRequest == nil || serve == nil {
		return
	}
	e := c.newPF()
	sites, fns := e.run([]*ssa.Function{readRequest}, false)
	e.report("C02", sites)
	for _, f := range fns {
		R.Analysed = append(R.Analysed, fname(f))
	}
	R.Count("C02/functions-in-decode-slice", len(fns))
	R.Count("C02/panic-sites", len(sites))
	if len(fns) < 25 {
		R.Fatal("decode slice has only %d functions (expected >= 25): call graph incomplete", len(fns))
	}
	if len(sites) < 40 {
		R.Fatal("only %d panic sites enumerated in the decode slice (expected >= 40)", len(sites))
	}
	// children only grow
	for _, f := range c.shippedFuncs(G) {
		an.Instrs(f, func(in ssa.Instruction) {
			if st, ok := in.(*ssa.Store); ok {
				if fa, ok := st.Addr.(*ssa.FieldAddr); ok && an.FieldAddrName(fa) == "Children" && an.TypeIs(fa.X.Type(), an.PkgBer, "Packet") {
					// a packet this function has just built with a constructor of the ber library is on its way out (being
					// encoded), not a decoded request: no length fact was established for it
					if bc, isCall := an.Strip(fa.X).(*ssa.Call); isCall {
						if g := bc.Common().StaticCallee(); g != nil && an.FuncPkgPath(g) == an.PkgBer && bc.Parent() == f {
							R.OK("C02-children-monotone", fname(f)+": store to Children of a packet under construction", c.pos(in), "the packet is the result of ber."+g.Name()+" in this function")
							return
						}
					}
					R.Fail("C02-children-monotone", fname(f)+": store to Packet.Children", c.pos(in), "gldap assigns a packet's Children directly; length facts established by earlier validation no longer hold")
				}
			}
		})
	}
	R.Trivial("C02-children-monotone", "gldap never assigns Packet.Children directly", "-", "children are only appended (ber.AppendChild), so established minimum child counts stay valid")
	// error propagation
	c.checkErrorsPropagate("C02-errpath", append(fns, serve))
	R.Floor("C02-errpath", 5)
	R.Assumptions = append(R.Assumptions,
		"ber.ReadPacket never puts a nil *Packet into Children and never leaves Data nil",
		"pointer-typed struct fields other than option fields (*int, *ber.Tag) and values the code itself sets to nil are non-nil by construction",
		"ldap.DecompileFilter recovers its own panics (library)")
	R.NotDecided = append(R.NotDecided, "memory/stack exhaustion while parsing inside asn1-ber", "panics inside library code")
}

func init() {
	Registry["C16"] = checkC16
	Descriptions["C16"] = "C16-panicfree: engine E2 with entries ConvertString, SIDBytes, SIDBytesToString, NewEntry, NewEntryAttribute, the New*Response constructors, the NewControl* constructors, the Mux registration methods and every exported With* option; all non-receiver parameters are caller-controlled (any length, nil, any subset/order of options incl. nil options). " +
		"C16-sid-siblings (the binary.Write layout of SIDBytes is a prefix of the binary.Read layout of SIDBytesToString and every binary.Read error is returned), C16-order (Entry.Attributes order depends only on a sorted key slice), C16-paired (every writer of EntryAttribute.Values writes ByteValues with []byte of the same element). " +
		"C16-errpath (in ConvertString / SIDBytes / SIDBytesToString an error of a module helper is tested and no path from its failure edge returns nil or overwrites the pending error). Does not decide ConvertString / SID round-trip value equalities."
}

func checkC16(c *Ctx) {
	R := c.R
	var entries []*ssa.Function
	add := func(pkg, name string) {
		if f := c.fn(pkg, name); f != nil {
			entries = append(entries, f)
		}
	}
	for _, n := range []string{"ConvertString", "SIDBytes", "SIDBytesToString", "NewEntry", "NewEntryAttribute",
		"(*Request).NewResponse", "(*Request).NewModifyResponse", "(*Request).NewExtendedResponse", "(*Request).NewBindResponse", "(*Request).NewSearchDoneResponse", "(*Request).NewSearchResponseEntry",
		"NewControlString", "NewControlManageDsaIT", "NewControlMicrosoftNotification", "NewControlMicrosoftServerLinkTTL", "NewControlMicrosoftShowDeleted", "NewControlBeheraPasswordPolicy", "NewControlPaging",
		"(*Mux).Bind", "(*Mux).Unbind", "(*Mux).Search", "(*Mux).ExtendedOperation", "(*Mux).Modify", "(*Mux).Add", "(*Mux).Delete", "(*Mux).DefaultRoute", "NewMux",
		"(*EntryAttribute).AddValue", "(*Entry).GetAttributeValues"} {
		add(G, n)
	}
	S := c.opts()
	nOpt := 0
	for f := range S.Ctors {
		if an.FuncPkgPath(f) == G && f.Object() != nil && f.Object().Exported() && !takesTestingT(f) {
			entries = append(entries, f)
			nOpt++
		}
	}
	sortFuncs(entries)
	e := c.newPF()
	sites, fns := e.run(entries, true)
	e.report("C16", sites)
	for _, f := range fns {
		R.Analysed = append(R.Analysed, fname(f))
	}
	R.Count("C16/entries", len(entries))
	R.Count("C16/option-constructors", nOpt)
	R.Count("C16/functions", len(fns))
	if len(entries) < 40 || len(fns) < 60 {
		R.Fatal("C16 slice too small: %d entries, %d functions", len(entries), len(fns))
	}
	c.checkSID()
	// C16-errpath: "invalid input yields an error": in the exported helpers an error reported by a helper of the module
	// (readLength, ...) reaches the caller - it is tested, and no path from its failure edge returns a nil error or lets a
	// later call overwrite it
	{
		var helpers []*ssa.Function
		for _, n := range []string{"ConvertString", "SIDBytes", "SIDBytesToString"} {
			if f := c.fn(G, n); f != nil {
				helpers = append(helpers, f)
			}
		}
		c.checkErrorsPropagate("C16-errpath", helpers)
	}
	c.checkEntryOrder()
	c.checkPairedValues()
	// C16-validates: "invalid input yields an error or the documented default": the one constructor with a validation
	// table of its own, NewControlBeheraPasswordPolicy, rejects exactly the invalid option combinations (rule C14-behera:
	// truth table over all option subsets and values)
	if c.importRules(checkC14, func(o report.Obligation) bool { return o.Rule == "C14-behera" }, "C16-validates", " - an invalid combination of options is accepted (or a valid one refused) instead of yielding an error") > 0 {
		R.Floor("C16-validates", 1)
	}
	R.NotDecided = append(R.NotDecided, "ConvertString inverts BER wrapping for every string (value equality)", "SIDBytesToString(SIDBytes(r,a)) == \"S-r-a\" (value equality)")
	R.Assumptions = append(R.Assumptions, "receivers are values produced by gldap itself (non-nil Request with a message)")
}
