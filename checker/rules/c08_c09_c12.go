package rules

import (
	"go/token"
	"go/types"
	"strings"

	"gldapverif/an"
	"gldapverif/report"

	"golang.org/x/tools/go/ssa"
)

func init() {
	Registry["C08"] = checkC08
	Registry["C09"] = checkC09
	Registry["C12"] = checkC12
	Descriptions["C08"] = "Ordering/pairing rules on the per-connection goroutine of (*Server).Run, its deferred teardown, (*conn).close and the per-request goroutine of serveRequests: " +
		"C08-funnel (teardown defer registered before anything that can exit), C08-sequence (requestsWg.Wait -> netConn.Close -> onCloseHandler(id), each exactly once, callback attempted on every path), " +
		"C08-only (close / netConn.Close / onCloseHandler called nowhere else), C08-paired (every requestsWg.Add(1) immediately followed by a go whose first action defers Done; Done nowhere else), " +
		"C08-current (Close applied to conn.netConn loaded after Wait), C08-interruptible (handlers blocked in socket I/O are interrupted on shutdown until the teardown has waited for them: rules C11-waker / -first / -lifetime / C11-deadline-kept, without which Wait -> Close -> OnClose is never reached on Stop), C08-accepted-closed (a connection the accept loop does not hand to the connection goroutine is closed by the loop: rule C12-accounted). Decides exactly-once and ordering on every exit path; does not decide the goroutine/descriptor census."
	Descriptions["C09"] = "C09-counter (connID given to newConn is a loop induction register phi(0,v+1), incremented once per iteration, never a shared cell), " +
		"C09-immutable (conn.connID and Request.conn stored only by their constructors from parameters), C09-getter (ConnectionID returns r.conn.connID), " +
		"C09-onclose (argument of onCloseHandler is a copy of the value given to newConn in the same iteration). Uniqueness within one Run; not across several Run calls or after overflow."
	Descriptions["C12"] = "C12-done-last (connWg.Done ordered after conn.close and onCloseHandler on every path of the per-connection goroutine), " +
		"C12-listener-release (every return of Run after a successful net.Listen closes the listener unless the path is the listener-closed accept error), " +
		"C12-accounted (no goroutine started by Run other than the per-connection one is handed an accepted connection), C12-idempotent (Stop's only error return is guarded by the not-already-closed test), C12-stop-order (listener.Close and cancel precede connWg.Wait). " +
		"C12-add-vs-wait (connWg.Add is ordered with Stop's cancel+Wait by Server.mu and a not-shut-down test in the same critical section), C12-accounted (no goroutine other than the accounted one is handed an accepted connection; from the success edge of Accept every path that leaves the iteration starts that goroutine or closes the socket), C12-nonneg (after a release neither a second release nor the goroutine start is reached without a new Add). Thin wrappers around connWg.Add(1) / Done() are followed. Does not decide kernel-level port state."
}

// ------------------------------------------------------------------ C08

func isCloseOnNetConn(cc *ssa.CallCommon) bool {
	if !isInvoke(cc, "net", "Conn", "Close") {
		return false
	}
	return true
}

func isOnClose(cc *ssa.CallCommon) bool { return isDynCallOfField(cc, G, "Server", "onCloseHandler") }

// onCloseNotifier: f does nothing but report a closed connection: it calls
// s.onCloseHandler(<its parameter i>) exactly once when a handler is set and
// returns without calling it otherwise (`func (s *Server) notifyClosed(id int)`).
func onCloseNotifier(f *ssa.Function) (int, bool) {
	if f == nil || !an.InModule(f) || len(f.Blocks) == 0 {
		return 0, false
	}
	var oc ssa.CallInstruction
	var dones []ssa.CallInstruction
	n := 0
	other := false
	for _, ci := range an.Calls(f) {
		cc := ci.Common()
		switch {
		case isOnClose(cc):
			n++
			oc = ci
		case cc.IsInvoke() && an.TypeIs(cc.Value.Type(), "github.com/hashicorp/go-hclog", "Logger"):
		case isWG(cc, "Done", G, "Server", "connWg") && isCall(ci):
			// the notifier may finish the connection's bookkeeping as well (connWg.Done after the callback: its
			// place is decided by rule C12-done-last)
			dones = append(dones, ci)
		default:
			other = true
		}
	}
	if n != 1 || other || !isCall(oc) {
		return 0, false
	}
	for _, d := range dones {
		if an.Search(an.After(d), isInstr(oc), nil) != nil {
			return 0, false
		}
	}
	idx := -1
	for i, p := range f.Params {
		if an.Strip(oc.Common().Args[0]) == ssa.Value(p) {
			idx = i
		}
	}
	if idx < 0 {
		return 0, false
	}
	an.Instrs(f, func(in ssa.Instruction) {
		if st, isSt := in.(*ssa.Store); isSt {
			// (the argument list of a log call is assembled in a local array)
			root := st.Addr
			for {
				if ia, ok := root.(*ssa.IndexAddr); ok {
					root = ia.X
					continue
				}
				if fa, ok := root.(*ssa.FieldAddr); ok {
					root = fa.X
					continue
				}
				break
			}
			if _, local := root.(*ssa.Alloc); !local {
				other = true
			}
		}
	})
	if other {
		return 0, false
	}
	isHandlerNil := func(v ssa.Value) bool {
		x, _, ok := an.NilCheck(v)
		if !ok {
			return false
		}
		_, ok = fieldLoad(x, G, "Server", "onCloseHandler")
		return ok
	}
	// a return that skips the call is under "handler == nil"; the call is never repeated
	skips := false
	for _, ret := range an.Returns(f) {
		if an.Search(an.Entry(f), isInstr(ret), isInstr(oc)) != nil {
			nilSide := false
			for _, fct := range an.BranchFacts(ret.Block()) {
				cond, neg := an.Not(fct.Cond)
				if isHandlerNil(cond) {
					_, trueMeansNil, _ := an.NilCheck(cond)
					if (fct.True != neg) == trueMeansNil {
						nilSide = true
					}
				}
			}
			if !nilSide {
				skips = true
			}
		}
	}
	if skips {
		// `if h := s.onCloseHandler; h != nil { h(id) }; <rest>`: the paths that skip the call all leave the one nil test
		// on its nil side - from its non-nil side every path to a return passes the call
		guards := ifsOn(f, isHandlerNil)
		if len(guards) != 1 {
			return 0, false
		}
		g := guards[0]
		cond, _ := an.Not(g.If.Cond)
		_, trueMeansNil, _ := an.NilCheck(cond)
		nonNil := succOn(g.If, trueMeansNil == g.Neg)
		if an.Search(an.Point{B: nonNil, I: 0}, an.IsReturn, isInstr(oc)) != nil {
			return 0, false
		}
		if an.Search(an.Entry(f), an.IsReturn, or(isInstr(g.If), isInstr(oc))) != nil {
			return 0, false
		}
	}
	if an.Search(an.After(oc), isInstr(oc), nil) != nil {
		return 0, false
	}
	return idx, true
}

// onCloseReport: the call reports a closed connection to the OnClose handler,
// directly or through a notifier helper; returns the ID argument.
func onCloseReport(cc *ssa.CallCommon) (id ssa.Value, viaHelper bool, ok bool) {
	if isOnClose(cc) {
		return cc.Args[0], false, true
	}
	if f := an.StaticCallee(cc); f != nil {
		if i, isN := onCloseNotifier(f); isN && i < len(cc.Args) {
			return cc.Args[i], true, true
		}
	}
	return nil, false, false
}

func checkC08(c *Ctx) {
	R := c.R
	m := c.serverModel()
	if m == nil {
		return
	}
	shipped := c.shippedFuncs(G)

	// ---- C08-funnel
	if m.tdDefer != nil {
		risky := func(in ssa.Instruction) bool {
			switch x := in.(type) {
			case *ssa.Call:
				// set-up that cannot fail, block or call back: channel / context construction, time, logging, atomics
				cc := x.Common()
				if _, isB := cc.Value.(*ssa.Builtin); isB {
					return false
				}
				if cc.IsInvoke() && an.TypeIs(cc.Value.Type(), "github.com/hashicorp/go-hclog", "Logger") {
					return false
				}
				if f := cc.StaticCallee(); f != nil {
					switch an.FuncPkgPath(f) + "." + f.Name() {
					case "context.WithCancel", "context.Background", "context.TODO", "time.Now", "time.Since", "context.AfterFunc", "context.WithCancelCause", "context.WithoutCancel":
						return false // (AfterFunc only registers the callback; it runs on a goroutine of its own)
					}
					if an.FuncPkgPath(f) == "sync/atomic" {
						return false
					}
				}
				return true
			case *ssa.Go, *ssa.Return, *ssa.Panic, *ssa.RunDefers:
				return true
			case *ssa.Defer:
				return in != ssa.Instruction(m.tdDefer)
			}
			return false
		}
		if w := an.Search(an.Entry(m.connFn), risky, isInstr(m.tdDefer)); w != nil {
			R.Fail("C08-funnel", fname(m.connFn)+": teardown defer first", c.pos(m.tdDefer), "something that can return, panic or register another defer runs before the teardown is registered: "+c.trail(w))
		} else {
			R.OK("C08-funnel", fname(m.connFn)+": teardown defer first", c.pos(m.tdDefer), "the defer of "+fname(m.teardown)+" precedes every call/return in the connection goroutine, so all exits of serveRequests (EOF, error, unbind, shutdown, recovered panic) funnel through it")
		}
	} else {
		// teardown inline in connFn: must be reached on every path after serveRequests; a panic would skip it
		R.Fail("C08-funnel", fname(m.connFn)+": teardown defer first", c.pos(m.closeCall), "conn.close() is called inline, not from a deferred function: a panic in serveRequests skips the teardown")
	}
	// serveRequests call happens after the defer and exactly once
	R.Trivial("C08-funnel", fname(m.connFn)+": calls serveRequests", c.pos(m.serveCall), "direct synchronous call")

	// ---- C08-sequence inside (*conn).close
	isWait := callPred(func(cc *ssa.CallCommon) bool { return isWG(cc, "Wait", G, "conn", "requestsWg") })
	isClose := callPred(isCloseOnNetConn)
	var closeCalls []ssa.CallInstruction
	for _, ci := range an.Calls(m.closeFn) {
		if isClose(ci) {
			closeCalls = append(closeCalls, ci)
		}
	}
	wcount := an.CountEvents(m.closeFn, an.Entry(m.closeFn), isWait, nil)
	ccount := an.CountEvents(m.closeFn, an.Entry(m.closeFn), isClose, nil)
	for _, ret := range an.Returns(m.closeFn) {
		key := "(*conn).close: Wait and Close exactly once"
		if wcount[ret] == an.C1 && ccount[ret] == an.C1 {
			R.OK("C08-sequence", key, c.pos(ret), "on every path to this return: one requestsWg.Wait and one netConn.Close")
		} else {
			R.Fail("C08-sequence", key, c.pos(ret), sprintf("on paths to this return requestsWg.Wait is called %s times and netConn.Close %s times", wcount[ret], ccount[ret]))
		}
	}
	// between the Wait and the Close nothing does I/O on the connection (a "drain what the client still sends" read, a
	// final write): such a call has no deadline once the handlers are gone and can block for as long as the client
	// keeps its side open - the socket is then never closed and OnClose never called
	{
		touches := func(ci ssa.CallInstruction) string {
			if isClose(ci) || isWait(ci) {
				return ""
			}
			if s := c.blockingSocketIO(ci, map[*ssa.Function]bool{}); s != "" {
				return s
			}
			cc := ci.Common()
			if f := cc.StaticCallee(); f != nil && an.InModule(f) {
				return ""
			}
			vals := append([]ssa.Value{}, cc.Args...)
			if cc.IsInvoke() {
				vals = append(vals, cc.Value)
			}
			for _, a := range vals {
				for _, fld := range []string{"reader", "writer", "netConn"} {
					if _, ok := fieldLoad(a, G, "conn", fld); ok {
						name := "a call"
						if f := cc.StaticCallee(); f != nil {
							name = f.String()
						} else if cc.IsInvoke() {
							name = cc.Method.Name()
						}
						if fld == "netConn" && cc.IsInvoke() && (socketMethodOK[cc.Method.Name()] || cc.Method.Name() == "Close") {
							continue
						}
						return name + " on conn." + fld
					}
				}
			}
			return ""
		}
		bad := ""
		var at ssa.Instruction
		for f := range syncReach(m.closeFn) {
			if !an.InModule(f) {
				continue
			}
			for _, ci := range an.Calls(f) {
				if t := touches(ci); t != "" && bad == "" {
					bad, at = t, ci
				}
			}
		}
		if bad == "" {
			R.OK("C08-sequence", "(*conn).close: nothing between Wait and Close does I/O on the connection", c.P.Pos(m.closeFn.Pos()), "close only waits for the handlers and closes the socket")
		} else {
			R.Fail("C08-sequence", "(*conn).close: nothing between Wait and Close does I/O on the connection", c.pos(at), "close() performs "+bad+": with the handlers gone nothing bounds that I/O, so a client that keeps its side open keeps the server from ever closing the socket (and from calling OnClose)")
		}
	}
	for _, cl := range closeCalls {
		if w := an.Search(an.Entry(m.closeFn), isInstr(cl), isWait); w != nil {
			R.Fail("C08-sequence", "(*conn).close: Wait before Close", c.pos(cl), "the socket can be closed before the in-flight handlers have been waited for: "+c.trail(w))
		} else {
			R.OK("C08-sequence", "(*conn).close: Wait before Close", c.pos(cl), "every path to netConn.Close passes requestsWg.Wait")
		}
		// receiver: conn.netConn of the receiver, loaded after Wait
		recv := cl.Common().Value
		base, ok := fieldLoad(recv, G, "conn", "netConn")
		if !ok || an.Strip(base) != ssa.Value(m.closeFn.Params[0]) {
			R.Fail("C08-current", "(*conn).close: Close on c.netConn", c.pos(cl), "Close is not applied to the receiver's netConn field (got "+an.Path(recv)+")")
		} else {
			ld := an.Strip(recv).(*ssa.UnOp)
			if w := an.Search(an.Entry(m.closeFn), isInstr(ld), isWait); w != nil {
				R.Fail("C08-current", "(*conn).close: Close on c.netConn", c.pos(cl), "c.netConn is read before Wait: a StartTLS upgrade by an in-flight handler could replace it afterwards")
			} else {
				R.OK("C08-current", "(*conn).close: Close on c.netConn", c.pos(cl), "c.netConn is loaded after requestsWg.Wait returned")
			}
		}
	}
	R.Floor("C08-sequence", 2)

	// ---- C08-sequence inside teardown: close -> onClose; callback attempted on every path
	T := m.teardown
	var oncloseCalls []ssa.CallInstruction
	viaNotifier := false
	for _, ci := range an.Calls(T) {
		if _, via, ok := onCloseReport(ci.Common()); ok {
			oncloseCalls = append(oncloseCalls, ci)
			viaNotifier = via
		}
	}
	if len(oncloseCalls) != 1 {
		R.Fail("C08-sequence", fname(T)+": onCloseHandler called once", c.P.Pos(T.Pos()), sprintf("expected exactly one call of s.onCloseHandler in the teardown, found %d", len(oncloseCalls)))
	} else {
		oc := oncloseCalls[0]
		if !isCall(oc) {
			R.Fail("C08-sequence", fname(T)+": onCloseHandler synchronous", c.pos(oc), "the callback is deferred or started on another goroutine")
		}
		if w := an.Search(an.Entry(T), isInstr(oc), isInstr(m.closeCall)); w != nil {
			R.Fail("C08-sequence", fname(T)+": close before onCloseHandler", c.pos(oc), "OnClose can be called before the connection was closed: "+c.trail(w))
		} else {
			R.OK("C08-sequence", fname(T)+": close before onCloseHandler", c.pos(oc), "every path to the callback passes conn.close()")
		}
		// the nil guard
		guards := ifsOn(T, func(v ssa.Value) bool {
			x, _, ok := an.NilCheck(v)
			if !ok {
				return false
			}
			_, ok = fieldLoad(x, G, "Server", "onCloseHandler")
			return ok
		})
		switch {
		case viaNotifier:
			// the nil test lives in the notifier helper: every path through the teardown calls the helper exactly once
			ok := true
			if w := an.Search(an.Entry(T), an.IsReturn, isInstr(oc)); w != nil {
				ok = false
				R.Fail("C08-sequence", fname(T)+": onCloseHandler on every path", c.pos(oc), "a path leaves the teardown without reporting the closed connection (e.g. an early return when close fails): "+c.trail(w))
			}
			if an.Search(an.After(oc), isInstr(oc), nil) != nil {
				ok = false
				R.Fail("C08-sequence", fname(T)+": onCloseHandler on every path", c.pos(oc), "the callback can run more than once")
			}
			if ok {
				R.OK("C08-sequence", fname(T)+": onCloseHandler on every path", c.pos(oc), "every path through the teardown calls the notifier helper exactly once; the helper calls the handler exactly when one is set")
			}
		case len(guards) != 1:
			R.Unknown("C08-sequence", fname(T)+": onCloseHandler on every path", c.pos(oc), sprintf("expected one `s.onCloseHandler != nil` test guarding the callback, found %d", len(guards)))
		default:
			g := guards[0]
			_, trueMeansNil, _ := an.NilCheck(func() ssa.Value { v, _ := an.Not(g.If.Cond); return v }())
			nonNil := succOn(g.If, trueMeansNil == g.Neg) // successor where handler != nil
			ok := true
			if w := an.Search(an.Entry(T), an.IsReturn, isInstr(g.If)); w != nil {
				ok = false
				R.Fail("C08-sequence", fname(T)+": onCloseHandler on every path", c.pos(g.If), "a path leaves the teardown without reaching the OnClose test (e.g. an early return when close fails): "+c.trail(w))
			}
			if w := an.Search(an.Point{B: nonNil, I: 0}, an.IsReturn, isInstr(oc)); w != nil {
				ok = false
				R.Fail("C08-sequence", fname(T)+": onCloseHandler on every path", c.pos(g.If), "with a handler configured a path still skips the callback: "+c.trail(w))
			}
			cnt := an.CountEvents(T, an.Entry(T), isInstr(oc), nil)
			for _, ret := range an.Returns(T) {
				if cnt[ret]&an.C2 != 0 {
					ok = false
					R.Fail("C08-sequence", fname(T)+": onCloseHandler on every path", c.pos(ret), "the callback can run more than once")
				}
			}
			if ok {
				R.OK("C08-sequence", fname(T)+": onCloseHandler on every path", c.pos(g.If), "every path through the teardown reaches the nil test, and with a handler set calls it exactly once (also when Close returned an error)")
			}
		}
	}
	// close exactly once in teardown
	kc := an.CountEvents(T, an.Entry(T), isInstr(m.closeCall), nil)
	for _, ret := range an.Returns(T) {
		if kc[ret] == an.C1 {
			R.OK("C08-sequence", fname(T)+": conn.close exactly once", c.pos(ret), "one call on every path")
		} else {
			R.Fail("C08-sequence", fname(T)+": conn.close exactly once", c.pos(ret), "conn.close() is called "+kc[ret].String()+" times on paths to this return")
		}
	}
	if !isCall(m.closeCall) {
		R.Fail("C08-sequence", fname(T)+": conn.close synchronous", c.pos(m.closeCall), "conn.close is deferred or on another goroutine")
	}

	// ---- C08-only
	nOnly := 0
	for _, f := range shipped {
		for _, ci := range an.Calls(f) {
			cc := ci.Common()
			switch {
			case an.CalleeIs(cc, G, "(*conn).close"):
				nOnly++
				R.Check(ci == m.closeCall || (m.closeHelper != nil && f == m.closeHelper), "C08-only", fname(f)+": calls (*conn).close", c.pos(ci), "the teardown's single call", "(*conn).close is called outside the connection teardown: the connection would be closed twice or before its handlers end")
			case isCloseOnNetConn(cc):
				nOnly++
				R.Check(f == m.closeFn, "C08-only", fname(f)+": net.Conn.Close", c.pos(ci), "only (*conn).close closes the socket", "a net.Conn is closed outside (*conn).close")
			case isOnClose(cc):
				nOnly++
				_, inNotifier := onCloseNotifier(f)
				R.Check(f == T || inNotifier, "C08-only", fname(f)+": onCloseHandler", c.pos(ci), "only the teardown (or its notifier helper) reports OnClose", "onCloseHandler is invoked outside the connection teardown")
			case func() bool { _, via, ok := onCloseReport(cc); return ok && via }():
				nOnly++
				R.Check(f == T, "C08-only", fname(f)+": OnClose notifier", c.pos(ci), "only the teardown calls the notifier helper", "the OnClose notifier helper is called outside the connection teardown")
			}
		}
	}
	// *tls.Conn Close etc. (static callee on tls.Conn)
	for _, u := range c.socketUses() {
		if u.Kind == "method:Close" && u.Fn != m.closeFn {
			R.Fail("C08-only", fname(u.Fn)+": socket Close", c.pos(u.Instr), "the connection's socket is closed outside (*conn).close")
		}
	}
	// library calls that close the socket on their own: (*tls.Conn).HandshakeContext closes the underlying
	// net.Conn when its context is done before the handshake ends. In code a handler can run (the exported
	// methods of Request / ResponseWriter and what they call) its context must therefore be one that is never
	// cancelled (context.Background / TODO); a cancellable one - the server's shutdown context above all - closes
	// the socket while other handlers of the connection still run and before the teardown.
	handlerAPI := map[*ssa.Function]bool{}
	for _, f := range shipped {
		if f.Parent() == nil && f.Object() != nil && f.Object().Exported() && f.Signature.Recv() != nil &&
			(an.TypeIs(f.Signature.Recv().Type(), G, "Request") || an.TypeIs(f.Signature.Recv().Type(), G, "ResponseWriter")) {
			for g := range syncReach(f) {
				for _, a := range an.WithClosures(g) {
					handlerAPI[a] = true
				}
			}
		}
	}
	for _, f := range shipped {
		if !handlerAPI[f] {
			continue
		}
		for _, ci := range an.Calls(f) {
			cc := ci.Common()
			if !an.CalleeIs(cc, "crypto/tls", "(*Conn).HandshakeContext") || len(cc.Args) < 2 {
				continue
			}
			nOnly++
			okCtx := false
			if call, ok := an.Strip(cc.Args[1]).(*ssa.Call); ok {
				okCtx = an.CalleeIs(call.Common(), "context", "Background") || an.CalleeIs(call.Common(), "context", "TODO")
			}
			R.Check(okCtx, "C08-only", fname(f)+": tls HandshakeContext cannot close the socket", c.pos(ci), "context.Background()/TODO(): never cancelled", "HandshakeContext is given a cancellable context ("+an.Path(cc.Args[1])+") in code that handlers run: when it is cancelled crypto/tls closes the connection's socket itself, while other handlers of the connection are still running and before the teardown")
		}
	}
	R.Floor("C08-only", 3)

	// ---- C08-paired
	isAdd := func(cc *ssa.CallCommon) bool { return isWG(cc, "Add", G, "conn", "requestsWg") }
	isDone := func(cc *ssa.CallCommon) bool { return isWG(cc, "Done", G, "conn", "requestsWg") }
	nAdd := 0
	for _, f := range shipped {
		for _, ci := range an.Calls(f) {
			cc := ci.Common()
			if isAdd(cc) {
				nAdd++
				key := fname(f) + ": requestsWg.Add"
				k, isConst := int64(1), wgAddIsOne(ci)
				switch {
				case f != m.serve:
					R.Fail("C08-paired", key, c.pos(ci), "requestsWg.Add is called outside the read loop's goroutine; it must happen-before the teardown's Wait")
				case !isConst || k != 1:
					R.Fail("C08-paired", key, c.pos(ci), "Add argument is not the constant 1")
				default:
					// after the Add every path starts the handler goroutine before it can leave the iteration
					// (bookkeeping such as logging or an atomic counter may sit in between)
					g := m.reqGo
					if g == nil || goTarget(g) == nil {
						R.Fail("C08-paired", key, c.pos(ci), "no go statement of a handler goroutine in the read loop")
						break
					}
					leave := or(an.IsReturn, func(in ssa.Instruction) bool { return in.Block() == m.loopHead && an.PointOf(in).I == 0 })
					if w := an.Search(an.After(ci), leave, isInstr(g)); w != nil {
						R.Fail("C08-paired", key, c.pos(ci), "Add(1) is not always followed by the go statement of the handler goroutine: the teardown's Wait would never return: "+c.trail(w))
						break
					}
					if w := an.Search(an.Point{B: m.loopHead, I: 0}, isInstr(g), isInstr(ci)); w != nil {
						R.Fail("C08-paired", key, c.pos(g), "the handler goroutine can be started without a preceding requestsWg.Add(1): "+c.trail(w))
						break
					}
					if an.Search(an.After(ci), isInstr(ci), isInstr(g)) != nil {
						R.Fail("C08-paired", key, c.pos(ci), "Add(1) can run twice before one handler goroutine is started")
						break
					}
					t := goTarget(g)
					// the target defers Done before doing anything else
					var dd *ssa.Defer
					for _, tc := range an.Calls(t) {
						d, ok := tc.(*ssa.Defer)
						if !ok {
							continue
						}
						if isDone(d.Common()) {
							dd = d
						} else if df := an.StaticCallee(d.Common()); df != nil && df.Parent() == t {
							for _, ic := range an.Calls(df) {
								if isDone(ic.Common()) && isCall(ic) {
									// Done must be reached on every path of the deferred closure
									if w := an.Search(an.Entry(df), an.IsReturn, isInstr(ic)); w == nil {
										dd = d
									}
								}
							}
						}
					}
					if dd == nil {
						R.Fail("C08-paired", key, c.pos(g), "the handler goroutine does not defer requestsWg.Done(): a panic or early return would leave the teardown waiting forever, or Done is skipped")
						break
					}
					risky := func(in ssa.Instruction) bool {
						switch in.(type) {
						case *ssa.Call, *ssa.Go, *ssa.Return, *ssa.Panic:
							return true
						}
						return false
					}
					if w := an.Search(an.Entry(t), risky, isInstr(dd)); w != nil {
						R.Fail("C08-paired", key, c.pos(dd), "the handler goroutine does work before deferring requestsWg.Done(): "+c.trail(w))
					} else {
						R.OK("C08-paired", key, c.pos(ci), "Add(1) on the read-loop goroutine, immediately followed by go "+fname(t)+", whose first action is to defer requestsWg.Done()")
					}
				}
			}
			if isDone(cc) {
				root := f
				for root.Parent() != nil && root != m.reqFn {
					root = root.Parent()
				}
				R.Check(m.reqFn != nil && root == m.reqFn, "C08-paired", fname(f)+": requestsWg.Done", c.pos(ci), "Done only inside the per-request goroutine", "requestsWg.Done is called outside the per-request goroutine")
			}
		}
	}
	if nAdd == 0 {
		R.Note("no requestsWg.Add site: requests are not dispatched on goroutines of their own (see C06)")
	}
	if m.reqGo != nil {
		R.Floor("C08-paired", 1)
	}
	// ---- C08-interruptible: "however it ends (... server Stop) x handlers blocked / writing": the teardown's Wait only
	// returns - and the socket is only closed and reported - if handlers blocked in socket I/O are interrupted when the
	// server stops, for as long as the connection's handlers run (rules C11-waker, C11-waker-first, C11-waker-lifetime)
	if !c.Sub {
		tmp := &Ctx{P: c.P, R: report.New("tmp"), Tier: c.Tier, Sub: true}
		checkC11(tmp)
		n := 0
		for _, o := range tmp.R.Obls {
			if o.Rule == "C11-waker" || o.Rule == "C11-waker-first" || o.Rule == "C11-waker-lifetime" || o.Rule == "C11-deadline-kept" {
				n++
				switch o.Status {
				case report.Discharged:
					R.OK("C08-interruptible", o.Construct, o.Pos, o.Detail)
				default:
					R.Fail("C08-interruptible", o.Construct, o.Pos, o.Detail)
				}
			}
		}
		R.Floor("C08-interruptible", 2)
	}
	// ---- C08-onclose-id: "calls the OnClose handler exactly once with that connection's ID": the argument is the ID this
	// connection was given (rule C09-onclose)
	// ---- C08-accepted-closed: "for every accepted connection ... the server closes the socket": a connection the accept
	// loop does not hand to the connection goroutine is closed by the loop itself (rule C12-accounted, imported)
	c.importRules(checkC12, func(o report.Obligation) bool {
		return o.Rule == "C12-accounted" && strings.Contains(o.Construct, "served or closed")
	}, "C08-accepted-closed", "")
	if c.importRules(checkC09, func(o report.Obligation) bool { return o.Rule == "C09-onclose" }, "C08-onclose-id", " - OnClose is told about another connection than the one that ended") > 0 {
		c.R.Floor("C08-onclose-id", 1)
	}
	c.R.NotDecided = append(c.R.NotDecided, "final census: no goroutine or descriptor of the connection remains (run-time)", "handlers that never return")
	c.R.Assumptions = append(c.R.Assumptions, "WaitGroup.Wait returns only after the counter reached zero; Add happens-before Wait because both run on the connection goroutine")
}

// ------------------------------------------------------------------ C09

// inductionPlusOne recognises v = phi(0, v') + 1 with v' == v on every back edge.
func inductionPlusOne(v ssa.Value) (ok bool, why string) {
	// the loop variable itself: for id := k; ; id++  =>  phi(k, phi+1)
	if phi, isPhi := v.(*ssa.Phi); isPhi && len(phi.Edges) == 2 {
		sawConst, sawInc := false, false
		for _, e := range phi.Edges {
			if _, isC := e.(*ssa.Const); isC {
				sawConst = true
				continue
			}
			if bo, isB := e.(*ssa.BinOp); isB && bo.Op == token.ADD && bo.X == ssa.Value(phi) {
				if k, isK := an.IntConst(bo.Y); isK && k == 1 {
					sawInc = true
				}
			}
		}
		if sawConst && sawInc {
			return true, "loop variable phi(k, v+1): one increment per iteration, single definition"
		}
	}
	bo, isb := v.(*ssa.BinOp)
	if !isb || bo.Op != token.ADD {
		return false, "not an addition (" + an.Path(v) + ")"
	}
	k, isK := an.IntConst(bo.Y)
	phi, isPhi := bo.X.(*ssa.Phi)
	if !isK || k != 1 || !isPhi {
		if k2, ok2 := an.IntConst(bo.X); ok2 && k2 == 1 {
			phi, isPhi = bo.Y.(*ssa.Phi)
		}
		if !isPhi {
			return false, "not of the form counter+1 with counter a loop-carried register"
		}
	}
	sawZero, sawSelf := false, false
	for _, e := range phi.Edges {
		if z, ok := an.IntConst(e); ok && z == 0 {
			if _, isConst := e.(*ssa.Const); isConst {
				sawZero = true
				continue
			}
		}
		if e == ssa.Value(bo) {
			sawSelf = true
			continue
		}
		return false, "counter has another definition: " + an.Path(e)
	}
	if !sawZero || !sawSelf {
		return false, "counter is not phi(0, counter+1)"
	}
	return true, "phi(0, v+1)+1: starts at 1, one increment per iteration, single definition"
}

// cellCounter: v is a load of a local variable of Run whose only assignments
// are its initialisation to 0 before the accept loop and one `x = x + 1`
// (all in Run itself), the increment being executed exactly once per
// iteration before the value is handed to newConn.
func cellCounter(v ssa.Value, m *serverModel) (bool, string) {
	ld, ok := v.(*ssa.UnOp)
	if !ok || ld.Op != token.MUL {
		return false, ""
	}
	al, ok := ld.X.(*ssa.Alloc)
	if !ok {
		return false, ""
	}
	stores, esc := an.CellStores(al)
	if esc {
		return false, ""
	}
	head := loopHeadOf(m.accept)
	var inc *ssa.Store
	for _, st := range stores {
		if st.Parent() != m.run {
			return false, "the counter is assigned from a closure"
		}
		if k, isK := an.IntConst(st.Val); isK && k == 0 && loopHeadOf(st) != head {
			continue
		}
		bo, isB := st.Val.(*ssa.BinOp)
		if !isB || bo.Op != token.ADD || inc != nil {
			return false, "the counter has another assignment"
		}
		k, isK := an.IntConst(bo.Y)
		l2, isL := bo.X.(*ssa.UnOp)
		if !isK || k != 1 || !isL || l2.Op != token.MUL || l2.X != ssa.Value(al) {
			return false, "the counter's assignment is not counter+1"
		}
		inc = st
	}
	if inc == nil || loopHeadOf(inc) != head || !an.InstrDominates(inc, m.newConn) {
		return false, "the increment is not executed in every iteration before newConn"
	}
	// exactly once per iteration: no path from the increment back to itself without passing the loop head
	if an.Search(an.After(inc), isInstr(inc), inBlock(head)) != nil {
		return false, "the increment can run more than once per iteration"
	}
	return true, "variable initialised to 0 and assigned only by one `x = x + 1` of Run, executed once per accept-loop iteration before newConn (closures only read it)"
}

// generatorCounter recognises the connection ID handed out by a small
// sequence object private to Run: `var ids seq; ...; id := ids.next()` where
// next() does nothing but `q.last++; return q.last`, the object is a local of
// Run used only as the receiver of that method, and the call is executed
// once per accept-loop iteration before newConn.
func generatorCounter(v ssa.Value, m *serverModel) (bool, string) {
	call, ok := v.(*ssa.Call)
	if !ok {
		return false, ""
	}
	g := an.StaticCallee(call.Common())
	if g == nil || !an.InModule(g) || len(g.Params) != 1 || len(call.Common().Args) != 1 || len(g.Blocks) != 1 {
		return false, ""
	}
	al, isAl := call.Common().Args[0].(*ssa.Alloc)
	if !isAl || al.Parent() != m.run {
		return false, "the sequence object is not a local of Run"
	}
	for _, r := range *al.Referrers() {
		switch x := r.(type) {
		case *ssa.DebugRef:
		case *ssa.Call:
			if an.StaticCallee(x.Common()) != g {
				return false, "the sequence object is used by something else than its next() method"
			}
		default:
			return false, "the sequence object is used by something else than its next() method"
		}
	}
	// body: t = *(&q.f); t1 = t + 1; *(&q.f) = t1; return t1
	var st *ssa.Store
	n := 0
	an.Instrs(g, func(in ssa.Instruction) {
		switch x := in.(type) {
		case *ssa.Store:
			st = x
			n++
		case ssa.CallInstruction:
			n += 10
		}
	})
	if n != 1 {
		return false, "next() does more than one store"
	}
	fa, isFA := st.Addr.(*ssa.FieldAddr)
	bo, isB := st.Val.(*ssa.BinOp)
	if !isFA || fa.X != ssa.Value(g.Params[0]) || !isB || bo.Op != token.ADD {
		return false, "next() does not increment a field of its receiver"
	}
	k, isK := an.IntConst(bo.Y)
	ld, isLd := bo.X.(*ssa.UnOp)
	if !isK || k != 1 || !isLd || ld.Op != token.MUL {
		return false, "next() does not add one"
	}
	fa2, isFA2 := ld.X.(*ssa.FieldAddr)
	if !isFA2 || fa2.X != fa.X || fa2.Field != fa.Field {
		return false, "next() does not increment the field it reads"
	}
	rets := an.Returns(g)
	if len(rets) != 1 || len(rets[0].Results) != 1 {
		return false, "next() does not return the incremented value"
	}
	if rv := rets[0].Results[0]; rv != ssa.Value(bo) {
		// `return q.last`: a re-load of the field after the (only) store
		rl, isRL := rv.(*ssa.UnOp)
		fa3, isFA3 := (ssa.Value)(nil), false
		if isRL && rl.Op == token.MUL {
			if f3, ok3 := rl.X.(*ssa.FieldAddr); ok3 && f3.X == fa.X && f3.Field == fa.Field {
				fa3, isFA3 = f3, true
			}
		}
		_ = fa3
		if !isFA3 || !an.InstrDominates(st, rl) {
			return false, "next() does not return the incremented value"
		}
	}
	head := loopHeadOf(m.accept)
	if loopHeadOf(call) != head || !an.InstrDominates(call, m.newConn) || an.Search(an.After(call), isInstr(call), inBlock(head)) != nil {
		return false, "next() is not called exactly once per accept-loop iteration before newConn"
	}
	return true, "ID handed out by a sequence object private to Run (zero-initialised local, used only through " + fname(g) + ", which increments and returns its counter), once per accept-loop iteration before newConn"
}

// atomicFieldCounter: the ID is the result of `s.f.Add(1)` on a typed atomic
// integer field of the Server (atomic.Int64 / Int32 / Uint64 ...) that nothing
// else in gldap adds to, stores, swaps or compare-and-swaps: every Add(1)
// returns a value no other Add(1) returns.
func (c *Ctx) atomicFieldCounter(idArg ssa.Value, m *serverModel) (bool, string) {
	v := an.Strip(idArg)
	if cv, ok := v.(*ssa.Convert); ok {
		v = an.Strip(cv.X)
	}
	call, ok := v.(*ssa.Call)
	if !ok {
		return false, ""
	}
	g := call.Common().StaticCallee()
	if g == nil || an.FuncPkgPath(g) != "sync/atomic" || g.Name() != "Add" || g.Signature.Recv() == nil || len(call.Common().Args) != 2 {
		return false, ""
	}
	if k, isK := an.IntConst(call.Common().Args[1]); !isK || k != 1 {
		return false, "the atomic counter is not advanced by exactly 1"
	}
	fa, ok := call.Common().Args[0].(*ssa.FieldAddr)
	if !ok || !an.TypeIs(fa.X.Type(), G, "Server") {
		return false, "the atomic counter is not a field of the Server"
	}
	name := an.FieldAddrName(fa)
	for _, f := range c.shippedFuncs(G) {
		for _, ci := range an.Calls(f) {
			h := ci.Common().StaticCallee()
			if h == nil || an.FuncPkgPath(h) != "sync/atomic" || h.Signature.Recv() == nil || len(ci.Common().Args) == 0 {
				continue
			}
			ofa, isFA := ci.Common().Args[0].(*ssa.FieldAddr)
			if !isFA || !an.TypeIs(ofa.X.Type(), G, "Server") || an.FieldAddrName(ofa) != name {
				continue
			}
			if ci == ssa.CallInstruction(call) || h.Name() == "Load" {
				continue
			}
			return false, "Server." + name + " is also changed by " + h.Name() + " in " + fname(f)
		}
	}
	if loopHeadOf(call) == nil || loopHeadOf(call) != loopHeadOf(m.accept) {
		return false, "the atomic counter is not advanced in the accept loop"
	}
	return true, "Server." + name + ".Add(1), the only operation on that atomic field that changes it: no two calls return the same value"
}

// serverFieldCounter: the ID is read from an int field of the Server right
// after the field's only store in gldap, `s.f++`, both in Run under one
// uninterrupted hold of s.mu (write mode): every read follows an increment of
// its own in the same critical section, so no two reads see the same value.
func (c *Ctx) serverFieldCounter(idArg ssa.Value, m *serverModel) (bool, string) {
	ld, ok := an.Strip(idArg).(*ssa.UnOp)
	if !ok || ld.Op != token.MUL {
		return false, ""
	}
	fa, ok := ld.X.(*ssa.FieldAddr)
	if !ok || !an.TypeIs(fa.X.Type(), G, "Server") {
		return false, ""
	}
	name := an.FieldAddrName(fa)
	var stores []fieldStore
	for _, fs := range fieldStores(c.shippedFuncs(G), G, "Server", name) {
		stores = append(stores, fs)
	}
	if len(stores) != 1 || stores[0].Fn != m.run {
		return false, sprintf("Server.%s is stored in %d places (expected the one increment in Run)", name, len(stores))
	}
	st := stores[0].Store
	bo, ok := an.Strip(st.Val).(*ssa.BinOp)
	if !ok || bo.Op != token.ADD {
		return false, "Server." + name + " is not incremented by one"
	}
	if k, isK := an.IntConst(bo.Y); !isK || k != 1 {
		return false, "Server." + name + " is not incremented by one"
	}
	if _, isF := fieldLoad(bo.X, G, "Server", name); !isF {
		return false, "Server." + name + " is not incremented from its own value"
	}
	ls := an.LockSets(m.run, nil)
	if !ls[st].Holds("s.mu", false) || !ls[ld].Holds("s.mu", false) {
		return false, "Server." + name + " is not incremented and read under s.mu (write mode)"
	}
	if !an.InstrDominates(st, ld) {
		return false, "the ID is read before Server." + name + " is incremented"
	}
	unlock := callPred(func(cc *ssa.CallCommon) bool { k, _ := an.LockOp(cc); return k == "Unlock" || k == "RUnlock" })
	// no path from the increment to the read releases the lock in between (without passing the increment again)
	stOrLd := func(in ssa.Instruction) bool { return in == ssa.Instruction(st) || in == ssa.Instruction(ld) }
	for _, ci := range an.Calls(m.run) {
		if !unlock(ci) {
			continue
		}
		if an.Search(an.After(st), isInstr(ci), stOrLd) != nil && an.Search(an.After(ci), isInstr(ld), isInstr(st)) != nil {
			return false, "the lock can be released between the increment of Server." + name + " and the read that takes the ID"
		}
	}
	return true, "Server." + name + " is incremented (its only store) and read in one critical section of s.mu in Run: each ID follows an increment of its own"
}

func checkC09(c *Ctx) {
	R := c.R
	m := c.serverModel()
	if m == nil {
		return
	}
	shipped := c.shippedFuncs(G)
	newConnFn := c.fn(G, "newConn")
	newRequest := c.fn(G, "newRequest")
	readRequest := c.fn(G, "(*conn).readRequest")
	getter := c.fn(G, "(*Request).ConnectionID")
	if newConnFn == nil || newRequest == nil || readRequest == nil || getter == nil {
		return
	}
	// C09-counter
	idArg := m.newConn.Common().Args[1]
	ok, why := inductionPlusOne(idArg)
	if !ok {
		// the counter kept in a variable cell (it is captured by some closure): same requirement on the cell
		if ok2, why2 := cellCounter(idArg, m); ok2 {
			ok, why = true, why2
		} else if ok3, why3 := generatorCounter(an.Strip(idArg), m); ok3 {
			ok, why = true, why3
		} else if ok5, why5 := c.atomicFieldCounter(idArg, m); ok5 {
			ok, why = true, why5
		} else if ok4, why4 := c.serverFieldCounter(idArg, m); ok4 {
			ok, why = true, why4
		} else if why4 != "" {
			why = why4
		} else if why3 != "" {
			why = why3
		}
	}
	if ok {
		R.OK("C09-counter", "(*Server).Run: connID passed to newConn", c.pos(m.newConn), why)
	} else {
		R.Fail("C09-counter", "(*Server).Run: connID passed to newConn", c.pos(m.newConn), "the connection ID is not a private, strictly increasing loop counter: "+why)
	}
	// the same loop as Accept
	if loopHeadOf(m.newConn) == nil || loopHeadOf(m.newConn) != loopHeadOf(m.accept) {
		R.Fail("C09-counter", "(*Server).Run: counter belongs to the accept loop", c.pos(m.newConn), "newConn and Accept are not in the same loop")
	} else if bo, isb := idArg.(*ssa.BinOp); isb && bo.Block() != nil && loopHeadOf(bo) == loopHeadOf(m.accept) || ok {
		R.OK("C09-counter", "(*Server).Run: counter belongs to the accept loop", c.pos(m.newConn), "incremented inside the accept loop, once per iteration")
	}
	// C09-immutable
	n := 0
	for _, fs := range fieldStores(shipped, G, "conn", "connID") {
		n++
		R.Check(fs.Fn == newConnFn && an.Strip(fs.Store.Val) == ssa.Value(newConnFn.Params[1]), "C09-immutable", fname(fs.Fn)+": store conn.connID", c.pos(fs.Store),
			"stored once by newConn from its connID parameter", "conn.connID is written outside newConn or not from its parameter (value "+an.Path(fs.Store.Val)+")")
		if fs.Fn == newConnFn {
			// ... into a conn that nobody else can hold: a fresh allocation, not an object taken from a pool or handed in
			_, fresh := an.Strip(fs.Base).(*ssa.Alloc)
			R.Check(fresh, "C09-immutable", "newConn: the conn is a fresh allocation", c.pos(fs.Store), "&conn{...} allocated by this call", "newConn stores the ID into "+an.Path(fs.Base)+", which is not a conn allocated by this call (a recycled object?): requests that still refer to it, e.g. kept by a handler, start reporting the new connection's ID")
		}
	}
	if n == 0 {
		R.Fail("C09-immutable", "newConn: store conn.connID", c.P.Pos(newConnFn.Pos()), "newConn never stores the connection ID")
	}
	n = 0
	for _, fs := range fieldStores(shipped, G, "Request", "conn") {
		n++
		// the hand-built disconnection notice request: a fresh composite literal in a method of *conn
		_, fresh := an.Strip(fs.Base).(*ssa.Alloc)
		litRoot := fs.Fn // the method the literal is written in (possibly inside a function literal of it)
		for litRoot.Parent() != nil {
			litRoot = litRoot.Parent()
		}
		inShutdownLit := fs.Fn == m.serve || (fresh && litRoot.Signature.Recv() != nil && len(litRoot.Params) > 0 && ptrNamed(litRoot.Params[0].Type()) == "conn")
		switch {
		case fs.Fn == newRequest:
			R.Check(an.Strip(fs.Store.Val) == ssa.Value(newRequest.Params[1]), "C09-immutable", "newRequest: store Request.conn", c.pos(fs.Store), "from parameter c", "Request.conn is not newRequest's conn parameter")
		case inShutdownLit:
			R.Check(an.Strip(fs.Store.Val) == ssa.Value(litRoot.Params[0]), "C09-immutable", fname(fs.Fn)+": store Request.conn", c.pos(fs.Store), "hand-built notice request carries the receiver conn", "Request.conn of the hand-built request is not the receiver")
		default:
			R.Fail("C09-immutable", fname(fs.Fn)+": store Request.conn", c.pos(fs.Store), "Request.conn is written outside newRequest")
		}
	}
	for _, ci := range callTo(readRequest, G, "newRequest") {
		R.Check(an.Strip(ci.Common().Args[1]) == ssa.Value(readRequest.Params[0]), "C09-immutable", "(*conn).readRequest: newRequest(_, c, _)", c.pos(ci), "the reading connection itself", "readRequest does not pass its own receiver as the request's connection")
	}
	for _, ci := range callSites(shipped, isStatic(G, "newRequest")) {
		if ci.Parent() != readRequest {
			R.Unknown("C09-immutable", fname(ci.Parent())+": newRequest", c.pos(ci), "newRequest called from an unexpected place")
		}
	}
	R.Floor("C09-immutable", 2)
	// C09-getter
	for _, ret := range an.Returns(getter) {
		v := ret.Results[0]
		base, ok := fieldLoad(v, G, "conn", "connID")
		ok2 := false
		if ok {
			if rb, ok3 := fieldLoad(base, G, "Request", "conn"); ok3 && an.Strip(rb) == ssa.Value(getter.Params[0]) {
				ok2 = true
			}
		}
		R.Check(ok2, "C09-getter", "(*Request).ConnectionID returns r.conn.connID", c.pos(ret), "identity data flow", "ConnectionID returns "+an.Path(v)+", not r.conn.connID")
	}
	// C09-onclose
	for _, ci := range an.Calls(m.teardown) {
		idv, _, isRep := onCloseReport(ci.Common())
		if !isRep {
			continue
		}
		arg := an.StripX(idv)
		// the ID handed back by a helper of the teardown (`id, err := s.closeConn(conn, done)`): every return of the
		// helper must yield the connID of the conn it was given
		if ex, isEx := arg.(*ssa.Extract); isEx {
			if hc, isCall := ex.Tuple.(*ssa.Call); isCall {
				if hf := an.StaticCallee(hc.Common()); hf != nil && an.InModule(hf) && len(hf.Blocks) > 0 {
					var connArg ssa.Value
					all := true
					for _, ret := range an.Returns(hf) {
						res := an.ReturnResults(ret)
						if ex.Index >= len(res) {
							all = false
							continue
						}
						b, okF := fieldLoad(res[ex.Index], G, "conn", "connID")
						p, isP := an.Strip(b).(*ssa.Parameter)
						if !okF || !isP {
							all = false
							continue
						}
						for i, hp := range hf.Params {
							if hp == p && i < len(hc.Common().Args) {
								connArg = hc.Common().Args[i]
							}
						}
					}
					if all && connArg != nil {
						if cex, isC := an.StripX(connArg).(*ssa.Extract); isC && cex.Tuple == ssa.Value(m.newConn) && cex.Index == 0 {
							arg = an.StripX(idArg)
						}
					}
				}
			}
		}
		// conn.connID of the conn built in this iteration: written once, by newConn, from its connID parameter (C09-immutable)
		if base, ok := fieldLoad(arg, G, "conn", "connID"); ok {
			if ex, isEx := an.StripX(base).(*ssa.Extract); isEx && ex.Tuple == ssa.Value(m.newConn) && ex.Index == 0 {
				arg = an.StripX(idArg)
			}
		}
		R.Check(arg == an.StripX(idArg), "C09-onclose", fname(m.teardown)+": onCloseHandler(id)", c.pos(ci),
			"argument is a per-iteration copy of the very value given to newConn", "OnClose receives "+an.Path(idv)+", not the ID given to newConn for this connection")
	}
	R.Floor("C09-onclose", 1)
	R.Assumptions = append(R.Assumptions, "one Run per Server: IDs restart at 1 if Run is called again on the same Server", "no wrap-around of int")
	R.NotDecided = append(R.NotDecided, "uniqueness across several Run calls / after 2^63 accepts")
}

// ------------------------------------------------------------------ C12

func isClosedAtom(v ssa.Value) bool {
	call, ok := v.(*ssa.Call)
	if !ok {
		return false
	}
	cc := call.Common()
	if an.CalleeIs(cc, "strings", "Contains") {
		if s, ok := an.StrConst(cc.Args[1]); ok && (s == "use of closed network connection" || s == "closed network connection") {
			return true
		}
	}
	if an.CalleeIs(cc, "errors", "Is") {
		if g, ok := an.Strip(cc.Args[1]).(*ssa.UnOp); ok {
			if gl, ok := g.X.(*ssa.Global); ok && gl.Pkg.Pkg.Path() == "net" && gl.Name() == "ErrClosed" {
				return true
			}
		}
	}
	// a one-line predicate of the module wrapping one of the tests above: func isClosedErr(err error) bool { return <test>(err) }
	if f := cc.StaticCallee(); f != nil && an.InModule(f) && len(f.Params) == 1 && len(cc.Args) == 1 && f.Signature.Results().Len() == 1 {
		rets := an.Returns(f)
		if len(rets) >= 1 {
			all := true
			for _, ret := range rets {
				res := an.ReturnResults(ret)[0]
				if v, isC := an.BoolConst(res); isC && !v {
					continue // e.g. `if err == nil { return false }`
				}
				if v, isC := an.BoolConst(res); isC && v {
					// `if <test>(err) { return true }`: a return of true under one of the tests
					if hasFact(ret.Block(), true, func(x ssa.Value) bool {
						ic, isCall := x.(*ssa.Call)
						return isCall && ic.Common().StaticCallee() != f && isClosedAtom(ic)
					}) {
						continue
					}
					all = false
					continue
				}
				// `return err != nil && <test>(err)`: a phi of false and the test
				vals := []ssa.Value{res}
				if phi, isPhi := res.(*ssa.Phi); isPhi {
					vals = phi.Edges
				}
				nTest := 0
				for i, rv := range vals {
					if v, isC := an.BoolConst(rv); isC && !v {
						continue
					}
					if v, isC := an.BoolConst(rv); isC && v {
						// `<test1>(err) || <test2>(err)`: the constant-true edge comes from the true branch of another test
						if phi, isPhi := res.(*ssa.Phi); isPhi && i < len(phi.Block().Preds) {
							p := phi.Block().Preds[i]
							if iff, isIf := p.Instrs[len(p.Instrs)-1].(*ssa.If); isIf && p.Succs[0] == phi.Block() && p.Succs[1] != phi.Block() {
								if ic, isCall := iff.Cond.(*ssa.Call); isCall && ic.Common().StaticCallee() != f && isClosedAtom(ic) {
									nTest++
									continue
								}
							}
						}
						all = false
						continue
					}
					inner, ok := rv.(*ssa.Call)
					if !ok || inner.Common().StaticCallee() == f || !isClosedAtom(inner) {
						all = false
					}
					nTest++
				}
				if nTest == 0 {
					all = false
				}
			}
			return all
		}
	}
	return false
}

func isListenerClose(cc *ssa.CallCommon) bool { return isInvoke(cc, "net", "Listener", "Close") }

// reserveHelper recognises `if !s.reserve() { return }` in Run: the Add sits in
// a helper that runs only as a synchronous part of Run, returns a bool, performs
// exactly one connWg.Add(1) on every path to `return true` and none on a path to
// `return false`, and Run branches on the result. Returns the call in Run and
// the successors for "reserved" / "not reserved".
func (c *Ctx) reserveHelper(add ssa.CallInstruction, m *serverModel) (call *ssa.Call, reserved, not *ssa.BasicBlock, why string) {
	h := add.Parent()
	if ok, w := syncOnlyFrom(h, m.run, c.shippedFuncs(G), 0); !ok {
		return nil, nil, nil, fname(h) + " does not run only as part of Run: " + w
	}
	if h.Signature.Results().Len() != 1 || !types.Identical(h.Signature.Results().At(0).Type(), types.Typ[types.Bool]) {
		return nil, nil, nil, fname(h) + " does not return a bool"
	}
	cnt := an.CountEvents(h, an.Entry(h), isInstr(add), nil)
	for _, ret := range an.Returns(h) {
		v, isC := an.BoolConst(an.ReturnResults(ret)[0])
		if !isC {
			return nil, nil, nil, fname(h) + " returns a non-constant"
		}
		if v && cnt[ret] != an.C1 || !v && cnt[ret] != an.C0 {
			return nil, nil, nil, sprintf("%s returns %v on a path with %s Add calls", fname(h), v, cnt[ret])
		}
	}
	for _, ci := range an.Calls(m.run) {
		hc, ok := ci.(*ssa.Call)
		if !ok || an.StaticCallee(hc.Common()) != h {
			continue
		}
		if call != nil {
			return nil, nil, nil, fname(h) + " is called more than once in Run"
		}
		call = hc
	}
	if call == nil {
		return nil, nil, nil, fname(h) + " is not called directly by Run"
	}
	for _, x := range ifsOn(m.run, func(v ssa.Value) bool { return v == ssa.Value(call) }) {
		if x.If.Block() != call.Block() {
			continue
		}
		return call, succOn(x.If, !x.Neg), succOn(x.If, x.Neg), ""
	}
	return nil, nil, nil, "Run does not branch on the result of " + fname(h)
}

func checkC12(c *Ctx) {
	R := c.R
	m := c.serverModel()
	if m == nil {
		return
	}
	// ---- C12-accounted: an accepted connection is handed to no goroutine other than the per-connection goroutine, the
	// only one whose end Stop waits for (connWg): any other `go` in Run (or in what Run calls synchronously) that is
	// given the accepted socket or the conn built on it can still hold the connection open when Stop and Run return.
	{
		fromAccept := func(v ssa.Value) bool {
			var walk func(v ssa.Value, d int) bool
			walk = func(v ssa.Value, d int) bool {
				if v == nil || d > 6 {
					return false
				}
				v = an.Strip(v)
				if ex, ok := v.(*ssa.Extract); ok {
					if ex.Tuple == ssa.Value(m.accept) || m.newConn != nil && ex.Tuple == ssa.Value(m.newConn) {
						return true
					}
				}
				if v == ssa.Value(m.newConn) && m.newConn != nil {
					return true
				}
				if al, ok := an.CellRoot(v).(*ssa.Alloc); ok {
					sts, _ := an.CellStores(al)
					for _, st := range sts {
						if walk(st.Val, d+1) {
							return true
						}
					}
				}
				switch x := v.(type) {
				case *ssa.UnOp:
					return walk(x.X, d+1)
				case *ssa.FieldAddr:
					return walk(x.X, d+1)
				case *ssa.MakeInterface:
					return walk(x.X, d+1)
				}
				return false
			}
			return walk(v, 0)
		}
		n := 0
		fns := []*ssa.Function{m.run}
		for f := range syncReach(m.run) {
			if f != m.run && an.InModule(f) && !c.P.IsTestFile(f.Pos()) {
				fns = append(fns, f)
			}
		}
		for _, f := range fns {
			for _, ci := range an.Calls(f) {
				g, ok := ci.(*ssa.Go)
				if !ok {
					continue
				}
				n++
				key := fname(f) + ": go " + an.Path(g.Common().Value)
				if sf := an.StaticCallee(g.Common()); sf != nil {
					key = fname(f) + ": go " + fname(sf)
				}
				if g == m.connGo {
					R.OK("C12-accounted", key, c.pos(g), "the per-connection goroutine: its teardown closes the connection and only then calls connWg.Done")
					continue
				}
				holds := false
				for _, a := range g.Common().Args {
					if fromAccept(a) {
						holds = true
					}
				}
				if mc, isMC := g.Common().Value.(*ssa.MakeClosure); isMC {
					for _, b := range mc.Bindings {
						if fromAccept(b) {
							holds = true
						}
					}
				}
				R.Check(!holds, "C12-accounted", key, c.pos(g), "is not given an accepted connection", "this goroutine is handed an accepted connection but is not the per-connection goroutine that connWg accounts for: Stop and Run can return while it still holds the socket open (and OnClose is never called for it)")
			}
		}
		R.Count("C12-accounted/go-statements", n)
		R.Floor("C12-accounted", 1)
		// ... and an accepted connection that is not handed to the per-connection goroutine is closed by the accept loop
		// itself: from the success edge of Accept every path that leaves the iteration (return, next iteration) without
		// starting the connection goroutine closes the socket. The failure edge of newConn is exempt: newConn refuses only
		// nil arguments and a zero ID, which Run never passes (NewServer installs context, logger and router; rule C09-counter).
		if m.accept != nil && m.accept.Parent() == m.run && m.connGo != nil {
			errEdge := func(call ssa.Value, wantNil bool) []*ssa.BasicBlock {
				var out []*ssa.BasicBlock
				for _, b := range m.run.Blocks {
					iff, isIf := b.Instrs[len(b.Instrs)-1].(*ssa.If)
					if !isIf {
						continue
					}
					cond, neg := an.Not(iff.Cond)
					x, trueMeansNil, isNC := an.NilCheck(cond)
					if !isNC {
						continue
					}
					ex, isEx := an.StripX(x).(*ssa.Extract)
					if !isEx || ex.Tuple != call || ex.Index != ex.Tuple.Type().(*types.Tuple).Len()-1 {
						continue
					}
					nilSucc := 0
					if !trueMeansNil {
						nilSucc = 1
					}
					if neg {
						nilSucc = 1 - nilSucc
					}
					if wantNil {
						out = append(out, b.Succs[nilSucc])
					} else {
						out = append(out, b.Succs[1-nilSucc])
					}
				}
				return out
			}
			okEdges := errEdge(m.accept, true)
			exempt := map[*ssa.BasicBlock]bool{}
			if m.newConn != nil {
				for _, b := range errEdge(m.newConn, false) {
					exempt[b] = true
				}
			}
			closes := func(in ssa.Instruction) bool {
				ci, isCI := in.(ssa.CallInstruction)
				if !isCI || isGo(ci) {
					return false
				}
				cc := ci.Common()
				if cc.IsInvoke() && cc.Method.Name() == "Close" && fromAccept(cc.Value) {
					return true
				}
				if g := an.StaticCallee(cc); g != nil && an.InModule(g) {
					for ai, a := range cc.Args {
						if !fromAccept(a) || ai >= len(g.Params) {
							continue
						}
						if fname(g) == "(*conn).close" {
							return true
						}
						for _, gi := range an.Calls(g) {
							gc := gi.Common()
							if gc.IsInvoke() && gc.Method.Name() == "Close" && an.Strip(gc.Value) == ssa.Value(g.Params[ai]) {
								return true
							}
						}
					}
				}
				return false
			}
			head := loopHeadOf(m.accept)
			leaves := or(an.IsReturn, func(in ssa.Instruction) bool { return head != nil && in.Block() == head && an.PointOf(in).I == 0 })
			avoid := or(isInstr(m.connGo), closes, func(in ssa.Instruction) bool { return exempt[in.Block()] })
			key := "(*Server).Run: an accepted connection is served or closed"
			if len(okEdges) == 0 {
				R.Unknown("C12-accounted", key, c.pos(m.accept), "no test of Accept's error found in Run: the success edge cannot be located")
			}
			for _, b := range okEdges {
				w := an.Search(an.Point{B: b, I: 0}, leaves, avoid)
				R.Check(w == nil, "C12-accounted", key, c.pos(m.accept), "every path from Accept's success edge starts the connection goroutine or closes the socket before leaving the iteration",
					"a connection is accepted and then neither handed to the connection goroutine nor closed: it stays open after Stop and Run have returned and OnClose is never called for it: "+c.trail(w))
			}
		}
	}

	// ---- C12-done-last
	isDone := func(cc *ssa.CallCommon) bool { return isWG(cc, "Done", G, "Server", "connWg") }
	var doneSites []ssa.CallInstruction
	for _, f := range c.shippedFuncs(G) {
		for _, ci := range an.Calls(f) {
			if isDone(ci.Common()) {
				doneSites = append(doneSites, ci)
			}
		}
	}
	var inConn []ssa.CallInstruction
	var releases []ssa.CallInstruction
	for _, d := range doneSites {
		if d.Parent() == m.run {
			releases = append(releases, d)
		} else {
			inConn = append(inConn, d)
		}
	}
	if len(inConn) != 1 {
		R.Fail("C12-done-last", "connWg.Done: single site in the connection goroutine", c.P.Pos(m.connFn.Pos()), sprintf("expected exactly one connWg.Done call in the connection goroutine, found %d", len(inConn)))
	} else {
		d := inConn[0]
		key := fname(d.Parent()) + ": connWg.Done after close and OnClose"
		// nothing but logging after Done
		notLog := func(in ssa.Instruction) bool {
			ci, isC := in.(ssa.CallInstruction)
			if !isC {
				return false
			}
			cc := ci.Common()
			if cc.IsInvoke() && an.TypeIs(cc.Value.Type(), "github.com/hashicorp/go-hclog", "Logger") {
				return false
			}
			// bookkeeping that cannot block or call back into user code: atomic counters, time, formatting
			if f := cc.StaticCallee(); f != nil {
				switch an.FuncPkgPath(f) {
				case "sync/atomic", "time", "fmt", "strconv":
					return false
				}
			}
			if _, isB := cc.Value.(*ssa.Builtin); isB {
				return false
			}
			// an accessor of the module that only returns a field (e.g. the connection ID for the log line)
			if g := an.StaticCallee(cc); g != nil && an.InModule(g) {
				if _, _, isGetter := an.FieldGetter(g); isGetter {
					return false
				}
			}
			return true
		}
		// the tail of the teardown may live in a helper (`s.connClosed(id, err)`: report OnClose, then Done): the helper is
		// called from nowhere else, by the teardown, after conn.close() on every path
		var tailCall ssa.CallInstruction
		if H := d.Parent(); H != m.teardown && H.Parent() == nil {
			var sites []ssa.CallInstruction
			for _, f := range c.shippedFuncs(G) {
				for _, ci := range an.Calls(f) {
					if an.StaticCallee(ci.Common()) == H {
						sites = append(sites, ci)
					}
				}
			}
			if len(sites) == 1 && sites[0].Parent() == m.teardown && isCall(sites[0]) {
				tailCall = sites[0]
			}
		}
		switch {
		case tailCall != nil && isCall(d):
			H := d.Parent()
			ok := true
			if w := an.Search(an.Entry(m.teardown), isInstr(tailCall), isInstr(m.closeCall)); w != nil {
				ok = false
				R.Fail("C12-done-last", key, c.pos(d), fname(H)+", which calls connWg.Done(), can run before the connection is closed: "+c.trail(w))
			}
			if w := an.Search(an.Entry(m.teardown), an.IsReturn, isInstr(tailCall)); w != nil {
				ok = false
				R.Fail("C12-done-last", key, c.pos(d), "a path through the teardown never calls "+fname(H)+" and so never connWg.Done(): Stop would wait forever: "+c.trail(w))
			}
			if w := an.Search(an.Entry(H), an.IsReturn, isInstr(d)); w != nil {
				ok = false
				R.Fail("C12-done-last", key, c.pos(d), "a path through "+fname(H)+" never calls connWg.Done(): Stop would wait forever: "+c.trail(w))
			}
			if w := an.Search(an.After(d), or(callPred(isOnClose), isInstr(d)), nil); w != nil {
				ok = false
				R.Fail("C12-done-last", key, c.pos(d), "connWg.Done() runs before OnClose has been called (or twice): "+c.trail(w))
			}
			if w := an.Search(an.After(d), notLog, nil); w != nil && ok {
				ok = false
				R.Fail("C12-done-last", key, c.pos(d), "work other than logging follows connWg.Done(): "+c.trail(w))
			}
			if w := an.Search(an.After(tailCall), or(notLog, isInstr(m.closeCall), callPred(isOnClose)), nil); w != nil && ok {
				ok = false
				R.Fail("C12-done-last", key, c.pos(tailCall), "work other than logging follows the call of "+fname(H)+" (which has called connWg.Done()): "+c.trail(w))
			}
			if ok {
				R.OK("C12-done-last", key, c.pos(d), "Done is the last effect of "+fname(H)+", which the teardown calls last, after conn.close() (Wait+Close), on every path")
			}
		case d.Parent() == m.teardown && isCall(d):
			after := or(isInstr(m.closeCall), callPred(isOnClose))
			ok := true
			if w := an.Search(an.After(d), after, nil); w != nil {
				ok = false
				R.Fail("C12-done-last", key, c.pos(d), "connWg.Done() runs before the connection is closed / OnClose has been called, so Stop can return while handlers still run and before the callback: "+c.trail(w))
			}
			if w := an.Search(an.Entry(m.teardown), an.IsReturn, isInstr(d)); w != nil {
				ok = false
				R.Fail("C12-done-last", key, c.pos(d), "a path through the teardown never calls connWg.Done(): Stop would wait forever: "+c.trail(w))
			}
			if w := an.Search(an.After(d), notLog, nil); w != nil && ok {
				ok = false
				R.Fail("C12-done-last", key, c.pos(d), "work other than logging follows connWg.Done(): "+c.trail(w))
			}
			if ok {
				R.OK("C12-done-last", key, c.pos(d), "Done is the last effect of the teardown, after conn.close() (Wait+Close) and the OnClose callback, on every path")
			}
		case d.Parent().Parent() == m.teardown && an.ClosureSite(d.Parent()) != nil && func() bool {
			// Done inside a function literal that the teardown defers at its start: `defer func() { s.connWg.Done(); log }()`
			for _, tc := range an.Calls(m.teardown) {
				if dd, isD := tc.(*ssa.Defer); isD && an.StaticCallee(dd.Common()) == d.Parent() && an.InstrDominates(dd, m.closeCall) {
					return isCall(d)
				}
			}
			return false
		}():
			R.OK("C12-done-last", key, c.pos(d), "in a function the teardown defers at its start: runs after conn.close() and OnClose whichever way the teardown returns")
		case d.Parent() == m.teardown && isDefer(d) && m.teardown != m.connFn:
			// `defer s.connWg.Done()` at the top of a named teardown function: it runs when the teardown returns, i.e.
			// after conn.close() and the OnClose callback on every path (including an early return)
			if an.InstrDominates(d, m.closeCall) {
				R.OK("C12-done-last", key, c.pos(d), "deferred at the start of the teardown: runs after conn.close() and OnClose whichever way the teardown returns")
			} else {
				R.Fail("C12-done-last", key, c.pos(d), "the deferred Done is registered only on some paths of the teardown")
			}
		case d.Parent() == m.connFn && isDefer(d) && m.tdDefer != nil:
			// separate defer: must be registered before the teardown defer (runs after it)
			if an.InstrDominates(d, m.tdDefer) {
				R.OK("C12-done-last", key, c.pos(d), "deferred before the teardown defer, hence runs after it")
			} else {
				R.Fail("C12-done-last", key, c.pos(d), "deferred Done is registered after the teardown defer and therefore runs before it")
			}
		default:
			R.Unknown("C12-done-last", key, c.pos(d), "connWg.Done is neither in the teardown nor a defer of the connection goroutine")
		}
	}
	// Add / go / release pairing inside Run
	isAdd := func(cc *ssa.CallCommon) bool { return isWG(cc, "Add", G, "Server", "connWg") }
	isRel := func(in ssa.Instruction) bool {
		for _, r := range releases {
			if in == ssa.Instruction(r) {
				return true
			}
		}
		return false
	}
	var adds []ssa.CallInstruction
	for _, f := range c.shippedFuncs(G) {
		for _, ci := range an.Calls(f) {
			if isAdd(ci.Common()) {
				adds = append(adds, ci)
			}
		}
	}
	head := loopHeadOf(m.accept)
	for _, ci := range adds {
		key := fname(ci.Parent()) + ": connWg.Add(1) paired with the connection goroutine"
		k, isK := int64(1), wgAddIsOne(ci)
		// where, in Run, the place is reserved: the Add itself, or the call of a helper that
		// reports (bool) whether it reserved a place
		var at ssa.Instruction = ci // the reserving instruction in Run
		held := an.After(ci)        // from here on the place is held
		var notHeld *ssa.BasicBlock // where the helper reported "not reserved"
		if ci.Parent() != m.run && isK && k == 1 && isCall(ci) {
			if hc, t, f, why := c.reserveHelper(ci, m); hc != nil {
				at, held, notHeld = hc, an.Point{B: t, I: 0}, f
			} else {
				R.Fail("C12-done-last", key, c.pos(ci), "connWg.Add is not a plain Add(1) in Run, nor in a helper of Run that reports whether it reserved a place: "+why)
				continue
			}
		} else if ci.Parent() != m.run || !isK || k != 1 || !isCall(ci) {
			R.Fail("C12-done-last", key, c.pos(ci), "connWg.Add is not a plain Add(1) in Run")
			continue
		}
		ok := true
		why := ""
		// conditions already decided when the place is reserved (e.g. `stopping == false`): a later test of the
		// same value can only go the same way
		known := map[string]bool{}
		for _, fct := range an.BranchFacts(ci.Block()) {
			if key, neg := an.CondKey(fct.Cond); key != "" {
				known[key] = fct.True != neg
			}
		}
		// every go of a connection goroutine is preceded by the Add
		if w := an.SearchCorr(an.Point{B: head, I: 0}, isInstr(m.connGo), isInstr(at), nil); w != nil && head != nil {
			ok, why = false, "a connection goroutine can be started without a preceding connWg.Add(1): "+c.trail(w)
		}
		if notHeld != nil {
			if w := an.SearchCorr(an.Point{B: notHeld, I: 0}, isInstr(m.connGo), isInstr(at), nil); w != nil {
				ok, why = false, "a connection goroutine can be started although no place was reserved: "+c.trail(w)
			}
		}
		// between Add and go there is no Done
		if w := an.Search(held, isRel, or(isInstr(m.connGo))); w != nil {
			// a release is fine only if after it the go is not reachable without a new Add
			for _, r := range releases {
				if w2 := an.SearchCorr(an.After(r), isInstr(m.connGo), isInstr(at), nil); w2 != nil {
					ok, why = false, "after giving the place back (connWg.Done) the connection goroutine can still be started: "+c.trail(w2)
				}
			}
		}
		// after an Add, every path reaches the go or a release before returning or iterating again
		leak := or(an.IsReturn, func(in ssa.Instruction) bool { return head != nil && in.Block() == head && an.PointOf(in).I == 0 })
		if w := an.SearchCorr(held, leak, or(isInstr(m.connGo), isRel), known); w != nil {
			ok, why = false, "a path after connWg.Add(1) neither starts the connection goroutine nor gives the place back: Stop would wait forever: "+c.trail(w)
		}
		R.Check(ok, "C12-done-last", key, c.pos(ci), sprintf("every connection goroutine start is preceded by this Add(1); %d release site(s) give the place back on paths that start no goroutine", len(releases)), why)
		// a place is given back at most once: after a release neither a second release nor the start of the connection
		// goroutine (whose teardown gives the place back again) is reached without reserving anew; otherwise the counter
		// can go negative, and a negative WaitGroup counter panics
		for _, r := range releases {
			w := an.SearchCorr(an.After(r), or(isInstr(m.connGo), isRel), isInstr(at), nil)
			R.Check(w == nil, "C12-nonneg", fname(r.Parent())+": place given back at most once", c.pos(r), "after this connWg.Done() neither another Done nor the start of a connection goroutine is reached without a new Add(1)",
				"after this connWg.Done() the place can be given back a second time (directly, or by the teardown of a connection goroutine started without a new Add(1)): the counter goes negative and sync.WaitGroup panics: "+c.trail(w))
		}
	}
	if len(adds) != 1 {
		R.Fail("C12-done-last", "connWg.Add: single site", c.P.Pos(m.run.Pos()), sprintf("expected one connWg.Add site, found %d", len(adds)))
	}
	// ---- C12-add-vs-wait
	if len(adds) == 1 {
		add := adds[0]
		key := "(*Server).Run: connWg.Add ordered with Stop's Wait"
		runLS := an.LockSets(add.Parent(), nil) // Run, or the reserving helper: the critical section is where the Add is
		stopLS := an.LockSets(m.stop, nil)
		var wait ssa.CallInstruction
		var cancel ssa.CallInstruction
		for _, ci := range an.Calls(m.stop) {
			if isWG(ci.Common(), "Wait", G, "Server", "connWg") {
				wait = ci
			}
			if isDynCallOfField(ci.Common(), G, "Server", "shutdownCancel") {
				cancel = ci
			}
		}
		addHeldW := runLS[add].Holds("s.mu", false)
		stopHeld := wait != nil && cancel != nil && stopLS[wait].Holds("s.mu", true) && stopLS[cancel].Holds("s.mu", true)
		// the Add is control dependent on "not shut down", tested under the same critical section
		guardOK := false
		for _, fct := range an.BranchFacts(add.Block()) {
			cond, neg := an.Not(fct.Cond)
			// `if s.stopping() {...}` with `func (s *Server) stopping() bool { return s.shutdownCtx.Err() != nil }`: the
			// accessor reads the shutdown state where it is called
			viaHelper, helperTrueMeansNil := false, false
			if hc, isCall := cond.(*ssa.Call); isCall {
				if g := an.StaticCallee(hc.Common()); g != nil && an.InModule(g) && len(g.Blocks) > 0 && len(an.Returns(g)) == 1 && runLS[hc].Holds("s.mu", false) {
					if res := an.ReturnResults(an.Returns(g)[0]); len(res) == 1 {
						inner, ineg := an.Not(res[0])
						if c.isShutdownErrAtom(inner) {
							_, tmn, _ := an.NilCheck(inner)
							viaHelper, helperTrueMeansNil = true, tmn != ineg
						}
					}
				}
			}
			if viaHelper || c.isShutdownErrAtom(cond) {
				x, trueMeansNil, _ := an.NilCheck(cond)
				if viaHelper {
					trueMeansNil = helperTrueMeansNil
				}
				// the shutdown state must be READ inside the critical section, not just tested there
				if ec, isCall := an.Strip(x).(*ssa.Call); !viaHelper && isCall && !runLS[ec].Holds("s.mu", false) {
					continue
				}
				pol := fct.True != neg
				if pol == trueMeansNil { // Err() == nil
					for _, iff := range condIfsOf(cond) {
						if !runLS[iff].Holds("s.mu", false) || !iff.Block().Dominates(add.Block()) {
							continue
						}
						// from the not-shut-down edge to the Add the lock is never released
						unlock := callPred(func(cc *ssa.CallCommon) bool { k, _ := an.LockOp(cc); return k == "Unlock" || k == "RUnlock" })
						var live *ssa.BasicBlock
						for _, sc := range iff.Block().Succs {
							if sc.Dominates(add.Block()) {
								live = sc
							}
						}
						if live != nil && an.Search(an.Point{B: live, I: 0}, unlock, isInstr(add)) == nil {
							guardOK = true
						}
					}
				}
			}
		}
		switch {
		case addHeldW && stopHeld && guardOK:
			R.OK("C12-add-vs-wait", key, c.pos(add), "Add(1) runs under s.mu.Lock after testing shutdownCtx.Err()==nil in the same critical section; Stop cancels and waits while holding s.mu (read mode): the Add either happens-before Stop's Wait or sees the shutdown")
		default:
			R.Fail("C12-add-vs-wait", key, c.pos(add), sprintf("connWg.Add is not ordered with Stop's cancel+Wait (Add under s.mu write lock: %v; Stop holds s.mu across cancel and Wait: %v; Add guarded by a not-shut-down test in the same critical section: %v): a connection accepted concurrently with Stop can outlive it", addHeldW, stopHeld, guardOK))
		}
	}
	// ---- C12-listener-release
	listen := c.listenCall(m.run)
	if listen == nil {
		R.Fatal("Run: no net.Listen* / tls.Listen call found")
	} else {
		// point where listen succeeded: the false successor of `err != nil` on Listen's error
		errInRun, _, whyNot := c.listenErrIn(m.run, listen)
		if errInRun == nil {
			R.Unknown("C12-listener-release", "(*Server).Run: listen error test", c.pos(listen), "cannot relate the listen's error to Run: "+whyNot)
			errInRun = func(ssa.Value) bool { return false }
		}
		okIfs := ifsOn(m.run, func(v ssa.Value) bool {
			x, _, ok := an.NilCheck(v)
			return ok && errInRun(x)
		})
		// the test whose err == nil side leads to the accept loop
		var sel []condIf
		for _, g := range okIfs {
			v, _ := an.Not(g.If.Cond)
			_, trueMeansNil, _ := an.NilCheck(v)
			if s := succOn(g.If, trueMeansNil != g.Neg); s.Dominates(m.accept.Block()) && len(s.Preds) == 1 {
				sel = append(sel, g)
			}
		}
		if len(sel) == 0 {
			R.Unknown("C12-listener-release", "(*Server).Run: listen error test", c.pos(listen), "cannot find the `err != nil` test on net.Listen's error that guards the accept loop")
		} else {
			g := sel[len(sel)-1]
			v, _ := an.Not(g.If.Cond)
			_, trueMeansNil, _ := an.NilCheck(v)
			okSucc := succOn(g.If, trueMeansNil != g.Neg) // err == nil
			closes := func(in ssa.Instruction) bool {
				ci, ok := in.(ssa.CallInstruction)
				if !ok || isGo(ci) {
					return false
				}
				if isListenerClose(ci.Common()) {
					return true
				}
				if d, ok := in.(*ssa.Defer); ok {
					if f := an.StaticCallee(d.Common()); f != nil && f.Parent() == m.run {
						for _, ic := range an.Calls(f) {
							if isListenerClose(ic.Common()) && isCall(ic) {
								if an.Search(an.Entry(f), an.IsReturn, isInstr(ic)) == nil {
									return true
								}
							}
						}
					}
				}
				return false
			}
			// closed-atom edges: blocks control dependent on closed atom = listener already closed
			closedBlock := func(in ssa.Instruction) bool {
				return hasFact(in.Block(), true, isClosedAtom)
			}
			for _, ret := range an.Returns(m.run) {
				if !okSucc.Dominates(ret.Block()) {
					continue
				}
				key := "(*Server).Run: return at " + retKind(c, m, ret)
				if closedBlock(ret) {
					R.OK("C12-listener-release", key, c.pos(ret), "this exit is taken only when Accept failed because the listener is already closed")
					continue
				}
				if w := an.Search(an.Point{B: okSucc, I: 0}, isInstr(ret), closes); w != nil {
					R.Fail("C12-listener-release", key, c.pos(ret), "Run can return here with the listener still open (e.g. Stop was called before Run listened): the port stays bound")
				} else {
					R.OK("C12-listener-release", key, c.pos(ret), "every path from the successful Listen to this return closes the listener (explicitly or by a defer)")
				}
			}
		}
	}
	R.Floor("C12-listener-release", 2)

	// ---- C12-handlers-waited: "no handler is still running" rests on the requestsWg pairing of C08
	{
		tmp := &Ctx{P: c.P, R: report.New("tmp"), Tier: c.Tier, Sub: true}
		checkC08(tmp)
		n := 0
		for _, o := range tmp.R.Obls {
			if o.Rule == "C08-paired" || (o.Rule == "C08-sequence" && (strings.Contains(o.Construct, "Wait") || strings.Contains(o.Construct, "onCloseHandler"))) {
				n++
				switch o.Status {
				case report.Discharged:
					R.OK("C12-handlers-waited", o.Construct, o.Pos, o.Detail)
				default:
					R.Fail("C12-handlers-waited", o.Construct, o.Pos, o.Detail)
				}
			}
		}
	}
	// ---- C12-stop-order + C12-idempotent
	c.checkStopOrder("C12-stop-order", m)
	nErr := 0
	ei := errResultIndex(m.stop)
	for _, ret := range an.Returns(m.stop) {
		res := an.ReturnResults(ret)
		if an.IsNilConst(an.Strip(res[ei])) {
			continue
		}
		nErr++
		ok := hasFact(ret.Block(), false, isClosedAtom)
		if !ok {
			ok = c.errFromCloseHelper(ret, m)
		}
		R.Check(ok, "C12-idempotent", "(*Server).Stop: error return", c.pos(ret), "only when listener.Close failed for a reason other than already-closed", "Stop can return an error on a repeated call (error return not guarded by the already-closed test)")
	}
	R.Count("C12-idempotent/error-returns", nErr)
	R.NotDecided = append(R.NotDecided, "that the kernel refuses connections / the port can be re-bound", "callbacks that never return")
}

func retKind(c *Ctx, m *serverModel, ret *ssa.Return) string {
	res := an.ReturnResults(ret)
	if len(res) > 0 && an.IsNilConst(an.Strip(res[len(res)-1])) {
		if hasFact(ret.Block(), true, isClosedAtom) {
			return "nil (accept on closed listener)"
		}
		return "nil (shutdown observed)"
	}
	if m.newConn != nil && an.InstrDominates(m.newConn, ret) {
		return "error (newConn failed)"
	}
	if m.accept != nil && an.InstrDominates(m.accept, ret) {
		return "error (accept failed)"
	}
	return "error"
}

// checkStopOrder: in Stop, listener.Close() (when non-nil) and
// shutdownCancel() (when non-nil) precede connWg.Wait() on every path.
func (c *Ctx) checkStopOrder(rule string, m *serverModel) {
	R := c.R
	stop := m.stop
	var wait ssa.CallInstruction
	for _, ci := range an.Calls(stop) {
		if isWG(ci.Common(), "Wait", G, "Server", "connWg") {
			wait = ci
		}
	}
	if wait == nil {
		R.Fail(rule, "(*Server).Stop: connWg.Wait", c.P.Pos(stop.Pos()), "Stop does not wait for connections")
		return
	}
	type step struct {
		name  string
		field string
		isIt  func(*ssa.CallCommon) bool
	}
	steps := []step{
		{"listener.Close", "listener", func(cc *ssa.CallCommon) bool {
			if !isListenerClose(cc) {
				return false
			}
			_, ok := fieldLoad(cc.Value, G, "Server", "listener")
			return ok
		}},
		{"shutdownCancel", "shutdownCancel", func(cc *ssa.CallCommon) bool { return isDynCallOfField(cc, G, "Server", "shutdownCancel") }},
	}
	for _, st := range steps {
		key := "(*Server).Stop: " + st.name + " before connWg.Wait"
		guards := ifsOn(stop, func(v ssa.Value) bool {
			x, _, ok := an.NilCheck(v)
			if !ok {
				return false
			}
			_, ok = fieldLoad(x, G, "Server", st.field)
			return ok
		})
		// the guard directly protecting the call: the one whose non-nil successor dominates the call
		var call ssa.CallInstruction
		for _, ci := range an.Calls(stop) {
			if st.isIt(ci.Common()) && isCall(ci) {
				call = ci
			}
		}
		if call == nil {
			// the step may live in a helper of Stop (`s.closeListener()`): it performs the call unless the field is nil
			for _, ci := range an.Calls(stop) {
				h := an.StaticCallee(ci.Common())
				if h == nil || !an.InModule(h) || len(h.Blocks) == 0 || !isCall(ci) || len(ci.Common().Args) == 0 || an.Strip(ci.Common().Args[0]) != ssa.Value(stop.Params[0]) {
					continue
				}
				var hc ssa.CallInstruction
				n := 0
				for _, ic := range an.Calls(h) {
					if st.isIt(ic.Common()) && isCall(ic) {
						hc = ic
						n++
					}
				}
				if n != 1 {
					continue
				}
				okH := true
				for _, ret := range an.Returns(h) {
					if an.Search(an.Entry(h), isInstr(ret), isInstr(hc)) != nil &&
						!nilFact(ret.Block(), true, func(x ssa.Value) bool { _, okf := fieldLoad(x, G, "Server", st.field); return okf }) {
						okH = false
					}
				}
				if okH {
					call = ci
				}
			}
		}
		if call == nil {
			R.Fail(rule, key, c.pos(wait), "Stop never calls "+st.name)
			continue
		}
		ok := false
		for _, g := range guards {
			v, _ := an.Not(g.If.Cond)
			if bo, isb := v.(*ssa.BinOp); isb && bo.Op != token.EQL && bo.Op != token.NEQ {
				continue
			}
			_, trueMeansNil, _ := an.NilCheck(v)
			nonNil := succOn(g.If, trueMeansNil == g.Neg)
			if !nonNil.Dominates(call.Block()) {
				continue
			}
			// from the non-nil edge, no path to Wait avoiding the call; and every path to Wait passes the test
			if an.Search(an.Point{B: nonNil, I: 0}, isInstr(wait), isInstr(call)) == nil &&
				an.Search(an.Entry(stop), isInstr(wait), isInstr(g.If)) == nil {
				ok = true
			}
		}
		if !ok && an.Search(an.Entry(stop), isInstr(wait), isInstr(call)) == nil {
			ok = true // unconditional
		}
		R.Check(ok, rule, key, c.pos(call), "on every path reaching Wait with a non-nil "+st.field+", "+st.name+" has been called first", "connWg.Wait can be reached without "+st.name+" having been called: connections are never told to stop / the listener keeps accepting")
	}
	// every successful return of Stop has waited: a `return nil` that does not pass connWg.Wait is allowed only
	// when nothing was ever started (listener == nil && shutdownCancel == nil)
	nothingStarted := func(b *ssa.BasicBlock) bool {
		isNilOf := func(field string) bool {
			return nilFact(b, true, func(x ssa.Value) bool { _, ok := fieldLoad(x, G, "Server", field); return ok })
		}
		return isNilOf("listener") && isNilOf("shutdownCancel")
	}
	for _, ret := range an.Returns(stop) {
		if rule != "C12-stop-order" {
			break // quiescence at return is C12's clause; C11 only needs the order of the steps
		}
		res := an.ReturnResults(ret)
		if len(res) != 1 || !an.IsNilConst(an.Strip(res[0])) {
			continue // error return: the caller is told Stop did not complete
		}
		key := "(*Server).Stop: return nil only after connWg.Wait"
		switch {
		case an.Search(an.Entry(stop), isInstr(ret), isInstr(wait)) == nil:
			R.OK(rule, key, c.pos(ret), "every path to this return passes connWg.Wait()")
		case nothingStarted(ret.Block()):
			R.OK(rule, key+" (nothing started)", c.pos(ret), "only when listener == nil and shutdownCancel == nil: Run never got as far as listening")
		default:
			R.Fail(rule, key, c.pos(ret), "Stop can return nil without having cancelled the shutdown context and waited for the connections: handlers may still be running and OnClose not yet called when Stop returns: "+c.trail(an.Search(an.Entry(stop), isInstr(ret), isInstr(wait))))
		}
	}
}

// errFromCloseHelper: Stop's error return is taken only when a helper that
// closes the listener returned a non-nil error, and that helper returns a
// non-nil error only when listener.Close failed for a reason other than
// "already closed".
func (c *Ctx) errFromCloseHelper(ret *ssa.Return, m *serverModel) bool {
	var hcall *ssa.Call
	for _, fct := range an.BranchFacts(ret.Block()) {
		cond, neg := an.Not(fct.Cond)
		x, trueMeansNil, ok := an.NilCheck(cond)
		if !ok || (fct.True != neg) == trueMeansNil {
			continue // not an "x != nil" fact
		}
		if call, isCall := an.Strip(x).(*ssa.Call); isCall {
			if h := an.StaticCallee(call.Common()); h != nil && an.InModule(h) && len(h.Blocks) > 0 && isErrorType(call.Type()) {
				hcall = call
			}
		}
	}
	if hcall == nil {
		return false
	}
	h := an.StaticCallee(hcall.Common())
	var closeCall *ssa.Call
	for _, ic := range an.Calls(h) {
		if isListenerClose(ic.Common()) {
			if cc, ok := ic.(*ssa.Call); ok {
				closeCall = cc
			}
		}
	}
	if closeCall == nil {
		return false
	}
	closedIfs := ifsOn(h, isClosedAtom)
	if len(closedIfs) == 0 {
		return false
	}
	// the value of `err != nil` (err the Close error) as SearchCorr keys it
	known := map[string]bool{}
	for _, g := range ifsOn(h, func(v ssa.Value) bool {
		x, _, ok := an.NilCheck(v)
		return ok && an.Strip(x) == ssa.Value(closeCall)
	}) {
		v, _ := an.Not(g.If.Cond)
		_, trueMeansNil, _ := an.NilCheck(v)
		k, kneg := an.CondKey(g.If.Cond)
		// un-negated key truth when err is non-nil: the NilCheck comparison is true iff (non-nil != trueMeansNil)... evaluate:
		cmpTrue := !trueMeansNil // value of the comparison `v` when err != nil
		_, ineg := an.Not(g.If.Cond)
		condVal := cmpTrue != ineg // value of the If's condition
		known[k] = condVal != kneg
	}
	for _, r := range an.Returns(h) {
		res := an.ReturnResults(r)
		if len(res) != 1 || an.IsNilConst(an.Strip(res[0])) {
			continue
		}
		for _, g := range closedIfs {
			closedSide := succOn(g.If, !g.Neg)
			if an.Search(an.Point{B: closedSide, I: 0}, isInstr(r), nil) != nil {
				return false // an "already closed" error can reach this error return
			}
		}
		avoid := func(in ssa.Instruction) bool {
			for _, g := range closedIfs {
				if in == ssa.Instruction(g.If) {
					return true
				}
			}
			return false
		}
		if an.SearchCorr(an.After(closeCall), isInstr(r), avoid, known) != nil {
			return false // with a failed Close the return is reachable without asking whether it was "already closed"
		}
	}
	return true
}
