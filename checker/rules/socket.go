package rules

import (
	"go/token"
	"go/types"

	"gldapverif/an"

	"golang.org/x/tools/go/ssa"
)

// socketUse is one terminal use of a value that denotes a connection's socket
// (the accepted net.Conn, conn.netConn, a *tls.Conn built on it).
type socketUse struct {
	Fn     *ssa.Function
	Instr  ssa.Instruction
	Kind   string // "method:<name>", "arg:<callee>", "store:conn.netConn", "nilcmp", "format", "other:<what>"
	Source string // what kind of source produced the value
}

func isNetConnType(t types.Type) bool {
	return an.TypeIs(t, "net", "Conn") || an.TypeIs(t, "crypto/tls", "Conn") || an.TypeIs(t, "net", "TCPConn")
}

// socketSources enumerates the SSA values in shipped gldap code that denote
// a connection socket.
func (c *Ctx) socketSources() map[ssa.Value]string {
	src := map[ssa.Value]string{}
	for _, f := range c.shippedFuncs(G) {
		// parameters of socket type
		for _, p := range f.Params {
			if isNetConnType(p.Type()) {
				src[p] = "param " + p.Name() + " of " + fname(f)
			}
		}
		an.Instrs(f, func(in ssa.Instruction) {
			v, ok := in.(ssa.Value)
			if !ok {
				return
			}
			switch x := in.(type) {
			case *ssa.UnOp:
				if x.Op == token.MUL {
					if _, ok := fieldAddr(x.X, G, "conn", "netConn"); ok {
						src[v] = "load conn.netConn in " + fname(f)
					}
				}
			case *ssa.Extract:
				if call, ok := x.Tuple.(*ssa.Call); ok && x.Index == 0 {
					cc := call.Common()
					if cc.IsInvoke() && cc.Method.Name() == "Accept" && an.TypeIs(cc.Value.Type(), "net", "Listener") {
						src[v] = "Accept() result in " + fname(f)
					}
				}
			case *ssa.Call:
				if an.CalleeIs(x.Common(), "crypto/tls", "Server") || an.CalleeIs(x.Common(), "crypto/tls", "Client") {
					src[v] = "tls.Server result in " + fname(f)
				}
			}
		})
	}
	return src
}

var socketMethodOK = map[string]bool{
	"Close": true, "SetDeadline": true, "SetReadDeadline": true, "SetWriteDeadline": true,
	"RemoteAddr": true, "LocalAddr": true, "Handshake": true, "HandshakeContext": true, "ConnectionState": true,
}

// allowed callees that may receive the socket as an argument.
var socketArgOK = map[string]bool{
	G + ".newConn":              true,
	G + ".(*conn).initConn":     true,
	"bufio.NewReader":           true,
	"bufio.NewWriter":           true,
	"bufio.NewReaderSize":       true,
	"bufio.NewWriterSize":       true,
	"bufio.(*Reader).Reset":     true, // re-points a buffered reader at the socket: a constructor in effect (who may do that to the
	"bufio.(*Writer).Reset":     true, // connection's pair is rule C05-owner / C13-pair)
	"crypto/tls.Server":         true,
	"time.AfterFunc":            false,
	"context.AfterFunc":         false,
	G + ".(*conn).closeNetConn": true,
}

// socketUses follows every socket source through cells, phis, closures and
// interface conversions and classifies the terminal uses.
func (c *Ctx) socketUses() []socketUse {
	src := c.socketSources()
	var out []socketUse
	seen := map[ssa.Value]bool{}
	type item struct {
		v   ssa.Value
		src string
	}
	var work []item
	for v, s := range src {
		work = append(work, item{v, s})
	}
	push := func(v ssa.Value, s string) {
		if !seen[v] {
			work = append(work, item{v, s})
		}
	}
	for len(work) > 0 {
		it := work[len(work)-1]
		work = work[:len(work)-1]
		if seen[it.v] {
			continue
		}
		seen[it.v] = true
		refs := it.v.Referrers()
		if refs == nil {
			continue
		}
		for _, r := range *refs {
			fn := r.Parent()
			use := func(kind string) {
				out = append(out, socketUse{Fn: fn, Instr: r, Kind: kind, Source: it.src})
			}
			switch x := r.(type) {
			case *ssa.DebugRef:
			case *ssa.Phi:
				push(x, it.src)
			case *ssa.ChangeInterface:
				if ity, ok := x.Type().Underlying().(*types.Interface); ok && ity.NumMethods() == 0 {
					use("format")
				} else {
					push(x, it.src)
				}
			case *ssa.ChangeType:
				push(x, it.src)
			case *ssa.MakeInterface:
				if ity, ok := x.Type().Underlying().(*types.Interface); ok && ity.NumMethods() == 0 {
					use("format")
				} else {
					push(x, it.src)
				}
			case *ssa.TypeAssert:
				push(x, it.src)
			case *ssa.Extract:
				if _, isTA := x.Tuple.(*ssa.TypeAssert); isTA && x.Index == 1 {
					break // the ok flag of a comma-ok assertion
				}
				push(x, it.src)
			case *ssa.BinOp:
				if (x.Op == token.EQL || x.Op == token.NEQ) && (an.IsNilConst(x.X) || an.IsNilConst(x.Y)) {
					use("nilcmp")
				} else {
					use("other:compare")
				}
			case *ssa.Store:
				if x.Val != it.v {
					use("other:store-through")
					break
				}
				if _, ok := fieldAddr(x.Addr, G, "conn", "netConn"); ok {
					use("store:conn.netConn")
					break
				}
				if al, ok := an.CellRoot(x.Addr).(*ssa.Alloc); ok {
					if _, isIface := al.Type().(*types.Pointer).Elem().Underlying().(*types.Interface); isIface || isNetConnType(al.Type().(*types.Pointer).Elem()) {
						for _, ld := range an.CellLoads(al) {
							push(ld, it.src)
						}
						break
					}
				}
				// formatting varargs array slot: value is `any`
				use("other:store to " + an.Path(x.Addr))
			case *ssa.MakeClosure:
				f := x.Fn.(*ssa.Function)
				for i, b := range x.Bindings {
					if b == it.v && i < len(f.FreeVars) {
						push(f.FreeVars[i], it.src)
					}
				}
			case ssa.CallInstruction:
				cc := x.Common()
				if cc.IsInvoke() && cc.Value == it.v {
					use("method:" + cc.Method.Name())
					break
				}
				callee := an.StaticCallee(cc)
				if callee != nil && callee.Signature.Recv() != nil && len(cc.Args) > 0 && cc.Args[0] == it.v {
					use("method:" + callee.Name())
					break
				}
				if callee != nil && an.InModule(callee) && len(callee.Blocks) > 0 && !socketArgOK[an.FuncKey(callee)] {
					// an ordinary function of the module: follow the socket into the matching parameter(s)
					followed := false
					for i, a := range cc.Args {
						if a == it.v && i < len(callee.Params) {
							push(callee.Params[i], it.src)
							followed = true
						}
					}
					if followed {
						break
					}
				}
				if callee != nil {
					use("arg:" + an.FuncKey(callee))
				} else {
					use("arg:<dynamic>")
				}
			case *ssa.Return:
				// a module function that hands a socket back (an accessor, a constructor helper): its callers hold it
				nSites := 0
				ridx := -1
				for i, rv := range x.Results {
					if rv == it.v {
						ridx = i
					}
				}
				if fn != nil && an.InModule(fn) && ridx >= 0 {
					for _, g := range c.shippedFuncs(G) {
						for _, ci := range an.Calls(g) {
							call, isCall := ci.(*ssa.Call)
							if !isCall || an.StaticCallee(call.Common()) != fn {
								continue
							}
							nSites++
							if len(x.Results) == 1 {
								push(call, it.src+" (returned by "+fname(fn)+")")
							} else if call.Referrers() != nil {
								for _, rr := range *call.Referrers() {
									if ex, isEx := rr.(*ssa.Extract); isEx && ex.Index == ridx {
										push(ex, it.src+" (returned by "+fname(fn)+")")
									}
								}
							}
						}
					}
				}
				if nSites == 0 {
					use("other:returned")
				}
			default:
				use("other:" + r.String())
			}
		}
	}
	return out
}

// checkSocketDiscipline emits one obligation per terminal use of a socket
// value under the given rule name. Allowed: deadline/close/addr methods,
// hand-over to bufio / tls.Server / newConn / initConn, nil comparisons,
// formatting as `any`, storing into conn.netConn.
func (c *Ctx) checkSocketDiscipline(rule string) {
	uses := c.socketUses()
	for _, u := range uses {
		key := fname(u.Fn) + ": " + u.Kind
		switch {
		case u.Kind == "nilcmp" || u.Kind == "format" || u.Kind == "store:conn.netConn":
			c.R.Trivial(rule, key, c.pos(u.Instr), "benign use of the socket value")
		case len(u.Kind) > 7 && u.Kind[:7] == "method:":
			m := u.Kind[7:]
			if socketMethodOK[m] {
				c.R.OK(rule, key, c.pos(u.Instr), "method "+m+" does not read or write LDAP bytes on the socket")
			} else {
				c.R.Fail(rule, key, c.pos(u.Instr), "socket ("+u.Source+") is used directly with "+m+" — bytes bypass the connection's buffered reader/writer pair")
			}
		case len(u.Kind) > 4 && u.Kind[:4] == "arg:":
			if socketArgOK[u.Kind[4:]] {
				c.R.OK(rule, key, c.pos(u.Instr), "socket handed to "+u.Kind[4:]+" (constructor of the reader/writer pair or of the TLS layer)")
			} else {
				c.R.Unknown(rule, key, c.pos(u.Instr), "socket ("+u.Source+") passed to "+u.Kind[4:]+", which is not one of the known constructors; cannot show it does not read/write the socket")
			}
		default:
			c.R.Unknown(rule, key, c.pos(u.Instr), "unmodelled use of socket value ("+u.Source+"): "+u.Kind)
		}
	}
	c.R.Count(rule+"/socket-uses", len(uses))
}
