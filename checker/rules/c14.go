package rules

import (
	"regexp"
	"strconv"
	"strings"

	"gldapverif/an"

	"golang.org/x/tools/go/ssa"
)

func init() {
	Registry["C14"] = checkC14
	Descriptions["C14"] = "C14-encode-ref (the BER tree every control's Encode builds, on every path, equals the published grammar: RFC 4511 4.1.11 Control, RFC 2696 paging value, draft-behera-10 password policy value, draft-vchu-00 warning; the type child is the constant GetControlType returns), " +
		"C14-roundtrip (for every control type and every encode path the request decoder, interpreted symbolically on the tree that Encode built, returns a control of the same type whose every field comes back from the node that carried it through value-preserving conversions or recognised inverse pairs, and every error branch the decoder takes on the way is decided never to be taken for any value the field types (narrowed by the encode path and the Behera constructor) admit), " +
		"C14-attach (responses put encodeControls(r.controls) at envelope child [2] in slice order; requests decode envelope child [2] element by element in order - on every successful path of a well-formed message that has the third envelope child), " +
		"C14-fresh (every control decodeControl returns is allocated by that call or by a constructor of the module, never taken from a table or a cache), C14-behera (truth table of NewControlBeheraPasswordPolicy: success => at most one of grace/expire/error set and error <= 8; fields come from the three options). Run-time value equality is not decided beyond identity data flow."
}

// encodeRef: expected shapes per control type and valuation signature.
func c14Refs() map[string]func(val map[string]bool) string {
	typ := func(oid string) string { return `OCTSTR<-"` + oid + `"` }
	flag := func(val map[string]bool, key string) bool {
		for k, v := range val {
			if strings.Contains(k, key) {
				return v
			}
		}
		return false
	}
	return map[string]func(map[string]bool) string{
		"ControlString": func(v map[string]bool) string {
			s := "SEQ{OCTSTR<-$0.ControlType"
			if flag(v, "$0.Criticality") {
				s += ", BOOL<-$0.Criticality"
			}
			if !flag(v, `==("",$0.ControlValue)`) {
				s += ", OCTSTR<-$0.ControlValue"
			}
			return s + "}"
		},
		"ControlManageDsaIT": func(v map[string]bool) string {
			s := "SEQ{" + typ("2.16.840.1.113730.3.4.2")
			if flag(v, "$0.Criticality") {
				s += ", BOOL<-$0.Criticality"
			}
			return s + "}"
		},
		"ControlMicrosoftNotification":  func(map[string]bool) string { return "SEQ{" + typ("1.2.840.113556.1.4.528") + "}" },
		"ControlMicrosoftServerLinkTTL": func(map[string]bool) string { return "SEQ{" + typ("1.2.840.113556.1.4.2309") + "}" },
		"ControlMicrosoftShowDeleted":   func(map[string]bool) string { return "SEQ{" + typ("1.2.840.113556.1.4.417") + "}" },
		"ControlVChuPasswordMustChange": func(map[string]bool) string { return "SEQ{" + typ("2.16.840.1.113730.3.4.4") + "}" },
		"ControlVChuPasswordWarning": func(map[string]bool) string {
			return "SEQ{" + typ("2.16.840.1.113730.3.4.5") + ", OCTSTR<-strconv.FormatInt($0.Expire,10)}"
		},
		"ControlPaging": func(map[string]bool) string {
			return "SEQ{" + typ("1.2.840.113556.1.4.319") + ", OCTSTR{SEQ{INT<-conv<int64>($0.PagingSize), OCTSTR<~Value=$0.Cookie<~Data.Write($0.Cookie)}}}"
		},
		"ControlBeheraPasswordPolicy": func(v map[string]bool) string {
			head := "SEQ{" + typ("1.3.6.1.4.1.42.2.27.8.5.1")
			graceNeg, expireNeg, errNeg := flag(v, "<($0.grace,0)"), flag(v, "<($0.expire,0)"), flag(v, "<($0.error,0)")
			switch {
			case !graceNeg:
				return head + ", OCTSTR{SEQ{CTX[0]c{CTX[1]p<-$0.grace}}}}"
			case !expireNeg:
				return head + ", OCTSTR{SEQ{CTX[0]c{CTX[0]p<-$0.expire}}}}"
			case !errNeg:
				return head + ", OCTSTR{SEQ{CTX[1]p<-$0.error}}}"
			}
			return head + "}"
		},
	}
}

func checkC14(c *Ctx) {
	R := c.R
	refs := c14Refs()
	// ---- C14-encode-ref
	for _, typ := range sortedKeys(refs) {
		f := c.fn(G, "(*"+typ+").Encode")
		if f == nil {
			continue
		}
		vs, atoms := c.shapeVariants(f)
		for _, v := range vs {
			key := "(*" + typ + ").Encode"
			if len(atoms) > 0 {
				key += " [" + sortedVals(v.Val) + "]"
			}
			got := stripTypes(v.Shape)
			want := refs[typ](v.Val)
			R.Check(got == want, "C14-encode-ref", key, c.P.Pos(f.Pos()), "tree = "+got, "encoded control differs from the published grammar: got "+got+" want "+want)
		}
		// type child constant == GetControlType
		if g := c.fn(G, "(*"+typ+").GetControlType"); g != nil {
			rets := an.Returns(g)
			got := ""
			if len(rets) == 1 {
				got = an.Canon(rets[0].Results[0])
			}
			first := ""
			if len(vs) > 0 && vs[0].Res.result != nil && len(vs[0].Res.result.Children) > 0 {
				first = vs[0].Res.result.Children[0].N.Value
			}
			R.Check(got != "" && got == first, "C14-encode-ref", "(*"+typ+").GetControlType matches the encoded type", c.P.Pos(g.Pos()), "type child = "+first, "GetControlType returns "+got+" but Encode writes "+first)
		}
	}
	R.Floor("C14-encode-ref", 25)
	// every Control implementation has a reference
	nImpl := 0
	for _, f := range c.shippedFuncs(G) {
		if f.Name() == "Encode" && f.Signature.Recv() != nil && f.Signature.Results().Len() == 1 && an.TypeIs(f.Signature.Results().At(0).Type(), an.PkgBer, "Packet") {
			nImpl++
			if nt := an.StructOf(f.Signature.Recv().Type()); nt != nil {
				if _, ok := refs[nt.Obj().Name()]; !ok {
					R.Unknown("C14-encode-ref", "(*"+nt.Obj().Name()+").Encode", c.P.Pos(f.Pos()), "control type without a reference grammar")
				}
			}
		}
	}
	R.Count("C14/control-types", nImpl)

	// ---- C14-attach
	enc := c.fn(G, "encodeControls")
	if enc != nil {
		vs, atoms := c.shapeVariants(enc)
		// (branches that do not change the tree - pre-sizing the child list - are fine: every variant has the shape)
		ok := len(atoms) <= 3 && len(vs) >= 1
		for _, v := range vs {
			if v.Shape != "CTX[0]c{*[$0]$0[*].Encode()}" {
				ok = false
			}
		}
		got := ""
		if len(vs) > 0 {
			got = vs[0].Shape
		}
		R.Check(ok, "C14-attach", "encodeControls: [0] constructed, one child per control in slice order", c.P.Pos(enc.Pos()), got, "encodeControls builds "+got)
	}
	for _, fn := range []string{"(*BindResponse).packet", "(*SearchResponseDone).packet"} {
		f := c.fn(G, fn)
		if f == nil {
			continue
		}
		vs, _ := c.shapeVariants(f)
		ok := false
		for _, v := range vs {
			if strings.HasSuffix(stripTypes(v.Shape), ", CTX[0]c{*[$0.controls]$0.controls[*].Encode()}}") {
				// third child of the envelope
				if v.Res.result != nil && len(v.Res.result.Children) == 3 {
					ok = true
				}
			}
		}
		R.Check(ok, "C14-attach", fn+": controls are the envelope's third child", c.P.Pos(f.Pos()), "SEQ{messageID, protocolOp, [0] controls}", "controls are not attached as the third element of the LDAPMessage envelope")
	}
	// request side: each operation decodes R.Children[2] in order (reuses the C01 interpretation)
	if nm := c.fn(G, "newMessage"); nm != nil {
		paths, _ := c.guidedPaths(nm, &symEnv{}, map[string]bool{G + ".decodeControl": true}, 6000)
		seen := map[string]bool{}
		for _, p := range paths {
			r := p.Res
			if r.undec != "" || len(r.retExpr) < 1 || !strings.HasPrefix(r.retExpr[0], "&alloc:") || k(r) == nil {
				continue
			}
			typ := ptrNamed(an.Strip(an.ReturnResults(k(r))[0]).Type())
			fields := map[string]string{}
			r.fr.fieldsOf(r.retExpr[0][1:], "", fields, 0)
			if shortOrigin(fields["Controls"]) == ctlList {
				seen[typ] = true
			}
		}
		for _, typ := range []string{"SimpleBindMessage", "SearchMessage", "ModifyMessage", "AddMessage", "DeleteMessage"} {
			R.Check(seen[typ], "C14-attach", "*"+typ+".Controls = decodeControl of every element of envelope child [2], in order", c.P.Pos(nm.Pos()), ctlList, "request controls of "+typ+" are not decoded element by element from the envelope's third child")
		}
		// ... on every path: for a well-formed message that carries controls (every test of len(envelope.Children) decided
		// for three children, every test of the operation's own child count decided for the count RFC 4511 gives it) no
		// successful decoding of these operations ends with anything else in Controls
		envLen := regexp.MustCompile(`^(!?)(<|<=|>|>=|==)\(len\(\$0\.Packet\.Children(\[1\]\.Children)?\),(\d+)\)$`)
		rfcCount := map[string]int{"SimpleBindMessage": 3, "SearchMessage": 8, "ModifyMessage": 2, "AddMessage": 2, "DeleteMessage": 0}
		bad := map[string]string{}
		n3 := map[string]int{}
		complete := true
		for _, want := range []string{"SimpleBindMessage", "SearchMessage", "ModifyMessage", "AddMessage", "DeleteMessage"} {
			nOp := rfcCount[want]
			oracle := func(f *frame, iff *ssa.If) int {
				mm := envLen.FindStringSubmatch(f.condString(iff.Cond))
				if mm == nil {
					return -1
				}
				n := 3
				if mm[3] != "" {
					n = nOp
				}
				k, _ := strconv.Atoi(mm[4])
				v := false
				switch mm[2] {
				case "<":
					v = n < k
				case "<=":
					v = n <= k
				case ">":
					v = n > k
				case ">=":
					v = n >= k
				case "==":
					v = n == k
				}
				if v != (mm[1] == "!") {
					return 0
				}
				return 1
			}
			paths3, cmpl := c.guidedPathsO(nm, &symEnv{}, map[string]bool{G + ".decodeControl": true}, 6000, oracle, nil)
			complete = complete && cmpl
			for _, p := range paths3 {
				r := p.Res
				if len(r.retExpr) < 1 || !strings.HasPrefix(r.retExpr[0], "&alloc:") || k(r) == nil {
					continue
				}
				typ := ptrNamed(an.Strip(an.ReturnResults(k(r))[0]).Type())
				if typ != want {
					continue
				}
				n3[typ]++
				if r.undec != "" {
					bad[typ] = "undecided: " + r.undec
					continue
				}
				fields := map[string]string{}
				r.fr.fieldsOf(r.retExpr[0][1:], "", fields, 0)
				if got := shortOrigin(fields["Controls"]); got != ctlList {
					bad[typ] = "Controls = " + got + " at " + c.pos(k(r))
				}
			}
		}
		for _, typ := range []string{"SimpleBindMessage", "SearchMessage", "ModifyMessage", "AddMessage", "DeleteMessage"} {
			key := "*" + typ + ".Controls: no successful decoding of a message that carries controls drops them"
			switch {
			case !seen[typ]:
			case !complete || n3[typ] == 0:
				R.Unknown("C14-attach", key, c.P.Pos(nm.Pos()), "the decoder's paths could not be enumerated with the envelope's third child present")
			case bad[typ] != "":
				R.Fail("C14-attach", key, c.P.Pos(nm.Pos()), "with controls present on the message a successful decoding leaves "+bad[typ]+": the controls the client sent never reach the handler")
			default:
				R.OK("C14-attach", key, c.P.Pos(nm.Pos()), sprintf("%d successful paths with the third envelope child present, all end with %s", n3[typ], ctlList))
			}
		}
	}

	// ---- C14-fresh: what the handler of one request receives is not changed by decoding another request: every control
	// decodeControl returns is an object allocated by that call (directly or by a constructor of the module), never a
	// value kept in a package-level variable, a table or a cache - control types have exported, settable fields, so a
	// shared instance is changed under the handlers that hold it
	if dc := c.fn(G, "decodeControl"); dc != nil {
		var fresh func(v ssa.Value, depth int) (bool, string)
		fresh = func(v ssa.Value, depth int) (bool, string) {
			if depth > 4 {
				return false, "too deep"
			}
			v = an.Strip(v)
			if mi, ok := v.(*ssa.MakeInterface); ok {
				return fresh(mi.X, depth)
			}
			switch x := v.(type) {
			case *ssa.Alloc:
				if x.Heap {
					return true, ""
				}
			case *ssa.Const:
				if x.IsNil() {
					return true, ""
				}
			case *ssa.Phi:
				for _, e := range x.Edges {
					if ok, why := fresh(e, depth+1); !ok {
						return false, why
					}
				}
				return true, ""
			case *ssa.Extract:
				if call, ok := x.Tuple.(*ssa.Call); ok {
					if g := an.StaticCallee(call.Common()); g != nil && an.InModule(g) && len(g.Blocks) > 0 {
						for _, ret := range an.Returns(g) {
							res := an.ReturnResults(ret)
							if x.Index >= len(res) {
								return false, "result of " + fname(g)
							}
							if ok, why := fresh(res[x.Index], depth+1); !ok {
								return false, why
							}
						}
						return true, ""
					}
				}
			case *ssa.Call:
				if g := an.StaticCallee(x.Common()); g != nil && an.InModule(g) && len(g.Blocks) > 0 && g.Signature.Results().Len() == 1 {
					for _, ret := range an.Returns(g) {
						if ok, why := fresh(an.ReturnResults(ret)[0], depth+1); !ok {
							return false, why
						}
					}
					return true, ""
				}
			}
			return false, an.Path(v)
		}
		okAll, why, at := true, "", ""
		n := 0
		for _, ret := range an.Returns(dc) {
			res := an.ReturnResults(ret)
			if len(res) == 0 {
				continue
			}
			n++
			if ok, w := fresh(res[0], 0); !ok {
				okAll, why, at = false, w, c.pos(ret)
			}
		}
		R.Check(okAll && n > 0, "C14-fresh", "decodeControl: every decoded control is an object of its own", c.P.Pos(dc.Pos()), sprintf("%d returns: each control is allocated by the call that decodes it", n),
			"decodeControl can return a control that is not allocated by the call ("+why+" at "+at+"): a shared or cached instance is changed by a later decode, or by a handler, under the handlers that hold it")
	}

	// ---- C14-behera
	c.checkBeheraCtor()
	// ---- C14-roundtrip
	c.checkControlRoundTrip(refs)
	R.NotDecided = append(R.NotDecided, "equality of run-time values after a round trip beyond identity data flow")
}

func (c *Ctx) checkBeheraCtor() {
	R := c.R
	f := c.fn(G, "NewControlBeheraPasswordPolicy")
	if f == nil {
		return
	}
	w := &an.Walker{Fn: f}
	atoms := w.CondAtoms()
	sem := map[string]string{}
	var unknown []string
	for _, a := range atoms {
		switch {
		case strings.HasPrefix(a, "==(-1,") && strings.HasSuffix(a, ".withGrace)"):
			sem[a] = "graceUnset"
		case strings.HasPrefix(a, "==(-1,") && strings.HasSuffix(a, ".withExpire)"):
			sem[a] = "expireUnset"
		case strings.HasPrefix(a, "==(-1,") && strings.HasSuffix(a, ".withErrorCode)"):
			sem[a] = "errorUnset"
		case strings.HasPrefix(a, "<(8,") && strings.HasSuffix(a, ".withErrorCode)"):
			sem[a] = "errorAbove8"
		default:
			unknown = append(unknown, a)
		}
	}
	if len(unknown) > 0 || len(sem) != 4 {
		R.Fail("C14-behera", "NewControlBeheraPasswordPolicy: validation", c.P.Pos(f.Pos()), "validation depends on unexpected predicates: "+strings.Join(unknown, "; ")+" (atoms: "+strings.Join(atoms, "; ")+")")
		return
	}
	ei := errResultIndex(f)
	mism := ""
	rows := 0
	for _, val := range an.Valuations(atoms) {
		s := map[string]bool{}
		for a, b := range val {
			s[sem[a]] = b
		}
		// infeasible: errorAbove8 implies error set
		if s["errorAbove8"] && s["errorUnset"] {
			continue
		}
		k := w.Run(val)
		if k.Ret == nil {
			mism = "cannot evaluate"
			break
		}
		rows++
		res := an.ReturnResults(k.Ret)
		success := an.IsNilConst(an.Strip(res[ei]))
		set := 0
		for _, n := range []string{"graceUnset", "expireUnset", "errorUnset"} {
			if !s[n] {
				set++
			}
		}
		want := set <= 1 && !s["errorAbove8"]
		if success != want && mism == "" {
			mism = sprintf("constructor success=%v but the property requires %v when%s", success, want, an.ValString(s))
		}
	}
	R.Check(mism == "", "C14-behera", "NewControlBeheraPasswordPolicy: at most one of grace/expire/error, error <= 8", c.P.Pos(f.Pos()), sprintf("truth table over 4 atoms, %d feasible rows", rows), mism)
	// fields come from the options
	r := c.interp(f, &symEnv{}, allFalseExcept(atoms, sem, map[string]bool{"graceUnset": true, "expireUnset": true, "errorUnset": true}), nil)
	got := map[string]string{}
	if r.undec == "" && len(r.retExpr) >= 1 && strings.HasPrefix(r.retExpr[0], "&alloc:") {
		r.fr.fieldsOf(r.retExpr[0][1:], "", got, 0)
	}
	ok := got["expire"] == "conv<int64>(opt(withExpire))" && got["grace"] == "conv<int64>(opt(withGrace))" && got["error"] == "conv<int8>(opt(withErrorCode))"
	R.Check(ok, "C14-behera", "NewControlBeheraPasswordPolicy: fields are the three options", c.P.Pos(f.Pos()), "expire, grace, error <- WithSecondsBeforeExpiration, WithGraceAuthNsRemaining, WithErrorCode", sprintf("fields: expire=%q grace=%q error=%q", got["expire"], got["grace"], got["error"]))
	S := c.opts()
	for name, fld := range map[string]string{"WithGraceAuthNsRemaining": "withGrace", "WithSecondsBeforeExpiration": "withExpire", "WithErrorCode": "withErrorCode", "WithCriticality": "withCriticality", "WithControlValue": "withControlValue"} {
		fn := c.fn(G, name)
		if fn == nil {
			continue
		}
		oc := S.Ctors[fn]
		ok := oc != nil && oc.OK && len(oc.Sets) == 1 && oc.Sets[0].Field == fld && (oc.Sets[0].Kind == "conv" || oc.Sets[0].Kind == "param") && !oc.Sets[0].Conditional
		R.Check(ok, "C14-behera", name+" sets controlOptions."+fld, c.P.Pos(fn.Pos()), "stores its argument into its own field", "option does not store its argument into controlOptions."+fld)
	}
}

func allFalseExcept(atoms []string, sem map[string]string, on map[string]bool) map[string]bool {
	v := map[string]bool{}
	for _, a := range atoms {
		v[a] = on[sem[a]]
	}
	return v
}

var _ ssa.Value

// checkControlRoundTrip is implemented in c14_roundtrip.go
