package rules

func (c *Ctx) checkControlRoundTrip(refs map[string]func(val map[string]bool) string) {
	c.R.NotDecided = append(c.R.NotDecided, "C14-roundtrip composition (not built yet)")
}
