package rules

import (
	"fmt"
	"go/types"
	"os"
	"regexp"
	"strconv"
	"strings"

	"gldapverif/an"

	"golang.org/x/tools/go/ssa"
)

// wnode is a node of the tree ber.ReadPacket would build from what an
// encoder produced (engine E5, decode side of the control round trip).
type wnode struct {
	enc       *Node
	children  []*wnode // visible after reading from the wire
	hidden    []*wnode // children the encoder nested inside a primitive OCTET STRING
	unwrapped bool     // decodeControl re-parsed Data and appended the result
}

func wireTree(n *Node) *wnode {
	w := &wnode{enc: n}
	for _, c := range n.Children {
		if c.N == nil || c.N.Opaque != "" || c.Repeat != "" {
			continue
		}
		cw := wireTree(c.N)
		if n.Type == "p" { // primitive with nested encoding: opaque bytes on the wire
			w.hidden = append(w.hidden, cw)
		} else {
			w.children = append(w.children, cw)
		}
	}
	return w
}

func (w *wnode) kids() []*wnode {
	if w.unwrapped {
		return w.hidden
	}
	return w.children
}

// valueKind: dynamic type of Packet.Value after ber.ReadPacket (library fact:
// universal primitive BOOLEAN -> bool, INTEGER/ENUMERATED -> int64, OCTET STRING -> string; everything else nil).
func (w *wnode) valueKind() string {
	if w.unwrapped {
		return "nil" // decodeControl sets value.Value = nil when it unwraps
	}
	n := w.enc
	if n.Class != "UNIV" || n.Type != "p" {
		return "nil"
	}
	switch n.Tag {
	case "BOOL":
		return "bool"
	case "INT", "ENUM":
		return "int64"
	case "OCTSTR":
		return "string"
	}
	return "nil"
}

var rePathStep = regexp.MustCompile(`^\.Children\[(\d+)\]`)

// resolve walks a decode-side path expression "$0.Children[1].Children[0]" in the wire tree.
func (w *wnode) resolve(expr string) *wnode {
	if !strings.HasPrefix(expr, "$0") {
		return nil
	}
	rest := expr[2:]
	cur := w
	for rest != "" {
		if strings.HasPrefix(rest, ".Children[*]") {
			// the symbolic element of a range over the children: exact when there is exactly one child
			ks := cur.kids()
			if len(ks) != 1 {
				return nil
			}
			cur = ks[0]
			rest = rest[len(".Children[*]"):]
			continue
		}
		m := rePathStep.FindStringSubmatch(rest)
		if m == nil {
			return nil
		}
		i, _ := strconv.Atoi(m[1])
		ks := cur.kids()
		if i >= len(ks) {
			return nil
		}
		cur = ks[i]
		rest = rest[len(m[0]):]
	}
	return cur
}

var (
	reLenCond   = regexp.MustCompile(`^(<|<=|>|>=|==|!=)\(len\((\$0[^()]*)\.Children\),(\d+)\)$`)
	reLenCondR  = regexp.MustCompile(`^(<|<=|>|>=|==|!=)\((\d+),len\((\$0[^()]*)\.Children\)\)$`)
	reOkCond    = regexp.MustCompile(`^assert\((\$0[^()]*)\.Value,(\w+)\)#1$`)
	reIdentCond = regexp.MustCompile(`^==\((\$0[^()]*)\.Identifier\.(Tag|ClassType|TagType),(\d+)\)$`)
	reIdentCnd2 = regexp.MustCompile(`^==\((\d+),(\$0[^()]*)\.Identifier\.(Tag|ClassType|TagType)\)$`)
	reStrEq     = regexp.MustCompile(`^==\(assert\((\$0[^()]*)\.Value,string\)#0,("[^"]*")\)$`)
	reStrEq2    = regexp.MustCompile(`^==\(("[^"]*"),assert\((\$0[^()]*)\.Value,string\)#0\)$`)
	reValNil    = regexp.MustCompile(`^==\((\$0[^()]*)\.Value,nil(?::[^)]*)?\)$`)
	reValNil2   = regexp.MustCompile(`^==\(nil(?::[^,]*)?,(\$0[^()]*)\.Value\)$`)
)

func cmpInt(a int, op string, b int) bool {
	switch op {
	case "<":
		return a < b
	case "<=":
		return a <= b
	case ">":
		return a > b
	case ">=":
		return a >= b
	case "==":
		return a == b
	case "!=":
		return a != b
	}
	return false
}

var tagNums = map[string]int{"BOOL": 1, "INT": 2, "OCTSTR": 4, "NULL": 5, "ENUM": 10, "SEQ": 16, "SET": 17}
var classNums = map[string]int{"UNIV": 0, "APP": 64, "CTX": 128, "PRIV": 192}
var typeNums = map[string]int{"p": 0, "c": 32}

// controlOracle decides decodeControl's branches from the wire tree.
func controlOracle(root *wnode) func(f *frame, iff *ssa.If) int {
	return func(f *frame, iff *ssa.If) int {
		cs := f.condString(iff.Cond)
		neg := false
		for strings.HasPrefix(cs, "!") && !strings.HasPrefix(cs, "!=(") {
			cs = cs[1:]
			neg = !neg
		}
		// a != b  ->  !(a == b)
		if strings.HasPrefix(cs, "!=(") {
			cs = "==(" + cs[3:]
			neg = !neg
		}
		val, known := false, false
		if m := reLenCond.FindStringSubmatch(cs); m != nil {
			if n := root.resolve(m[2]); n != nil {
				k, _ := strconv.Atoi(m[3])
				val, known = cmpInt(len(n.kids()), m[1], k), true
			}
		} else if m := reLenCondR.FindStringSubmatch(cs); m != nil {
			if n := root.resolve(m[3]); n != nil {
				k, _ := strconv.Atoi(m[2])
				val, known = cmpInt(k, m[1], len(n.kids())), true
			}
		} else if m := reOkCond.FindStringSubmatch(cs); m != nil {
			if n := root.resolve(m[1]); n != nil {
				val, known = n.valueKind() == m[2], true
			}
		} else if m := reIdentCond.FindStringSubmatch(cs); m != nil {
			if n := root.resolve(m[1]); n != nil {
				k, _ := strconv.Atoi(m[3])
				val, known = identOf(n, m[2]) == k, identOf(n, m[2]) >= 0
			}
		} else if m := reIdentCnd2.FindStringSubmatch(cs); m != nil {
			if n := root.resolve(m[2]); n != nil {
				k, _ := strconv.Atoi(m[1])
				val, known = identOf(n, m[3]) == k, identOf(n, m[3]) >= 0
			}
		} else if m := reStrEq.FindStringSubmatch(cs); m != nil {
			if n := root.resolve(m[1]); n != nil {
				val, known = n.enc.Value == m[2], true
			}
		} else if m := reStrEq2.FindStringSubmatch(cs); m != nil {
			if n := root.resolve(m[2]); n != nil {
				val, known = n.enc.Value == m[1], true
			}
		} else if m := reValNil.FindStringSubmatch(cs); m != nil {
			if n := root.resolve(m[1]); n != nil {
				val, known = n.valueKind() == "nil", true
			}
		} else if m := reValNil2.FindStringSubmatch(cs); m != nil {
			if n := root.resolve(m[1]); n != nil {
				val, known = n.valueKind() == "nil", true
			}
		} else if strings.HasPrefix(cs, "==(") {
			// nil test of a local that holds a tree node
			inner, _ := an.Not(iff.Cond)
			if x, trueMeansNil, ok := an.NilCheck(inner); ok {
				sx := f.sym(x)
				if strings.HasPrefix(sx, "$0") && root.resolve(sx) != nil {
					val, known = trueMeansNil == false && false || trueMeansNil && false, true
					// x is non-nil: the un-negated BinOp is true iff it is a != test
					val = !trueMeansNil
					cs = ""
					neg = false
					_, n2 := an.Not(iff.Cond)
					if n2 {
						val = !val
					}
				}
			}
		}
		if !known {
			if os.Getenv("GLDAPCHECK_ORACLE") != "" {
				fmt.Println("   oracle undecided:", f.condString(iff.Cond), "at", f.c.pos(iff))
			}
			return -1
		}
		if neg {
			val = !val
		}
		if os.Getenv("GLDAPCHECK_ORACLE") == "2" {
			fmt.Println("   oracle:", f.condString(iff.Cond), "=>", val, "at", f.c.pos(iff))
		}
		if val {
			return 0
		}
		return 1
	}
}

func identOf(n *wnode, which string) int {
	switch which {
	case "Tag":
		if k, err := strconv.Atoi(n.enc.Tag); err == nil {
			return k
		}
		if k, ok := tagNums[n.enc.Tag]; ok {
			return k
		}
	case "ClassType":
		if k, ok := classNums[n.enc.Class]; ok {
			return k
		}
	case "TagType":
		if k, ok := typeNums[n.enc.Type]; ok {
			return k
		}
	}
	return -1
}

// controlOnCall models `value.AppendChild(ber.DecodePacketErr(value.Data.Bytes()))`.
func controlOnCall(root *wnode) func(f *frame, x *ssa.Call) bool {
	return func(f *frame, x *ssa.Call) bool {
		cc := x.Common()
		if an.CalleeIs(cc, an.PkgBer, "(*Packet).AppendChild") {
			parent := strings.TrimPrefix(f.sym(cc.Args[0]), "&")
			child := f.sym(cc.Args[1])
			if os.Getenv("GLDAPCHECK_ORACLE") != "" {
				fmt.Println("   AppendChild parent=", parent, "child=", child)
			}
			if n := root.resolve(parent); n != nil && strings.Contains(child, "DecodePacketErr("+"github.com/go-asn1-ber/asn1-ber.(*Packet)") || strings.Contains(child, "DecodePacketErr(bytes.(*Buffer).Bytes("+parent+".Data))") {
				if n != nil {
					n.unwrapped = true
				}
				return true
			}
			if n := root.resolve(parent); n != nil && strings.Contains(child, "DecodePacketErr(") && strings.Contains(child, parent+".Data") {
				n.unwrapped = true
				return true
			}
		}
		return false
	}
}

var (
	reAssertVal = regexp.MustCompile(`assert\((\$0(?:\.Children\[(?:\d+|\*)\])*)\.Value,(string|int64|bool)\)#0`)
	reDataBytes = regexp.MustCompile(`bytes\.\(\*Buffer\)\.Bytes\((\$0(?:\.Children\[(?:\d+|\*)\])*)\.Data\)`)
	reParseInt  = regexp.MustCompile(`github\.com/go-asn1-ber/asn1-ber\.ParseInt64\(intenc\(([^()]*)\)\)#0`)
	reInt8Byte  = regexp.MustCompile(`conv<int8>\(intenc\(([^()]*)\)\[0\]\)`)
	reDecodeStr = regexp.MustCompile(`github\.com/go-asn1-ber/asn1-ber\.DecodeString\(bytes\(([^()]*)\)\)`)
	reParseFmt  = regexp.MustCompile(`strconv\.ParseInt\(strconv\.FormatInt\(([^(),]*),10\),10,64\)#0`)
	reConvConv  = regexp.MustCompile(`conv<(\w+)>\(conv<(\w+)>\((\$0\.[A-Za-z]+)\)\)`)
	reConvSame  = regexp.MustCompile(`conv<int64>\((\$0\.(?:expire|grace))\)`)
)

// backSubstitute rewrites a decode-side expression into what it evaluates to
// given the encoder's tree, using the recognised inverse pairs.
func backSubstitute(expr string, root *wnode) (string, []string) {
	var notes []string
	expr = reAssertVal.ReplaceAllStringFunc(expr, func(m string) string {
		sm := reAssertVal.FindStringSubmatch(m)
		n := root.resolve(sm[1])
		if n == nil {
			notes = append(notes, "reads "+sm[1]+" which the encoder does not produce")
			return m
		}
		if n.valueKind() != sm[2] {
			notes = append(notes, fmt.Sprintf("asserts %s at %s but the wire value is %s", sm[2], sm[1], n.valueKind()))
			return m
		}
		return n.enc.Value
	})
	expr = reDataBytes.ReplaceAllStringFunc(expr, func(m string) string {
		sm := reDataBytes.FindStringSubmatch(m)
		n := root.resolve(sm[1])
		if n == nil {
			notes = append(notes, "reads "+sm[1]+" which the encoder does not produce")
			return m
		}
		for _, w := range n.enc.Writes {
			if strings.HasPrefix(w, "Data.Write(") {
				return strings.TrimSuffix(strings.TrimPrefix(w, "Data.Write("), ")")
			}
		}
		switch n.enc.Ctor {
		case "NewString":
			return "bytes(" + n.enc.Value + ")"
		case "NewInteger":
			return "intenc(" + n.enc.Value + ")"
		}
		return m
	})
	for i := 0; i < 4; i++ {
		expr = reParseInt.ReplaceAllString(expr, "conv<int64>($1)")
		expr = reInt8Byte.ReplaceAllString(expr, "conv<int8>($1)")
		// DecodeString(bytes(X)) == X
		expr = replaceBalanced(expr, "github.com/go-asn1-ber/asn1-ber.DecodeString", func(arg string) (string, bool) {
			if strings.HasPrefix(arg, "bytes(") && strings.HasSuffix(arg, ")") {
				return arg[len("bytes(") : len(arg)-1], true
			}
			return "", false
		})
		// ParseInt(FormatInt(X,10),10,64)#0 == X
		expr = replaceBalanced(expr, "strconv.ParseInt", func(arg string) (string, bool) {
			const pre, suf = "strconv.FormatInt(", ",10),10,64"
			if strings.HasPrefix(arg, pre) && strings.HasSuffix(arg, suf) {
				return arg[len(pre) : len(arg)-len(suf)], true
			}
			return "", false
		})
		expr = strings.ReplaceAll(expr, "#0#0", "#0")
	}
	// a successfully inverted ParseInt leaves a dangling "#0" selector
	expr = regexp.MustCompile(`(\$0\.[A-Za-z]+)#0`).ReplaceAllString(expr, "$1")
	return expr, notes
}

// replaceBalanced rewrites every `head(arg)` (arg with balanced parentheses)
// through f; f returns the replacement for the whole call.
func replaceBalanced(expr, head string, f func(arg string) (string, bool)) string {
	from := 0
	for {
		i := strings.Index(expr[from:], head+"(")
		if i < 0 {
			return expr
		}
		i += from
		start := i + len(head) + 1
		depth := 1
		end := -1
		for p := start; p < len(expr); p++ {
			if expr[p] == '(' {
				depth++
			} else if expr[p] == ')' {
				depth--
				if depth == 0 {
					end = p
					break
				}
			}
		}
		if end < 0 {
			return expr
		}
		if rep, ok := f(expr[start:end]); ok {
			expr = expr[:i] + rep + expr[end+1:]
			from = i
		} else {
			from = start
		}
	}
}

// valuePreserving: conv<A>(conv<B>(x)) where x has type A and B is wider; conv<T>(x) where x already has type T.
func dropIdentityConvs(expr string, fieldType map[string]string) string {
	for i := 0; i < 4; i++ {
		expr = reConvConv.ReplaceAllStringFunc(expr, func(m string) string {
			sm := reConvConv.FindStringSubmatch(m)
			ft := fieldType[sm[3]]
			if ft == sm[1] && widerThan(sm[2], sm[1]) {
				return sm[3]
			}
			return m
		})
		// conv<T>(x) where x is of type T
		expr = regexp.MustCompile(`conv<(\w+)>\((\$0\.[A-Za-z]+)\)`).ReplaceAllStringFunc(expr, func(m string) string {
			sm := regexp.MustCompile(`conv<(\w+)>\((\$0\.[A-Za-z]+)\)`).FindStringSubmatch(m)
			if fieldType[sm[2]] == sm[1] {
				return sm[2]
			}
			return m
		})
	}
	return expr
}

func widerThan(a, b string) bool {
	rank := map[string]int{"int8": 1, "uint8": 1, "int16": 2, "uint16": 2, "int32": 3, "uint32": 3, "int": 4, "int64": 4, "uint64": 4}
	if a == "int64" && (b == "uint32" || b == "int32" || b == "int16" || b == "int8" || b == "uint8" || b == "uint16") {
		return true
	}
	return rank[a] > rank[b] && (strings.HasPrefix(a, "u") == strings.HasPrefix(b, "u"))
}

func (c *Ctx) checkControlRoundTrip(refs map[string]func(val map[string]bool) string) {
	R := c.R
	dec := c.fn(G, "decodeControl")
	if dec == nil {
		return
	}
	nTrips := 0
	for _, typ := range sortedKeys(refs) {
		enc := c.fn(G, "(*"+typ+").Encode")
		if enc == nil {
			continue
		}
		// static types of the control's fields
		fieldType := map[string]string{}
		if nt := c.P.NamedType(G, typ); nt != nil {
			if st, ok := nt.Underlying().(interface {
				NumFields() int
			}); ok {
				_ = st
			}
		}
		for _, f := range c.structFields(typ) {
			fieldType["$0."+f[0]] = f[1]
		}
		vs, atoms := c.shapeVariants(enc)
		for _, v := range vs {
			key := "(*" + typ + ") encode->decode"
			if len(atoms) > 0 {
				key += " [" + sortedVals(v.Val) + "]"
			}
			if v.Res.result == nil {
				R.Unknown("C14-roundtrip", key, c.P.Pos(enc.Pos()), "no encoder tree")
				continue
			}
			// Behera: the constructor guarantees at most one of grace/expire/error is set
			if typ == "ControlBeheraPasswordPolicy" {
				set := 0
				for a, b := range v.Val {
					if strings.HasPrefix(a, "<($0.") && !b {
						set++
					}
				}
				if set > 1 {
					continue
				}
			}
			if os.Getenv("GLDAPCHECK_ORACLE") != "" {
				fmt.Println("== roundtrip", key, "tree", v.Shape)
			}
			encTree := v.Res.result
			paths, complete := c.guidedPathsF(dec, &symEnv{}, map[string]bool{}, 64, func() (func(f *frame, iff *ssa.If) int, func(f *frame, x *ssa.Call) bool, any) {
				rt := wireTree(encTree)
				return controlOracle(rt), controlOnCall(rt), rt
			})
			if !complete || len(paths) == 0 {
				R.Unknown("C14-roundtrip", key, c.P.Pos(dec.Pos()), sprintf("decodeControl has %d success paths for this tree (complete=%v)", len(paths), complete))
				continue
			}
			nTrips++
			bad := ""
			detail := ""
			// value ranges narrower than the field types: the encode path's own conditions, and for the Behera control
			// the constructor's guarantee error <= 8 (rule C14-behera)
			narrow := map[string][2]float64{}
			for a, b := range v.Val {
				if m := regexp.MustCompile(`^<\((\$0\.[A-Za-z]+),0\)$`).FindStringSubmatch(a); m != nil {
					if r, ok := intRanges[fieldType[m[1]]]; ok {
						if b {
							r[1] = -1
						} else {
							r[0] = 0
						}
						narrow[m[1]] = r
					}
				}
			}
			if typ == "ControlBeheraPasswordPolicy" {
				if r, ok := narrow["$0.error"]; ok && r[1] > 8 {
					r[1] = 8
					narrow["$0.error"] = r
				}
			}
			for _, p := range paths {
				root := p.State.(*wnode)
				// branches the success path takes without a decision: the decoder accepts the encoder's tree only
				// if they go that way for every field value
				for _, fb := range p.Forced {
					if why := forcedHolds(fb, root, fieldType, narrow); why != "" {
						bad = sprintf("decodeControl rejects (some of) the packets Encode produces: the branch at %s %s", fb.Pos, why)
					}
				}
				r := p.Res
				if r.undec != "" || k(r) == nil || len(r.retExpr) < 1 {
					bad = "a success path cannot be interpreted: " + r.undec
					break
				}
				got := ptrNamed(an.Strip(an.ReturnResults(k(r))[0]).Type())
				if got != typ {
					bad = "decodeControl returns a *" + got
					break
				}
				fields := map[string]string{}
				if strings.HasPrefix(r.retExpr[0], "&alloc:") {
					r.fr.fieldsOf(r.retExpr[0][1:], "", fields, 0)
				}
				for _, f := range c.structFields(typ) {
					name := f[0]
					if name == "MustChange" || name == "errorString" {
						continue
					}
					gotE, has := fields[name]
					if !has {
						gotE = "zero"
					}
					back, notes := backSubstitute(gotE, root)
					back = dropIdentityConvs(back, fieldType)
					want := "$0." + name
					ok := back == want || valueFixedByPath(name, back, v.Val, typ)
					if !ok || len(notes) > 0 {
						bad = sprintf("field %s comes back as %s (decoder reads %s)%s", name, back, gotE, map[bool]string{true: "; " + strings.Join(notes, "; "), false: ""}[len(notes) > 0])
					} else {
						detail += name + " "
					}
				}
			}
			R.Check(bad == "", "C14-roundtrip", key, c.P.Pos(dec.Pos()), "decodeControl on the encoder's tree returns *"+typ+" with every field traced back to the node that carried it: "+strings.TrimSpace(detail), "the control does not survive encode->decode: "+bad)
		}
	}
	R.Count("C14-roundtrip/trips", nTrips)
	R.Floor("C14-roundtrip", 12)
}

// structFields lists (name, type string) of a gldap struct's fields.
func (c *Ctx) structFields(typ string) [][2]string {
	nt := c.P.NamedType(G, typ)
	if nt == nil {
		return nil
	}
	var out [][2]string
	type fielder interface {
		NumFields() int
	}
	if st, ok := nt.Underlying().(fielder); ok {
		_ = st
	}
	s, _ := nt.Underlying().(*types.Struct)
	if s == nil {
		return nil
	}
	for i := 0; i < s.NumFields(); i++ {
		t := s.Field(i).Type().String()
		if j := strings.LastIndex(t, "."); j >= 0 {
			t = t[j+1:]
		}
		out = append(out, [2]string{s.Field(i).Name(), t})
	}
	return out
}

// valueFixedByPath: the encoder did not carry the field on this path because
// the path condition fixes its value, and the decoder produced exactly that value.
func valueFixedByPath(field, got string, val map[string]bool, typ string) bool {
	has := func(sub string) (bool, bool) {
		for a, b := range val {
			if strings.Contains(a, sub) {
				return b, true
			}
		}
		return false, false
	}
	switch field {
	case "Criticality":
		if b, ok := has("$0.Criticality"); ok && !b {
			return got == "false" || got == "zero" || got == "opt(withCriticality)"
		}
	case "ControlValue":
		if b, ok := has(`==("",$0.ControlValue)`); ok && b {
			return got == `""` || got == "zero"
		}
	case "grace", "expire", "error":
		// not encoded when unset (< 0): decoder leaves the constructor default -1
		if b, ok := has("<($0." + field + ",0)"); ok && b {
			return strings.Contains(got, "-1")
		}
		// shadowed by an earlier arm of the encoder's switch: the constructor guarantees it is -1 then
		if b, ok := has("<($0." + field + ",0)"); ok && !b {
			return strings.Contains(got, "-1")
		}
	}
	return false
}

var (
	reErrNil   = regexp.MustCompile(`^==\((.*)#1,nil(?::[^)]*)?\)$`)
	reCmpConst = regexp.MustCompile(`^(<|<=|>|>=|==)\((.*),(-?\d+)\)$`)
	reCmpCnstL = regexp.MustCompile(`^(<|<=|>|>=|==)\((-?\d+),(.*)\)$`)
)

// forcedHolds decides a branch the guided decode walk was forced through
// (the other side only returns errors): "" when the branch goes that way for
// every value the encoder can have put into the tree, otherwise the reason.
func forcedHolds(fb forcedBranch, root *wnode, fieldType map[string]string, narrow map[string][2]float64) string {
	if fb.Oracle >= 0 {
		return "goes the other way for this tree (" + fb.Cond + ")"
	}
	cs := fb.Cond
	want := fb.Succ == 0 // the condition as written must evaluate to this
	if cs == "true" || cs == "false" {
		if (cs == "true") == want {
			return ""
		}
		return "goes the other way (constant " + cs + ")"
	}
	for strings.HasPrefix(cs, "!") && !strings.HasPrefix(cs, "!=(") {
		cs = cs[1:]
		want = !want
	}
	if strings.HasPrefix(cs, "!=(") {
		cs = "==(" + cs[3:]
		want = !want
	}
	back, notes := backSubstitute(cs, root)
	if len(notes) > 0 {
		return "tests something the encoder does not produce (" + strings.Join(notes, "; ") + ")"
	}
	back = dropIdentityConvs(back, fieldType)
	// the error of a recognised inverse applied to what the encoder wrote
	if m := reErrNil.FindStringSubmatch(back); m != nil {
		x := m[1]
		switch {
		case strings.HasPrefix(x, "github.com/go-asn1-ber/asn1-ber.DecodePacketErr(") && want:
			// re-parse of a primitive in which the encoder nested an encoding
			if mm := reDataBytes.FindStringSubmatch(fb.Cond); mm != nil {
				if n := root.resolve(mm[1]); n != nil && len(n.hidden) > 0 {
					return ""
				}
			}
			return "re-parses bytes in which the encoder nested no encoding"
		case strings.HasPrefix(x, "github.com/go-asn1-ber/asn1-ber.ParseInt64(intenc(") && want:
			return "" // intenc is at most 8 bytes: ParseInt64 succeeds
		case strings.HasPrefix(x, "conv<int64>(") && want:
			return "" // ParseInt64(intenc(v)) already inverted
		case regexp.MustCompile(`^\$0\.[A-Za-z]+$`).MatchString(x) && want:
			return "" // ParseInt(FormatInt(v)) already inverted
		}
		return "depends on an error the round trip cannot exclude (" + back + ")"
	}
	var op, e string
	var k int64
	if m := reCmpConst.FindStringSubmatch(back); m != nil {
		op, e = m[1], m[2]
		k, _ = strconv.ParseInt(m[3], 10, 64)
	} else if m := reCmpCnstL.FindStringSubmatch(back); m != nil {
		op, e = map[string]string{"<": ">", "<=": ">=", ">": "<", ">=": "<=", "==": "=="}[m[1]], m[3]
		k, _ = strconv.ParseInt(m[2], 10, 64)
	} else {
		return "is not decided by the encoder's tree (" + back + ")"
	}
	lo, hi, ok := rangeOfExpr(e, fieldType, narrow)
	if !ok {
		return "is not decided by the encoder's tree (" + back + ")"
	}
	always, never := false, false
	switch op {
	case "<":
		always, never = hi < float64(k), lo >= float64(k)
	case "<=":
		always, never = hi <= float64(k), lo > float64(k)
	case ">":
		always, never = lo > float64(k), hi <= float64(k)
	case ">=":
		always, never = lo >= float64(k), hi < float64(k)
	case "==":
		always, never = lo == hi && lo == float64(k), float64(k) < lo || float64(k) > hi
	}
	if (want && always) || (!want && never) {
		return ""
	}
	return sprintf("rejects field values the control can hold: it needs %s to be %v, but %s ranges over [%.0f, %.0f]", back, want, e, lo, hi)
}

var intRanges = map[string][2]float64{
	"int8": {-128, 127}, "uint8": {0, 255}, "int16": {-32768, 32767}, "uint16": {0, 65535},
	"int32": {-2147483648, 2147483647}, "uint32": {0, 4294967295},
	"int": {-9223372036854775808, 9223372036854775807}, "int64": {-9223372036854775808, 9223372036854775807},
	"uint": {0, 18446744073709551615}, "uint64": {0, 18446744073709551615},
}

var reConvOf = regexp.MustCompile(`^conv<(\w+)>\((.*)\)$`)

// rangeOfExpr: value range of `$0.F`, `len(intenc(...))`, or conversions of those.
func rangeOfExpr(e string, fieldType map[string]string, narrow map[string][2]float64) (float64, float64, bool) {
	if r, ok := narrow[e]; ok {
		return r[0], r[1], true
	}
	// first byte of the minimal encoding of a value in 0..127 is the value
	if strings.HasPrefix(e, "intenc(") && strings.HasSuffix(e, ")[0]") {
		if lo, hi, ok := rangeOfExpr(e[len("intenc("):len(e)-len(")[0]")], fieldType, narrow); ok && lo >= 0 && hi <= 127 {
			return lo, hi, true
		}
		return 0, 255, true
	}
	if t, ok := fieldType[e]; ok {
		if r, ok := intRanges[t]; ok {
			return r[0], r[1], true
		}
		return 0, 0, false
	}
	if strings.HasPrefix(e, "len(intenc(") && strings.HasSuffix(e, "))") {
		inner := e[len("len(intenc(") : len(e)-2]
		if lo, hi, ok := rangeOfExpr(inner, fieldType, narrow); ok {
			// two's complement minimal encoding
			n := func(v float64) float64 {
				for i := 1; i < 8; i++ {
					lim := float64(int64(1) << uint(8*i-1))
					if v >= -lim && v < lim {
						return float64(i)
					}
				}
				return 8
			}
			a, b := n(lo), n(hi)
			if lo <= 0 && hi >= 0 {
				return 1, maxf(a, b), true
			}
			return minf(a, b), maxf(a, b), true
		}
		return 1, 8, true
	}
	if m := reConvOf.FindStringSubmatch(e); m != nil {
		r, okT := intRanges[m[1]]
		lo, hi, ok := rangeOfExpr(m[2], fieldType, narrow)
		if !okT {
			return 0, 0, false
		}
		if ok && lo >= r[0] && hi <= r[1] {
			return lo, hi, true
		}
		return r[0], r[1], true
	}
	if k, err := strconv.ParseInt(e, 10, 64); err == nil {
		return float64(k), float64(k), true
	}
	return 0, 0, false
}

func minf(a, b float64) float64 {
	if a < b {
		return a
	}
	return b
}

func maxf(a, b float64) float64 {
	if a > b {
		return a
	}
	return b
}
