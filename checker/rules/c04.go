package rules

import (
	"go/token"
	"go/types"
	"regexp"
	"strings"

	"gldapverif/an"
	"gldapverif/report"

	"golang.org/x/tools/go/ssa"
)

func init() {
	Registry["C04"] = checkC04
	Descriptions["C04"] = "Engine E5 (encode side): the BER tree built by every response encoder is obtained by symbolic interpretation of its SSA along every path (callees such as beginResponse / addOptionalResponseChildren / encodeControls / EntryAttribute.encode inlined, functional options resolved) and compared with the RFC 4511 reference grammar: " +
		"C04-shape (envelope SEQ{INT messageID, APP[tag]{ENUM code, OCTSTR matchedDN, OCTSTR diagnostic}, [0] controls}, entry APP[4]{DN, SEQ of SEQ{name, SET of values}} in slice order), " +
		"C04-ctor (each New*Response stores r.message.GetID() and exactly the option values / documented defaults into the fields the encoder reads), C04-options (each With* option writes its own field), C04-setter (each setter writes the field its encoder slot reads), " +
		"C04-write (the bytes written are r.packet().Bytes()), C04-controls (what each control's Encode puts on the wire, rule C14-encode-ref; ber.AppendChild is modelled as copying the child's bytes at the time of the call), C04-newinteger (every ber.NewInteger receives a dynamic type the library accepts). Decides which value ends up in which slot of which tag for all values; BER length/identifier encoding is the library's. C04-setter also requires the store on every path of the setter (no argument value turns it into a no-op). C04-writer-unlocked: every Lock of the connection's writer mutex is released on every path."
}

var typeAnnot = regexp.MustCompile(`:[a-z0-9]+`)

var convLit = regexp.MustCompile(`conv<u?int[0-9]*>\((-?[0-9]+)\)`)

func stripTypes(s string) string { return typeAnnot.ReplaceAllString(s, "") }

func ldapResultRef(tag string, controls bool) string {
	s := "SEQ{INT<-$0.baseResponse.messageID, APP[" + tag + "]c{ENUM<-$0.baseResponse.code, OCTSTR<-$0.baseResponse.matchedDN, OCTSTR<-$0.baseResponse.diagMessage}"
	if controls {
		s += ", CTX[0]c{*[$0.controls]$0.controls[*].Encode()}"
	}
	return s + "}"
}

const entryRef = "SEQ{INT<-$0.baseResponse.messageID, APP[4]c{OCTSTR<-$0.entry.DN, SEQ{*[$0.entry.Attributes]SEQ{OCTSTR<-$0.entry.Attributes[*].Name, SET{*[$0.entry.Attributes[*].Values]OCTSTR<-$0.entry.Attributes[*].Values[*]}}}}}"

func checkC04(c *Ctx) {
	R := c.R
	// ---- C04-shape
	type enc struct {
		fn   string
		want func(val map[string]bool) string
	}
	hasControls := func(val map[string]bool) bool {
		for k, v := range val {
			if strings.Contains(k, "len($0.controls)") {
				return v
			}
		}
		return false
	}
	encs := []enc{
		{"(*ExtendedResponse).packet", func(map[string]bool) string { return ldapResultRef("24", false) }},
		{"(*BindResponse).packet", func(v map[string]bool) string { return ldapResultRef("1", hasControls(v)) }},
		{"(*GeneralResponse).packet", func(map[string]bool) string { return ldapResultRef("conv<ber.Tag>($0.applicationCode)", false) }},
		{"(*SearchResponseDone).packet", func(v map[string]bool) string { return ldapResultRef("5", hasControls(v)) }},
		{"(*SearchResponseEntry).packet", func(map[string]bool) string { return entryRef }},
	}
	for _, e := range encs {
		f := c.fn(G, e.fn)
		if f == nil {
			continue
		}
		vs, atoms := c.shapeVariants(f)
		for _, a := range atoms {
			if !strings.Contains(a, "len($0.controls)") {
				R.Fail("C04-shape", e.fn+": unexpected condition", c.P.Pos(f.Pos()), "the encoding depends on "+a+", which the reference grammar does not know")
			}
		}
		for _, v := range vs {
			key := e.fn
			if len(atoms) > 0 {
				key += " [" + sortedVals(v.Val) + "]"
			}
			got := stripTypes(v.Shape)
			want := e.want(v.Val)
			R.Check(got == want, "C04-shape", key, c.P.Pos(f.Pos()), "tree = "+got, "encoded tree differs from RFC 4511: got "+got+" want "+want)
		}
	}
	// ModifyResponse encodes through its embedded GeneralResponse
	if mr := c.P.NamedType(G, "ModifyResponse"); mr != nil {
		ms := c.P.SSA.MethodSets.MethodSet(types.NewPointer(mr))
		sel := ms.Lookup(mr.Obj().Pkg(), "packet")
		okEmb := false
		if sel != nil {
			if fn := c.P.SSA.MethodValue(sel); fn != nil {
				// promoted through *GeneralResponse
				okEmb = strings.Contains(fn.Synthetic, "wrapper") || an.ShortName(fn) == "(*GeneralResponse).packet"
				if st, ok := mr.Underlying().(*types.Struct); ok && st.NumFields() == 1 && st.Field(0).Embedded() && an.TypeIs(st.Field(0).Type(), G, "GeneralResponse") {
					okEmb = okEmb && true
				} else {
					okEmb = false
				}
			}
		}
		R.Check(okEmb, "C04-shape", "(*ModifyResponse).packet is (*GeneralResponse).packet", c.P.Pos(mr.Obj().Pos()), "promoted from the single embedded *GeneralResponse", "ModifyResponse has its own encoder or other fields")
	}
	R.Floor("C04-shape", 8)

	// ---- C04-options
	S := c.opts()
	wantOpt := map[string]struct{ field, kind string }{
		"WithResponseCode":      {"withResponseCode", "paramAddr"},
		"WithApplicationCode":   {"withApplicationCode", "paramAddr"},
		"WithDiagnosticMessage": {"withDiagnosticMessage", "param"},
		"WithMatchedDN":         {"withMatchedDN", "param"},
		"WithAttributes":        {"withAttributes", "param"},
	}
	for _, name := range sortedKeys(wantOpt) {
		f := c.fn(G, name)
		if f == nil {
			continue
		}
		oc := S.Ctors[f]
		w := wantOpt[name]
		ok := oc != nil && oc.OK && len(oc.Sets) == 1 && oc.Sets[0].Struct == "responseOptions" && oc.Sets[0].Field == w.field && oc.Sets[0].Kind == w.kind && oc.Sets[0].Param == 0 && !oc.Sets[0].Conditional
		detail := ""
		if oc != nil {
			detail = sprintf("%+v %s", oc.Sets, oc.Why)
		}
		R.Check(ok, "C04-options", name+" sets responseOptions."+w.field, c.P.Pos(f.Pos()), "the option stores its argument, unconditionally, into its own field", "the option does not store exactly its argument into responseOptions."+w.field+": "+detail)
		// nobody else writes that field
		for _, other := range S.settersOf("responseOptions", w.field) {
			if other.Fn != f {
				R.Fail("C04-options", other.Fn.Name()+" also sets responseOptions."+w.field, c.P.Pos(other.Fn.Pos()), "two options write the same field")
			}
		}
	}
	if g := S.getterFor("responseOptions", G); g == nil || !g.OK {
		R.Fail("C04-options", "getResponseOpts is defaults + caller's options", "-", "getResponseOpts is not the canonical defaults+apply")
	} else {
		R.OK("C04-options", "getResponseOpts is defaults + caller's options", c.P.Pos(g.Fn.Pos()), "canonical apply loop; later options override earlier ones")
	}

	// ---- C04-ctor
	fieldRE := regexp.MustCompile(`\.(with[A-Za-z]+),nil\)`)
	type ctorRef struct {
		fn     string
		prefix string
		expect func(unset map[string]bool) map[string]string
	}
	mid := "$0.message.GetID()"
	general := func(prefix string, app string) func(map[string]bool) map[string]string {
		return func(unset map[string]bool) map[string]string {
			m := map[string]string{
				prefix + "baseResponse.messageID":   mid,
				prefix + "baseResponse.diagMessage": "opt(withDiagnosticMessage)",
				prefix + "baseResponse.matchedDN":   "opt(withMatchedDN)",
				prefix + "baseResponse.code":        "conv<int16>(opt(withResponseCode))",
				prefix + "applicationCode":          "opt(withApplicationCode)",
			}
			if unset["withResponseCode"] {
				m[prefix+"baseResponse.code"] = "conv<int16>(53)"
			}
			if app != "" {
				m[prefix+"applicationCode"] = app
			} else if unset["withApplicationCode"] {
				m[prefix+"applicationCode"] = "24"
			}
			return m
		}
	}
	simple := func(unset map[string]bool) map[string]string {
		m := map[string]string{"baseResponse.messageID": mid}
		if !unset["withResponseCode"] {
			m["baseResponse.code"] = "conv<int16>(opt(withResponseCode))"
		} else {
			m["baseResponse.code"] = "conv<int16>(0)" // ResultSuccess: the zero value, stored or simply left unset
		}
		return m
	}
	ctors := []ctorRef{
		{"(*Request).NewResponse", "", general("", "")},
		{"(*Request).NewModifyResponse", "GeneralResponse.", general("GeneralResponse.", "7")},
		{"(*Request).NewExtendedResponse", "", simple},
		{"(*Request).NewBindResponse", "", simple},
		{"(*Request).NewSearchDoneResponse", "", simple},
	}
	for _, cr := range ctors {
		f := c.fn(G, cr.fn)
		if f == nil {
			continue
		}
		w := &an.Walker{Fn: f}
		{
			// helpers that are handed the options struct (opts.resultCode(def)) decide on option fields too
			probe := &frame{c: c, fn: f, env: &symEnv{}, mem: map[string]string{}, nodes: map[ssa.Value]*Node{}, optsV: map[ssa.Value]bool{}, elem: map[ssa.Value]string{}}
			probe.findOpts()
			w.Helpers = probe.optsHelperCalls()
		}
		atoms := w.CondAtoms()
		okAtoms := true
		for _, a := range atoms {
			if !fieldRE.MatchString(a) {
				okAtoms = false
				R.Fail("C04-ctor", cr.fn+": unexpected condition", c.P.Pos(f.Pos()), "the constructor branches on "+a)
			}
		}
		if !okAtoms {
			continue
		}
		for _, val := range an.Valuations(atoms) {
			unset := map[string]bool{}
			var tags []string
			for a, b := range val {
				fld := fieldRE.FindStringSubmatch(a)[1]
				unset[fld] = b
				if b {
					tags = append(tags, "no "+fld)
				}
			}
			key := cr.fn
			if len(tags) > 0 {
				sortStrings(tags)
				key += " [" + strings.Join(tags, ", ") + "]"
			}
			r := c.interp(f, &symEnv{}, val, nil)
			if r.undec != "" || len(r.retExpr) != 1 || !strings.HasPrefix(r.retExpr[0], "&alloc:") {
				R.Unknown("C04-ctor", key, c.P.Pos(f.Pos()), "cannot interpret the constructor: "+r.undec+" "+strings.Join(r.notes, "; "))
				continue
			}
			got := map[string]string{}
			r.fr.fieldsOf(r.retExpr[0][1:], "", got, 0)
			want := cr.expect(unset)
			diff := ""
			// a converted integer literal is that literal
			for k, v := range got {
				got[k] = convLit.ReplaceAllString(v, "$1")
			}
			for k, v := range want {
				want[k] = convLit.ReplaceAllString(v, "$1")
			}
			for _, k := range sortedKeys(want) {
				if got[k] != want[k] {
					if _, set := got[k]; !set && (want[k] == "conv<int16>(0)" || want[k] == "0") {
						continue // left at the zero value, which is what is wanted
					}
					diff += sprintf("%s = %q, want %q; ", k, got[k], want[k])
				}
			}
			for _, k := range sortedKeys(got) {
				if _, ok := want[k]; !ok && !strings.HasSuffix(k, ".name") {
					diff += sprintf("unexpected %s = %q; ", k, got[k])
				}
			}
			R.Check(diff == "", "C04-ctor", key, c.P.Pos(f.Pos()), sprintf("%d response fields carry the request's message ID and the caller's option values / defaults", len(want)), "constructor stores the wrong value: "+diff)
		}
	}
	// NewSearchResponseEntry
	if f := c.fn(G, "(*Request).NewSearchResponseEntry"); f != nil {
		r := c.interp(f, &symEnv{}, map[string]bool{}, nil)
		got := map[string]string{}
		if len(r.retExpr) == 1 && strings.HasPrefix(r.retExpr[0], "&alloc:") {
			r.fr.fieldsOf(r.retExpr[0][1:], "", got, 0)
		}
		ok := got["baseResponse.messageID"] == mid && got["entry.DN"] == "$1"
		R.Check(ok, "C04-ctor", "(*Request).NewSearchResponseEntry", c.P.Pos(f.Pos()), "messageID = r.message.GetID(), entry.DN = the entryDN argument", sprintf("entry constructor stores messageID=%q DN=%q", got["baseResponse.messageID"], got["entry.DN"]))
		// attributes: appended NewEntryAttribute(key, value) while ranging over opts.withAttributes
		okAttr := false
		for _, ci := range an.Calls(f) {
			if an.CalleeIs(ci.Common(), G, "NewEntryAttribute") {
				a0, a1 := an.Strip(ci.Common().Args[0]), an.Strip(ci.Common().Args[1])
				e0, ok0 := a0.(*ssa.Extract)
				e1, ok1 := a1.(*ssa.Extract)
				if ok0 && ok1 && e0.Tuple == e1.Tuple && e0.Index == 1 && e1.Index == 2 {
					if nx, ok := e0.Tuple.(*ssa.Next); ok {
						if rg, ok := nx.Iter.(*ssa.Range); ok {
							fr := &frame{c: c, fn: f, env: &symEnv{}, mem: map[string]string{}, nodes: map[ssa.Value]*Node{}, optsV: map[ssa.Value]bool{}, elem: map[ssa.Value]string{}}
							fr.findOpts()
							if fld, ok := fr.optsField(rg.X); ok && fld == "withAttributes" {
								okAttr = true
							}
						}
					}
				}
			}
		}
		R.Check(okAttr, "C04-ctor", "(*Request).NewSearchResponseEntry: attributes from WithAttributes", c.P.Pos(f.Pos()), "one NewEntryAttribute(name, values) per entry of the WithAttributes map", "attributes are not built as NewEntryAttribute(key, value) of the WithAttributes map")
	}
	if f := c.fn(G, "NewEntryAttribute"); f != nil {
		// on every path (every valuation of the function's branch atoms)
		okAll, bad := true, ""
		atoms := (&an.Walker{Fn: f}).CondAtoms()
		for _, val := range an.Valuations(atoms) {
			r := c.interp(f, &symEnv{}, val, nil)
			got := map[string]string{}
			if len(r.retExpr) == 1 && strings.HasPrefix(r.retExpr[0], "&alloc:") {
				r.fr.fieldsOf(r.retExpr[0][1:], "", got, 0)
			}
			if got["Name"] != "$0" || got["Values"] != "$1" {
				okAll, bad = false, sprintf("NewEntryAttribute stores Name=%q Values=%q%s %s", got["Name"], got["Values"], an.ValString(val), r.undec)
			}
		}
		R.Check(okAll, "C04-ctor", "NewEntryAttribute", c.P.Pos(f.Pos()), sprintf("Name and Values are the arguments on every path (%d branch atoms)", len(atoms)), bad)
	}
	R.Floor("C04-ctor", 12)

	// ---- C04-setter
	setters := []struct{ fn, typ, field, want string }{
		{"(*baseResponse).SetResultCode", "baseResponse", "code", "conv<int16>($1)"},
		{"(*baseResponse).SetDiagnosticMessage", "baseResponse", "diagMessage", "$1"},
		{"(*baseResponse).SetMatchedDN", "baseResponse", "matchedDN", "$1"},
		{"(*BindResponse).SetControls", "BindResponse", "controls", "$1"},
		{"(*SearchResponseDone).SetControls", "SearchResponseDone", "controls", "$1"},
	}
	for _, s := range setters {
		f := c.fn(G, s.fn)
		if f == nil {
			continue
		}
		stores := 0
		ok := false
		an.Instrs(f, func(in ssa.Instruction) {
			if st, isSt := in.(*ssa.Store); isSt {
				stores++
				if base, isF := fieldAddr(st.Addr, G, s.typ, s.field); isF && an.Strip(base) == ssa.Value(f.Params[0]) && an.Canon(st.Val) == s.want {
					ok = true
				}
			}
		})
		R.Check(ok && stores == 1, "C04-setter", s.fn+" writes "+s.field, c.P.Pos(f.Pos()), s.field+" = "+s.want, "the setter does not store its argument into "+s.typ+"."+s.field)
		if ok && stores == 1 {
			// ... for every argument: no return is reached without the store (a nil receiver aside)
			known := map[string]bool{}
			an.Instrs(f, func(in ssa.Instruction) {
				if iff, isIf := in.(*ssa.If); isIf {
					if x, trueMeansNil, isNC := an.NilCheck(iff.Cond); isNC && an.Strip(x) == ssa.Value(f.Params[0]) {
						key, neg := an.CondKey(iff.Cond)
						known[key] = (!trueMeansNil) != neg
					}
				}
			})
			isStore := func(in ssa.Instruction) bool { _, isSt := in.(*ssa.Store); return isSt }
			w := an.SearchKnown(an.Entry(f), an.IsReturn, isStore, known)
			R.Check(w == nil, "C04-setter", s.fn+" writes "+s.field+" for every argument", c.P.Pos(f.Pos()), "no return is reached without the store", "the setter returns without storing its argument on some path ("+c.trail(w)+"): what the handler set last is not what is encoded")
		}
	}
	if f := c.fn(G, "(*SearchResponseEntry).AddAttribute"); f != nil {
		ok := false
		for _, fs := range fieldStores([]*ssa.Function{f}, G, "Entry", "Attributes") {
			cv := an.Canon(fs.Store.Val)
			if strings.HasPrefix(cv, "append($0.entry.Attributes,") {
				for _, ci := range an.Calls(f) {
					if an.CalleeIs(ci.Common(), G, "NewEntryAttribute") && an.Canon(ci.Common().Args[0]) == "$1" && an.Canon(ci.Common().Args[1]) == "$2" {
						ok = true
					}
				}
			}
		}
		R.Check(ok, "C04-setter", "(*SearchResponseEntry).AddAttribute appends", c.P.Pos(f.Pos()), "entry.Attributes = append(entry.Attributes, NewEntryAttribute(name, values)): order added is order encoded", "AddAttribute does not append NewEntryAttribute(name, values) to the entry's attributes")
	}
	R.Floor("C04-setter", 6)

	// ---- C04-write (shared with C05)
	if write, respIdx, _ := c.frameEmitter(); write != nil {
		n := 0
		for _, ci := range an.Calls(write) {
			m, _, ok := isBufioWriterMethod(ci.Common())
			if !ok || m != "Write" {
				continue
			}
			n++
			got := an.Canon(ci.Common().Args[1])
			want := sprintf("github.com/go-asn1-ber/asn1-ber.(*Packet).Bytes($%d.packet().Packet)", respIdx)
			if emitterTakesBytes[write] {
				want = sprintf("$%d", respIdx) // the emitter's parameter that Write fills with r.packet().Bytes()
			}
			R.Check(got == want, "C04-write", "(*ResponseWriter).Write: bytes written", c.pos(ci), "r.packet().Bytes() of the response parameter", "bytes handed to the stream are "+got)
		}
		if n != 1 {
			R.Fail("C04-write", "(*ResponseWriter).Write: one write", c.P.Pos(write.Pos()), sprintf("%d writer.Write calls", n))
		}
	}

	// ---- C04-write-flushed: "arrives at the client" needs the frame to be flushed by the same Write (rules of C05)
	{
		tmp := &Ctx{P: c.P, R: report.New("tmp"), Tier: c.Tier, Sub: true}
		checkC05(tmp)
		for _, o := range tmp.R.Obls {
			if o.Rule == "C05-oneframe" {
				switch o.Status {
				case report.Discharged:
					R.OK("C04-write-flushed", o.Construct, o.Pos, o.Detail)
				default:
					R.Fail("C04-write-flushed", o.Construct, o.Pos, o.Detail)
				}
			}
		}
		R.Floor("C04-write-flushed", 2)
	}

	// ---- C04-writer-unlocked: "arrives at the client": every Write of a connection takes the connection's writer lock
	// first, so a path that leaves that lock held (e.g. an early return between Lock and Unlock) makes every later
	// response of the connection block for ever instead of arriving. The lock is the sync.Mutex whose address the
	// connection hands to newResponseWriter, and the *sync.Mutex field of ResponseWriter that receives it.
	{
		isWriterLock := func(mu ssa.Value) bool {
			mu = an.Strip(mu)
			if fa, ok := mu.(*ssa.FieldAddr); ok {
				// &c.<field> of conn, the field given to newResponseWriter
				if nrw := c.fn(G, "newResponseWriter"); nrw != nil {
					for _, f := range c.shippedFuncs(G) {
						for _, ci := range an.Calls(f) {
							if an.StaticCallee(ci.Common()) == nrw && len(ci.Common().Args) > 1 {
								if la, ok := an.Strip(ci.Common().Args[1]).(*ssa.FieldAddr); ok && types.Identical(la.X.Type(), fa.X.Type()) && la.Field == fa.Field {
									return true
								}
							}
						}
					}
				}
				return false
			}
			if ld, ok := mu.(*ssa.UnOp); ok && ld.Op == token.MUL {
				if fa, ok := ld.X.(*ssa.FieldAddr); ok && an.TypeIs(fa.X.Type(), G, "ResponseWriter") {
					if pt, ok := fa.Type().(*types.Pointer); ok {
						if ppt, ok := pt.Elem().(*types.Pointer); ok && an.TypeIs(ppt.Elem(), "sync", "Mutex") {
							return true
						}
					}
				}
			}
			return false
		}
		n := 0
		for _, f := range c.shippedFuncs(G) {
			for _, ci := range an.Calls(f) {
				k, mu := an.LockOp(ci.Common())
				if k != "Lock" || !isCall(ci) || !isWriterLock(mu) {
					continue
				}
				n++
				mp := an.MutexPath(mu)
				unlock := func(in ssa.Instruction) bool {
					c2, ok := in.(ssa.CallInstruction)
					if !ok {
						return false
					}
					k2, m2 := an.LockOp(c2.Common())
					return k2 == "Unlock" && an.MutexPath(m2) == mp && !isGo(c2)
				}
				w := an.Search(an.After(ci), an.IsReturn, unlock)
				R.Check(w == nil, "C04-writer-unlocked", fname(f)+": the connection's writer lock is released on every path", c.pos(ci), "every path from the Lock to a return passes Unlock (or its defer)",
					"the connection's writer lock ("+mp+") stays held on some path ("+c.trail(w)+"): every later ResponseWriter.Write on the connection blocks for ever, so no further response arrives")
			}
		}
		R.Floor("C04-writer-unlocked", 1)
	}

	// ---- C04-controls: "controls are exactly those the handler set": the response tree carries controls[*].Encode();
	// what each exported control's Encode puts on the wire is the C14-encode-ref rule (imported)
	{
		tmp := &Ctx{P: c.P, R: report.New("tmp"), Tier: c.Tier, Sub: true}
		checkC14(tmp)
		for _, o := range tmp.R.Obls {
			if o.Rule == "C14-encode-ref" {
				switch o.Status {
				case report.Discharged:
					R.OK("C04-controls", o.Construct, o.Pos, o.Detail)
				default:
					R.Fail("C04-controls", o.Construct, o.Pos, o.Detail)
				}
			}
		}
		R.Floor("C04-controls", 25)
	}

	// ---- C04-newinteger
	e := c.newPF()
	nInt := 0
	for _, f := range c.shippedFuncs(G) {
		for _, ci := range an.Calls(f) {
			if !an.CalleeIs(ci.Common(), an.PkgBer, "NewInteger") {
				continue
			}
			nInt++
			v := ci.Common().Args[3]
			mi, isMI := v.(*ssa.MakeInterface)
			tn := ""
			if isMI {
				tn = types.TypeString(mi.X.Type().Underlying(), nil)
			}
			R.Check(isMI && e.newIntOK[tn], "C04-newinteger", fname(f)+": ber.NewInteger("+an.Canon(v)+")", c.pos(ci), "static type "+tn+" is accepted by ber.NewInteger", "ber.NewInteger panics for dynamic type "+tn+" ("+an.Path(v)+")")
		}
	}
	R.Floor("C04-newinteger", 3)
	R.NotDecided = append(R.NotDecided, "BER length / identifier octets for long strings (library)", "ExtendedResponse.name is stored but not encoded (not part of the statement)")
}
