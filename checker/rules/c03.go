package rules

import (
	"go/types"
	"sort"
	"strings"

	"gldapverif/an"

	"golang.org/x/tools/go/ssa"
)

func init() {
	Registry["C03"] = checkC03
	Descriptions["C03"] = "C03-once (on every path of (*Mux).serve exactly one handler invocation or built-in refusal; no path from a handler call back into the route loop), " +
		"C03-order (forward range over m.routes, which is only ever appended to; default route consulted only after the loop; refusal only without default route), " +
		"C03-match (truth table of every route kind's match() over its branch atoms equals the reference formula of the property statement: case-insensitive base DN / filter when given, scope when non-zero, exact extended name), " +
		"C03-register (each registration method builds the route kind whose match() asserts the message type that newRequest maps to the route's operation constant), " +
		"C03-nonnil-handler (registered handlers are never nil), C03-refusal (message ID of the request, code 53, response tag of the request's operation for each of the six dispatchable operations), C03-dispatch (serveRequests hands each request to serve exactly once)."
}

// routeImpls lists the named types of package gldap implementing the route interface.
func (c *Ctx) routeImpls() map[string]*ssa.Function {
	out := map[string]*ssa.Function{}
	var iface *types.Interface
	if nt := c.P.NamedType(G, "route"); nt != nil {
		iface, _ = nt.Underlying().(*types.Interface)
	}
	for _, f := range c.shippedFuncs(G) {
		if f.Name() == "match" && f.Signature.Recv() != nil {
			if iface != nil && !types.Implements(f.Signature.Recv().Type(), iface) {
				continue // a method that happens to be called match on something that is not a route
			}
			if nt := an.StructOf(f.Signature.Recv().Type()); nt != nil {
				out[nt.Obj().Name()] = f
			}
		}
	}
	return out
}

func checkC03(c *Ctx) {
	R := c.R
	m := c.serverModel()
	serve := c.fn(G, "(*Mux).serve")
	if m == nil || serve == nil {
		return
	}
	shipped := c.shippedFuncs(G)

	// ------------------------------------------------------------ once / order
	var hcalls []ssa.CallInstruction
	var refusal []ssa.CallInstruction
	for _, ci := range an.Calls(serve) {
		cc := ci.Common()
		if isHandlerInvoke(cc) {
			hcalls = append(hcalls, ci)
		}
		if an.CalleeIs(cc, G, "(*ResponseWriter).Write") {
			refusal = append(refusal, ci)
		}
		// the refusal written by a helper that is handed serve's own writer and writes to it exactly once on every path
		// (`m.refuseUnrouted(w, req)`)
		if h := an.StaticCallee(cc); h != nil && an.InModule(h) && len(h.Blocks) > 0 && isCall(ci) && !isHandlerInvoke(cc) {
			wi := -1
			for i, a := range cc.Args {
				if an.Strip(a) == ssa.Value(serve.Params[1]) && i < len(h.Params) {
					wi = i
				}
			}
			if wi >= 0 {
				isW := func(in ssa.Instruction) bool {
					wc, ok := in.(*ssa.Call)
					return ok && an.CalleeIs(wc.Common(), G, "(*ResponseWriter).Write") && an.Strip(wc.Common().Args[0]) == ssa.Value(h.Params[wi])
				}
				cntH := an.CountEvents(h, an.Entry(h), isW, nil)
				once := len(an.Returns(h)) > 0
				for _, ret := range an.Returns(h) {
					if cntH[ret] != an.C1 {
						once = false
					}
				}
				noHandler := true
				for _, hc := range an.Calls(h) {
					if isHandlerInvoke(hc.Common()) {
						noHandler = false
					}
				}
				if once && noHandler {
					refusal = append(refusal, ci)
				}
			}
		}
	}
	isEvent := func(in ssa.Instruction) bool {
		for _, h := range hcalls {
			if in == ssa.Instruction(h) {
				return true
			}
		}
		for _, h := range refusal {
			if in == ssa.Instruction(h) {
				return true
			}
		}
		return false
	}
	// the route loop: in serve itself, or in a helper of the mux that serve
	// calls with its own (m, req) and that returns the first matching route
	sel := c.routeSelection(serve)
	if sel == nil {
		return
	}
	cnt := an.CountEvents(serve, an.Entry(serve), isEvent, nil)
	for _, ret := range an.Returns(serve) {
		key := "(*Mux).serve: exactly one handler or refusal per request"
		switch cnt[ret] {
		case an.C1:
			R.OK("C03-once", key, c.pos(ret), "on every path to this return exactly one handler invocation / refusal")
		case an.C0:
			if nilFact(ret.Block(), true, func(x ssa.Value) bool { return an.Strip(x) == ssa.Value(serve.Params[2]) }) {
				R.OK("C03-once", key+" (req == nil guard)", c.pos(ret), "only when req is nil, which both callers exclude (request is the error-checked result of readRequest)")
			} else if nilFact(ret.Block(), true, func(x ssa.Value) bool {
				call, ok := an.Strip(x).(*ssa.Call)
				return ok && call.Common().IsInvoke() && call.Common().Method.Name() == "handler"
			}) {
				R.OK("C03-once", key+" (nil handler guard)", c.pos(ret), "only when a route has a nil handler, which C03-nonnil-handler excludes")
			} else {
				R.Fail("C03-once", key, c.pos(ret), "a request can leave serve without any handler having run and without the built-in refusal: it is silently dropped")
			}
		default:
			R.Fail("C03-once", key, c.pos(ret), "number of handler invocations / refusals on paths to this return is "+cnt[ret].String()+": a request can be handled more than once")
		}
	}
	for _, h := range hcalls {
		if sel.head != nil && sel.fn == serve {
			if w := an.Search(an.After(h), func(in ssa.Instruction) bool { return in.Block() == sel.head }, nil); w != nil {
				R.Fail("C03-once", "(*Mux).serve: no fall-through after a handler", c.pos(h), "after a handler ran the route loop continues: a later route can handle the request again")
			}
		}
		if !isCall(h) {
			R.Fail("C03-once", "(*Mux).serve: handler called synchronously", c.pos(h), "handler is deferred / started on a goroutine inside serve")
		}
	}
	// classify the handler calls: first match and default
	var inLoop, deflt []ssa.CallInstruction
	for _, h := range hcalls {
		hv, ok := an.Strip(h.Common().Value).(*ssa.Call)
		if !ok || !hv.Common().IsInvoke() || hv.Common().Method.Name() != "handler" {
			R.Unknown("C03-order", "(*Mux).serve: handler value", c.pos(h), "handler value does not come from route.handler()")
			continue
		}
		recv := an.Strip(hv.Common().Value)
		if _, ok := fieldLoad(recv, G, "Mux", "defaultRoute"); ok {
			deflt = append(deflt, h)
			continue
		}
		if _, ok := fieldLoad(recv, G, "Mux", "unbindRoute"); ok {
			// the optional unbind route consulted by the mux itself: only for Unbind requests, only when set
			okU := hasEqFact(h.Block(), true, c.isUnbindAtom()) && nilFact(h.Block(), false, func(x ssa.Value) bool { _, ok := fieldLoad(x, G, "Mux", "unbindRoute"); return ok })
			R.Check(okU, "C03-order", "(*Mux).serve: unbind route only for Unbind requests", c.pos(h), "guarded by routeOp == unbind and unbindRoute != nil", "the unbind route's handler can be given a request that is not an Unbind (or the route may be nil)")
			continue
		}
		if sel.isFirstMatch(recv, h.Block()) {
			inLoop = append(inLoop, h)
			R.OK("C03-order", "(*Mux).serve: handler of the first route whose match(req) is true", c.pos(h), sel.why)
			args := h.Common().Args
			R.Check(len(args) == 2 && an.Strip(args[0]) == ssa.Value(serve.Params[1]) && an.Strip(args[1]) == ssa.Value(serve.Params[2]), "C03-once", "(*Mux).serve: handler receives (w, req)", c.pos(h), "the request and writer given to serve", "handler is not called with serve's own (w, req)")
			continue
		}
		if sel.isRouteValue(recv) {
			inLoop = append(inLoop, h)
			R.Fail("C03-order", "(*Mux).serve: handler of the first route whose match(req) is true", c.pos(h), "the handler call on a registered route is not guarded by match(req) of the same route being true (first match in registration order)")
			continue
		}
		R.Unknown("C03-order", "(*Mux).serve: handler value", c.pos(h), "handler of an unrecognised route value "+an.Path(recv))
	}
	defaultRouteNil := func(b *ssa.BasicBlock, isNil bool) bool {
		return nilFact(b, isNil, func(x ssa.Value) bool {
			_, ok := fieldLoad(x, G, "Mux", "defaultRoute")
			return ok
		})
	}
	for _, h := range deflt {
		okAfter := sel.noMatch(h.Block())
		okGuard := defaultRouteNil(h.Block(), false)
		R.Check(okAfter && okGuard, "C03-order", "(*Mux).serve: default route only after all routes were tried", c.pos(h), "reached only when no registered route matched and defaultRoute != nil", "the default route can be consulted before the registered routes (or without being set)")
		args := h.Common().Args
		R.Check(len(args) == 2 && an.Strip(args[0]) == ssa.Value(serve.Params[1]) && an.Strip(args[1]) == ssa.Value(serve.Params[2]), "C03-once", "(*Mux).serve: default handler receives (w, req)", c.pos(h), "the request and writer given to serve", "default handler is not called with serve's own (w, req)")
	}
	for _, w := range refusal {
		okAfter := sel.noMatch(w.Block())
		okGuard := defaultRouteNil(w.Block(), true)
		R.Check(okAfter && okGuard, "C03-order", "(*Mux).serve: built-in refusal only without matching or default route", c.pos(w), "reached only when no registered route matched and defaultRoute == nil", "the built-in refusal can be sent although a route could serve the request")
	}
	R.Check(len(inLoop) == 1 && len(deflt) == 1 && len(refusal) == 1, "C03-once", "(*Mux).serve: one first-match site, one default site, one refusal site", c.P.Pos(serve.Pos()),
		"three mutually exclusive ways a request is answered", sprintf("found %d in-loop handler calls, %d default-route calls, %d refusal writes", len(inLoop), len(deflt), len(refusal)))
	// routes are only appended to, under the mux lock
	for _, fs := range fieldStores(shipped, G, "Mux", "routes") {
		okApp := false
		if call, ok := fs.Store.Val.(*ssa.Call); ok {
			if b, ok := call.Common().Value.(*ssa.Builtin); ok && b.Name() == "append" {
				if bb, ok := fieldLoad(call.Common().Args[0], G, "Mux", "routes"); ok && an.Strip(bb) == an.Strip(fs.Base) {
					okApp = true
				}
			}
		}
		if _, isAlloc := an.Strip(fs.Base).(*ssa.Alloc); isAlloc {
			okApp = true // constructor literal
		}
		R.Check(okApp, "C03-order", fname(fs.Fn)+": m.routes only appended to", c.pos(fs.Store), "m.routes = append(m.routes, r): registration order is preserved", "m.routes is assigned something else than append(m.routes, r): registration order is lost")
	}
	R.Floor("C03-order", 4)

	// ------------------------------------------------------------ non-nil handler
	nLit := 0
	for _, f := range shipped {
		for _, fs := range fieldStores([]*ssa.Function{f}, G, "baseRoute", "h") {
			nLit++
			par, isPar := an.Strip(fs.Store.Val).(*ssa.Parameter)
			ok := false
			if isPar {
				// a dominating `par == nil -> return` : the store's block has fact par != nil
				ok = hasFact(fs.Store.Block(), false, func(v ssa.Value) bool {
					x, trueMeansNil, okc := an.NilCheck(v)
					return okc && trueMeansNil && an.Strip(x) == ssa.Value(par)
				}) || hasFact(fs.Store.Block(), true, func(v ssa.Value) bool {
					x, trueMeansNil, okc := an.NilCheck(v)
					return okc && !trueMeansNil && an.Strip(x) == ssa.Value(par)
				})
			}
			R.Check(ok, "C03-nonnil-handler", fname(f)+": baseRoute.h is a non-nil parameter", c.pos(fs.Store), "handler parameter checked against nil before the route is built", "a route can be registered with a nil handler (value "+an.Path(fs.Store.Val)+")")
		}
	}
	R.Floor("C03-nonnil-handler", 1)
	// both callers pass a non-nil request
	for _, ci := range callSites(shipped, isMuxServe) {
		R.Check(isThisRequest(an.StripX(ci.Common().Args[2]), m) && an.InstrDominates(m.readReq, ci) || ci.Parent() == m.reqFn && isThisRequest(an.StripX(ci.Common().Args[2]), m), "C03-once", fname(ci.Parent())+": serve gets the error-checked request", c.pos(ci), "req is readRequest's result on the err == nil path (readRequest returns a fresh *Request then)", "serve can be called with a request that is not the checked result of readRequest")
	}

	// ------------------------------------------------------------ match predicates
	c.checkRouteMatch()
	// ------------------------------------------------------------ register
	c.checkRouteRegister()
	// ------------------------------------------------------------ refusal
	c.checkRefusal(serve, refusal)
	// ------------------------------------------------------------ dispatch
	c.checkDispatch(m)
}

// routeSel describes how (*Mux).serve selects the registered route: a forward
// range loop over m.routes either in serve itself or in a helper it calls.
type routeSel struct {
	fn         *ssa.Function   // function holding the loop
	head       *ssa.BasicBlock // loop header
	exit       *ssa.BasicBlock // loop exit edge target
	routesLoad ssa.Value
	req        ssa.Value // the request as seen by fn
	call       *ssa.Call // helper call in serve (nil when the loop is in serve)
	resIdx     int       // index of the route among the helper's results (tuple helpers: route plus e.g. its position)
	tuple      bool
	why        string
}

// isRes: v (in serve) is the route the helper call returned.
func (s *routeSel) isRes(v ssa.Value) bool {
	v = an.Strip(v)
	if !s.tuple {
		return v == ssa.Value(s.call)
	}
	ex, ok := v.(*ssa.Extract)
	return ok && ex.Tuple == ssa.Value(s.call) && ex.Index == s.resIdx
}

// nilFact: block b is control-dependent on `x == nil` (isNil) / `x != nil`
// for an x accepted by match.
func nilFact(b *ssa.BasicBlock, isNil bool, match func(ssa.Value) bool) bool {
	for _, pol := range []bool{true, false} {
		pol := pol
		if hasFact(b, pol, func(v ssa.Value) bool {
			x, trueMeansNil, ok := an.NilCheck(v)
			return ok && (trueMeansNil == pol) == isNil && match(x)
		}) {
			return true
		}
	}
	return false
}

// findRouteLoop finds `for i := range m.routes` in fn, m being parameter mIdx.
func (c *Ctx) findRouteLoop(fn *ssa.Function, mIdx int) (loopIf *ssa.If, routesLoad ssa.Value) {
	an.Instrs(fn, func(in ssa.Instruction) {
		iff, ok := in.(*ssa.If)
		if !ok || !an.IsRangeHeader(iff) {
			return
		}
		bo, ok := iff.Cond.(*ssa.BinOp)
		if !ok {
			return
		}
		lc, ok := bo.Y.(*ssa.Call)
		if !ok {
			return
		}
		if b, ok := lc.Common().Value.(*ssa.Builtin); !ok || b.Name() != "len" {
			return
		}
		base, okRoutes := fieldLoad(lc.Common().Args[0], G, "Mux", "routes")
		if okRoutes && mIdx < len(fn.Params) && an.Strip(base) == ssa.Value(fn.Params[mIdx]) {
			loopIf, routesLoad = iff, lc.Common().Args[0]
		}
	})
	return
}

// isElem: v is the range element routes[i] of the loop.
func (s *routeSel) isElem(v ssa.Value) bool {
	ld, ok := an.Strip(v).(*ssa.UnOp)
	if !ok {
		return false
	}
	ia, ok := ld.X.(*ssa.IndexAddr)
	if !ok || !an.IsRangeIdx(ia.Index) {
		return false
	}
	if an.Strip(ia.X) == an.Strip(s.routesLoad) {
		return true
	}
	// another read of the same field m.routes (`for i := 0; i < len(m.routes); i++ { r := m.routes[i] ...`): the
	// function holding the loop never assigns the field, so both reads see the same slice header
	b1, ok1 := fieldLoad(ia.X, G, "Mux", "routes")
	b2, ok2 := fieldLoad(s.routesLoad, G, "Mux", "routes")
	return ok1 && ok2 && an.Strip(b1) == an.Strip(b2) && len(fieldStores([]*ssa.Function{s.fn}, G, "Mux", "routes")) == 0
}

// matched: block b (of s.fn) is control-dependent on elem.match(req) == true
// for the very element elem.
func (s *routeSel) matched(b *ssa.BasicBlock, elem ssa.Value) bool {
	return hasFact(b, true, func(v ssa.Value) bool {
		call, ok := v.(*ssa.Call)
		// the same element: the same SSA value, or another load of the same routes[i] (nothing stores into the slice's elements)
		return ok && call.Common().IsInvoke() && call.Common().Method.Name() == "match" && (an.Strip(call.Common().Value) == an.Strip(elem) || s.isElem(call.Common().Value) && an.Path(call.Common().Value) == an.Path(elem)) &&
			len(call.Common().Args) == 1 && an.Strip(call.Common().Args[0]) == s.req
	})
}

func (s *routeSel) isRouteValue(recv ssa.Value) bool {
	if s.call != nil {
		return s.isRes(recv)
	}
	return s.isElem(recv)
}

// isFirstMatch: recv (in serve, used in block b) is the first route of
// m.routes whose match(req) is true.
func (s *routeSel) isFirstMatch(recv ssa.Value, b *ssa.BasicBlock) bool {
	if s.call != nil {
		return s.isRes(recv) && nilFact(b, false, s.isRes)
	}
	return s.isElem(recv) && s.matched(b, recv)
}

// noMatch: block b of serve is reached only when no registered route matched.
func (s *routeSel) noMatch(b *ssa.BasicBlock) bool {
	if s.call != nil {
		return nilFact(b, true, s.isRes)
	}
	return s.exit.Dominates(b)
}

func (c *Ctx) routeSelection(serve *ssa.Function) *routeSel {
	R := c.R
	key := "(*Mux).serve: forward range over m.routes"
	if loopIf, rl := c.findRouteLoop(serve, 0); loopIf != nil {
		R.OK("C03-order", key, c.pos(loopIf), "for i := 0..len(m.routes)-1 in increasing order (go/ssa range-index induction phi(-1, i+1))")
		return &routeSel{fn: serve, head: loopIf.Block(), exit: loopIf.Block().Succs[1], routesLoad: rl, req: serve.Params[2],
			why: "handler() of the very route element whose match(req) returned true, in registration order"}
	}
	// a helper: called with serve's m and req, returns routes[i] only under routes[i].match(req), nil only after the loop
	for _, ci := range an.Calls(serve) {
		call, ok := ci.(*ssa.Call)
		if !ok {
			continue
		}
		f := an.StaticCallee(call.Common())
		if f == nil || !an.InModule(f) || len(f.Blocks) == 0 || len(call.Common().Args) < 2 || an.Strip(call.Common().Args[0]) != ssa.Value(serve.Params[0]) {
			continue
		}
		loopIf, rl := c.findRouteLoop(f, 0)
		if loopIf == nil {
			continue
		}
		reqIdx := -1
		for i, a := range call.Common().Args {
			if an.Strip(a) == ssa.Value(serve.Params[2]) {
				reqIdx = i
			}
		}
		// the route is the helper's only result, or the one result of interface type `route` of a tuple (the others -
		// e.g. the position of the route - are not used to select anything)
		nRes, resIdx := f.Signature.Results().Len(), -1
		for i := 0; i < nRes; i++ {
			if nt, isN := f.Signature.Results().At(i).Type().(*types.Named); isN && nt.Obj().Name() == "route" {
				if resIdx >= 0 {
					resIdx = -2
					break
				}
				resIdx = i
			}
		}
		if nRes == 1 {
			resIdx = 0
		}
		if reqIdx < 0 || resIdx < 0 {
			continue
		}
		s := &routeSel{fn: f, head: loopIf.Block(), exit: loopIf.Block().Succs[1], routesLoad: rl, req: f.Params[reqIdx], call: call, resIdx: resIdx, tuple: nRes > 1}
		ok = true
		detail := ""
		nElem := 0
		for _, ret := range an.Returns(f) {
			res := an.ReturnResults(ret)
			if len(res) != nRes {
				ok, detail = false, "unexpected return at "+c.pos(ret)
				continue
			}
			res = []ssa.Value{res[resIdx]}
			switch {
			case len(res) == 1 && s.isElem(res[0]):
				nElem++
				if !s.matched(ret.Block(), res[0]) {
					ok, detail = false, "returns a route whose match(req) was not tested true at "+c.pos(ret)
				}
			case len(res) == 1 && an.IsNilConst(an.Strip(res[0])):
				if !s.exit.Dominates(ret.Block()) {
					ok, detail = false, "returns nil before every route was tried at "+c.pos(ret)
				}
			default:
				ok, detail = false, "returns something else than a route element or nil at "+c.pos(ret)
			}
		}
		// the loop must not skip elements: every back edge / continue comes from a failed match of the current element or ...
		// (a return inside the loop on match, otherwise next element: any other exit from the loop body is a return)
		if nElem == 0 {
			ok, detail = false, "never returns a route element"
		}
		for _, b := range f.Blocks {
			for _, in := range b.Instrs {
				if st, isStore := in.(*ssa.Store); isStore {
					ok, detail = false, "helper has a side effect at "+c.pos(st)
				}
			}
		}
		R.Check(ok, "C03-order", key, c.pos(loopIf), fname(f)+" ranges forward over m.routes and returns the first element whose match(req) is true, nil when none is", fname(f)+" is not a first-match selection: "+detail)
		s.why = "handler() of the route returned by " + fname(f) + " (first element of m.routes whose match(req) is true), guarded by its being non-nil"
		return s
	}
	R.Fail("C03-order", key, c.P.Pos(serve.Pos()), "no range loop over the routes in serve or in a helper called with serve's (m, req)")
	return nil
}

// matchRef is the reference formula of a route kind over semantic atoms.
type matchRef struct {
	msgType string
	atoms   map[string]string // canonical atom text -> semantic name
	neutral map[string]bool   // semantic atoms fixed to a value
	formula func(v map[string]bool) bool
}

func (c *Ctx) checkRouteMatch() {
	R := c.R
	impls := c.routeImpls()
	common := func(msg string) map[string]string {
		return map[string]string{
			sortedEq("$1", "nil"):                          "reqNil",
			sortedEq("$0.baseRoute.routeOp", "$1.routeOp"): "opEq",
			"assert($1.message,*gldap." + msg + ")#1":      "isKind",
		}
	}
	refs := map[string]*matchRef{}
	for typ, msg := range map[string]string{"modifyRoute": "ModifyMessage", "addRoute": "AddMessage", "deleteRoute": "DeleteMessage"} {
		refs[typ] = &matchRef{msgType: msg, atoms: common(msg), formula: func(v map[string]bool) bool { return !v["reqNil"] && v["opEq"] && v["isKind"] }}
	}
	{
		a := common("SimpleBindMessage")
		a[sortedEq(`""`, "$0.authChoice")] = "authUnset"
		a[sortedEq("$0.authChoice", "assert($1.message,*gldap.SimpleBindMessage)#0.AuthChoice")] = "authEq"
		refs["simpleBindRoute"] = &matchRef{msgType: "SimpleBindMessage", atoms: a,
			neutral: map[string]bool{"authUnset": false, "authEq": true}, // Mux.Bind always sets SimpleAuthChoice and newMessage always decodes SimpleAuthChoice
			formula: func(v map[string]bool) bool {
				return !v["reqNil"] && v["opEq"] && v["isKind"] && !v["authUnset"] && v["authEq"]
			}}
	}
	{
		a := common("ExtendedOperationMessage")
		a[sortedEq("$0.extendedName", "$1.extendedName")] = "nameEq"
		refs["extendedRoute"] = &matchRef{msgType: "ExtendedOperationMessage", atoms: a,
			formula: func(v map[string]bool) bool { return !v["reqNil"] && v["opEq"] && v["isKind"] && v["nameEq"] }}
	}
	{
		a := common("SearchMessage")
		msg := "assert($1.message,*gldap.SearchMessage)#0"
		a[sortedEq(`""`, "$0.basedn")] = "basednUnset"
		a[sortedEq(`""`, "$0.filter")] = "filterUnset"
		a[sortedEq("0", "$0.scope")] = "scopeUnset"
		a[sortedCall("strings.EqualFold", "$0.basedn", msg+".BaseDN")] = "basednFold"
		a[sortedCall("strings.EqualFold", "$0.filter", msg+".Filter")] = "filterFold"
		a[sortedEq("$0.scope", msg+".Scope")] = "scopeEq"
		refs["searchRoute"] = &matchRef{msgType: "SearchMessage", atoms: a,
			formula: func(v map[string]bool) bool {
				return !v["reqNil"] && v["opEq"] && v["isKind"] && (v["basednUnset"] || v["basednFold"]) && (v["filterUnset"] || v["filterFold"]) && (v["scopeUnset"] || v["scopeEq"])
			}}
	}
	var names []string
	for n := range impls {
		names = append(names, n)
	}
	sort.Strings(names)
	nKinds := 0
	for _, typ := range names {
		f := impls[typ]
		key := "(*" + typ + ").match"
		if typ == "baseRoute" {
			// the default route never matches by itself
			ok := true
			for _, ret := range an.Returns(f) {
				if b, isC := an.BoolConst(ret.Results[0]); !isC || b {
					ok = false
				}
			}
			R.Check(ok, "C03-match", key+" is constantly false", c.P.Pos(f.Pos()), "the default route is only ever reached through the explicit default branch", "baseRoute.match can return true")
			continue
		}
		ref := refs[typ]
		if ref == nil {
			if typ == "unbindRoute" {
				continue
			}
			R.Unknown("C03-match", key, c.P.Pos(f.Pos()), "route kind without a reference formula")
			continue
		}
		nKinds++
		w := &an.Walker{Fn: f}
		atoms := w.CondAtoms()
		// `return ok` style results are atoms too
		for _, ret := range an.Returns(f) {
			if _, isC := an.BoolConst(ret.Results[0]); !isC {
				if _, isPhi := ret.Results[0].(*ssa.Phi); !isPhi {
					n, _ := an.CanonAtom(ret.Results[0])
					found := false
					for _, a := range atoms {
						if a == n {
							found = true
						}
					}
					if !found {
						atoms = append(atoms, n)
					}
				}
			}
		}
		unknown := []string{}
		for _, a := range atoms {
			if _, ok := ref.atoms[a]; !ok {
				unknown = append(unknown, a)
			}
		}
		if len(unknown) > 0 {
			R.Fail("C03-match", key, c.P.Pos(f.Pos()), "match() is gated by a predicate the property does not know: "+strings.Join(unknown, "; ")+" (expected only: case-insensitive base DN / filter when set, scope when non-zero, exact extended name, operation and message kind)")
			continue
		}
		mism := ""
		rows := 0
		for _, val := range an.Valuations(atoms) {
			sem := map[string]bool{}
			for a, b := range val {
				sem[ref.atoms[a]] = b
			}
			// feasibility: operation equality and message kind agree (newRequest derives routeOp from the message type; C03-register)
			if sem["opEq"] != sem["isKind"] {
				if _, has1 := sem["opEq"]; has1 {
					if _, has2 := sem["isKind"]; has2 {
						continue
					}
				}
			}
			skip := false
			for n, fixed := range ref.neutral {
				if cur, has := sem[n]; has && cur != fixed {
					skip = true
				}
				sem[n] = fixed
			}
			if skip {
				continue
			}
			// atoms the implementation does not test are "don't care" for the walk but the reference needs them: they must be present
			missing := ""
			for _, s := range ref.atoms {
				if _, has := sem[s]; !has {
					missing = s
				}
			}
			if missing != "" {
				// the implementation never evaluates this atom: evaluate reference for both values; they must agree with the walk
				mm := false
				for _, bv := range []bool{false, true} {
					sem2 := map[string]bool{}
					for k, v := range sem {
						sem2[k] = v
					}
					fill(sem2, ref.atoms, bv)
					if sem2["opEq"] != sem2["isKind"] {
						continue
					}
					got, okw := walkBool(w, val)
					if !okw || got != ref.formula(sem2) {
						mm = true
					}
				}
				rows++
				if mm && mism == "" {
					mism = "criterion " + missing + " is never consulted; row" + an.ValString(sem)
				}
				continue
			}
			rows++
			got, okw := walkBool(w, val)
			want := ref.formula(sem)
			if !okw {
				mism = "cannot evaluate match() under" + an.ValString(sem)
				break
			}
			if got != want && mism == "" {
				mism = sprintf("match() = %v but the property requires %v when%s", got, want, an.ValString(sem))
			}
		}
		R.Count("C03-match/rows", rows)
		R.Check(mism == "", "C03-match", key, c.P.Pos(f.Pos()), sprintf("truth table over %d atoms (%d feasible rows) equals the reference formula", len(atoms), rows), mism)
	}
	if nKinds < 6 {
		R.Fatal("C03-match: only %d route kinds with a match() found, expected 6", nKinds)
	}
}

func fill(sem map[string]bool, atoms map[string]string, v bool) {
	for _, s := range atoms {
		if _, has := sem[s]; !has {
			sem[s] = v
		}
	}
}

func sortedCall(fn string, a, b string) string {
	if b < a {
		a, b = b, a
	}
	return fn + "(" + a + "," + b + ")"
}

func sortedEq(a, b string) string {
	if b < a {
		a, b = b, a
	}
	return "==(" + a + "," + b + ")"
}

// walkBool runs the walker and evaluates the returned boolean.
func walkBool(w *an.Walker, val map[string]bool) (bool, bool) {
	k := w.Run(val)
	if k.Undecided != "" || k.Ret == nil {
		return false, false
	}
	return k.EvalBool(k.Ret.Results[0])
}

// checkRouteRegister: registration method -> route type -> routeOp constant -> message type agree.
func (c *Ctx) checkRouteRegister() {
	R := c.R
	km := c.kindMaps()
	if km == nil {
		return
	}
	for _, p := range km.problems {
		R.Unknown("C03-register", "classification tables", "-", p)
	}
	impls := c.routeImpls()
	// route type -> message type its match asserts
	matchType := map[string]string{}
	for typ, f := range impls {
		an.Instrs(f, func(in ssa.Instruction) {
			if ta, ok := in.(*ssa.TypeAssert); ok {
				if n := ptrNamed(ta.AssertedType); n != "" {
					matchType[typ] = n
				}
			}
		})
	}
	want := map[string]string{"Bind": "simpleBindRoute", "Search": "searchRoute", "ExtendedOperation": "extendedRoute", "Modify": "modifyRoute", "Add": "addRoute", "Delete": "deleteRoute"}
	for _, meth := range sortedKeys(want) {
		f := c.fn(G, "(*Mux)."+meth)
		if f == nil {
			continue
		}
		key := "(*Mux)." + meth
		// the route literal appended to m.routes
		var routeType string
		var opConst string
		// the element appended to a Mux's routes in g: the value stored into the varargs array of the append
		appended := func(g *ssa.Function) []ssa.Value {
			var out []ssa.Value
			for _, fs := range fieldStores([]*ssa.Function{g}, G, "Mux", "routes") {
				if call, ok := fs.Store.Val.(*ssa.Call); ok {
					if sl, ok := call.Common().Args[1].(*ssa.Slice); ok {
						if al, ok := sl.X.(*ssa.Alloc); ok {
							for _, r := range *al.Referrers() {
								if ia, ok := r.(*ssa.IndexAddr); ok {
									for _, rr := range *ia.Referrers() {
										if st, ok := rr.(*ssa.Store); ok {
											out = append(out, an.Strip(st.Val))
										}
									}
								}
							}
						}
					}
				}
			}
			return out
		}
		for _, v := range appended(f) {
			routeType = ptrNamed(v.Type())
		}
		if routeType == "" {
			// the append lives in a helper of the mux that is given the route: `m.register(r)`
			for _, ci := range an.Calls(f) {
				h := an.StaticCallee(ci.Common())
				if h == nil || !an.InModule(h) || len(h.Blocks) == 0 || !isCall(ci) || len(ci.Common().Args) == 0 || an.Strip(ci.Common().Args[0]) != ssa.Value(f.Params[0]) {
					continue
				}
				for _, v := range appended(h) {
					p, isP := v.(*ssa.Parameter)
					if !isP {
						continue
					}
					for i, hp := range h.Params {
						if hp == p && i < len(ci.Common().Args) {
							routeType = ptrNamed(an.Strip(ci.Common().Args[i]).Type())
						}
					}
				}
			}
		}
		for _, fs := range fieldStores([]*ssa.Function{f}, G, "baseRoute", "routeOp") {
			opConst, _ = an.StrConst(fs.Store.Val)
		}
		msg := matchType[routeType]
		ok := routeType == want[meth] && msg != "" && km.typeToOp[msg] == opConst && opConst != ""
		R.Check(ok, "C03-register", key+" registers "+want[meth], c.P.Pos(f.Pos()), sprintf("route %s with operation %q; its match() asserts *%s, which newRequest classifies as %q", routeType, opConst, msg, km.typeToOp[msg]),
			sprintf("registration builds %s with operation %q, but its match() asserts *%s which newRequest classifies as %q: the route can never match / matches another operation", routeType, opConst, msg, km.typeToOp[msg]))
	}
	R.Floor("C03-register", 3)
}

// checkRefusal: the built-in answer.
func (c *Ctx) checkRefusal(serve *ssa.Function, refusal []ssa.CallInstruction) {
	R := c.R
	S := c.opts()
	if len(refusal) != 1 {
		return
	}
	w := refusal[0]
	key := "(*Mux).serve: built-in refusal"
	var reqV ssa.Value = serve.Params[2] // the request, as seen where the refusal is built
	if !an.CalleeIs(w.Common(), G, "(*ResponseWriter).Write") {
		// the refusal is built and written by a helper that is handed serve's (w, req): judge it there
		h := an.StaticCallee(w.Common())
		var inner ssa.CallInstruction
		for _, ic := range an.Calls(h) {
			if an.CalleeIs(ic.Common(), G, "(*ResponseWriter).Write") {
				inner = ic
			}
		}
		ri := -1
		for i, a := range w.Common().Args {
			if an.Strip(a) == ssa.Value(serve.Params[2]) && i < len(h.Params) {
				ri = i
			}
		}
		if inner == nil || ri < 0 {
			R.Unknown("C03-refusal", key, c.pos(w), "the refusal helper "+fname(h)+" is not given serve's request")
			return
		}
		w, reqV = inner, h.Params[ri]
		serve = h
		key = fname(h) + " (called by (*Mux).serve): built-in refusal"
	}
	resp := an.Strip(w.Common().Args[1])
	call, ok := resp.(*ssa.Call)
	reqParam := reqV
	if ok && !an.CalleeIs(call.Common(), G, "(*Request).NewResponse") {
		if h := an.StaticCallee(call.Common()); h != nil && an.InModule(h) && len(h.Blocks) > 0 && len(call.Common().Args) == 1 && an.Strip(call.Common().Args[0]) == reqParam {
			// a helper of the request that does nothing but `return r.NewResponse(<options>)`: judge that call
			var inner *ssa.Call
			n := 0
			for _, ic := range an.Calls(h) {
				if an.CalleeIs(ic.Common(), G, "(*Request).NewResponse") {
					n++
					inner, _ = ic.(*ssa.Call)
				}
			}
			all := inner != nil && n == 1
			for _, ret := range an.Returns(h) {
				if res := an.ReturnResults(ret); len(res) != 1 || an.Strip(res[0]) != ssa.Value(inner) {
					all = false
				}
			}
			if all {
				call, reqV = inner, h.Params[0]
			} else {
				// ... or builds the refusal by hand: interpret it
				c.checkRefusalHelper(key, call, h)
				return
			}
		}
	}
	if !ok || !an.CalleeIs(call.Common(), G, "(*Request).NewResponse") || an.Strip(call.Common().Args[0]) != reqV {
		R.Unknown("C03-refusal", key, c.pos(w), "the refusal is not built with req.NewResponse(...)")
		return
	}
	list, ok := S.variadicOptions(call.Common().Args[1])
	if !ok {
		R.Unknown("C03-refusal", key, c.pos(call), "options of the refusal are not a literal list")
		return
	}
	var code, app ssa.Value
	for _, o := range list {
		switch o.Ctor.Fn.Name() {
		case "WithResponseCode":
			code = o.Args[0]
		case "WithApplicationCode":
			app = o.Args[0]
		}
	}
	want53, _ := c.P.ConstInt(G, "ResultUnwillingToPerform")
	k, isK := an.IntConst(code)
	R.Check(code != nil && isK && k == want53 && want53 == 53, "C03-refusal", key+": result code unwillingToPerform", c.pos(call), "WithResponseCode(53)", "refusal does not carry result code 53")
	// message ID: NewResponse uses r.message.GetID() (checked as part of C04-ctor); here: receiver is req
	R.OK("C03-refusal", key+": built from the request", c.pos(call), "req.NewResponse(...): message ID is req.message.GetID() (C04-ctor)")
	c.checkRefusalTags(key, call, app, reqV)
}

// checkRefusalHelper: the refusal is built by a branch-free method of the
// request (a response literal): its message ID must be the request's message
// ID, its code unwillingToPerform and its response type the one belonging to
// the request's operation.
func (c *Ctx) checkRefusalHelper(key string, call *ssa.Call, h *ssa.Function) {
	R := c.R
	r := c.interp(h, &symEnv{}, map[string]bool{}, nil)
	if r.undec != "" || len(r.retExpr) != 1 || !strings.HasPrefix(r.retExpr[0], "&alloc:") {
		R.Unknown("C03-refusal", key, c.pos(call), "the refusal is built by "+fname(h)+", which cannot be interpreted: "+r.undec)
		return
	}
	got := map[string]string{}
	r.fr.fieldsOf(r.retExpr[0][1:], "", got, 0)
	for k, v := range got {
		got[k] = convLit.ReplaceAllString(v, "$1")
	}
	pick := func(suffix string) string {
		for k, v := range got {
			if strings.HasSuffix(k, suffix) {
				return v
			}
		}
		return ""
	}
	mid := pick("baseResponse.messageID")
	R.Check(mid == "$0.message.GetID()", "C03-refusal", key+": built from the request", c.pos(call), fname(h)+": message ID is req.message.GetID()", "the refusal built by "+fname(h)+" carries message ID "+mid+" instead of the request's message ID: a client cannot match it to its request and keeps waiting")
	code := pick("baseResponse.code")
	R.Check(code == "53" || code == "conv<int16>(53)", "C03-refusal", key+": result code unwillingToPerform", c.pos(call), "code 53", "refusal carries result code "+code+" instead of 53")
	var app ssa.Value
	n := 0
	for _, fs := range fieldStores([]*ssa.Function{h}, G, "GeneralResponse", "applicationCode") {
		app = fs.Store.Val
		n++
	}
	if n != 1 {
		R.Unknown("C03-refusal", key+": response tag", c.pos(call), sprintf("%s stores the application code %d times", fname(h), n))
		return
	}
	c.checkRefusalTags(key, call, app, h.Params[0])
}

// checkRefusalTags: application code per operation.
func (c *Ctx) checkRefusalTags(key string, call *ssa.Call, app ssa.Value, req ssa.Value) {
	R := c.R
	// application code per operation
	expected := map[string]string{"bindRouteOperation": "ApplicationBindResponse", "searchRouteOperation": "ApplicationSearchResultDone", "modifyRouteOperation": "ApplicationModifyResponse",
		"addRouteOperation": "ApplicationAddResponse", "deleteRouteOperation": "ApplicationDelResponse", "extendedRouteOperation": "ApplicationExtendedResponse"}
	rfc := map[string]int64{"ApplicationBindResponse": 1, "ApplicationSearchResultDone": 5, "ApplicationModifyResponse": 7, "ApplicationAddResponse": 9, "ApplicationDelResponse": 11, "ApplicationExtendedResponse": 24}
	for _, opName := range sortedKeys(expected) {
		opVal, ok1 := c.P.ConstStr(G, opName)
		tag, ok2 := c.P.ConstInt(G, expected[opName])
		k2 := key + ": response tag for " + opName
		if !ok1 || !ok2 || tag != rfc[expected[opName]] {
			R.Fail("C03-refusal", k2, c.pos(call), "operation / application constants are not the RFC 4511 values")
			continue
		}
		got, how := c.evalAppCode(app, req, opVal)
		if how != "" {
			R.Unknown("C03-refusal", k2, c.pos(call), how)
			continue
		}
		R.Check(got == tag, "C03-refusal", k2, c.pos(call), sprintf("application tag %d", tag), sprintf("a %s request without route is answered with application tag %d instead of %d: the client does not recognise the final answer", strings.TrimSuffix(opName, "RouteOperation"), got, tag))
	}
}

// evalAppCode evaluates the application-code expression of the refusal for a
// request whose routeOp is opVal.
func (c *Ctx) evalAppCode(app ssa.Value, req ssa.Value, opVal string) (int64, string) {
	if app == nil {
		d, _ := c.P.ConstInt(G, "ApplicationExtendedResponse")
		// NewResponse's default when no application code is given
		return d, ""
	}
	if k, ok := an.IntConst(app); ok {
		return k, ""
	}
	call, ok := an.Strip(app).(*ssa.Call)
	if !ok {
		return 0, "application code is neither a constant nor a helper call: " + an.Path(app)
	}
	f := call.Common().StaticCallee()
	if f == nil || !an.InModule(f) || len(f.Params) != 1 || an.Strip(call.Common().Args[0]) != req {
		return 0, "application code helper is not a function of the request"
	}
	// lookups of the request's operation in a package-level table: `code, found := table[r.routeOp]`
	tables := map[*ssa.Lookup]map[string]int64{}
	lookupAtom := map[string]*ssa.Lookup{}
	bad := ""
	an.Instrs(f, func(in ssa.Instruction) {
		lk, ok := in.(*ssa.Lookup)
		if !ok || !lk.CommaOk {
			return
		}
		if _, isOp := fieldLoad(lk.Index, G, "Request", "routeOp"); !isOp {
			return
		}
		tab, okTab := an.GlobalMapTable(lk.X)
		if !okTab {
			bad = "the table indexed by the request's operation is not a package-level map filled only by its literal"
			return
		}
		m := map[string]int64{}
		for _, e := range tab.Entries {
			ks, okK := an.StrConst(e.Key)
			vi, okV := an.IntConst(e.Val)
			if !okK || !okV {
				bad = "non-constant entry in the response-code table"
				return
			}
			m[ks] = vi
		}
		tables[lk] = m
		if lk.Referrers() != nil {
			for _, r := range *lk.Referrers() {
				if ex, ok := r.(*ssa.Extract); ok && ex.Index == 1 {
					name, _ := an.CanonAtom(ex)
					lookupAtom[name] = lk
				}
			}
		}
	})
	if bad != "" {
		return 0, bad
	}
	w := &an.Walker{Fn: f}
	atoms := w.CondAtoms()
	val := map[string]bool{}
	for _, a := range atoms {
		if lk, ok := lookupAtom[a]; ok {
			_, in := tables[lk][opVal]
			val[a] = in
			continue
		}
		// atoms of the form ==("<const>",$0.routeOp)
		if !strings.HasSuffix(a, ",$0.routeOp)") || !strings.HasPrefix(a, "==(\"") {
			return 0, "helper branches on something else than the request's operation: " + a
		}
		cst := strings.TrimSuffix(strings.TrimPrefix(a, "==(\""), "\",$0.routeOp)")
		val[a] = cst == opVal
	}
	k := w.Run(val)
	if k.Undecided != "" || k.Ret == nil {
		return 0, "cannot evaluate the helper: " + k.Undecided
	}
	res := k.Resolve(k.Ret.Results[0])
	if ex, ok := res.(*ssa.Extract); ok && ex.Index == 0 {
		if lk, ok := ex.Tuple.(*ssa.Lookup); ok {
			if v, in := tables[lk][opVal]; in {
				return v, ""
			}
			return 0, "helper returns the table entry of an operation that is not in the table"
		}
	}
	v, ok := an.IntConst(res)
	if !ok {
		return 0, "helper does not return a constant"
	}
	return v, ""
}

// checkDispatch: serveRequests hands each successfully read request to serve exactly once.
func (c *Ctx) checkDispatch(m *serverModel) {
	R := c.R
	// on every path from a successful read back to the loop head (or to a return on the unbind path) the number of dispatches is exactly one
	isDisp := func(in ssa.Instruction) bool {
		ci, ok := in.(ssa.CallInstruction)
		if !ok {
			return false
		}
		if g, ok := in.(*ssa.Go); ok {
			return goTarget(g) == m.reqFn
		}
		return isMuxServe(ci.Common()) && isCall(ci)
	}
	isUnbind := c.isUnbindAtom()
	// (the unbind branch is C10's: it dispatches nothing and ends the loop, by a return or through a flag)
	cnt := an.CountEvents(m.serve, an.After(m.readReq), isDisp, func(in ssa.Instruction) bool {
		return in.Block() == m.loopHead && an.PointOf(in).I == 0 || hasEqFact(in.Block(), true, isUnbind)
	})
	// at the loop head (next iteration)
	first := m.loopHead.Instrs[0]
	okNext := cnt[first] == an.C1
	R.Check(okNext, "C03-dispatch", "(*conn).serveRequests: one dispatch per request read", c.pos(m.readReq), "between a successful readRequest and the next iteration exactly one of {go serve, inline serve} runs", "a request can be dispatched "+cnt[first].String()+" times before the next read: dropped or handled twice")
	for _, ret := range an.Returns(m.serve) {
		if _, reached := cnt[ret]; !reached {
			continue
		}
		if hasEqFact(ret.Block(), true, isUnbind) {
			continue // unbind: C10
		}
		// error paths after read (err != nil) have 0 dispatches: fine; success paths cannot return otherwise
		if cnt[ret]&(an.C1|an.C2) != 0 {
			R.Fail("C03-dispatch", "(*conn).serveRequests: return after dispatch", c.pos(ret), "serveRequests returns right after dispatching a non-unbind request")
		}
	}
	if m.reqFn != nil {
		ok, _ := serveExactlyOnce(m.reqFn, m)
		R.Check(ok, "C03-dispatch", fname(m.reqFn)+": serve(w, r) exactly once", c.P.Pos(m.reqFn.Pos()), "one call on every path with this iteration's writer and request", "the per-request goroutine does not call router.serve exactly once with this iteration's (w, r)")
		c.checkOwnIteration("C03-dispatch", m)
	}
}

// checkOwnIteration: the per-request goroutine runs later than the statement
// that starts it; what it reads through captured variables is this iteration's
// request and writer only if those variables are per-iteration ones (allocated
// anew on every pass of the loop), not variables the read loop assigns again.
func (c *Ctx) checkOwnIteration(rule string, m *serverModel) {
	if m.reqGo == nil {
		return
	}
	for _, cv := range capturedCells(m.serve, m.reqGo) {
		c.R.Check(!cv.bad, rule, fname(m.serve)+": request goroutine sees its own iteration's "+cv.name, c.pos(m.reqGo), "captured variable is allocated per iteration and not assigned after the go statement",
			"the request goroutine captures "+cv.name+", which the read loop assigns again for the next request: a handler can be given a later request (one request handled twice, another dropped, IDs out of order)")
	}
}

var _ = types.Identical

// serveExactlyOnce: on every path through the per-request goroutine's function
// exactly one call of router.serve runs (there may be several call sites on
// exclusive paths), each with this iteration's writer and request.
func serveExactlyOnce(t *ssa.Function, m *serverModel) (bool, string) {
	var sc []ssa.CallInstruction
	for _, ci := range an.Calls(t) {
		if isMuxServe(ci.Common()) {
			if !isCall(ci) {
				return false, "router.serve is deferred or started with go inside the per-request goroutine"
			}
			sc = append(sc, ci)
		}
	}
	if len(sc) == 0 {
		return false, "the per-request goroutine never calls router.serve"
	}
	isServe := func(in ssa.Instruction) bool {
		for _, x := range sc {
			if ssa.Instruction(x) == in {
				return true
			}
		}
		return false
	}
	cnt := an.CountEvents(t, an.Entry(t), isServe, nil)
	for _, ret := range an.Returns(t) {
		if cnt[ret] != an.C1 {
			return false, "router.serve runs " + cnt[ret].String() + " times on a path through the per-request goroutine"
		}
	}
	for _, x := range sc {
		args := x.Common().Args
		if !isThisIterationWriter(an.StripX(args[1]), m) {
			return false, "router.serve is not given this iteration's writer"
		}
		if !isThisRequest(an.StripX(args[2]), m) {
			return false, "router.serve is not given the request just read"
		}
	}
	return true, ""
}
