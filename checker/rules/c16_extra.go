package rules

import (
	"go/token"
	"go/types"
	"strconv"
	"strings"

	"gldapverif/an"

	"golang.org/x/tools/go/ssa"
)

type binIO struct {
	order string // LittleEndian | BigEndian
	typ   string // static type of the datum (element type for pointers)
	call  ssa.CallInstruction
}

func binaryCalls(f *ssa.Function, fn string) []binIO {
	var out []binIO
	for _, b := range f.Blocks {
		for _, in := range b.Instrs {
			ci, ok := in.(ssa.CallInstruction)
			if !ok || !an.CalleeIs(ci.Common(), "encoding/binary", fn) {
				continue
			}
			args := ci.Common().Args
			ord := "?"
			if mi, ok := args[1].(*ssa.MakeInterface); ok {
				if ld, ok := mi.X.(*ssa.UnOp); ok {
					if g, ok := ld.X.(*ssa.Global); ok {
						ord = g.Name()
					}
				}
			}
			typ := "?"
			if mi, ok := args[2].(*ssa.MakeInterface); ok {
				t := mi.X.Type()
				if p, ok := t.(*types.Pointer); ok {
					t = p.Elem()
				}
				typ = types.TypeString(t, nil)
			}
			out = append(out, binIO{ord, typ, ci})
		}
	}
	return out
}

func (c *Ctx) checkSID() {
	R := c.R
	w := c.fn(G, "SIDBytes")
	r := c.fn(G, "SIDBytesToString")
	if w == nil || r == nil {
		return
	}
	ws, rs := binaryCalls(w, "Write"), binaryCalls(r, "Read")
	ok := len(ws) > 0 && len(ws) <= len(rs)
	detail := ""
	for i := range ws {
		if i < len(rs) && (ws[i].order != rs[i].order || ws[i].typ != rs[i].typ) {
			ok = false
			detail = sprintf("field %d is written as %s %s but read as %s %s", i, ws[i].order, ws[i].typ, rs[i].order, rs[i].typ)
		}
	}
	pos := c.P.Pos(w.Pos())
	if len(ws) > 0 {
		pos = c.pos(ws[0].call)
	}
	how := sprintf("%d writes / %d reads agree in byte order and width", len(ws), len(rs))
	if len(ws) == 0 {
		// the writer fills a fixed-size byte slice directly (indexed stores, binary.<Order>.PutUintN): compare the two
		// layouts byte by byte; bytes the writer leaves zero fit any reader field
		wl, whyNot := directByteLayout(w)
		if wl == nil {
			// ... or appends them one after the other: append(b, x, y), binary.<Order>.AppendUintN(b, v)
			if al, why2 := appendByteLayout(w); al != nil {
				wl = al
			} else {
				whyNot += "; " + why2
			}
		}
		if wl != nil {
			rl := readLayout(rs)
			ok, detail = true, ""
			for i, tok := range wl {
				switch {
				case i >= len(rl):
					ok, detail = false, sprintf("byte %d is written but the fixed part the reader reads is %d bytes", i, len(rl))
				case tok != "zero" && tok != rl[i]:
					ok, detail = false, sprintf("byte %d is written as %s but read as %s", i, tok, rl[i])
				}
			}
			how = sprintf("%d bytes written directly agree, byte by byte, in order and width with the %d reads", len(wl), len(rs))
		} else {
			detail = "no binary.Write sequence and no direct fixed-size byte layout recognised in SIDBytes (" + whyNot + ")"
		}
	}
	R.Check(ok, "C16-sid-siblings", "SIDBytes writes a prefix of what SIDBytesToString reads", pos, how, "SID writer and reader disagree: "+detail)
	// every binary.Read / binary.Write error is returned
	for _, f := range []*ssa.Function{w, r} {
		c.checkErrorsPropagateLib("C16-sid-siblings", f, "encoding/binary")
	}
	// sub-authority slice length = the count byte just read
	for _, b := range r.Blocks {
		for _, in := range b.Instrs {
			if ms, ok := in.(*ssa.MakeSlice); ok {
				// only the slice the sub-authorities are read into (other buffers, e.g. for building the string, are sized freely)
				isDest := false
				for _, rd := range rs {
					if mi, ok := rd.call.Common().Args[2].(*ssa.MakeInterface); ok && an.Strip(mi.X) == ssa.Value(ms) {
						isDest = true
					}
				}
				if !isDest {
					continue
				}
				src := an.StripConv(ms.Len)
				// load of the local `subAuthorityCount` that binary.Read filled
				good := false
				if ld, ok := src.(*ssa.UnOp); ok {
					if al, ok := ld.X.(*ssa.Alloc); ok {
						for _, rd := range rs {
							if mi, ok := rd.call.Common().Args[2].(*ssa.MakeInterface); ok && mi.X == ssa.Value(al) && an.InstrDominates(rd.call, ms) {
								good = true
							}
						}
					}
				}
				R.Check(good, "C16-sid-siblings", "SIDBytesToString: sub-authority count comes from the count byte", c.pos(ms), "make([]uint32, count) with count read from the input", "sub-authority slice length is not the count byte read from the input")
			}
		}
	}
}

// checkErrorsPropagateLib: errors of calls into pkg are tested and lead to a non-nil error return.
func (c *Ctx) checkErrorsPropagateLib(rule string, f *ssa.Function, pkg string) {
	R := c.R
	ei := errResultIndex(f)
	for _, ci := range an.Calls(f) {
		call, ok := ci.(*ssa.Call)
		if !ok {
			continue
		}
		g := call.Common().StaticCallee()
		if g == nil || an.FuncPkgPath(g) != pkg || errResultIndex(g) < 0 {
			continue
		}
		key := fname(f) + ": error of " + pkg + "." + g.Name()
		tested := false
		good := true
		var errVal ssa.Value = call
		if g.Signature.Results().Len() > 1 {
			errVal = nil
			for _, r := range *call.Referrers() {
				if ex, ok := r.(*ssa.Extract); ok && ex.Index == errResultIndex(g) {
					errVal = ex
				}
			}
		}
		if errVal != nil {
			for _, r := range *errVal.Referrers() {
				bo, ok := r.(*ssa.BinOp)
				if !ok {
					continue
				}
				_, trueMeansNil, ok := an.NilCheck(bo)
				if !ok {
					continue
				}
				for _, rr := range *bo.Referrers() {
					iff, ok := rr.(*ssa.If)
					if !ok {
						continue
					}
					tested = true
					errSucc := succOn(iff, !trueMeansNil)
					bad := func(in ssa.Instruction) bool {
						ret, ok := in.(*ssa.Return)
						if !ok || ei < 0 {
							return false
						}
						return an.IsNilConst(an.Strip(an.ReturnResults(ret)[ei]))
					}
					known := map[string]bool{}
					ck, neg := an.CondKey(iff.Cond)
					known[ck] = (errSucc == iff.Block().Succs[0]) != neg
					if an.SearchKnown(an.Point{B: errSucc, I: 0}, bad, nil, known) != nil {
						good = false
					}
				}
			}
		}
		R.Check(tested && good, rule, key, c.pos(call), "tested; failure returns a non-nil error", "the error of "+g.Name()+" is ignored or a failure still returns success")
	}
}

// checkEntryOrder: in NewEntry the order of Entry.Attributes depends only on
// a slice that was sorted after being filled from the map.
func (c *Ctx) checkEntryOrder() {
	R := c.R
	f := c.fn(G, "NewEntry")
	if f == nil {
		return
	}
	// loops: a map range (tainted order) and a slice range
	var mapRanges []*ssa.Range
	an.Instrs(f, func(in ssa.Instruction) {
		if r, ok := in.(*ssa.Range); ok {
			if _, isMap := r.X.Type().Underlying().(*types.Map); isMap {
				mapRanges = append(mapRanges, r)
			}
		}
	})
	// the Attributes field store
	var attrStore *ssa.Store
	for _, fs := range fieldStores([]*ssa.Function{f}, G, "Entry", "Attributes") {
		attrStore = fs.Store
	}
	if attrStore == nil {
		R.Fail("C16-order", "NewEntry: Entry.Attributes", c.P.Pos(f.Pos()), "NewEntry does not set Attributes")
		return
	}
	// Attributes value is a phi/append chain built in a loop, or a slice made with its final length and filled by
	// index in a loop; the loop must not be a map range
	var appendCall ssa.Instruction
	var made *ssa.MakeSlice
	var find func(v ssa.Value, depth int)
	seen := map[ssa.Value]bool{}
	find = func(v ssa.Value, depth int) {
		if depth > 8 || seen[v] {
			return
		}
		seen[v] = true
		switch x := v.(type) {
		case *ssa.Phi:
			for _, e := range x.Edges {
				find(e, depth+1)
			}
		case *ssa.MakeSlice:
			made = x
		case *ssa.Call:
			if b, ok := x.Common().Value.(*ssa.Builtin); ok && b.Name() == "append" {
				appendCall = x
			}
		}
	}
	find(attrStore.Val, 0)
	if appendCall == nil && made != nil {
		// the element stores: s[i] = ... on the made slice itself or on a load of the Attributes field
		n := 0
		an.Instrs(f, func(in ssa.Instruction) {
			st, ok := in.(*ssa.Store)
			if !ok {
				return
			}
			ia, ok := st.Addr.(*ssa.IndexAddr)
			if !ok {
				return
			}
			_, isField := fieldLoad(ia.X, G, "Entry", "Attributes")
			if an.Strip(ia.X) == ssa.Value(made) || isField {
				n++
				appendCall = st
			}
		})
		if n != 1 {
			appendCall = nil
		}
	}
	if appendCall == nil {
		R.Unknown("C16-order", "NewEntry: Entry.Attributes built by append in a loop", c.pos(attrStore), "cannot find the append (or the single indexed store) that builds Attributes")
		return
	}
	// is the append inside a map-range loop? (its block is dominated by a block containing Next on a map range)
	inMapLoop := false
	for _, mr := range mapRanges {
		for _, ref := range *mr.Referrers() {
			if nx, ok := ref.(*ssa.Next); ok {
				if nx.Block().Dominates(appendCall.Block()) && loopHeadOf(appendCall) == nx.Block() {
					inMapLoop = true
				}
			}
		}
	}
	if inMapLoop {
		R.Fail("C16-order", "NewEntry: attribute order independent of map iteration", c.pos(appendCall), "Attributes are appended while ranging over the map: the order differs from call to call")
		return
	}
	// the slice ranged over must be sorted between its filling and the loop
	head := loopHeadOf(appendCall)
	if head == nil {
		R.Unknown("C16-order", "NewEntry: attribute order independent of map iteration", c.pos(appendCall), "append is not in a loop")
		return
	}
	sorted := false
	// the names may also come sorted from a helper: the loop ranges over the result of a module function that
	// collects the map's keys, sorts them (total order) after the map range and returns that very slice
	if iff, ok := head.Instrs[len(head.Instrs)-1].(*ssa.If); ok {
		if bo, ok := iff.Cond.(*ssa.BinOp); ok {
			if lc, ok := bo.Y.(*ssa.Call); ok && len(lc.Common().Args) == 1 {
				if hc, ok := an.Strip(lc.Common().Args[0]).(*ssa.Call); ok {
					if hf := hc.Common().StaticCallee(); hf != nil && an.InModule(hf) && len(hf.Blocks) > 0 {
						if okH, why := sortedKeysHelper(hf); okH {
							R.OK("C16-order", "NewEntry: names sorted by a total order", c.pos(hc), fname(hf)+": "+why)
							sorted = true
						} else {
							R.Fail("C16-order", "NewEntry: names sorted by a total order", c.pos(hc), "the names come from "+fname(hf)+", which does not return them sorted by a total order: "+why)
							sorted = true // reported above
						}
					}
				}
			}
		}
	}
	for _, ci := range an.Calls(f) {
		cc := ci.Common()
		if an.CalleeIs(cc, "sort", "Strings") || an.CalleeIs(cc, "sort", "Sort") || an.CalleeIs(cc, "sort", "Slice") || an.CalleeIs(cc, "sort", "SliceStable") ||
			(cc.StaticCallee() != nil && (an.FuncPkgPath(cc.StaticCallee()) == "slices" || an.FuncPkgPath(cc.StaticCallee()) == "golang.org/x/exp/slices") && len(cc.StaticCallee().Name()) >= 4 && cc.StaticCallee().Name()[:4] == "Sort") {
			// the sort must come after every map-range loop and dominate the attribute loop
			after := true
			for _, mr := range mapRanges {
				if !an.InstrDominates(mr, ci) {
					after = false
				}
			}
			if after && ci.Block().Dominates(head) {
				// the order must be a function of the key set: a total order on distinct strings
				if okTotal, why := totalStringOrder(cc); !okTotal {
					R.Fail("C16-order", "NewEntry: names sorted by a total order", c.pos(ci), "the names are sorted with a comparison that "+why+": two distinct attribute names can compare equal, and an unstable sort then leaves them in map-iteration order, which differs from call to call")
				} else {
					R.OK("C16-order", "NewEntry: names sorted by a total order", c.pos(ci), why)
				}
				sorted = true
			}
		}
	}
	// every slice filled in map-iteration order that the building loop (or anything after it) reads must be one
	// that was sorted: a second, unsorted copy of the names must not decide the order
	chainOf := func(start ssa.Value) map[ssa.Value]bool {
		chain := map[ssa.Value]bool{}
		var grow func(v ssa.Value)
		grow = func(v ssa.Value) {
			if v == nil || chain[v] {
				return
			}
			switch x := v.(type) {
			case *ssa.Phi:
			case *ssa.Slice:
			case *ssa.Call:
				if b, ok := x.Common().Value.(*ssa.Builtin); !ok || b.Name() != "append" {
					return
				}
			default:
				return
			}
			chain[v] = true
			switch x := v.(type) {
			case *ssa.Phi:
				for _, e := range x.Edges {
					grow(e)
				}
			case *ssa.Slice:
				grow(x.X)
			case *ssa.Call:
				grow(x.Common().Args[0])
			}
			if refs := v.Referrers(); refs != nil {
				for _, ref := range *refs {
					switch r := ref.(type) {
					case *ssa.Phi:
						grow(r)
					case *ssa.Slice:
						if r.X == v {
							grow(r)
						}
					case *ssa.Call:
						if b, ok := r.Common().Value.(*ssa.Builtin); ok && b.Name() == "append" && r.Common().Args[0] == v {
							grow(r)
						}
					}
				}
			}
		}
		grow(start)
		return chain
	}
	inMapRange := func(in ssa.Instruction) bool {
		for _, mr := range mapRanges {
			for _, ref := range *mr.Referrers() {
				if nx, ok := ref.(*ssa.Next); ok && naturalLoop(nx.Block())[in.Block()] {
					return true
				}
			}
		}
		return false
	}
	var sortedArgs []ssa.Value
	for _, ci := range an.Calls(f) {
		if sf := ci.Common().StaticCallee(); sf != nil && len(ci.Common().Args) > 0 {
			if pp := an.FuncPkgPath(sf); pp == "sort" || pp == "slices" || pp == "golang.org/x/exp/slices" {
				after := ci.Block().Dominates(head)
				for _, mr := range mapRanges {
					if !an.InstrDominates(mr, ci) {
						after = false
					}
				}
				if after {
					sortedArgs = append(sortedArgs, an.Strip(ci.Common().Args[0]))
				}
			}
		}
	}
	done := map[ssa.Value]bool{}
	for _, ci := range an.Calls(f) {
		call, ok := ci.(*ssa.Call)
		if !ok || done[call] {
			continue
		}
		if b, isB := call.Common().Value.(*ssa.Builtin); !isB || b.Name() != "append" || !inMapRange(call) {
			continue
		}
		chain := chainOf(call)
		isSorted := false
		for v := range chain {
			done[v] = true
			for _, sa := range sortedArgs {
				if sa == v {
					isSorted = true
				}
			}
		}
		if isSorted {
			continue
		}
		for v := range chain {
			refs := v.Referrers()
			if refs == nil {
				continue
			}
			for _, ref := range *refs {
				if rv, isV := ref.(ssa.Value); isV && chain[rv] {
					continue
				}
				if rc, isC := ref.(*ssa.Call); isC {
					if b, isB := rc.Common().Value.(*ssa.Builtin); isB && (b.Name() == "len" || b.Name() == "cap") {
						continue
					}
				}
				if head.Dominates(ref.Block()) {
					R.Fail("C16-order", "NewEntry: attribute order independent of map iteration", c.pos(ref), "the loop that builds Attributes (or the code after it) reads a slice that was filled in map-iteration order and never sorted: the order of the attributes differs from call to call")
					return
				}
			}
		}
	}
	R.Check(sorted, "C16-order", "NewEntry: attribute order independent of map iteration", c.pos(appendCall), "names collected from the map are sorted before the loop that builds Attributes", "the names are not sorted between the map iteration and building Attributes: order is not deterministic")
}

// naturalLoop: the blocks of the natural loop(s) headed by h (h itself and
// every block that reaches one of h's back edges without passing through h).
func naturalLoop(h *ssa.BasicBlock) map[*ssa.BasicBlock]bool {
	in := map[*ssa.BasicBlock]bool{}
	var work []*ssa.BasicBlock
	for _, p := range h.Preds {
		if h.Dominates(p) {
			in[h] = true
			if !in[p] {
				in[p] = true
				work = append(work, p)
			}
		}
	}
	for len(work) > 0 {
		b := work[len(work)-1]
		work = work[:len(work)-1]
		for _, p := range b.Preds {
			if !in[p] {
				in[p] = true
				work = append(work, p)
			}
		}
	}
	return in
}

// sortedKeysHelper: f returns a slice that it sorted, by a total order on
// strings, after every map iteration of f, on every path.
func sortedKeysHelper(f *ssa.Function) (bool, string) {
	var mapRanges []*ssa.Range
	an.Instrs(f, func(in ssa.Instruction) {
		if r, ok := in.(*ssa.Range); ok {
			if _, isMap := r.X.Type().Underlying().(*types.Map); isMap {
				mapRanges = append(mapRanges, r)
			}
		}
	})
	var sortCall ssa.CallInstruction
	for _, ci := range an.Calls(f) {
		cc := ci.Common()
		sf := cc.StaticCallee()
		if sf == nil {
			continue
		}
		pp := an.FuncPkgPath(sf)
		if (pp == "sort" || pp == "slices" || pp == "golang.org/x/exp/slices") && strings.HasPrefix(sf.Name(), "S") && len(cc.Args) >= 1 {
			if ok, why := totalStringOrder(cc); !ok {
				return false, "its sort " + why
			}
			sortCall = ci
		}
	}
	if sortCall == nil {
		return false, "no sort call"
	}
	for _, mr := range mapRanges {
		if !an.InstrDominates(mr, sortCall) {
			return false, "a map iteration follows the sort"
		}
	}
	sortedSlice := an.Path(an.Strip(sortCall.Common().Args[0]))
	for _, ret := range an.Returns(f) {
		res := an.ReturnResults(ret)
		if len(res) != 1 || an.Path(an.Strip(res[0])) != sortedSlice || !an.InstrDominates(sortCall, ret) {
			return false, "does not return the slice it sorted on every path"
		}
	}
	return true, "collects the keys, sorts them with a total order after the map iteration and returns that slice"
}

// totalStringOrder: the sort call orders a []string by the natural (byte-wise)
// order of the strings themselves, under which distinct map keys never compare
// equal.
func totalStringOrder(cc *ssa.CallCommon) (bool, string) {
	f := cc.StaticCallee()
	if f == nil {
		return false, "cannot be resolved"
	}
	name := f.Name()
	if o := f.Origin(); o != nil {
		// an instantiation of the generic slices.Sort: total only on strings (and integers), not on floats
		name = o.Name()
		ok := false
		if len(cc.Args) > 0 {
			if sl, isSl := cc.Args[0].Type().Underlying().(*types.Slice); isSl {
				if b, isB := sl.Elem().Underlying().(*types.Basic); isB && b.Info()&types.IsString != 0 {
					ok = true
				}
			}
		}
		if !ok {
			return false, "is " + f.String() + " on something other than a slice of strings"
		}
	}
	switch an.FuncPkgPath(f) + "." + name {
	case "sort.Strings":
		return true, "sort.Strings: byte-wise order, total on distinct names"
	case "slices.Sort", "golang.org/x/exp/slices.Sort":
		return true, "slices.Sort: natural order, total on distinct names"
	case "sort.Slice", "sort.SliceStable":
		mc, ok := cc.Args[1].(*ssa.MakeClosure)
		if !ok {
			return false, "is not a function literal"
		}
		less := mc.Fn.(*ssa.Function)
		elem := func(v ssa.Value, p *ssa.Parameter) bool {
			ld, ok := v.(*ssa.UnOp)
			if !ok || ld.Op != token.MUL {
				return false
			}
			ia, ok := ld.X.(*ssa.IndexAddr)
			return ok && ia.Index == ssa.Value(p) && an.Path(an.Strip(ia.X)) == an.Path(an.Strip(cc.Args[0]))
		}
		rets := an.Returns(less)
		if len(rets) != 1 || len(less.Params) != 2 {
			return false, "has more than one return"
		}
		bo, ok := an.ReturnResults(rets[0])[0].(*ssa.BinOp)
		if !ok || (bo.Op != token.LSS && bo.Op != token.GTR) {
			return false, "is not a plain < or > of two elements"
		}
		if elem(bo.X, less.Params[0]) && elem(bo.Y, less.Params[1]) || elem(bo.X, less.Params[1]) && elem(bo.Y, less.Params[0]) {
			return true, "sort.Slice with s[i] < s[j] on the names themselves: total on distinct names"
		}
		return false, "does not compare the names themselves (" + bo.X.String() + " " + bo.Op.String() + " " + bo.Y.String() + ")"
	}
	return false, "is " + f.String() + ", not a known total order on strings"
}

// checkPairedValues: every function that stores EntryAttribute.Values also
// stores ByteValues built from []byte of the same elements.
func (c *Ctx) checkPairedValues() {
	R := c.R
	n := 0
	byFn := map[*ssa.Function][2][]*ssa.Store{}
	for _, fld := range []string{"Values", "ByteValues"} {
		for _, fs := range fieldStores(c.shippedFuncs(G, TD), G, "EntryAttribute", fld) {
			e := byFn[fs.Fn]
			if fld == "Values" {
				e[0] = append(e[0], fs.Store)
			} else {
				e[1] = append(e[1], fs.Store)
			}
			byFn[fs.Fn] = e
		}
	}
	for f, e := range byFn {
		n++
		key := fname(f) + ": Values and ByteValues written together"
		if len(e[0]) == 0 || len(e[1]) == 0 {
			var at *ssa.Store
			if len(e[0]) > 0 {
				at = e[0][0]
			} else {
				at = e[1][0]
			}
			R.Fail("C16-paired", key, c.pos(at), "only one of Values / ByteValues is written: string and byte values get out of step")
			continue
		}
		// ByteValues elements are []byte(x) conversions of range elements / parameters of the same loop
		ok := true
		for _, st := range e[1] {
			if !byteValuesFromStrings(st.Val, 0, map[ssa.Value]bool{}) {
				ok = false
			}
		}
		R.Check(ok, "C16-paired", key, c.pos(e[1][0]), "ByteValues is built by appending []byte(v) for the same v", "ByteValues is not built from []byte of the string values")
	}
	R.Floor("C16-paired", 2)
}

func byteValuesFromStrings(v ssa.Value, depth int, seen map[ssa.Value]bool) bool {
	if depth > 10 || seen[v] {
		return true
	}
	seen[v] = true
	switch x := v.(type) {
	case *ssa.Phi:
		for _, e := range x.Edges {
			if !byteValuesFromStrings(e, depth+1, seen) {
				return false
			}
		}
		return true
	case *ssa.Const:
		return x.IsNil()
	case *ssa.MakeSlice:
		// make([][]byte, 0, n): empty, only a capacity hint for the appends that follow
		if k, isK := an.IntConst(x.Len); isK && k == 0 {
			return true
		}
		// b := make([][]byte, len(values)); for i := range values { b[i] = []byte(values[i]) }
		if x.Referrers() == nil {
			return false
		}
		n := 0
		for _, r := range *x.Referrers() {
			ia, ok := r.(*ssa.IndexAddr)
			if !ok || ia.Referrers() == nil {
				continue
			}
			for _, rr := range *ia.Referrers() {
				st, ok := rr.(*ssa.Store)
				if !ok || st.Addr != ssa.Value(ia) {
					continue
				}
				cv, ok := st.Val.(*ssa.Convert)
				if !ok {
					return false
				}
				if b, ok := cv.X.Type().Underlying().(*types.Basic); !ok || b.Kind() != types.String {
					return false
				}
				n++
			}
		}
		return n > 0
	case *ssa.UnOp:
		// load of the same field (append to existing)
		if _, name, ok := an.LoadField(x); ok && name == "ByteValues" {
			return true
		}
	case *ssa.Call:
		if b, ok := x.Common().Value.(*ssa.Builtin); ok && b.Name() == "append" {
			if !byteValuesFromStrings(x.Common().Args[0], depth+1, seen) {
				return false
			}
			// appended slice: varargs array with one element = convert string->[]byte
			sl, ok := x.Common().Args[1].(*ssa.Slice)
			if !ok {
				return false
			}
			al, ok := sl.X.(*ssa.Alloc)
			if !ok {
				return false
			}
			for _, r := range *al.Referrers() {
				if ia, ok := r.(*ssa.IndexAddr); ok {
					for _, rr := range *ia.Referrers() {
						if st, ok := rr.(*ssa.Store); ok {
							cv, ok := st.Val.(*ssa.Convert)
							if !ok {
								return false
							}
							if b, ok := cv.X.Type().Underlying().(*types.Basic); !ok || b.Kind() != types.String {
								return false
							}
						}
					}
				}
			}
			return true
		}
		// a helper of the module that builds the list: `ByteValues: rawValues(values)` - every value it returns is built
		// that way (from its own string arguments)
		if h := an.StaticCallee(x.Common()); h != nil && an.InModule(h) && len(h.Blocks) > 0 && h.Signature.Results().Len() == 1 {
			rets := an.Returns(h)
			if len(rets) == 0 {
				return false
			}
			for _, ret := range rets {
				if !byteValuesFromStrings(an.ReturnResults(ret)[0], depth+1, seen) {
					return false
				}
			}
			return true
		}
	}
	return false
}

// byteTokens expands a binary.Read/Write datum type into one token per byte.
func byteTokens(order, typ string) []string {
	n := 1
	elem := typ
	if strings.HasPrefix(typ, "[") {
		i := strings.Index(typ, "]")
		k, err := strconv.Atoi(typ[1:i])
		if err != nil {
			return nil // a slice: variable part
		}
		n, elem = k, typ[i+1:]
	}
	w := map[string]int{"uint8": 1, "int8": 1, "byte": 1, "uint16": 2, "int16": 2, "uint32": 4, "int32": 4, "uint64": 8, "int64": 8}[elem]
	if w == 0 {
		return nil
	}
	var out []string
	for e := 0; e < n; e++ {
		for b := 0; b < w; b++ {
			if w == 1 {
				out = append(out, "byte")
			} else {
				out = append(out, sprintf("%s%d.%d", order, 8*w, b))
			}
		}
	}
	return out
}

// readLayout: the fixed-size prefix the reader's binary.Read calls consume.
func readLayout(rs []binIO) []string {
	var out []string
	for _, r := range rs {
		t := byteTokens(r.order, r.typ)
		if t == nil {
			break
		}
		out = append(out, t...)
	}
	return out
}

// appendByteLayout: every non-nil slice f returns is built by a chain of
// append(prev, b...) with single bytes and binary.<Order>.AppendUintN(prev, v)
// calls that starts from an empty slice: one token per byte, in order.
func appendByteLayout(f *ssa.Function) ([]string, string) {
	var layout []string
	first := true
	for _, ret := range an.Returns(f) {
		res := an.ReturnResults(ret)
		if an.IsNilConst(an.Strip(res[0])) {
			continue
		}
		var toks []string
		v := an.Strip(res[0])
		for depth := 0; ; depth++ {
			if depth > 64 {
				return nil, "append chain too long"
			}
			if ms, ok := v.(*ssa.MakeSlice); ok {
				if k, isK := an.IntConst(ms.Len); isK && k == 0 {
					break
				}
				return nil, "the chain starts from a non-empty slice"
			}
			if an.IsNilConst(v) {
				break
			}
			if sl, isSl := v.(*ssa.Slice); isSl {
				// make([]byte, 0, k) with a constant k: a fresh array sliced [:0]
				if _, isAl := sl.X.(*ssa.Alloc); isAl && sl.High != nil {
					if k, isK := an.IntConst(sl.High); isK && k == 0 {
						break
					}
				}
			}
			call, ok := v.(*ssa.Call)
			if !ok {
				return nil, "the returned slice is not built by appends only (" + an.Path(v) + ")"
			}
			cc := call.Common()
			var step []string
			if b, isB := cc.Value.(*ssa.Builtin); isB && b.Name() == "append" && len(cc.Args) == 2 {
				// append(prev, x, y, ...): the variadic bytes sit in a fresh array
				sl, isSl := cc.Args[1].(*ssa.Slice)
				if !isSl {
					return nil, "append of a slice of unknown length"
				}
				al, isAl := sl.X.(*ssa.Alloc)
				if !isAl {
					return nil, "append of a slice of unknown length"
				}
				at, isArr := al.Type().(*types.Pointer).Elem().Underlying().(*types.Array)
				if !isArr {
					return nil, "append of a slice of unknown length"
				}
				step = make([]string, at.Len())
				for i := range step {
					step[i] = "zero"
				}
				for _, r := range *al.Referrers() {
					ia, isIA := r.(*ssa.IndexAddr)
					if !isIA {
						continue
					}
					k, isK := an.IntConst(ia.Index)
					if !isK || k < 0 || k >= at.Len() {
						return nil, "append with a non-constant element position"
					}
					for _, u := range *ia.Referrers() {
						if st, isSt := u.(*ssa.Store); isSt && st.Addr == ssa.Value(ia) {
							if z, isC := an.IntConst(st.Val); isC && z == 0 {
								continue
							}
							step[k] = "byte"
						}
					}
				}
				v = an.Strip(cc.Args[0])
			} else if g := cc.StaticCallee(); g != nil && an.FuncPkgPath(g) == "encoding/binary" && strings.HasPrefix(g.Name(), "AppendUint") && g.Signature.Recv() != nil && len(cc.Args) == 3 {
				bits, _ := strconv.Atoi(strings.TrimPrefix(g.Name(), "AppendUint"))
				order := "BigEndian"
				if strings.Contains(strings.ToLower(g.Signature.Recv().Type().String()), "little") {
					order = "LittleEndian"
				}
				zero := false
				if z, isC := an.IntConst(cc.Args[2]); isC && z == 0 {
					zero = true
				}
				for b := 0; b < bits/8; b++ {
					if zero {
						step = append(step, "zero")
					} else {
						step = append(step, sprintf("%s%d.%d", order, bits, b))
					}
				}
				v = an.Strip(cc.Args[1])
			} else {
				return nil, "the returned slice passes through " + an.Path(v)
			}
			toks = append(step, toks...)
		}
		if first {
			layout, first = toks, false
		} else if strings.Join(layout, ",") != strings.Join(toks, ",") {
			return nil, "different returns build different layouts"
		}
	}
	if len(layout) == 0 {
		return nil, "no append chain"
	}
	return layout, ""
}

// directByteLayout: f returns a byte slice made with a constant length whose
// bytes are set by constant-index stores and binary.<Order>.PutUintN calls
// at constant offsets; everything else stays zero.
func directByteLayout(f *ssa.Function) ([]string, string) {
	var buf ssa.Value // the slice value
	var n int64
	an.Instrs(f, func(in ssa.Instruction) {
		switch x := in.(type) {
		case *ssa.MakeSlice:
			if k, ok := an.IntConst(x.Len); ok && buf == nil {
				buf, n = x, k
			}
		case *ssa.Slice:
			if pt, ok := x.X.Type().Underlying().(*types.Pointer); ok && buf == nil {
				if at, ok := pt.Elem().Underlying().(*types.Array); ok {
					if _, isAl := x.X.(*ssa.Alloc); isAl && x.Low == nil {
						hi := at.Len()
						if x.High != nil {
							if k, ok := an.IntConst(x.High); ok {
								hi = k
							}
						}
						buf, n = x, hi
					}
				}
			}
		}
	})
	if buf == nil || n <= 0 || n > 4096 {
		return nil, "no make([]byte, constant)"
	}
	for _, ret := range an.Returns(f) {
		res := an.ReturnResults(ret)
		if !an.IsNilConst(an.Strip(res[0])) && an.Strip(res[0]) != buf {
			return nil, "returns something else than the made slice"
		}
	}
	out := make([]string, n)
	for i := range out {
		out[i] = "zero"
	}
	bad := ""
	for _, ref := range *buf.Referrers() {
		switch x := ref.(type) {
		case *ssa.IndexAddr:
			k, ok := an.IntConst(x.Index)
			if !ok || k < 0 || k >= n {
				bad = "non-constant index store"
				continue
			}
			for _, u := range *x.Referrers() {
				if st, isSt := u.(*ssa.Store); isSt && st.Addr == ssa.Value(x) {
					if z, isC := an.IntConst(st.Val); isC && z == 0 {
						continue
					}
					out[k] = "byte"
				}
			}
		case *ssa.Slice:
			lo := int64(0)
			okLo := true
			if x.Low != nil {
				lo, okLo = an.IntConst(x.Low)
			}
			for _, u := range *x.Referrers() {
				ci, isCall := u.(ssa.CallInstruction)
				if !isCall {
					continue
				}
				g := ci.Common().StaticCallee()
				if g == nil || an.FuncPkgPath(g) != "encoding/binary" || !strings.HasPrefix(g.Name(), "PutUint") || g.Signature.Recv() == nil || !okLo {
					bad = "the slice is handed to something else than binary.<Order>.PutUintN at a constant offset"
					continue
				}
				bits, _ := strconv.Atoi(strings.TrimPrefix(g.Name(), "PutUint"))
				order := "BigEndian"
				if strings.Contains(strings.ToLower(g.Signature.Recv().Type().String()), "little") {
					order = "LittleEndian"
				}
				for b := 0; b < bits/8; b++ {
					if lo+int64(b) >= n {
						bad = "PutUint past the end of the slice"
						break
					}
					out[lo+int64(b)] = sprintf("%s%d.%d", order, bits, b)
				}
			}
		case *ssa.Return, *ssa.DebugRef, *ssa.Store:
		default:
			if _, isCall := ref.(ssa.CallInstruction); isCall {
				bad = "the slice is passed to a call"
			}
		}
	}
	if bad != "" {
		return nil, bad
	}
	return out, ""
}
