package rules

import (
	"go/token"
	"go/types"
	"sort"
	"strings"

	"gldapverif/an"

	"golang.org/x/tools/go/ssa"
)

// pfSlice computes the functions reachable from the entries inside the module:
// static calls (call/defer/go), closures created, and in-module
// implementations of invoked interface methods.
func (e *pfEngine) slice(entries []*ssa.Function) []*ssa.Function {
	seen := map[*ssa.Function]bool{}
	var order []*ssa.Function
	var walk func(f *ssa.Function)
	walk = func(f *ssa.Function) {
		if f == nil || seen[f] || !an.InModule(f) || len(f.Blocks) == 0 {
			return
		}
		if e.c.P.IsTestFile(f.Pos()) || takesTestingT(f) {
			return
		}
		seen[f] = true
		order = append(order, f)
		an.Instrs(f, func(in ssa.Instruction) {
			switch x := in.(type) {
			case ssa.CallInstruction:
				cc := x.Common()
				if g := an.StaticCallee(cc); g != nil {
					walk(g)
				} else if cc.IsInvoke() {
					for _, g := range e.chaTargets(cc) {
						walk(g)
					}
				}
			case *ssa.MakeClosure:
				walk(x.Fn.(*ssa.Function))
			}
		})
	}
	for _, f := range entries {
		walk(f)
	}
	return order
}

func (e *pfEngine) optionTaking(f *ssa.Function) bool {
	r := &pfRun{e: e, fn: f, optsV: map[ssa.Value]bool{}}
	r.findOptsValues()
	return len(r.optsV) > 0
}

// computeFlagFacts derives, for boolean struct fields tested in the slice,
// the facts that hold whenever the flag is true: the meet of the states at
// every store of `true` to that field in shipped code.
func (e *pfEngine) computeFlagFacts(fns []*ssa.Function) {
	type fk struct{ typ, field string }
	wanted := map[fk]bool{}
	for _, f := range fns {
		an.Instrs(f, func(in ssa.Instruction) {
			iff, ok := in.(*ssa.If)
			if !ok {
				return
			}
			cond, _ := an.Not(iff.Cond)
			if base, name, ok := an.LoadField(cond); ok {
				if nt := an.StructOf(base.Type()); nt != nil && an.FuncPkgPath(f) != "" {
					if b, ok := cond.Type().Underlying().(*types.Basic); ok && b.Kind() == types.Bool {
						wanted[fk{nt.Obj().Name(), name}] = true
					}
				}
			}
		})
	}
	for w := range wanted {
		var acc *pfState
		first := true
		bad := false
		for _, f := range e.c.shippedFuncs(G, TD) {
			for _, b := range f.Blocks {
				for _, in := range b.Instrs {
					st, ok := in.(*ssa.Store)
					if !ok {
						continue
					}
					fa, ok := st.Addr.(*ssa.FieldAddr)
					if !ok || an.FieldAddrName(fa) != w.field {
						continue
					}
					nt := an.StructOf(fa.X.Type())
					if nt == nil || nt.Obj().Name() != w.typ {
						continue
					}
					v, isC := an.BoolConst(st.Val)
					if !isC {
						bad = true
						continue
					}
					if !v {
						continue
					}
					run := e.analyse(f, nil, nil, false)
					s := run.stateAt(st)
					if s == nil {
						continue
					}
					base := e.key(fa.X)
					ren := newState()
					for k, ls := range s.lenGE {
						if strings.HasPrefix(k, base+".") {
							for _, l := range ls {
								if l.base == "" {
									ren.lenGE["$recv"+k[len(base):]] = append(ren.lenGE["$recv"+k[len(base):]], l)
								}
							}
						}
					}
					if first {
						acc, first = ren, false
					} else {
						acc = meet(acc, ren)
					}
				}
			}
		}
		if !bad && acc != nil {
			// only length facts on Children survive (monotone under AppendChild)
			keep := newState()
			for k, v := range acc.lenGE {
				if strings.HasSuffix(k, ".Children") {
					keep.lenGE[k] = v
				}
			}
			// the invariant speaks about what hangs off the object's fields when the flag was set ($recv.Packet.Children):
			// it survives only if such a field is never re-assigned on an object that may already carry the flag - i.e.
			// only while the object is being built (a store into a fresh allocation of the same function)
			roots := map[string]bool{}
			for k := range keep.lenGE {
				if parts := strings.Split(k, "."); len(parts) > 1 {
					roots[parts[1]] = true
				}
			}
			reassigned := false
			for _, f := range e.c.shippedFuncs(G, TD) {
				an.Instrs(f, func(in ssa.Instruction) {
					st, ok := in.(*ssa.Store)
					if !ok {
						return
					}
					fa, ok := st.Addr.(*ssa.FieldAddr)
					if !ok || !roots[an.FieldAddrName(fa)] {
						return
					}
					if nt := an.StructOf(fa.X.Type()); nt == nil || nt.Obj().Name() != w.typ {
						return
					}
					if al, fresh := an.Strip(fa.X).(*ssa.Alloc); !fresh || al.Parent() != f {
						reassigned = true
					}
				})
			}
			if !reassigned {
				e.flagFacts[w.typ+"."+w.field] = keep
			}
		}
	}
}

// run analyses the slice and returns the sites in a stable order.
func (e *pfEngine) run(entries []*ssa.Function, exported bool) ([]*pfSite, []*ssa.Function) {
	fns := e.slice(entries)
	if exported {
		for _, f := range entries {
			e.exported[f] = true
		}
	}
	e.computeFlagFacts(fns)
	e.computeParamNil(fns)
	// which option-taking functions are only ever called with literal option lists
	literalOnly := map[*ssa.Function]bool{}
	for _, f := range fns {
		if e.optionTaking(f) {
			literalOnly[f] = !e.exported[f]
		}
	}
	for _, f := range fns {
		for _, ci := range an.Calls(f) {
			g := an.StaticCallee(ci.Common())
			if g == nil || !e.optionTaking(g) {
				continue
			}
			args := ci.Common().Args
			if _, ok := e.S.variadicOptions(args[len(args)-1]); !ok {
				literalOnly[g] = false
			}
		}
	}
	for _, f := range fns {
		if lo, isOpt := literalOnly[f]; isOpt && lo {
			continue // checked per calling context below
		}
		e.analyse(f, nil, nil, true)
		e.analysed[f] = true
	}
	// force per-context evaluation of every literal-options call
	for _, f := range fns {
		run := e.analyse(f, nil, nil, false)
		for _, ci := range an.Calls(f) {
			call, ok := ci.(*ssa.Call)
			if !ok {
				continue
			}
			g := an.StaticCallee(ci.Common())
			if g == nil || !e.optionTaking(g) || len(g.Blocks) == 0 {
				continue
			}
			st := run.stateAt(call)
			if st == nil {
				continue
			}
			if ctx := run.ctxFor(call, st); ctx != nil && ctx.known {
				e.summary(g, ctx)
			}
		}
	}
	var out []*pfSite
	for _, k := range e.order {
		out = append(out, e.sites[k])
	}
	sort.SliceStable(out, func(i, j int) bool { return out[i].Key < out[j].Key })
	return out, fns
}

// report emits sites as obligations under rule names "<prefix>-<kind>".
func (e *pfEngine) report(prefix string, sites []*pfSite) {
	R := e.c.R
	for _, s := range sites {
		rule := prefix + "-" + s.Kind
		if s.OK {
			R.OK(rule, s.Key, e.c.pos(s.Instr), s.Detail)
		} else {
			d := s.Detail
			if s.Ctx != "" {
				d += " [option context: " + s.Ctx + "]"
			}
			R.Fail(rule, s.Key, e.c.pos(s.Instr), d)
		}
	}
}

// checkErrorsPropagate: in the given functions every error produced by an
// in-module call is tested, and the failing edge leads only to returns that
// carry a non-nil error.
func (c *Ctx) checkErrorsPropagate(rule string, fns []*ssa.Function) {
	R := c.R
	for _, f := range fns {
		if an.FuncPkgPath(f) != G {
			continue
		}
		ei := errResultIndex(f)
		for _, ci := range an.Calls(f) {
			call, ok := ci.(*ssa.Call)
			if !ok {
				continue
			}
			g := call.Common().StaticCallee()
			if g == nil || len(g.Blocks) == 0 {
				continue
			}
			gi := errResultIndex(g)
			if gi < 0 {
				continue
			}
			if !an.InModule(g) && an.FuncKey(g) != an.PkgBer+".ReadPacket" && an.FuncKey(g) != an.PkgLdap+".DecompileFilter" && an.FuncKey(g) != an.PkgBer+".DecodePacketErr" {
				continue
			}
			key := fname(f) + ": error of " + an.ShortName(g)
			var errVal ssa.Value
			if g.Signature.Results().Len() == 1 {
				errVal = call
			} else {
				for _, r := range *call.Referrers() {
					if ex, ok := r.(*ssa.Extract); ok && ex.Index == gi {
						errVal = ex
					}
				}
			}
			if errVal == nil || len(*errVal.Referrers()) == 0 {
				R.Fail(rule, key, c.pos(call), "the error result is dropped: a failure would be treated as success")
				continue
			}
			// returned directly?
			direct := false
			tested := false
			okAll := true
			for _, r := range *errVal.Referrers() {
				switch x := r.(type) {
				case *ssa.Return:
					direct = true
				case *ssa.BinOp:
					if _, trueMeansNil, ok := an.NilCheck(x); ok {
						for _, rr := range *x.Referrers() {
							iff, ok := rr.(*ssa.If)
							if !ok {
								continue
							}
							tested = true
							errSucc := succOn(iff, !trueMeansNil)
							if ei < 0 {
								// function without error result (e.g. a goroutine body): must return
								continue
							}
							bad := func(in ssa.Instruction) bool {
								ret, ok := in.(*ssa.Return)
								if !ok {
									return false
								}
								res := an.ReturnResults(ret)
								return an.IsNilConst(an.Strip(res[ei]))
							}
							known := map[string]bool{}
							if ck, neg := an.CondKey(iff.Cond); true {
								// on errSucc the condition has the value that leads there
								known[ck] = (errSucc == iff.Block().Succs[0]) != neg
							}
							if w := an.SearchKnown(an.Point{B: errSucc, I: 0}, bad, nil, known); w != nil {
								// allowed: explicit classification of EOF as orderly close (returns nil) in serveRequests
								if c.isEOFClassification(w[len(w)-1]) {
									continue
								}
								okAll = false
								R.Fail(rule, key, c.pos(iff), "after this call fails a path still returns success: "+c.trail(w))
							}
						}
					}
				case *ssa.Store:
					direct = true // spilled to the result cell
					// ... where it is pending until the function returns: on the failure side of the test that follows, no
					// path may overwrite the cell with a value that can be nil (the error of a later call that succeeds)
					// before a return - `break` out of a switch inside a loop, a missing `return`
					cell, isCell := x.Addr.(*ssa.Alloc)
					if !isCell || ei < 0 {
						continue
					}
					for _, b := range f.Blocks {
						iff, isIf := b.Instrs[len(b.Instrs)-1].(*ssa.If)
						if !isIf {
							continue
						}
						cond, neg := an.Not(iff.Cond)
						cx, trueMeansNil, isNC := an.NilCheck(cond)
						if !isNC {
							continue
						}
						ld, isLd := cx.(*ssa.UnOp)
						if !isLd || ld.Op != token.MUL || ld.X != ssa.Value(cell) {
							continue
						}
						otherStore := func(in ssa.Instruction) bool {
							st, isSt := in.(*ssa.Store)
							return isSt && st.Addr == ssa.Value(cell)
						}
						// the test reads what this call stored
						if !an.InstrDominates(x, iff) || an.Search(an.After(x), isInstr(ld), otherStore) == nil {
							continue
						}
						tested = true
						nilSucc := 0
						if !trueMeansNil {
							nilSucc = 1
						}
						if neg {
							nilSucc = 1 - nilSucc
						}
						errSucc := b.Succs[1-nilSucc]
						mayBeNil := func(in ssa.Instruction) bool {
							st, isSt := in.(*ssa.Store)
							if !isSt || st.Addr != ssa.Value(cell) {
								return false
							}
							v := an.Strip(st.Val)
							if an.IsNilConst(v) {
								return true
							}
							if mi, isMI := v.(*ssa.MakeInterface); isMI {
								v = an.Strip(mi.X)
							}
							if vc, isCall := v.(*ssa.Call); isCall {
								if g2 := vc.Common().StaticCallee(); g2 != nil {
									switch an.FuncKey(g2) {
									case "fmt.Errorf", "errors.New", "errors.Join":
										return false
									}
								}
							}
							if _, isAlloc := v.(*ssa.Alloc); isAlloc {
								return false // &someError{...}
							}
							return true
						}
						if w := an.Search(an.Point{B: errSucc, I: 0}, mayBeNil, nil); w != nil {
							okAll = false
							R.Fail(rule, key, c.pos(iff), "after this call fails the pending error can be overwritten before the function returns (by the result of a later call that succeeds): the failure is then reported as success: "+c.trail(w))
						}
					}
				case *ssa.ChangeInterface, *ssa.MakeInterface:
					// wrapped into fmt.Errorf args
				case *ssa.Phi:
					direct = true
				}
			}
			// the test may be made by a classifier of the module applied to the error (`switch classifyReadErr(err)`)
			if ei >= 0 {
				for _, e := range errNilIfs(f, errVal) {
					if cnd, _ := an.Not(e.If.Cond); func() bool { _, _, isNC := an.NilCheck(cnd); return isNC }() {
						continue // the direct form was handled above
					}
					tested = true
					bad := func(in ssa.Instruction) bool {
						ret, ok := in.(*ssa.Return)
						if !ok {
							return false
						}
						res := an.ReturnResults(ret)
						return an.IsNilConst(an.Strip(res[ei]))
					}
					if w := an.Search(an.Point{B: e.ErrSucc, I: 0}, bad, nil); w != nil {
						if c.isEOFClassification(w[len(w)-1]) {
							continue
						}
						okAll = false
						R.Fail(rule, key, c.pos(e.If), "after this call fails a path still returns success: "+c.trail(w))
					}
				}
			}
			if okAll && (tested || direct) {
				R.OK(rule, key, c.pos(call), "error is tested and every path from the failing edge returns a non-nil error (or it is returned directly)")
			} else if okAll {
				R.Fail(rule, key, c.pos(call), "the error result is never tested")
			}
		}
	}
}

// isEOFClassification: the success return is control dependent on
// errors.Is(err, io.EOF)-style tests (orderly connection close).
func (c *Ctx) isEOFClassification(in ssa.Instruction) bool {
	var eofAtom func(v ssa.Value) bool
	eofAtom = func(v ssa.Value) bool {
		call, ok := v.(*ssa.Call)
		if !ok {
			return false
		}
		cc := call.Common()
		// a predicate of the module that is true only for such errors: `func isConnClosedErr(err error) bool`
		if g := cc.StaticCallee(); g != nil && an.InModule(g) && len(g.Blocks) > 0 && g.Signature.Results().Len() == 1 && len(cc.Args) == 1 {
			all, n := true, 0
			for _, ret := range an.Returns(g) {
				res := an.ReturnResults(ret)[0]
				if b, isC := an.BoolConst(res); isC {
					if b && !hasFact(ret.Block(), true, eofAtom) {
						all = false
					}
					if b {
						n++
					}
					continue
				}
				inner, neg := an.Not(res)
				if phi, isPhi := res.(*ssa.Phi); isPhi && !neg {
					// `a(err) || b(err) || c(err)`: true from the true branch of an atom, or the last atom itself
					for i, ed := range phi.Edges {
						if b, isC := an.BoolConst(ed); isC {
							okEdge := false
							if b && i < len(phi.Block().Preds) {
								p := phi.Block().Preds[i]
								if iff, isIf := p.Instrs[len(p.Instrs)-1].(*ssa.If); isIf && p.Succs[0] == phi.Block() && p.Succs[1] != phi.Block() {
									if ic, _ := an.Not(iff.Cond); eofAtom(ic) {
										okEdge = true
									}
								}
							}
							if !okEdge {
								all = false
							}
							continue
						}
						if ei, eneg := an.Not(ed); eneg || !eofAtom(ei) {
							all = false
						}
					}
					n++
					continue
				}
				if neg || !eofAtom(inner) {
					all = false
				}
				n++
			}
			if all && n > 0 {
				return true
			}
		}
		if an.CalleeIs(cc, "errors", "Is") {
			if g, ok := an.Strip(cc.Args[1]).(*ssa.UnOp); ok && g.Op == token.MUL {
				if gl, ok := g.X.(*ssa.Global); ok && gl.Pkg.Pkg.Path() == "io" && (gl.Name() == "EOF" || gl.Name() == "ErrUnexpectedEOF") {
					return true
				}
			}
		}
		if an.CalleeIs(cc, "strings", "Contains") {
			if s, ok := an.StrConst(cc.Args[1]); ok && strings.Contains(s, "EOF") {
				return true
			}
		}
		return false
	}
	return hasFact(in.Block(), true, eofAtom) || c.eofPhi(in)
}

// eofPhi handles `a || b || c` lowered to a block with several predecessors.
func (c *Ctx) eofPhi(in ssa.Instruction) bool {
	b := in.Block()
	if len(b.Preds) < 2 {
		return false
	}
	for _, p := range b.Preds {
		if len(p.Instrs) == 0 {
			return false
		}
		iff, ok := p.Instrs[len(p.Instrs)-1].(*ssa.If)
		if !ok || p.Succs[0] != b {
			return false
		}
		call, ok := iff.Cond.(*ssa.Call)
		if !ok {
			return false
		}
		cc := call.Common()
		isEOF := false
		if an.CalleeIs(cc, "errors", "Is") {
			if g, ok := an.Strip(cc.Args[1]).(*ssa.UnOp); ok && g.Op == token.MUL {
				if gl, ok := g.X.(*ssa.Global); ok && gl.Pkg.Pkg.Path() == "io" {
					isEOF = true
				}
			}
		}
		if an.CalleeIs(cc, "strings", "Contains") {
			if s, ok := an.StrConst(cc.Args[1]); ok && strings.Contains(s, "EOF") {
				isEOF = true
			}
		}
		if !isEOF {
			return false
		}
	}
	return true
}
