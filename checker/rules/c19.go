package rules

import (
	"fmt"
	"gldapverif/report"
	"go/token"
	"os"
	"strconv"
	"strings"

	"gldapverif/an"

	"golang.org/x/tools/go/ssa"
)

func init() {
	Registry["C19"] = checkC19
	Descriptions["C19"] = "Decision-table check (engine E4) of the closure returned by (*Directory).handleBind: the result code that reaches the deferred Write is computed for every valuation of the closure's branch atoms by walking its CFG " +
		"(the user loop contributes one symbolic element, i.e. an existential over Directory.users) and compared with the reference: success <=> (password empty AND anonymous binds allowed) OR EXISTS user: DN == bind DN (exact) AND user has a password value AND password == first value (exact); otherwise invalidCredentials. " +
		"C19-default (constructor code is invalidCredentials, other writes are success only), C19-written (the response is written exactly once on every path), C19-getvalues (Entry.GetAttributeValues returns the values of the first attribute with exactly that name). Transport-independent: the closure never looks at the connection."
}

func checkC19(c *Ctx) {
	R := c.R
	outer := c.fn(TD, "(*Directory).handleBind")
	if outer == nil {
		return
	}
	rets := an.Returns(outer)
	if len(rets) != 1 {
		R.Fatal("handleBind: expected one return")
		return
	}
	mc, ok := an.Strip(rets[0].Results[0]).(*ssa.MakeClosure)
	if !ok {
		R.Fatal("handleBind does not return a closure")
		return
	}
	h := mc.Fn.(*ssa.Function)
	nick[h] = "(*Directory).handleBind:handler"
	R.Analysed = append(R.Analysed, fname(h))

	// ---- the response object and its default
	// (built at the top of the handler and adjusted with SetResultCode, or built in the deferred function from a
	// local result-code variable the handler assigns)
	var newResp *ssa.Call
	for _, f := range an.WithClosures(h) {
		for _, ci := range an.Calls(f) {
			if call, ok := ci.(*ssa.Call); ok && an.CalleeIs(ci.Common(), G, "(*Request).NewBindResponse") {
				if newResp != nil {
					R.Fail("C19-default", fname(h)+": response created with NewBindResponse", c.pos(call), "more than one NewBindResponse call")
					return
				}
				newResp = call
			}
		}
	}
	if newResp == nil {
		R.Fail("C19-default", fname(h)+": response created with NewBindResponse", c.P.Pos(h.Pos()), "no NewBindResponse call")
		return
	}
	S := c.opts()
	invalid, _ := c.P.ConstInt(G, "ResultInvalidCredentials")
	success, _ := c.P.ConstInt(G, "ResultSuccess")
	defCode := int64(-1)
	var codeCell *ssa.Alloc // the local result-code variable, when the code is carried that way
	var codeInit *ssa.Store
	if list, ok := S.variadicOptions(newResp.Common().Args[1]); ok {
		for _, o := range list {
			if o.Ctor.Fn.Name() != "WithResponseCode" {
				continue
			}
			if k, isK := an.IntConst(o.Args[0]); isK {
				defCode = k
			} else if ld, isLd := an.StripConv(an.Strip(o.Args[0])).(*ssa.UnOp); isLd && ld.Op == token.MUL {
				if al, isAl := an.CellRoot(ld.X).(*ssa.Alloc); isAl && al.Parent() == h {
					codeCell = al
				}
			}
		}
	}
	if codeCell != nil {
		sts, esc := an.CellStores(codeCell)
		okCell := !esc
		for _, st := range sts {
			if _, isK := an.IntConst(st.Val); !isK {
				okCell = false
			}
			// the initial value: assigned in the handler itself before anything else can assign or leave
			if st.Parent() == h {
				first := true
				for _, o := range sts {
					if o != st && o.Parent() == h && !an.InstrDominates(st, o) {
						first = false
					}
				}
				for _, ret := range an.Returns(h) {
					if !an.InstrDominates(st, ret) {
						first = false
					}
				}
				if first && codeInit == nil {
					codeInit = st
				}
			}
		}
		if !okCell || codeInit == nil {
			R.Fail("C19-default", fname(h)+": default result is invalidCredentials", c.pos(newResp), "the result code variable given to NewBindResponse is not a local assigned only constants, with an initial value set before anything else")
			return
		}
		defCode, _ = an.IntConst(codeInit.Val)
	}
	reqOK := an.Strip(newResp.Common().Args[0]) == ssa.Value(h.Params[1])
	R.Check(defCode == invalid && invalid == 49 && reqOK, "C19-default", fname(h)+": default result is invalidCredentials", c.pos(newResp),
		"r.NewBindResponse(WithResponseCode(49))", sprintf("the bind response does not start as invalidCredentials for this request (default code %d)", defCode))
	// sites that set the result code: SetResultCode on the response (directly, or in a helper that does it
	// unconditionally on a parameter bound to the response), or a constant assigned to the result-code variable
	isSet := func(in ssa.Instruction) (int64, bool, bool) { // (code, const, isSet)
		if st, ok := in.(*ssa.Store); ok && codeCell != nil && an.CellRoot(st.Addr) == ssa.Value(codeCell) {
			k, isK := an.IntConst(st.Val)
			return k, isK, true
		}
		ci, ok := in.(ssa.CallInstruction)
		if !ok {
			return 0, false, false
		}
		if an.CalleeIs(ci.Common(), G, "(*baseResponse).SetResultCode") {
			k, isK := an.IntConst(ci.Common().Args[1])
			return k, isK, true
		}
		if g := an.StaticCallee(ci.Common()); g != nil && an.InModule(g) && len(g.Blocks) > 0 && isCall(ci) {
			var the ssa.CallInstruction
			n := 0
			for _, ic := range an.Calls(g) {
				if an.CalleeIs(ic.Common(), G, "(*baseResponse).SetResultCode") {
					n++
					the = ic
				}
			}
			if n > 1 && isCall(ci) {
				// a helper that chooses the code from a constant selector: `d.setBindResult(resp, bindUser)`
				if k, set, okH := selectedSetCode(g, ci, newResp); okH {
					return k, true, set
				}
				return 0, false, true
			}
			if n == 1 && isCall(the) {
				uncond := true
				for _, ret := range an.Returns(g) {
					if !an.InstrDominates(the, ret) {
						uncond = false
					}
				}
				// the receiver is a parameter of the helper that the call binds to the response
				bound := false
				if recv, _ := an.FieldChain(the.Common().Args[0]); recv != nil {
					for i, p := range g.Params {
						if an.Strip(recv) == ssa.Value(p) && i < len(ci.Common().Args) && an.Strip(ci.Common().Args[i]) == ssa.Value(newResp) {
							bound = true
						}
					}
				}
				if bound {
					k, isK := an.IntConst(the.Common().Args[1])
					return k, isK && uncond, true
				}
			}
		}
		return 0, false, false
	}
	for _, f := range an.WithClosures(h) {
		an.Instrs(f, func(in ssa.Instruction) {
			if in == ssa.Instruction(codeInit) && codeInit != nil {
				return
			}
			if k, isK, is := isSet(in); is {
				R.Check(isK && (k == success || k == invalid), "C19-default", fname(h)+": only success or invalidCredentials is ever set explicitly", c.pos(in), "the result code is set to ResultSuccess (or back to ResultInvalidCredentials)", "a result code other than success/invalidCredentials is produced (or the code is chosen inside a helper in a way the call does not determine)")
			}
		})
	}
	// ---- written exactly once
	var wdefer *ssa.Defer
	for _, ci := range an.Calls(h) {
		d, ok := ci.(*ssa.Defer)
		if !ok {
			continue
		}
		if df := an.StaticCallee(d.Common()); df != nil && df.Parent() == h {
			for _, ic := range an.Calls(df) {
				if an.CalleeIs(ic.Common(), G, "(*ResponseWriter).Write") && isCall(ic) {
					// writes resp to w
					okW := an.Strip(ic.Common().Args[0]) == ssa.Value(h.Params[0])
					okR := an.Strip(ic.Common().Args[1]) == ssa.Value(newResp)
					once := an.Search(an.Entry(df), an.IsReturn, isInstr(ic)) == nil && an.Search(an.After(ic), isInstr(ic), nil) == nil
					if okW && okR && once {
						wdefer = d
					}
				}
			}
		}
	}
	nOther := 0
	for _, f := range an.WithClosures(h) {
		for _, ci := range an.Calls(f) {
			if an.CalleeIs(ci.Common(), G, "(*ResponseWriter).Write") {
				nOther++
			}
		}
	}
	okWritten := wdefer != nil && nOther == 1
	if okWritten {
		early := func(in ssa.Instruction) bool {
			switch in.(type) {
			case *ssa.Return, *ssa.Panic, *ssa.RunDefers:
				return true
			}
			return false
		}
		if an.Search(an.Entry(h), early, isInstr(wdefer)) != nil {
			okWritten = false
		}
	}
	R.Check(okWritten, "C19-written", fname(h)+": response written exactly once", c.P.Pos(h.Pos()), "a deferred w.Write(resp) registered before any exit is the only write", "the bind response is not written exactly once on every path (deferred write missing, conditional or duplicated)")

	// ---- decision table
	w := &an.Walker{Fn: h}
	w.AliasTupleHelpers() // `want, ok := bindPassword(u)` is seen as its condition / its value
	atoms := w.CondAtoms()
	msg := "(*Request).GetSimpleBindMessage($$1)"
	elem := "$0.users[*]"
	pw := "(*Entry).GetAttributeValues(" + elem + ",\"password\")"
	table := map[string]string{
		sortedEq("nil", msg+"#1"):                              "getErr",
		sortedEq(`"simple"`, msg+"#0.AuthChoice"):              "authSimple",
		sortedEq(`""`, msg+"#0.Password"):                      "pwEmpty",
		"$0.allowAnonymousBind":                                "anon",
		sortedEq(elem+".DN", msg+"#0.UserName"):                "dnEq",
		"<(0,len(" + pw + "))":                                 "hasPw",
		sortedEq(msg+"#0.Password", pw+"[0]"):                  "pwEq",
		sortedEq("conv<string>("+msg+"#0.Password)", pw+"[0]"): "pwEq",
		// subtle.ConstantTimeCompare(x, y) == 1 exactly when the two byte strings are equal (any lengths)
		sortedEq("1", "crypto/subtle.ConstantTimeCompare(conv<[]byte>("+msg+"#0.Password),conv<[]byte>("+pw+"[0]))"): "pwEq",
		sortedEq("1", "crypto/subtle.ConstantTimeCompare(conv<[]byte>("+pw+"[0]),conv<[]byte>("+msg+"#0.Password))"): "pwEq",
		sortedEq("nil", "$0.controls"): "noControls",
	}
	// "anonymous binds allowed" is whatever SetAllowAnonymousBind stores: the bool itself, or a state constant
	// chosen from it by a pure bool -> constant helper (`anonBindStateFor(enabled)`)
	if setter := c.fn(TD, "(*Directory).SetAllowAnonymousBind"); setter != nil && len(setter.Params) == 2 {
		for _, f := range an.WithClosures(setter) {
			an.Instrs(f, func(in ssa.Instruction) {
				// ... or an atomic.Bool field set with Store(enabled) and read with Load()
				if call, isCall := in.(*ssa.Call); isCall {
					if g := call.Common().StaticCallee(); g != nil && an.FuncPkgPath(g) == "sync/atomic" && g.Name() == "Store" && len(call.Common().Args) == 2 && an.Strip(call.Common().Args[1]) == ssa.Value(setter.Params[1]) {
						if fa, isFA := call.Common().Args[0].(*ssa.FieldAddr); isFA && an.TypeIs(fa.X.Type(), TD, "Directory") {
							table["sync/atomic.(*Bool).Load(&$0."+an.FieldAddrName(fa)+")"] = "anon"
						}
					}
					return
				}
				st, ok := in.(*ssa.Store)
				if !ok {
					return
				}
				fa, ok := st.Addr.(*ssa.FieldAddr)
				if !ok || !an.TypeIs(fa.X.Type(), TD, "Directory") {
					return
				}
				fld := "$0." + an.FieldAddrName(fa)
				v := an.Strip(st.Val)
				if v == ssa.Value(setter.Params[1]) {
					table[fld] = "anon"
					return
				}
				if call, isCall := v.(*ssa.Call); isCall && len(call.Common().Args) == 1 && an.Strip(call.Common().Args[0]) == ssa.Value(setter.Params[1]) {
					if kT, kF, okH := boolToConstHelper(an.StaticCallee(call.Common())); okH {
						table[sortedEq(fld, kT)] = "anon"
						table[sortedEq(fld, kF)] = "!anon"
					}
				}
			})
		}
	}
	// the users may be pre-selected by a filter helper: `for _, u := range d.usersWithDN(m.UserName)` where the
	// helper returns, in order, exactly the entries of d.users whose DN equals its argument. Its elements are users
	// for which the DN test already succeeded.
	filterElem := ""
	for _, ci := range an.Calls(h) {
		call, isCall := ci.(*ssa.Call)
		if !isCall {
			continue
		}
		g := an.StaticCallee(call.Common())
		if g == nil || !an.InModule(g) || len(call.Common().Args) != 2 || an.Canon(call.Common().Args[1]) != msg+"#0.UserName" {
			continue
		}
		if why := exactDNFilter(g); why == "" {
			filterElem = an.Canon(call) + "[*]"
		} else {
			R.Note("bind handler uses %s, which is not an exact-DN filter of d.users: %s", fname(g), why)
			if os.Getenv("GLDAPCHECK_DEBUG") != "" {
				fmt.Println("   C19 filter:", fname(g), why)
			}
		}
	}
	if filterElem != "" {
		for k, v := range table {
			if strings.Contains(k, elem) && v != "dnEq" {
				nk := strings.ReplaceAll(k, elem, filterElem)
				if strings.HasPrefix(nk, "==(") {
					// re-sort the operands of an equality after the substitution
					body := nk[3 : len(nk)-1]
					depth, cut := 0, -1
					for i := 0; i < len(body); i++ {
						switch body[i] {
						case '(', '[':
							depth++
						case ')', ']':
							depth--
						case ',':
							if depth == 0 && cut < 0 {
								cut = i
							}
						}
					}
					if cut > 0 {
						nk = sortedEq(body[:cut], body[cut+1:])
					}
				}
				table[nk] = v
			}
		}
	}
	var unknown []string
	for _, a := range atoms {
		if _, ok := table[a]; !ok {
			unknown = append(unknown, a)
		}
	}
	// a predicate the property does not know is harmless when the decision does not depend on it (`if debug { log }`):
	// up to three such atoms are left free - the table below is enumerated for both of their values and must give the
	// required outcome for each
	freeAtoms := len(unknown) > 0 && len(unknown) <= 3
	if freeAtoms {
		probe := &an.Walker{Fn: h}
		probe.AliasTupleHelpers()
		probe.CondAtoms()
		probe.Event = func(in ssa.Instruction, k *an.Walk) {
			if code, isK, is := isSet(in); is && isK {
				k.Data["code"] = code
			}
		}
		for _, val := range an.Valuations(atoms) {
			flip := map[string]bool{}
			for a, b := range val {
				flip[a] = b
			}
			base := probe.Run(val)
			for _, u := range unknown {
				flip[u] = !val[u]
				other := probe.Run(flip)
				flip[u] = val[u]
				if base.Undecided != "" || other.Undecided != "" || base.Ret == nil || other.Ret == nil || base.Data["code"] != other.Data["code"] {
					freeAtoms = false
				}
			}
			if !freeAtoms {
				break
			}
		}
	}
	if len(unknown) > 0 && !freeAtoms {
		R.Fail("C19-formula", fname(h)+": bind decision", c.P.Pos(h.Pos()), "the bind decision depends on a predicate the property does not know: "+strings.Join(unknown, "; ")+" (expected: exact DN equality, first password value equality, empty password with anonymous binds allowed)")
		return
	}
	// the loop ranges over all of d.users and carries no state
	loops := 0
	for _, lf := range append([]*ssa.Function{h}, w.Inlined()...) {
		an.Instrs(lf, func(in ssa.Instruction) {
			if iff, ok := in.(*ssa.If); ok && an.IsRangeHeader(iff) {
				loops++
				nphi := 0
				for _, x := range iff.Block().Instrs {
					if _, ok := x.(*ssa.Phi); ok {
						nphi++
					}
				}
				R.Check(nphi == 1, "C19-formula", fname(h)+": user loop carries no state", c.pos(iff), "only the range index is loop-carried: each user is judged independently (existential)", "the user loop carries state between iterations; the existential reading does not apply")
			}
		})
	}
	// slices.ContainsFunc(d.users, func(u) bool {...}) is the same existential over all of d.users, with no state
	an.Instrs(h, func(in ssa.Instruction) {
		if call, ok := in.(*ssa.Call); ok && len(call.Common().Args) == 2 {
			if g := call.Common().StaticCallee(); g != nil && (an.FuncPkgPath(g) == "slices" || an.FuncPkgPath(g) == "golang.org/x/exp/slices") {
				name := g.Name()
				if o := g.Origin(); o != nil {
					name = o.Name()
				}
				if _, isMC := call.Common().Args[1].(*ssa.MakeClosure); isMC && name == "ContainsFunc" && an.Canon(call.Common().Args[0]) == "$0.users" {
					loops++
				}
			}
		}
	})
	w.Event = func(in ssa.Instruction, k *an.Walk) {
		if code, isK, is := isSet(in); is && isK {
			k.Data["code"] = code
		}
	}
	ref := func(v map[string]bool) bool {
		if v["getErr"] {
			return false
		}
		if !v["authSimple"] {
			return false
		}
		return (v["pwEmpty"] && v["anon"]) || (v["dnEq"] && v["hasPw"] && v["pwEq"])
	}
	rows := 0
	mism := ""
	for _, val := range an.Valuations(atoms) {
		sem := map[string]bool{}
		for a, b := range val {
			if n := table[a]; strings.HasPrefix(n, "!") {
				sem[n[1:]] = !b
			} else {
				sem[n] = b
			}
		}
		// neutral: err of the getter is the nil-ness atom "==(nil, err)": true means err == nil
		sem["getErr"] = !sem["getErr"]
		if filterElem != "" {
			sem["dnEq"] = true // the loop only sees users the filter helper selected by exact DN
		}
		// infeasible: an empty supplied password cannot equal a non-empty... no: left independent on purpose
		k := w.Run(val)
		if k.Undecided != "" || k.Ret == nil {
			mism = "cannot evaluate the handler under" + an.ValString(sem) + ": " + k.Undecided
			break
		}
		rows++
		code := defCode
		if cv, ok := k.Data["code"]; ok {
			code = cv.(int64)
		}
		got := code == success
		want := ref(sem)
		if got != want && mism == "" {
			mism = sprintf("bind returns %v (code %d) but the property requires success=%v when%s", got, code, want, an.ValString(sem))
		}
	}
	R.Count("C19-formula/rows", rows)
	R.Check(mism == "" && loops == 1, "C19-formula", fname(h)+": bind decision", c.P.Pos(h.Pos()), sprintf("result code over %d atoms / %d rows equals: success <=> (pw empty AND anonymous allowed) OR EXISTS user (DN ==, has password, password == first value)", len(atoms), rows), mism)

	// ---- GetAttributeValues contract
	gav := c.fn(G, "(*Entry).GetAttributeValues")
	if gav != nil {
		gw := &an.Walker{Fn: gav}
		gatoms := gw.CondAtoms()
		want := sortedEq("$0.Attributes[*].Name", "$1")
		okG := len(gatoms) == 1 && gatoms[0] == want
		if okG {
			k := gw.Run(map[string]bool{want: true})
			// returns the Values of that element
			if k.Ret == nil || an.Canon(k.Ret.Results[0]) != "$0.Attributes[*].Values" {
				okG = false
			}
			k2 := gw.Run(map[string]bool{want: false})
			if k2.Ret == nil {
				okG = false
			} else if _, isField := fieldLoad(k2.Ret.Results[0], G, "EntryAttribute", "Values"); isField {
				okG = false
			}
		}
		R.Check(okG, "C19-getvalues", "(*Entry).GetAttributeValues: values of the first attribute with exactly that name", c.P.Pos(gav.Pos()), "forward range; first element whose Name == argument decides; otherwise an empty list", "GetAttributeValues does not return the first exactly-named attribute's values: atoms "+strings.Join(gatoms, "; "))
	}
	// ---- C19-request-intact: the decision is made on the name and password the client sent, and every bind reaches
	// the handler: gldap's decoder hands over a simple bind's fields unchanged and rejects it only for its BER shape
	// (rules C01-field / C01-assert / C01-reject / C01-count for SimpleBindMessage)
	if c.importRules(checkC01, func(o report.Obligation) bool {
		return strings.HasPrefix(o.Construct, "*SimpleBindMessage") && (o.Rule == "C01-field" || o.Rule == "C01-assert" || o.Rule == "C01-reject" || o.Rule == "C01-count")
	}, "C19-request-intact", " - a bind the statement says must succeed (or be answered with invalidCredentials) is decided on other data or never reaches the bind handler") > 0 {
		R.Floor("C19-request-intact", 3)
	}
	R.Assumptions = append(R.Assumptions, "SimpleBindMessage.AuthChoice is always SimpleAuthChoice (newMessage); unlocked reads of the directory state are C15's concern")
}

// selectedSetCode: the call hands the response and constants to a helper
// g that sets the result code in several places: the helper is walked with
// the conditions on its constant arguments decided, over all valuations of
// its other conditions; every such walk must end with the same constant
// code set on the response (or none).
func selectedSetCode(g *ssa.Function, ci ssa.CallInstruction, resp ssa.Value) (code int64, set bool, ok bool) {
	args := ci.Common().Args
	subst := map[int]string{}
	respParam := -1
	for i, a := range args {
		if i >= len(g.Params) {
			return 0, false, false
		}
		if an.Strip(a) == resp {
			respParam = i
			continue
		}
		if k, isK := an.IntConst(a); isK {
			subst[i] = fmt.Sprint(k)
		}
	}
	if respParam < 0 {
		return 0, false, false
	}
	isRespSet := func(in ssa.Instruction) (int64, bool, bool) { // (code, const and on the response, isSet)
		ic, isC := in.(ssa.CallInstruction)
		if !isC || !an.CalleeIs(ic.Common(), G, "(*baseResponse).SetResultCode") {
			return 0, false, false
		}
		recv, _ := an.FieldChain(ic.Common().Args[0])
		k, isK := an.IntConst(ic.Common().Args[1])
		return k, isK && isCall(ic) && recv != nil && an.Strip(recv) == ssa.Value(g.Params[respParam]), true
	}
	bad := false
	for _, f := range an.WithClosures(g) {
		an.Instrs(f, func(in ssa.Instruction) {
			if _, good, is := isRespSet(in); is && (!good || f != g) {
				bad = true
			}
			// the code must not be set any deeper
			if ic, isC := in.(ssa.CallInstruction); isC {
				if d := an.StaticCallee(ic.Common()); d != nil && an.InModule(d) && !an.CalleeIs(ic.Common(), G, "(*baseResponse).SetResultCode") {
					for _, a := range ic.Common().Args {
						if an.Strip(a) == ssa.Value(g.Params[respParam]) {
							for _, dc := range an.Calls(d) {
								if an.CalleeIs(dc.Common(), G, "(*baseResponse).SetResultCode") {
									bad = true
								}
							}
						}
					}
				}
			}
		})
	}
	if bad {
		return 0, false, false
	}
	gw := &an.Walker{Fn: g, NoInline: true}
	var free []string
	fixed := map[string]bool{}
	for _, a := range gw.CondAtoms() {
		if v, dec := constAtom(an.TranslateAtom(a, subst)); dec {
			fixed[a] = v
		} else {
			free = append(free, a)
		}
	}
	if len(free) > 6 {
		return 0, false, false
	}
	gw.Event = func(in ssa.Instruction, k *an.Walk) {
		if c, good, is := isRespSet(in); is && good {
			k.Data["code"] = c
		}
	}
	first := true
	for _, val := range an.Valuations(free) {
		for a, v := range fixed {
			val[a] = v
		}
		k := gw.Run(val)
		if k.Undecided != "" || k.Ret == nil {
			return 0, false, false
		}
		cv, has := k.Data["code"]
		c := int64(0)
		if has {
			c = cv.(int64)
		}
		if first {
			code, set, first = c, has, false
		} else if c != code || has != set {
			return 0, false, false
		}
	}
	return code, set, !first
}

// constAtom decides an atom that compares two integer literals.
func constAtom(a string) (bool, bool) {
	for _, op := range []string{"==", "!=", "<=", ">=", "<", ">"} {
		if !strings.HasPrefix(a, op+"(") || !strings.HasSuffix(a, ")") {
			continue
		}
		parts := strings.Split(a[len(op)+1:len(a)-1], ",")
		if len(parts) != 2 {
			return false, false
		}
		x, e1 := strconv.ParseInt(parts[0], 10, 64)
		y, e2 := strconv.ParseInt(parts[1], 10, 64)
		if e1 != nil || e2 != nil {
			return false, false
		}
		switch op {
		case "==":
			return x == y, true
		case "!=":
			return x != y, true
		case "<=":
			return x <= y, true
		case ">=":
			return x >= y, true
		case "<":
			return x < y, true
		case ">":
			return x > y, true
		}
	}
	return false, false
}

// boolToConstHelper: f(b bool) returns one integer constant when b is true
// and another when it is false, and does nothing else.
func boolToConstHelper(f *ssa.Function) (whenTrue, whenFalse string, ok bool) {
	if f == nil || !an.InModule(f) || len(f.Blocks) == 0 || len(f.Params) != 1 {
		return "", "", false
	}
	pure := true
	an.Instrs(f, func(in ssa.Instruction) {
		switch in.(type) {
		case *ssa.Store, ssa.CallInstruction:
			pure = false
		}
	})
	if !pure {
		return "", "", false
	}
	for _, ret := range an.Returns(f) {
		res := an.ReturnResults(ret)
		if len(res) != 1 {
			return "", "", false
		}
		k, isK := an.IntConst(res[0])
		if !isK {
			return "", "", false
		}
		decided := false
		for _, fct := range an.BranchFacts(ret.Block()) {
			cond, neg := an.Not(fct.Cond)
			if cond == ssa.Value(f.Params[0]) {
				decided = true
				if fct.True != neg {
					if whenTrue != "" && whenTrue != sprintf("%d", k) {
						return "", "", false
					}
					whenTrue = sprintf("%d", k)
				} else {
					if whenFalse != "" && whenFalse != sprintf("%d", k) {
						return "", "", false
					}
					whenFalse = sprintf("%d", k)
				}
			}
		}
		if !decided {
			return "", "", false
		}
	}
	return whenTrue, whenFalse, whenTrue != "" && whenFalse != "" && whenTrue != whenFalse
}

// exactDNFilter: g(d, dn) returns, in order, exactly the elements of d.users
// whose DN equals dn: one forward range loop over d.users, one append of the
// element under `elem.DN == dn`, nothing else stored, the appended slice
// returned. Returns "" when it is, otherwise why not.
func exactDNFilter(g *ssa.Function) string {
	if len(g.Blocks) == 0 || len(g.Params) != 2 || g.Signature.Results().Len() != 1 {
		return "unexpected signature"
	}
	var head *ssa.If
	nLoops := 0
	an.Instrs(g, func(in ssa.Instruction) {
		if iff, ok := in.(*ssa.If); ok && an.IsRangeHeader(iff) {
			nLoops++
			head = iff
		}
	})
	if nLoops != 1 {
		return sprintf("%d range loops", nLoops)
	}
	// over d.users
	bo, _ := head.Cond.(*ssa.BinOp)
	var lenArg ssa.Value
	if bo != nil {
		if lc, ok := bo.Y.(*ssa.Call); ok && len(lc.Common().Args) == 1 {
			lenArg = lc.Common().Args[0]
		}
	}
	if base, ok := fieldLoad(lenArg, TD, "Directory", "users"); !ok || an.Strip(base) != ssa.Value(g.Params[0]) {
		return "the loop does not range over d.users"
	}
	isElem := func(v ssa.Value) bool {
		ld, ok := an.Strip(v).(*ssa.UnOp)
		if !ok {
			return false
		}
		ia, ok := ld.X.(*ssa.IndexAddr)
		return ok && an.IsRangeIdx(ia.Index)
	}
	isDNEq := func(v ssa.Value) bool {
		b, ok := v.(*ssa.BinOp)
		if !ok || b.Op != token.EQL {
			return false
		}
		for _, pair := range [][2]ssa.Value{{b.X, b.Y}, {b.Y, b.X}} {
			if e, okF := fieldLoad(pair[0], G, "Entry", "DN"); okF && isElem(e) && an.Strip(pair[1]) == ssa.Value(g.Params[1]) {
				return true
			}
		}
		return false
	}
	nApp := 0
	bad := ""
	an.Instrs(g, func(in ssa.Instruction) {
		switch x := in.(type) {
		case *ssa.Store:
			a := x.Addr
			for i := 0; i < 8; i++ {
				switch y := a.(type) {
				case *ssa.IndexAddr:
					a = y.X
				case *ssa.FieldAddr:
					a = y.X
				}
			}
			if _, local := an.CellRoot(a).(*ssa.Alloc); !local {
				bad = "stores outside its own locals"
			}
		case *ssa.Call:
			if b, isB := x.Common().Value.(*ssa.Builtin); isB {
				if b.Name() == "append" {
					nApp++
					if !hasFact(x.Block(), true, isDNEq) {
						bad = "appends an element without the exact DN test"
					}
					// the appended element is the loop element
					okE := false
					if sl, ok := x.Common().Args[1].(*ssa.Slice); ok {
						if al, ok := sl.X.(*ssa.Alloc); ok {
							for _, r := range *al.Referrers() {
								if ia, ok := r.(*ssa.IndexAddr); ok {
									for _, rr := range *ia.Referrers() {
										if st, ok := rr.(*ssa.Store); ok && isElem(st.Val) {
											okE = true
										}
									}
								}
							}
						}
					}
					if !okE {
						bad = "appends something else than the loop element"
					}
				}
				return
			}
			if x.Common().IsInvoke() && an.TypeIs(x.Common().Value.Type(), "github.com/hashicorp/go-hclog", "Logger") {
				return
			}
			bad = "calls " + an.Path(x.Common().Value)
		}
	})
	if bad != "" {
		return bad
	}
	if nApp != 1 {
		return sprintf("%d appends", nApp)
	}
	// every element that passes the test is appended: no other exit from the loop body than the back edge
	for _, ret := range an.Returns(g) {
		if head.Block().Succs[0].Dominates(ret.Block()) && !head.Block().Succs[1].Dominates(ret.Block()) {
			return "returns from inside the loop"
		}
	}
	return ""
}
