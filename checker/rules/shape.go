package rules

// Engine E5 (encode side) and the symbolic part of E1: a path interpreter
// that follows one CFG path of a function (chosen by a valuation of its
// branch atoms, see an.Walker), keeps a small symbolic memory for local
// structs, resolves functional options, and records the BER tree the function
// builds. Values are canonical origin expressions (strings), never run-time
// values.

import (
	"fmt"
	"go/token"
	"go/types"
	"os"
	"regexp"
	"sort"
	"strconv"
	"strings"

	"gldapverif/an"

	"golang.org/x/tools/go/ssa"
)

// Node is an abstract BER node.
type Node struct {
	Class, Type, Tag string
	Ctor             string // Encode | NewInteger | NewString | NewBoolean | NewSequence | opaque
	Value            string // origin of the value argument
	ValType          string // static Go type boxed into the value argument
	Children         []*Child
	Writes           []string // content written by other means (Data.Write(x), .Value = x)
	Opaque           string   // for opaque children: what produces it
}

// Child is an appended child, possibly repeated by a range loop.
type Child struct {
	N      *Node
	Repeat string // "" or origin of the ranged collection
}

var (
	classNames = map[int64]string{0: "UNIV", 64: "APP", 128: "CTX", 192: "PRIV"}
	typeNames  = map[int64]string{0: "p", 32: "c"}
	uniTags    = map[int64]string{1: "BOOL", 2: "INT", 4: "OCTSTR", 5: "NULL", 10: "ENUM", 16: "SEQ", 17: "SET"}
)

func (n *Node) String() string {
	if n == nil {
		return "<nil>"
	}
	if n.Opaque != "" {
		return n.Opaque
	}
	var sb strings.Builder
	head := n.Class + "[" + n.Tag + "]" + n.Type
	if n.Class == "UNIV" {
		head = n.Tag
		if n.Type == "c" && n.Tag != "SEQ" && n.Tag != "SET" {
			head += "c"
		}
		if n.Type == "p" && (n.Tag == "SEQ" || n.Tag == "SET") {
			head += "p"
		}
	}
	sb.WriteString(head)
	if n.Value != "" && n.Value != "nil" {
		sb.WriteString("<-" + n.Value)
		if n.ValType != "" {
			sb.WriteString(":" + n.ValType)
		}
	}
	for _, w := range n.Writes {
		sb.WriteString("<~" + w)
	}
	if len(n.Children) > 0 {
		sb.WriteString("{")
		for i, c := range n.Children {
			if i > 0 {
				sb.WriteString(", ")
			}
			if c.Repeat != "" {
				sb.WriteString("*[" + c.Repeat + "]")
			}
			sb.WriteString(c.N.String())
		}
		sb.WriteString("}")
	}
	return sb.String()
}

// snapshot is a deep copy of the node (its wire content at this moment).
func (n *Node) snapshot() *Node {
	if n == nil {
		return nil
	}
	c := *n
	c.Writes = append([]string(nil), n.Writes...)
	c.Children = nil
	for _, ch := range n.Children {
		c.Children = append(c.Children, &Child{N: ch.N.snapshot(), Repeat: ch.Repeat})
	}
	return &c
}

// symEnv is the calling context of an interpreted function.
type symEnv struct {
	subst      map[string]string // "$0" -> caller expression
	opts       map[string]string // option field -> expression, when the option list is literal
	optsKnown  bool
	depth      int
	optsParams map[*ssa.Parameter]bool // parameters of the interpreted function that ARE the caller's options struct
	getter     *getOpts
	outer      map[string]string // the caller's symbolic memory (objects the arguments may point to); read-only
}

// markOptsParam: parameter p of this frame's function denotes the options
// struct of the calling constructor (helper methods on the options struct).
func (f *frame) markOptsParam(p *ssa.Parameter) {
	f.optsV[p] = true
	if f.env.getter != nil {
		f.getter = f.env.getter
	}
	if p.Referrers() == nil {
		return
	}
	for _, ref := range *p.Referrers() {
		if st, ok := ref.(*ssa.Store); ok && st.Val == ssa.Value(p) {
			if al, ok := st.Addr.(*ssa.Alloc); ok {
				f.optsV[al] = true
			}
		}
	}
}

type frame struct {
	c          *Ctx
	fn         *ssa.Function
	env        *symEnv
	k          *an.Walk
	mem        map[string]string // symbolic memory of local allocations on this path
	nodes      map[ssa.Value]*Node
	optsV      map[ssa.Value]bool
	getter     *getOpts
	loopOf     []string // origin of the collection of each enclosing range loop
	notes      []string
	elem       map[ssa.Value]string
	tuples     map[ssa.Value][]string // results of interpreted calls
	g          *guide
	cache      map[ssa.Value]string // value of each executed instruction at the time it ran
	loopVisits map[*ssa.BasicBlock]int
}

// guide steers a success-seeking walk (decode side): branches from which only
// one successor can still reach a success return are forced; genuine forks
// are enumerated by the caller through the decide map.
type guide struct {
	decide  map[*ssa.If]int
	fork    *ssa.If
	reach   map[*ssa.Function]map[*ssa.BasicBlock]bool
	opaque  map[string]bool // callees (FuncKey) that are not inlined
	asserts []string        // recorded (*packet).assert events
	trace   []guideDecision // forks decided on this path
	paths   int
	// oracle decides a branch from rule-specific knowledge (e.g. the shape of
	// the tree being decoded): returns 0/1 (successor index) or -1.
	oracle func(f *frame, iff *ssa.If) int
	// onCall lets the rule observe calls on the path (returns true when handled).
	onCall func(f *frame, x *ssa.Call) bool
	// forced: branches taken only because the other side cannot reach a success return, although neither the
	// oracle nor constant evaluation decides them: the success of the guided path assumes them
	forced []forcedBranch
	// allForced: every branch the walk took only because the other side cannot succeed, oracle or not: the
	// conditions under which the function rejects its input
	allForced []forcedBranch
}

type forcedBranch struct {
	Cond   string // condString of the If's condition
	Succ   int    // successor taken
	Pos    string
	Oracle int // what the oracle said (-1 undecided)
}

// successReach: blocks of fn from which a return with a nil error (or any
// return when fn has no error result) is reachable.
func (g *guide) successReach(fn *ssa.Function) map[*ssa.BasicBlock]bool {
	if r, ok := g.reach[fn]; ok {
		return r
	}
	ei := errResultIndex(fn)
	r := map[*ssa.BasicBlock]bool{}
	var work []*ssa.BasicBlock
	for _, ret := range an.Returns(fn) {
		ok := true
		if ei >= 0 {
			res := an.ReturnResults(ret)
			ok = !definitelyError(res[ei], ret)
		}
		if ok && !r[ret.Block()] {
			r[ret.Block()] = true
			work = append(work, ret.Block())
		}
	}
	for len(work) > 0 {
		b := work[len(work)-1]
		work = work[:len(work)-1]
		for _, p := range b.Preds {
			if !r[p] {
				r[p] = true
				work = append(work, p)
			}
		}
	}
	g.reach[fn] = r
	return r
}

func (f *frame) choose(iff *ssa.If, k *an.Walk) int {
	g := f.g
	if g == nil {
		return -1
	}
	f.k = k
	r := g.successReach(iff.Parent())
	s0, s1 := r[iff.Block().Succs[0]], r[iff.Block().Succs[1]]
	switch {
	case s0 && !s1:
		f.noteForced(iff, 0)
		return 0
	case s1 && !s0:
		f.noteForced(iff, 1)
		return 1
	}
	if g.oracle != nil {
		if d := g.oracle(f, iff); d >= 0 {
			return d
		}
	}
	// comparisons of two known constants (e.g. option defaults)
	if inner, ineg := an.Not(iff.Cond); true {
		if bo, ok := inner.(*ssa.BinOp); ok {
			a, b := f.sym(bo.X), f.sym(bo.Y)
			if v, ok := constCompare(a, bo.Op, b); ok {
				if v != ineg {
					return 0
				}
				return 1
			}
		}
	}
	// decided by what is known symbolically: nil tests of values we know
	cond, neg := an.Not(iff.Cond)
	if x, trueMeansNil, ok := an.NilCheck(cond); ok {
		sx := f.sym(x)
		known, isNil := false, false
		if sx == "nil" {
			known, isNil = true, true
		} else if strings.HasPrefix(sx, "&alloc:") {
			known, isNil = true, false
		}
		if known {
			v := (isNil == trueMeansNil) != neg
			if v {
				return 0
			}
			return 1
		}
	}
	if d, ok := g.decide[iff]; ok {
		name, aneg := an.CanonAtom(iff.Cond)
		_ = name
		// symbolic rendering of the condition, for feasibility filtering by the rule
		cs := f.condString(iff.Cond)
		g.trace = append(g.trace, guideDecision{Cond: cs, True: (d == 0), Neg: aneg})
		return d
	}
	g.fork = iff
	return -2
}

// noteForced records a branch that the success-guided walk takes without a
// decision of its own (only when the rule installed an oracle).
func (f *frame) noteForced(iff *ssa.If, succ int) {
	g := f.g
	if os.Getenv("GLDAPCHECK_ORACLE") == "3" {
		fmt.Println("   noteForced", f.condString(iff.Cond), succ, g.oracle != nil, f.c.pos(iff))
	}
	g.allForced = append(g.allForced, forcedBranch{Cond: f.condString(iff.Cond), Succ: succ, Pos: f.c.pos(iff), Oracle: -1})
	if g.oracle == nil {
		return
	}
	d := g.oracle(f, iff)
	if d == succ {
		return
	}
	if d < 0 {
		if inner, ineg := an.Not(iff.Cond); true {
			if bo, ok := inner.(*ssa.BinOp); ok {
				if v, ok := constCompare(f.sym(bo.X), bo.Op, f.sym(bo.Y)); ok {
					if v != ineg {
						d = 0
					} else {
						d = 1
					}
					if d == succ {
						return
					}
				}
			}
		}
	}
	g.forced = append(g.forced, forcedBranch{Cond: f.condString(iff.Cond), Succ: succ, Pos: f.c.pos(iff), Oracle: d})
}

type guideDecision struct {
	Cond string // symbolic condition as written (after stripping !)
	True bool   // the If's condition evaluated to true on this path
	Neg  bool
}

// condString renders a branch condition symbolically: "op(a,b)".
func (f *frame) condString(c ssa.Value) string {
	inner, neg := an.Not(c)
	s := ""
	if bo, ok := inner.(*ssa.BinOp); ok {
		op := bo.Op
		if op == token.NEQ {
			// a != b is rendered as !(a == b) so that rules see one spelling
			op, neg = token.EQL, !neg
		}
		s = op.String() + "(" + f.sym(bo.X) + "," + f.sym(bo.Y) + ")"
	} else {
		s = f.sym(inner)
	}
	if neg {
		s = "!" + s
	}
	return s
}

var dollarRE = regexp.MustCompile(`\$\$?\d+`)

func (f *frame) substitute(s string) string {
	if f.env == nil || f.env.subst == nil {
		return s
	}
	idx := dollarRE.FindAllStringIndex(s, -1)
	if len(idx) == 0 {
		return s
	}
	var sb strings.Builder
	last := 0
	for _, ix := range idx {
		sb.WriteString(s[last:ix[0]])
		m := s[ix[0]:ix[1]]
		r, ok := f.env.subst[m]
		if !ok {
			r = m
		} else if strings.HasPrefix(r, "&") && ix[1] < len(s) && (s[ix[1]] == '.' || s[ix[1]] == '[') {
			r = r[1:] // selecting through an address: automatic dereference
		}
		sb.WriteString(r)
		last = ix[1]
	}
	sb.WriteString(s[last:])
	return sb.String()
}

// isOptsField: v loads field F of the options value of this function.
func (f *frame) optsField(v ssa.Value) (string, bool) {
	switch x := v.(type) {
	case *ssa.UnOp:
		if x.Op == token.MUL {
			if fa, ok := x.X.(*ssa.FieldAddr); ok && f.optsV[fa.X] {
				return an.FieldAddrName(fa), true
			}
		}
	case *ssa.Field:
		if f.optsV[x.X] {
			return an.FieldValName(x), true
		}
	}
	return "", false
}

// optsHelperCalls lists the calls in fn that hand the options struct (a value
// marked by findOpts) to a module function with a body other than the getter:
// small helpers such as `opts.resultCode(def)` whose branches on option fields
// belong to the constructor's decision table.
func (f *frame) optsHelperCalls() []*ssa.Call {
	var out []*ssa.Call
	S := f.c.opts()
	an.Instrs(f.fn, func(in ssa.Instruction) {
		call, ok := in.(*ssa.Call)
		if !ok {
			return
		}
		callee := call.Common().StaticCallee()
		if callee == nil || !an.InModule(callee) || len(callee.Blocks) == 0 || S.Getters[callee] != nil {
			return
		}
		for _, a := range call.Common().Args {
			if f.isOptsValue(a) {
				out = append(out, call)
				return
			}
			// ... or one field of it (`r.newBaseResponse(opts.withResponseCode)`): the helper's branches on that
			// parameter are branches on the option
			if _, isField := f.optsField(a); isField {
				out = append(out, call)
				return
			}
		}
	})
	return out
}

// isOptsValue: v is the options struct (by value or by address).
func (f *frame) isOptsValue(v ssa.Value) bool {
	if f.optsV[v] {
		return true
	}
	if ld, ok := v.(*ssa.UnOp); ok && ld.Op == token.MUL && f.optsV[ld.X] {
		return true
	}
	return false
}

func (f *frame) findOpts() {
	S := f.c.opts()
	an.Instrs(f.fn, func(in ssa.Instruction) {
		call, ok := in.(*ssa.Call)
		if !ok {
			return
		}
		if g := S.Getters[call.Common().StaticCallee()]; g != nil && g.OK && len(f.fn.Params) > 0 {
			if call.Common().Args[len(call.Common().Args)-1] == ssa.Value(f.fn.Params[len(f.fn.Params)-1]) {
				f.optsV[call] = true
				f.getter = g
				for _, ref := range *call.Referrers() {
					if st, ok := ref.(*ssa.Store); ok && st.Val == ssa.Value(call) {
						if al, ok := st.Addr.(*ssa.Alloc); ok {
							f.optsV[al] = true
						}
					}
				}
			}
		}
	})
}

// optValue: the expression an option field has on entry.
func (f *frame) optValue(field string, t types.Type) string {
	isPtr := isPointer(t)
	if f.env != nil && f.env.optsKnown {
		if v, ok := f.env.opts[field]; ok {
			if isPtr {
				return "&" + v
			}
			return v
		}
		if f.getter != nil {
			if d, ok := f.getter.Defaults[field]; ok {
				return d
			}
		}
		if isPtr {
			return "nil"
		}
		return "zero"
	}
	if isPtr {
		return "&opt(" + field + ")"
	}
	return "opt(" + field + ")"
}

// sym evaluates a value to its origin expression on the current path.
func (f *frame) sym(v ssa.Value) string {
	return f.symd(v, 0)
}

func (f *frame) memKey(addr ssa.Value) (string, bool) {
	switch a := addr.(type) {
	case *ssa.FieldAddr:
		if al, ok := an.CellRoot(a.X).(*ssa.Alloc); ok {
			return "alloc:" + al.Name() + "." + an.FieldAddrName(a), true
		}
		// through a pointer held in local memory: resp.baseResponse.code with resp.baseResponse = &alloc:tY
		if ld, ok := a.X.(*ssa.UnOp); ok && ld.Op == token.MUL {
			if k, ok := f.memKey(ld.X); ok {
				if mv, ok := f.mem[k]; ok && strings.HasPrefix(mv, "&alloc:") {
					return mv[1:] + "." + an.FieldAddrName(a), true
				}
			}
			// single-assignment cell holding a pointer to a local allocation
			if al, ok := an.Strip(ld).(*ssa.Alloc); ok {
				return "alloc:" + al.Name() + "." + an.FieldAddrName(a), true
			}
		}
		if al, ok := an.Strip(a.X).(*ssa.Alloc); ok {
			return "alloc:" + al.Name() + "." + an.FieldAddrName(a), true
		}
		// nested: field of a field of a local
		if inner, ok := a.X.(*ssa.FieldAddr); ok {
			if k, ok := f.memKey(inner); ok {
				return k + "." + an.FieldAddrName(a), true
			}
		}
		// base known symbolically as the address of an imported / local object
		if sx, ok := f.elem[a.X]; ok && strings.HasPrefix(sx, "&alloc:") {
			return sx[1:] + "." + an.FieldAddrName(a), true
		}
		if ex, ok := a.X.(*ssa.Extract); ok {
			if tup, ok := f.tuples[ex.Tuple]; ok && ex.Index < len(tup) && strings.HasPrefix(tup[ex.Index], "&alloc:") {
				return tup[ex.Index][1:] + "." + an.FieldAddrName(a), true
			}
		}
	case *ssa.IndexAddr:
		if al, ok := a.X.(*ssa.Alloc); ok {
			if k, ok := an.IntConst(a.Index); ok {
				return fmt.Sprintf("alloc:%s[%d]", al.Name(), k), true
			}
		}
	case *ssa.Alloc:
		return "alloc:" + a.Name(), true
	}
	return "", false
}

func (f *frame) symd(v ssa.Value, d int) string {
	if c, ok := f.cache[v]; ok && d > 0 {
		return c
	}
	r := f.symd0(v, d)
	if strings.Contains(r, "alloc:") {
		r = f.norm(r)
	} else if strings.Contains(r, "struct{") {
		r = selectStructField(r)
	}
	return r
}

var allocTok = regexp.MustCompile(`&?alloc:[A-Za-z0-9_$@/]+(\.[A-Za-z_][A-Za-z0-9_]*)+`)

// norm resolves references to fields of local objects that are known in the
// symbolic memory: "alloc:t9.Packet.Children" with mem[alloc:t9.Packet] = X
// becomes "X.Children".
// selectStructField rewrites "struct{a=X; b=Y}.a" to "X".
func selectStructField(s string) string {
	for iter := 0; iter < 50; iter++ {
		i := strings.Index(s, "struct{")
		found := false
		for i >= 0 {
			// matching brace
			depth := 0
			j := i + len("struct{") - 1
			end := -1
			for p := j; p < len(s); p++ {
				if s[p] == '{' {
					depth++
				} else if s[p] == '}' {
					depth--
					if depth == 0 {
						end = p
						break
					}
				}
			}
			if end < 0 {
				break
			}
			if end+1 < len(s) && s[end+1] == '.' {
				// selected field name
				q := end + 2
				for q < len(s) && (s[q] == '_' || s[q] >= 'a' && s[q] <= 'z' || s[q] >= 'A' && s[q] <= 'Z' || s[q] >= '0' && s[q] <= '9') {
					q++
				}
				name := s[end+2 : q]
				body := s[j+1 : end]
				// split top-level "; "
				var parts []string
				d2, last := 0, 0
				for p := 0; p < len(body); p++ {
					switch body[p] {
					case '{', '(', '[':
						d2++
					case '}', ')', ']':
						d2--
					case ';':
						if d2 == 0 {
							parts = append(parts, strings.TrimSpace(body[last:p]))
							last = p + 1
						}
					}
				}
				parts = append(parts, strings.TrimSpace(body[last:]))
				val, ok := "", false
				for _, pt := range parts {
					if strings.HasPrefix(pt, name+"=") {
						val, ok = pt[len(name)+1:], true
					}
				}
				if ok {
					s = s[:i] + val + s[q:]
					found = true
					break
				}
			}
			nx := strings.Index(s[i+1:], "struct{")
			if nx < 0 {
				break
			}
			i = i + 1 + nx
		}
		if !found {
			break
		}
	}
	return s
}

func (f *frame) norm(s string) string {
	s = selectStructField(s)
	for i := 0; i < 8; i++ {
		changed := false
		s = allocTok.ReplaceAllStringFunc(s, func(m string) string {
			amp := strings.HasPrefix(m, "&")
			body := strings.TrimPrefix(m, "&")
			// longest prefix that is a mem key
			parts := strings.Split(body, ".")
			for n := len(parts); n >= 2; n-- {
				key := strings.Join(parts[:n], ".")
				if mv, ok := f.mem[key]; ok {
					rest := ""
					if n < len(parts) {
						rest = "." + strings.Join(parts[n:], ".")
					}
					if rest != "" {
						mv = strings.TrimPrefix(mv, "&")
					}
					if amp && rest != "" {
						return m // address of a sub-field: leave
					}
					if amp {
						return m
					}
					changed = true
					return mv + rest
				}
			}
			return m
		})
		if !changed {
			break
		}
	}
	return s
}

func (f *frame) symd0(v ssa.Value, d int) string {
	if d > 30 {
		return "?"
	}
	if f.k != nil {
		if phi, ok := v.(*ssa.Phi); ok {
			if e, ok := f.k.PhiValue(phi); ok {
				return f.symd(e, d+1)
			}
		}
	}
	if e, ok := f.elem[v]; ok {
		return e
	}
	switch x := v.(type) {
	case *ssa.ChangeType:
		return f.symd(x.X, d+1)
	case *ssa.ChangeInterface:
		return f.symd(x.X, d+1)
	case *ssa.MakeInterface:
		return f.symd(x.X, d+1)
	case *ssa.Const:
		return an.Canon(x)
	case *ssa.Convert:
		inner := f.symd(x.X, d+1)
		// an integer literal converted to an integer type that holds it is that literal
		if k, err := strconv.ParseInt(inner, 10, 64); err == nil {
			if b, isB := x.Type().Underlying().(*types.Basic); isB && b.Info()&types.IsInteger != 0 {
				if r, okR := intRanges[b.Name()]; okR && float64(k) >= r[0] && float64(k) <= r[1] {
					return inner
				}
			}
		}
		return "conv<" + types.TypeString(x.Type(), shortq) + ">(" + inner + ")"
	case *ssa.UnOp:
		if x.Op == token.MUL {
			// local symbolic memory first
			if k, ok := f.memKey(x.X); ok {
				if mv, ok := f.mem[k]; ok {
					return mv
				}
				// whole local struct: render its known fields
				if _, isStruct := x.Type().Underlying().(*types.Struct); isStruct {
					out := map[string]string{}
					f.fieldsOf(k, "", out, 0)
					if len(out) > 0 {
						var parts []string
						for _, fk := range sortedKeys(out) {
							parts = append(parts, fk+"="+out[fk])
						}
						return "struct{" + strings.Join(parts, "; ") + "}"
					}
				}
				if _, isFld := x.X.(*ssa.FieldAddr); isFld && !f.optsV[x.X.(*ssa.FieldAddr).X] {
					if _, isOpt := f.optsField(x); !isOpt {
						return "zero"
					}
				}
			}
			if fld, ok := f.optsField(x); ok {
				return f.optValue(fld, x.Type())
			}
			// single-assignment variable cell
			if sv := an.Strip(x); sv != ssa.Value(x) {
				return f.symd(sv, d+1)
			}
			switch a := x.X.(type) {
			case *ssa.FieldAddr:
				base := f.symd(a.X, d+1)
				base = strings.TrimPrefix(base, "&")
				return base + "." + an.FieldAddrName(a)
			case *ssa.IndexAddr:
				base := strings.TrimPrefix(f.symd(a.X, d+1), "&")
				idx := "*"
				if !an.IsRangeIdx(a.Index) {
					idx = f.symd(a.Index, d+1)
				}
				return base + "[" + idx + "]"
			}
			// *(&e) == e
			inner := f.symd(x.X, d+1)
			if strings.HasPrefix(inner, "&alloc:") {
				if _, isStruct := x.Type().Underlying().(*types.Struct); isStruct {
					out := map[string]string{}
					f.fieldsOf(inner[1:], "", out, 0)
					var parts []string
					for _, fk := range sortedKeys(out) {
						parts = append(parts, fk+"="+out[fk])
					}
					return "struct{" + strings.Join(parts, "; ") + "}"
				}
			}
			if strings.HasPrefix(inner, "&") {
				return inner[1:]
			}
			return inner + ".*"
		}
	case *ssa.Field:
		if fld, ok := f.optsField(x); ok {
			return f.optValue(fld, x.Type())
		}
		return f.symd(x.X, d+1) + "." + an.FieldValName(x)
	case *ssa.FieldAddr:
		if k, ok := f.memKey(x); ok {
			return "&" + k
		}
		return "&" + strings.TrimPrefix(f.symd(x.X, d+1), "&") + "." + an.FieldAddrName(x)
	case *ssa.IndexAddr:
		idx := "*"
		if !an.IsRangeIdx(x.Index) {
			idx = f.symd(x.Index, d+1)
		}
		return "&" + strings.TrimPrefix(f.symd(x.X, d+1), "&") + "[" + idx + "]"
	case *ssa.Call:
		if b, ok := x.Common().Value.(*ssa.Builtin); ok && b.Name() == "append" {
			base := f.symd(x.Common().Args[0], d+1)
			var elems []string
			if sl, ok := x.Common().Args[1].(*ssa.Slice); ok {
				if al, ok := sl.X.(*ssa.Alloc); ok {
					if at, ok := al.Type().(*types.Pointer).Elem().(*types.Array); ok {
						for i := int64(0); i < at.Len(); i++ {
							if mv, ok := f.mem[fmt.Sprintf("alloc:%s[%d]", al.Name(), i)]; ok {
								elems = append(elems, mv)
							} else {
								elems = append(elems, "?")
							}
						}
					}
				}
			}
			if elems == nil {
				elems = []string{"..." + f.symd(x.Common().Args[1], d+1)}
			}
			if f.k != nil && f.k.InLoop > 0 && len(f.loopOf) > 0 && (base == "empty" || base == "nil" || base == "zero" || base == "nil:[]") {
				return "list(" + f.loopOf[len(f.loopOf)-1] + " => " + strings.Join(elems, ",") + ")"
			}
			return "append(" + base + "," + strings.Join(elems, ",") + ")"
		}
		if b, ok := x.Common().Value.(*ssa.Builtin); ok {
			var as []string
			for _, a := range x.Common().Args {
				as = append(as, f.symd(a, d+1))
			}
			return b.Name() + "(" + strings.Join(as, ",") + ")"
		}
		// function returning the address of its parameter's private copy: intPtr(x) == &x
		if callee := x.Common().StaticCallee(); callee != nil && an.InModule(callee) && len(callee.Blocks) == 1 && len(callee.Params) == 1 {
			rets := an.Returns(callee)
			if len(rets) == 1 && len(rets[0].Results) == 1 {
				if al, ok := rets[0].Results[0].(*ssa.Alloc); ok {
					st, _ := an.CellStores(al)
					if len(st) == 1 && st[0].Val == ssa.Value(callee.Params[0]) {
						return "&" + f.symd(x.Common().Args[0], d+1)
					}
				}
			}
		}
		// generic call: canonical text with symbolic arguments
		cc := x.Common()
		if callee := an.StaticCallee(cc); callee != nil {
			if names, ok := an.TrivialGetter(callee); ok && len(cc.Args) == 1 {
				return f.symd(cc.Args[0], d+1) + "." + strings.Join(names, ".")
			}
			var as []string
			for _, a := range cc.Args {
				as = append(as, f.symd(a, d+1))
			}
			name := an.ShortName(callee)
			if p := an.FuncPkgPath(callee); !strings.HasPrefix(p, an.ModPath) {
				name = p + "." + name
			}
			return name + "(" + strings.Join(as, ",") + ")"
		}
		if cc.IsInvoke() {
			var as []string
			for _, a := range cc.Args {
				as = append(as, f.symd(a, d+1))
			}
			return f.symd(cc.Value, d+1) + "." + cc.Method.Name() + "(" + strings.Join(as, ",") + ")"
		}
	case *ssa.Extract:
		if tup, ok := f.tuples[x.Tuple]; ok && x.Index < len(tup) {
			return tup[x.Index]
		}
		if ta, ok := x.Tuple.(*ssa.TypeAssert); ok {
			return fmt.Sprintf("assert(%s,%s)#%d", f.symd(ta.X, d+1), types.TypeString(ta.AssertedType, shortq), x.Index)
		}
		if nx, ok := x.Tuple.(*ssa.Next); ok {
			if rg, ok := nx.Iter.(*ssa.Range); ok {
				return fmt.Sprintf("range(%s)#%d", f.symd(rg.X, d+1), x.Index)
			}
		}
		return f.symd(x.Tuple, d+1) + fmt.Sprintf("#%d", x.Index)
	case *ssa.TypeAssert:
		return "assert(" + f.symd(x.X, d+1) + "," + types.TypeString(x.AssertedType, shortq) + ")"
	case *ssa.MakeSlice:
		if k, ok := an.IntConst(x.Len); ok && k == 0 {
			return "empty"
		}
		return "make(" + f.symd(x.Len, d+1) + ")"
	case *ssa.Slice:
		if x.Low == nil && x.High == nil {
			return f.symd(x.X, d+1) + "[:]"
		}
		lo, hi := "", ""
		if x.Low != nil {
			lo = f.symd(x.Low, d+1)
		}
		if x.High != nil {
			hi = f.symd(x.High, d+1)
		}
		return strings.TrimPrefix(f.symd(x.X, d+1), "&") + "[" + lo + ":" + hi + "]"
	case *ssa.Index:
		return f.symd(x.X, d+1) + "[" + f.symd(x.Index, d+1) + "]"
	case *ssa.BinOp:
		a, b := f.symd(x.X, d+1), f.symd(x.Y, d+1)
		return x.Op.String() + "(" + a + "," + b + ")"
	case *ssa.Parameter, *ssa.FreeVar, *ssa.Global:
		return f.substitute(an.Canon(x))
	case *ssa.Alloc:
		return "&alloc:" + x.Name()
	}
	return f.substitute(an.Canon(v))
}

// constInt evaluates class/type/tag arguments.
func (f *frame) tagOf(class ssa.Value, tag ssa.Value) (string, string) {
	cl := "?"
	if k, ok := an.IntConst(class); ok {
		cl = classNames[k]
	}
	tg := f.sym(tag)
	if k, ok := an.IntConst(tag); ok {
		tg = fmt.Sprint(k)
		if cl == "UNIV" {
			if n, ok := uniTags[k]; ok {
				tg = n
			}
		}
	}
	return cl, tg
}

func (f *frame) nodeOf(v ssa.Value) *Node {
	if f.k != nil {
		v = f.k.Resolve(v)
	} else {
		v = an.Strip(v)
	}
	if n, ok := f.nodes[v]; ok {
		return n
	}
	// `&packet{Packet: x}` / load of such a field
	if base, name, ok := an.LoadField(v); ok && name == "Packet" {
		if al, ok := an.Strip(base).(*ssa.Alloc); ok {
			if mv, ok := f.memNode(al); ok {
				return mv
			}
		}
	}
	return nil
}

func (f *frame) memNode(al *ssa.Alloc) (*Node, bool) {
	st, ok := al.Type().(*types.Pointer).Elem().Underlying().(*types.Struct)
	if !ok {
		return nil, false
	}
	for i := 0; i < st.NumFields(); i++ {
		if st.Field(i).Name() == "Packet" {
			if sv, ok := an.LocalFieldStore(al, i); ok {
				n := f.nodeOf(sv)
				return n, n != nil
			}
		}
	}
	return nil, false
}

// event interprets one instruction of the walked path.
func (f *frame) event(in ssa.Instruction, k *an.Walk) {
	f.k = k
	defer func() {
		if v, ok := in.(ssa.Value); ok {
			if _, isAlloc := in.(*ssa.Alloc); !isAlloc {
				f.cache[v] = f.symd(v, 0)
			}
		}
	}()
	switch x := in.(type) {
	case *ssa.Store:
		if key, ok := f.memKey(x.Addr); ok {
			f.mem[key] = f.sym(x.Val)
		}
		// s := make([]T, len(C)); for i, e := range C { s[i] = g(e) }  builds the same list as the append idiom
		if ia, ok := x.Addr.(*ssa.IndexAddr); ok && an.IsRangeIdx(ia.Index) && k != nil && k.InLoop > 0 && len(f.loopOf) > 0 {
			coll := f.loopOf[len(f.loopOf)-1]
			if cur := f.sym(ia.X); cur == "make(len("+coll+"))" {
				nv := "list(" + coll + " => " + f.sym(x.Val) + ")"
				if ld, ok := ia.X.(*ssa.UnOp); ok && ld.Op == token.MUL {
					if key, ok := f.memKey(ld.X); ok {
						f.mem[key] = nv
					}
				}
				f.cache[ia.X] = nv
				if sv := an.Strip(ia.X); sv != ia.X {
					f.cache[sv] = nv
				}
			}
		}
		// stores into fields of a packet node: Value / Data
		if fa, ok := x.Addr.(*ssa.FieldAddr); ok {
			if n := f.nodeOf(fa.X); n != nil {
				switch an.FieldAddrName(fa) {
				case "Value":
					n.Writes = append(n.Writes, "Value="+f.sym(x.Val))
				case "Description":
				case "Children":
					// Children = make([]*ber.Packet, 0, n) / nil: the node has no children from here on (whatever it had is
					// dropped - the comparison with the reference tree then shows it)
					empty := an.IsNilConst(an.Strip(x.Val))
					if ms, isMS := an.Strip(x.Val).(*ssa.MakeSlice); isMS {
						if kk, isK := an.IntConst(ms.Len); isK && kk == 0 {
							empty = true
						}
					}
					if empty {
						n.Children = nil
					} else {
						n.Writes = append(n.Writes, "Children="+f.sym(x.Val))
					}
				default:
					n.Writes = append(n.Writes, an.FieldAddrName(fa)+"="+f.sym(x.Val))
				}
			}
		}
	case *ssa.If:
		if an.IsRangeHeader(x) {
			// entering / leaving the symbolic iteration is tracked through k.InLoop by the walker; record the collection
			coll := "?"
			if bo, ok := x.Cond.(*ssa.BinOp); ok {
				if lc, ok := bo.Y.(*ssa.Call); ok && len(lc.Common().Args) == 1 {
					coll = f.sym(lc.Common().Args[0])
				}
			} else if ex, ok := x.Cond.(*ssa.Extract); ok {
				if nx, ok := ex.Tuple.(*ssa.Next); ok {
					if rg, ok := nx.Iter.(*ssa.Range); ok {
						coll = "range(" + f.sym(rg.X) + ")"
					}
				}
			}
			if f.loopVisits == nil {
				f.loopVisits = map[*ssa.BasicBlock]int{}
			}
			f.loopVisits[x.Block()]++
			if f.loopVisits[x.Block()]%2 == 1 {
				f.loopOf = append(f.loopOf, coll)
			} else if len(f.loopOf) > 0 {
				f.loopOf = f.loopOf[:len(f.loopOf)-1]
			}
		}
	case *ssa.Call:
		f.call(x, k)
	}
}

func (f *frame) curLoop(k *an.Walk) string {
	if k.InLoop > 0 && len(f.loopOf) > 0 {
		return f.loopOf[len(f.loopOf)-1]
	}
	return ""
}

func (f *frame) call(x *ssa.Call, k *an.Walk) {
	cc := x.Common()
	callee := cc.StaticCallee()
	key := ""
	if callee != nil {
		key = an.FuncKey(callee)
	}
	if f.g != nil && f.g.onCall != nil && f.g.onCall(f, x) {
		return
	}
	valType := func(v ssa.Value) string {
		if mi, ok := v.(*ssa.MakeInterface); ok {
			return types.TypeString(mi.X.Type().Underlying(), nil)
		}
		return ""
	}
	switch key {
	case an.PkgBer + ".Encode", an.PkgBer + ".NewInteger", an.PkgBer + ".NewString", an.PkgBer + ".NewBoolean":
		cl, tg := f.tagOf(cc.Args[0], cc.Args[2])
		ty := "?"
		if kk, ok := an.IntConst(cc.Args[1]); ok {
			ty = typeNames[kk]
		}
		n := &Node{Class: cl, Type: ty, Tag: tg, Ctor: callee.Name(), Value: f.sym(cc.Args[3])}
		if callee.Name() == "NewInteger" {
			n.ValType = valType(cc.Args[3])
		}
		f.nodes[x] = n
		return
	case an.PkgBer + ".NewSequence":
		f.nodes[x] = &Node{Class: "UNIV", Type: "c", Tag: "SEQ", Ctor: "NewSequence"}
		return
	case an.PkgBer + ".(*Packet).AppendChild":
		parent := f.nodeOf(cc.Args[0])
		child := f.nodeOf(cc.Args[1])
		if parent == nil {
			f.notes = append(f.notes, "AppendChild on an unknown packet at "+f.c.pos(x))
			return
		}
		if child == nil {
			child = &Node{Opaque: f.sym(cc.Args[1])}
		}
		// ber.(*Packet).AppendChild copies the child's encoding into the parent's
		// Data at the time of the call (p.Data.Write(child.Bytes())): what reaches
		// the wire is the child as it is NOW; content given to the child afterwards
		// (Data.Write, further AppendChild) is not transmitted. Model: snapshot.
		parent.Children = append(parent.Children, &Child{N: child.snapshot(), Repeat: f.curLoop(k)})
		return
	case "bytes.(*Buffer).Write", "bytes.(*Buffer).WriteString":
		// x.Data.Write(b)
		if base, name, ok := an.LoadField(cc.Args[0]); ok && name == "Data" {
			if n := f.nodeOf(base); n != nil {
				n.Writes = append(n.Writes, "Data.Write("+f.sym(cc.Args[1])+")")
			}
		}
		return
	}
	if f.g != nil && callee != nil && key == G+".(*packet).assert" {
		S := f.c.opts()
		ev := "assert(" + f.norm(strings.TrimPrefix(f.sym(cc.Args[0]), "&")+".Packet")
		cl, _ := an.IntConst(cc.Args[1])
		ty, _ := an.IntConst(cc.Args[2])
		tag, child := "", ""
		if list, ok := S.variadicOptions(cc.Args[3]); ok {
			for _, o := range list {
				switch o.Ctor.Fn.Name() {
				case "withTag":
					k, ok := an.IntConst(o.Args[0])
					if !ok {
						// the tag is a parameter of an inlined helper: its value under the caller's substitution
						if kk, err := strconv.ParseInt(f.sym(o.Args[0]), 10, 64); err == nil {
							k, ok = kk, true
						} else {
							tag = f.sym(o.Args[0])
						}
					}
					if ok {
						tag = fmt.Sprint(k)
						if cl == 0 {
							if n, ok := uniTags[k]; ok {
								tag = n
							}
						}
					}
				case "withAssertChild":
					child = f.sym(o.Args[0])
					if an.IsRangeIdx(o.Args[0]) {
						child = "*"
					}
				case "withMinChildren":
					ev += " min=" + f.sym(o.Args[0])
				case "withLenChildren":
					ev += " len=" + f.sym(o.Args[0])
				}
			}
		} else {
			ev += " opts=?"
		}
		if child != "" {
			ev += ".Children[" + child + "]"
		}
		ev += " is " + classNames[cl] + " " + typeNames[ty]
		if tag != "" {
			ev += " " + tag
		}
		ev += ")"
		f.g.asserts = append(f.g.asserts, ev)
		// the assert succeeded on this path: nothing else to model
		f.tuples[x] = []string{"nil"}
		f.elem[x] = "nil"
		return
	}
	if f.g == nil && callee != nil && k != nil && k.W != nil {
		if sub, ok := k.HelperVal(x); ok {
			// a helper given the options struct: interpret it under the same valuation and option context
			env := &symEnv{subst: map[string]string{}, depth: f.env.depth + 1, opts: f.env.opts, optsKnown: f.env.optsKnown, optsParams: map[*ssa.Parameter]bool{}, getter: f.getter}
			for i, p := range callee.Params {
				if i < len(cc.Args) {
					env.subst[fmt.Sprintf("$%d", i)] = f.sym(cc.Args[i])
					if f.isOptsValue(cc.Args[i]) {
						env.optsParams[p] = true
					}
				}
			}
			r := f.c.interp(callee, env, sub, nil)
			if r.undec == "" && len(r.retExpr) > 0 {
				// objects the helper allocated (a response part it built) become objects of the caller
				pre := "alloc:" + callee.Name() + "@" + x.Name() + "/"
				ren := f.renamer(pre)
				if r.fr != nil {
					for mk, mv := range r.fr.mem {
						f.mem[ren(mk)] = ren(mv)
					}
				}
				var tup []string
				for _, e := range r.retExpr {
					tup = append(tup, ren(e))
				}
				f.tuples[x] = tup
				if len(tup) == 1 {
					f.elem[x] = tup[0]
					f.cache[x] = tup[0]
				}
			} else {
				f.notes = append(f.notes, "helper "+an.ShortName(callee)+": "+r.undec)
			}
			return
		}
	}
	if f.g != nil && callee != nil {
		if gt := f.c.opts().Getters[callee]; gt != nil && gt.OK {
			return // option getters are resolved through the option summaries (optsField / optValue)
		}
	}
	if f.g != nil && callee != nil && an.InModule(callee) && len(callee.Blocks) > 0 && !f.g.opaque[key] && f.env.depth < 8 {
		sub := f.c.interpCall(callee, x, f)
		if f.g.fork != nil {
			k.Undecided = "fork"
			return
		}
		if sub != nil && sub.undec == "" {
			pre := "alloc:" + callee.Name() + "@" + x.Name() + "/"
			ren := f.renamer(pre)
			for mk, mv := range sub.fr.mem {
				if _, foreign := f.mem[mk]; foreign && sub.fr.env != nil && sub.fr.env.outer != nil {
					if _, was := sub.fr.env.outer[mk]; was {
						continue // the caller's own object, seen by the callee through its arguments
					}
				}
				f.mem[ren(mk)] = ren(mv)
			}
			var tup []string
			for _, e := range sub.retExpr {
				tup = append(tup, ren(e))
			}
			f.tuples[x] = tup
			if len(tup) == 1 {
				f.elem[x] = tup[0]
			}
			f.notes = append(f.notes, sub.notes...)
		} else if sub != nil {
			f.notes = append(f.notes, "callee "+an.ShortName(callee)+": "+sub.undec)
		}
		return
	}
	// in-module callee that builds / extends packets: interpret it in the caller's context
	if callee != nil && an.InModule(callee) && len(callee.Blocks) > 0 && f.env.depth < 6 {
		returnsPacket := false
		rs := callee.Signature.Results()
		for i := 0; i < rs.Len(); i++ {
			if an.TypeIs(rs.At(i).Type(), an.PkgBer, "Packet") || an.TypeIs(rs.At(i).Type(), G, "packet") {
				returnsPacket = true
			}
		}
		takesPacket := false
		for _, a := range cc.Args {
			if f.nodeOf(a) != nil {
				takesPacket = true
			}
		}
		returnsStruct := false
		if rs.Len() == 1 {
			if nt := an.StructOf(rs.At(0).Type()); nt != nil && isPointer(rs.At(0).Type()) && nt.Obj().Pkg() != nil && strings.HasPrefix(nt.Obj().Pkg().Path(), an.ModPath) {
				returnsStruct = true
			}
		}
		if returnsPacket || takesPacket || returnsStruct {
			sub := f.c.interpCall(callee, x, f)
			if sub != nil {
				if sub.result != nil {
					f.nodes[x] = sub.result
				}
				f.notes = append(f.notes, sub.notes...)
				if sub.undec == "" && sub.fr != nil && len(sub.retExpr) == 1 && strings.HasPrefix(sub.retExpr[0], "&alloc:") {
					// import the callee's local objects under a call-unique prefix
					pre := "alloc:" + callee.Name() + "@" + x.Name() + "/"
					ren := f.renamer(pre)
					for mk, mv := range sub.fr.mem {
						if _, foreign := f.mem[mk]; foreign && sub.fr.env != nil && sub.fr.env.outer != nil {
							if _, was := sub.fr.env.outer[mk]; was {
								continue
							}
						}
						f.mem[ren(mk)] = ren(mv)
					}
					f.elem[x] = ren(sub.retExpr[0])
				}
			}
		}
	}
}

var allocRoot = regexp.MustCompile(`alloc:[^.\[\]\s,(){};=]+`)

// renamer gives the function that moves a callee's local objects under a
// call-unique prefix when its results are imported into this frame. Objects of
// this frame that the callee only saw through its arguments keep their names.
func (f *frame) renamer(pre string) func(string) string {
	own := map[string]bool{}
	for k := range f.mem {
		if m := allocRoot.FindString(k); m != "" {
			own[m] = true
		}
	}
	return func(e string) string {
		return allocRoot.ReplaceAllStringFunc(e, func(tok string) string {
			if own[tok] {
				return tok
			}
			return pre + strings.TrimPrefix(tok, "alloc:")
		})
	}
}

type interpResult struct {
	result  *Node
	retExpr []string
	notes   []string
	fr      *frame
	undec   string
}

// interpCall interprets callee at a call site of the caller frame.
func (c *Ctx) interpCall(callee *ssa.Function, call *ssa.Call, caller *frame) *interpResult {
	env := &symEnv{subst: map[string]string{}, depth: caller.env.depth + 1, outer: caller.mem}
	pre := "$"
	if callee.Parent() != nil {
		pre = "$$"
	}
	args := call.Common().Args
	for i := range callee.Params {
		if i < len(args) {
			env.subst[fmt.Sprintf("%s%d", pre, i)] = caller.sym(args[i])
		}
	}
	// a helper that is handed the caller's options struct (by value or by pointer) sees the caller's option context
	for i, p := range callee.Params {
		if i < len(args) && caller.isOptsValue(args[i]) && !callee.Signature.Variadic() {
			if env.optsParams == nil {
				env.optsParams = map[*ssa.Parameter]bool{}
			}
			env.optsParams[p] = true
			env.opts, env.optsKnown, env.getter = caller.env.opts, caller.env.optsKnown, caller.getter
		}
	}
	// options given literally at the call site
	S := c.opts()
	if callee.Signature.Variadic() && len(args) > 0 {
		list, ok := S.variadicOptions(args[len(args)-1])
		if !ok {
			list, ok = caller.optionList(args[len(args)-1], 0)
		}
		if ok {
			env.optsKnown = true
			env.opts = map[string]string{}
			for _, oc := range list {
				for _, s := range oc.Ctor.Sets {
					switch s.Kind {
					case "param", "paramAddr":
						env.opts[s.Field] = caller.sym(oc.Args[s.Param])
					case "conv":
						env.opts[s.Field] = "conv(" + caller.sym(oc.Args[s.Param]) + ")"
					case "const":
						env.opts[s.Field] = s.Const
					default:
						env.opts[s.Field] = "?"
					}
				}
			}
		}
	}
	// packets passed in keep their identity
	pass := map[ssa.Value]*Node{}
	for i, p := range callee.Params {
		if i < len(args) {
			if n := caller.nodeOf(args[i]); n != nil {
				pass[p] = n
			}
		}
	}
	if caller.g != nil {
		return c.interpG(callee, env, map[string]bool{}, pass, caller.g)
	}
	val, undecided := c.decideOptAtoms(callee, env, 0)
	if undecided != "" && len(pass) == 0 {
		// the callee branches on something the call does not decide (`if len(xs) > cap(p.Children) { pre-size }`): when it
		// is handed no packet of the caller's and builds the same tree whichever way its undecided branches go (at most
		// three of them), that tree is the result
		w := &an.Walker{Fn: callee}
		var free []string
		for _, a := range w.CondAtoms() {
			if _, has := val[a]; !has {
				free = append(free, a)
			}
		}
		if len(free) <= 3 {
			var first *interpResult
			same := true
			for _, fv := range an.Valuations(free) {
				merged := map[string]bool{}
				for a, b := range val {
					merged[a] = b
				}
				for a, b := range fv {
					merged[a] = b
				}
				r := c.interp(callee, env, merged, pass)
				if r == nil || r.undec != "" || r.result == nil {
					same = false
					break
				}
				if first == nil {
					first = r
				} else if first.result.String() != r.result.String() || strings.Join(first.retExpr, "|") != strings.Join(r.retExpr, "|") {
					same = false
					break
				}
			}
			if same && first != nil {
				return first
			}
		}
	}
	if undecided != "" {
		return &interpResult{undec: "callee " + an.ShortName(callee) + " branches on " + undecided, notes: []string{"inlined callee " + an.ShortName(callee) + " branches on " + undecided + "; not interpreted"}}
	}
	return c.interp(callee, env, val, pass)
}

// decideOptAtoms values the branch atoms of fn that the calling option context
// decides (nil tests of option fields), including those of helpers that are
// handed the options struct. Returns the first atom it cannot decide.
func (c *Ctx) decideOptAtoms(fn *ssa.Function, env *symEnv, depth int) (map[string]bool, string) {
	val := map[string]bool{}
	probe := &frame{c: c, fn: fn, env: env, mem: map[string]string{}, nodes: map[ssa.Value]*Node{}, optsV: map[ssa.Value]bool{}, elem: map[ssa.Value]string{}, tuples: map[ssa.Value][]string{}, cache: map[ssa.Value]string{}}
	probe.findOpts()
	for p := range env.optsParams {
		probe.markOptsParam(p)
	}
	w := &an.Walker{Fn: fn}
	if depth < 3 {
		w.Helpers = probe.optsHelperCalls()
	}
	atoms := w.CondAtoms()
	if len(atoms) == 0 {
		return val, ""
	}
	decided := map[string]bool{}
	an.Instrs(fn, func(in ssa.Instruction) {
		iff, ok := in.(*ssa.If)
		if !ok {
			return
		}
		name, neg := an.CanonAtom(iff.Cond)
		cond, _ := an.Not(iff.Cond)
		if x, trueMeansNil, ok := an.NilCheck(cond); ok && env.optsKnown {
			if fld, ok := probe.optsField(x); ok {
				_, set := env.opts[fld]
				condTrue := set != trueMeansNil // condition (un-negated BinOp) value
				_, cneg := an.Not(iff.Cond)
				full := condTrue != cneg // value of iff.Cond
				val[name] = full != neg
				decided[name] = true
			}
		}
	})
	for _, hc := range w.Helpers {
		callee := hc.Common().StaticCallee()
		henv := &symEnv{subst: map[string]string{}, depth: env.depth + 1, opts: env.opts, optsKnown: env.optsKnown, optsParams: map[*ssa.Parameter]bool{}, getter: probe.getter}
		for i, p := range callee.Params {
			if i < len(hc.Common().Args) && probe.isOptsValue(hc.Common().Args[i]) {
				henv.optsParams[p] = true
			}
		}
		sub, und := c.decideOptAtoms(callee, henv, depth+1)
		if und != "" {
			return val, und
		}
		for callerAtom, calleeAtom := range w.HelperAtoms(hc) {
			if v, ok := sub[calleeAtom]; ok {
				val[callerAtom] = v
				decided[callerAtom] = true
			}
		}
	}
	for _, a := range atoms {
		if !decided[a] {
			return val, a
		}
	}
	return val, ""
}

// interp walks fn under a valuation and returns the packet tree it returns.
func (c *Ctx) interp(fn *ssa.Function, env *symEnv, val map[string]bool, pass map[ssa.Value]*Node) *interpResult {
	return c.interpG(fn, env, val, pass, nil)
}

func (c *Ctx) interpG(fn *ssa.Function, env *symEnv, val map[string]bool, pass map[ssa.Value]*Node, g *guide) *interpResult {
	if env == nil {
		env = &symEnv{}
	}
	fr := &frame{c: c, fn: fn, env: env, mem: map[string]string{}, nodes: map[ssa.Value]*Node{}, optsV: map[ssa.Value]bool{}, elem: map[ssa.Value]string{}, tuples: map[ssa.Value][]string{}, g: g, cache: map[ssa.Value]string{}}
	for k, v := range env.outer {
		fr.mem[k] = v
	}
	for k, v := range pass {
		fr.nodes[k] = v
	}
	fr.findOpts()
	for p := range env.optsParams {
		fr.markOptsParam(p)
	}
	w := &an.Walker{Fn: fn, Event: fr.event}
	if g != nil {
		w.Choose = fr.choose
	} else {
		w.Helpers = fr.optsHelperCalls()
		w.CondAtoms() // builds the translation tables of the helper calls
	}
	k := w.Run(val)
	res := &interpResult{fr: fr, notes: fr.notes}
	if k.Undecided != "" {
		res.undec = k.Undecided
		return res
	}
	fr.k = k
	if k.Ret != nil {
		for _, r := range an.ReturnResults(k.Ret) {
			res.retExpr = append(res.retExpr, fr.sym(r))
			if n := fr.nodeOf(r); n != nil && res.result == nil {
				res.result = n
			} else if al, ok := an.Strip(r).(*ssa.Alloc); ok && res.result == nil {
				if n, ok := fr.memNode(al); ok {
					res.result = n
				}
			}
		}
	}
	res.notes = fr.notes
	return res
}

// shapeVariants enumerates the trees an encoder can return: one per
// valuation of its branch atoms.
type shapeVariant struct {
	Val   map[string]bool
	Shape string
	Res   *interpResult
}

func (c *Ctx) shapeVariants(fn *ssa.Function) ([]shapeVariant, []string) {
	w := &an.Walker{Fn: fn}
	atoms := w.CondAtoms()
	var out []shapeVariant
	for _, val := range an.Valuations(atoms) {
		r := c.interp(fn, &symEnv{}, val, nil)
		sh := "<undecided: " + r.undec + ">"
		if r.undec == "" {
			sh = r.result.String()
		}
		out = append(out, shapeVariant{Val: val, Shape: sh, Res: r})
	}
	return out, atoms
}

func sortedVals(m map[string]bool) string {
	var ks []string
	for k, v := range m {
		if v {
			ks = append(ks, k)
		} else {
			ks = append(ks, "!"+k)
		}
	}
	sort.Strings(ks)
	return strings.Join(ks, " ")
}

// fieldsOf reads the symbolic memory of a local allocation (following
// pointers to other local allocations): field path -> expression.
func (f *frame) fieldsOf(alloc string, prefix string, out map[string]string, depth int) {
	if depth > 4 {
		return
	}
	for k, v := range f.mem {
		if !strings.HasPrefix(k, alloc+".") {
			continue
		}
		fld := prefix + k[len(alloc)+1:]
		if strings.HasPrefix(v, "&alloc:") {
			f.fieldsOf(v[1:], fld+".", out, depth+1)
			continue
		}
		out[fld] = v
	}
}

// optionList resolves, on the current path, the list of option-constructor
// calls that make up an options slice: literal slices, append chains, phis.
func (f *frame) optionList(v ssa.Value, depth int) ([]optCall, bool) {
	if depth > 8 {
		return nil, false
	}
	S := f.c.opts()
	if f.k != nil {
		v = f.k.Resolve(v)
	}
	if list, ok := S.variadicOptions(v); ok {
		return list, true
	}
	if f.k != nil && S.applyLoopSkipsNil() {
		// an option value chosen on the way (`var o Option; if cond { o = WithX(v) }; f(..., o)`): what it is on this path
		if list, ok := S.variadicOptionsR(v, func(x ssa.Value) ssa.Value { return an.Strip(f.k.Resolve(x)) }); ok {
			return list, true
		}
	}
	switch x := v.(type) {
	case *ssa.Call:
		if b, ok := x.Common().Value.(*ssa.Builtin); ok && b.Name() == "append" {
			base, ok1 := f.optionList(x.Common().Args[0], depth+1)
			add, ok2 := f.optionList(x.Common().Args[1], depth+1)
			if ok1 && ok2 {
				return append(append([]optCall{}, base...), add...), true
			}
		}
	case *ssa.UnOp:
		if x.Op == token.MUL {
			// local variable cell: last store on this path is in mem as expression only; resolve via SSA when single-assignment
			if sv := an.Strip(x); sv != ssa.Value(x) {
				return f.optionList(sv, depth+1)
			}
		}
	}
	return nil, false
}

// guidedPaths enumerates the success paths of fn (and of the callees it
// inlines): forced branches are followed, genuine forks explored both ways.
type guidedPath struct {
	AllForced []forcedBranch
	Forced    []forcedBranch
	Res       *interpResult
	Asserts   []string
	Decided   map[*ssa.If]int
	Trace     []guideDecision
	State     any
}

func (c *Ctx) guidedPaths(fn *ssa.Function, env *symEnv, opaque map[string]bool, limit int) ([]guidedPath, bool) {
	return c.guidedPathsO(fn, env, opaque, limit, nil, nil)
}

func (c *Ctx) guidedPathsO(fn *ssa.Function, env *symEnv, opaque map[string]bool, limit int, oracle func(f *frame, iff *ssa.If) int, onCall func(f *frame, x *ssa.Call) bool) ([]guidedPath, bool) {
	return c.guidedPathsF(fn, env, opaque, limit, func() (func(f *frame, iff *ssa.If) int, func(f *frame, x *ssa.Call) bool, any) {
		return oracle, onCall, nil
	})
}

// guidedPathsF: like guidedPathsO but the oracle is created afresh for every
// run (it may carry per-path state, returned in guidedPath.State).
func (c *Ctx) guidedPathsF(fn *ssa.Function, env *symEnv, opaque map[string]bool, limit int, mk func() (func(f *frame, iff *ssa.If) int, func(f *frame, x *ssa.Call) bool, any)) ([]guidedPath, bool) {
	var out []guidedPath
	complete := true
	reach := map[*ssa.Function]map[*ssa.BasicBlock]bool{}
	var rec func(decide map[*ssa.If]int)
	rec = func(decide map[*ssa.If]int) {
		if len(out) >= limit {
			complete = false
			return
		}
		oracle, onCall, state := mk()
		g := &guide{decide: decide, reach: reach, opaque: opaque, oracle: oracle, onCall: onCall}
		r := c.interpG(fn, env, map[string]bool{}, nil, g)
		if g.fork != nil {
			for i := 0; i < 2; i++ {
				d2 := map[*ssa.If]int{}
				for k, v := range decide {
					d2[k] = v
				}
				d2[g.fork] = i
				rec(d2)
			}
			return
		}
		out = append(out, guidedPath{Res: r, Asserts: g.asserts, Decided: decide, Trace: g.trace, State: state, Forced: g.forced, AllForced: g.allForced})
	}
	rec(map[*ssa.If]int{})
	return out, complete
}

// constCompare evaluates a comparison of two literal expressions.
func constCompare(a string, op token.Token, b string) (bool, bool) {
	ia, ea := strconv.ParseInt(a, 10, 64)
	ib, eb := strconv.ParseInt(b, 10, 64)
	if ea == nil && eb == nil {
		return cmp(ia, op, ib), true
	}
	isLit := func(s string) bool {
		return len(s) >= 2 && s[0] == '"' && s[len(s)-1] == '"' || s == "nil" || s == "true" || s == "false"
	}
	if isLit(a) && isLit(b) {
		switch op {
		case token.EQL:
			return a == b, true
		case token.NEQ:
			return a != b, true
		}
	}
	return false, false
}

// definitelyError: the returned error value is certainly non-nil (a freshly
// built error, a package-level error variable, or a value this return is
// control-dependent on being non-nil). An error handed through from a callee
// may be nil, so such a return can still be a success.
func definitelyError(v ssa.Value, ret *ssa.Return) bool {
	sv := an.Strip(v)
	if an.IsNilConst(sv) {
		return false
	}
	switch x := sv.(type) {
	case *ssa.Call:
		if f := x.Common().StaticCallee(); f != nil {
			k := an.FuncPkgPath(f) + "." + f.Name()
			if k == "fmt.Errorf" || k == "errors.New" {
				return true
			}
		}
	case *ssa.UnOp:
		if _, ok := x.X.(*ssa.Global); ok {
			return true
		}
	}
	for _, fct := range an.BranchFacts(ret.Block()) {
		cond, neg := an.Not(fct.Cond)
		if y, trueMeansNil, ok := an.NilCheck(cond); ok && an.Strip(y) == sv {
			if (fct.True != neg) != trueMeansNil {
				return true
			}
		}
	}
	return false
}
