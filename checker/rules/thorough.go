package rules

// Thorough runs the extra, deeper work of the thorough tier for a property.
// Registered per property in thoroughHooks.
var thoroughHooks = map[string][]func(*Ctx){}

func Thorough(c *Ctx, id string) {
	for _, h := range thoroughHooks[id] {
		h(c)
	}
}
