package rules

import (
	"bytes"
	"fmt"
	"go/ast"
	"go/format"
	"go/parser"
	"go/token"
	"os"
	"os/exec"
	"path/filepath"
	"sort"
	"strconv"
	"strings"
	"sync"

	"gldapverif/an"

	"golang.org/x/tools/go/callgraph"
	"golang.org/x/tools/go/callgraph/cha"
	"golang.org/x/tools/go/callgraph/vta"
	"golang.org/x/tools/go/ssa"
	"golang.org/x/tools/go/ssa/ssautil"
)

// Thorough runs the deeper work of the thorough tier for one property:
// (a) the same rules on a GOARCH=386 load, (b) a VTA call-graph cross-check of
// the slices the rules rely on, (c) the Overlay mutant self-test.
func Thorough(c *Ctx, id string) {
	self, err := os.Executable()
	if err != nil {
		c.R.Fatal("thorough: cannot find own executable: %v", err)
		return
	}
	if c.R.Extra == nil {
		c.R.Extra = map[string]any{}
	}
	// ---- (a) 386
	out, code := runSelf(self, "-prop", id, "-tier", "quick", "-goarch", "386", "-noevidence", "-repo", c.Repo, "-verif", c.Verif)
	c.R.Extra["goarch_386"] = map[string]any{"exit": code, "summary": lastLine(out)}
	if code != 0 {
		c.R.Fail("THOROUGH-386", id+": rules on a GOARCH=386 load", "-", "the property's rules report a violation when the program is loaded for a 32-bit target: "+firstViolations(out))
	} else {
		c.R.OK("THOROUGH-386", id+": rules on a GOARCH=386 load", "-", lastLine(out))
	}
	// ---- (b) VTA cross-check
	c.vtaCrossCheck(id)
	// ---- (c) mutants
	c.mutantSelfTest(self, id)
}

func runSelf(self string, args ...string) (string, int) {
	cmd := exec.Command(self, args...)
	cmd.Env = os.Environ()
	var buf bytes.Buffer
	cmd.Stdout = &buf
	cmd.Stderr = &buf
	err := cmd.Run()
	code := 0
	if err != nil {
		code = 1
		if ee, ok := err.(*exec.ExitError); ok {
			code = ee.ExitCode()
		}
	}
	return buf.String(), code
}

func lastLine(s string) string {
	ls := strings.Split(strings.TrimSpace(s), "\n")
	return ls[len(ls)-1]
}

func firstViolations(s string) string {
	var out []string
	for _, l := range strings.Split(s, "\n") {
		if strings.Contains(l, "violated") || strings.Contains(l, "undecided") || strings.Contains(l, "CANNOT") {
			out = append(out, strings.TrimSpace(l))
		}
	}
	if len(out) > 3 {
		out = out[:3]
	}
	return strings.Join(out, " | ")
}

// ---------------------------------------------------------------- VTA

var vtaGraph *callgraph.Graph

func (c *Ctx) vta() *callgraph.Graph {
	if vtaGraph == nil {
		vtaGraph = vta.CallGraph(ssautil.AllFunctions(c.P.SSA), cha.CallGraph(c.P.SSA))
	}
	return vtaGraph
}

// vtaCrossCheck: every in-module callee that VTA reaches from the functions of
// the property's slice must be inside the slice the static rules analysed
// (calls of handler values excepted: handlers are opaque user code by design).
func (c *Ctx) vtaCrossCheck(id string) {
	var slice []*ssa.Function
	var what string
	switch id {
	case "C02":
		if f := c.P.Func(G, "(*conn).readRequest"); f != nil {
			e := c.newPF()
			slice = e.slice([]*ssa.Function{f})
			what = "decode slice"
		}
	case "C07", "C08", "C11", "C12", "C06":
		m := c.serverModel()
		if m != nil {
			seen := map[*ssa.Function]bool{}
			for f := range syncReach(m.connFn) {
				for _, a := range an.WithClosures(f) {
					seen[a] = true
				}
			}
			for f := range seen {
				slice = append(slice, f)
			}
			what = "connection goroutine slice"
		}
	default:
		c.R.Extra["vta"] = "no call-graph slice is used by this property's rules"
		return
	}
	in := map[*ssa.Function]bool{}
	for _, f := range slice {
		in[f] = true
	}
	g := c.vta()
	missing := map[string]bool{}
	edges := 0
	for _, f := range slice {
		n := g.Nodes[f]
		if n == nil {
			continue
		}
		for _, e := range n.Out {
			callee := e.Callee.Func
			if callee == nil || !an.InModule(callee) || len(callee.Blocks) == 0 || c.P.IsTestFile(callee.Pos()) || takesTestingT(callee) {
				continue
			}
			edges++
			if in[callee] {
				continue
			}
			if callee.Synthetic != "" {
				// promoted-method / bound-method wrapper: covered when what it forwards to is covered
				cov := true
				for _, ci := range an.Calls(callee) {
					if g := an.StaticCallee(ci.Common()); g != nil && an.InModule(g) && len(g.Blocks) > 0 && !in[g] {
						cov = false
					}
				}
				if cov {
					continue
				}
			}
			// opaque by design: handler values, OnClose callbacks and Option closures applied by applyOpts
			if e.Site != nil {
				cc := e.Site.Common()
				if isHandlerInvoke(cc) || isOnClose(cc) {
					continue
				}
				if cc.StaticCallee() == nil && !cc.IsInvoke() {
					if an.TypeIs(cc.Value.Type(), G, "Option") || an.TypeIs(cc.Value.Type(), TD, "Option") {
						continue
					}
				}
				if _, isGoStmt := e.Site.(*ssa.Go); isGoStmt {
					continue // another goroutine: analysed as its own slice
				}
			}
			missing[an.ShortName(f)+" -> "+an.ShortName(callee)] = true
		}
	}
	var ms []string
	for k := range missing {
		ms = append(ms, k)
	}
	sort.Strings(ms)
	c.R.Extra["vta"] = map[string]any{"slice": what, "functions": len(slice), "in_module_edges": edges, "missing": ms}
	if len(ms) > 0 {
		c.R.Fail("THOROUGH-vta", id+": static "+what+" covers the VTA call graph", "-", "VTA finds in-module call edges the static slice lacks: "+strings.Join(ms, "; "))
	} else {
		c.R.OK("THOROUGH-vta", id+": static "+what+" covers the VTA call graph", "-", fmt.Sprintf("%d functions, %d in-module VTA edges, none outside the slice", len(slice), edges))
	}
}

// ---------------------------------------------------------------- mutants

// anchor files per property (from the property's anchors)
var mutantFiles = map[string][]string{
	"C01": {"packet.go", "message.go", "request.go", "add.go"},
	"C02": {"packet.go", "control.go", "add.go"},
	"C03": {"mux.go", "route.go"},
	"C04": {"response.go", "request.go", "response_options.go", "entry.go"},
	"C05": {"response.go", "conn.go"},
	"C06": {"conn.go"},
	"C07": {"server.go", "conn.go"},
	"C08": {"server.go", "conn.go"},
	"C09": {"server.go", "request.go"},
	"C10": {"conn.go"},
	"C11": {"server.go"},
	"C12": {"server.go"},
	"C13": {"conn.go", "request.go"},
	"C14": {"control.go"},
	"C15": {"conn.go", "response.go", "server.go", "testdirectory/directory.go"},
	"C16": {"request.go", "sid.go", "entry.go"},
	"C17": {"server.go"},
	"C18": {"server.go", "testdirectory/testing.go"},
	"C19": {"testdirectory/directory.go"},
	"C20": {"testdirectory/directory.go"},
}

// functions a property's mutants are restricted to ("" = whole file)
var mutantFuncs = map[string][]string{
	"C03": {"serve", "match"},
	"C04": {"packet", "NewResponse", "NewModifyResponse", "NewExtendedResponse", "NewBindResponse", "NewSearchDoneResponse", "NewSearchResponseEntry", "beginResponse", "addOptionalResponseChildren", "Write", "encode", "SetResultCode", "SetMatchedDN", "SetDiagnosticMessage", "AddAttribute"},
	"C05": {"Write", "newResponseWriter", "serveRequests"},
	"C06": {"serveRequests", "readRequest"},
	"C07": {"Run", "serveRequests"},
	"C08": {"Run", "close", "serveRequests"},
	"C09": {"Run", "newConn", "ConnectionID"},
	"C10": {"serveRequests"},
	"C11": {"Run", "Stop"},
	"C12": {"Run", "Stop"},
	"C13": {"serveRequests", "StartTLS", "initConn"},
	"C14": {"Encode", "NewControlBeheraPasswordPolicy", "encodeControls"},
	"C15": {"initConn", "readPacket", "Write", "Run", "Stop", "Ready", "Router", "SetUsers", "SetGroups", "SetControls", "Users", "Groups", "handleBind", "handleAdd", "handleDelete", "handleModify"},
	"C16": {"ConvertString", "readLength", "SIDBytes", "SIDBytesToString", "NewEntry", "NewEntryAttribute", "AddValue"},
	"C17": {"Run", "Ready"},
	"C18": {"Run", "GetTLSConfig"},
	"C19": {"handleBind"},
	"C20": {"handleModify", "handleAdd", "handleDelete", "handleSearchUsers", "find"},
	"C01": {"requestType", "requestPacket", "requestMessageID", "simpleBindParameters", "searchParmeters", "modifyParameters", "addParameters", "deleteParameters", "extendedOperationName", "controlPacket", "newMessage", "newRequest", "decodeAttribute"},
	"C02": {"requestPacket", "requestMessageID", "simpleBindParameters", "searchParmeters", "modifyParameters", "addParameters", "deleteParameters", "extendedOperationName", "controlPacket", "assert", "assertApplicationRequest", "basicValidation", "decodeControl", "decodeAttribute"},
}

type mutant struct {
	file string
	desc string
	src  []byte
}

// genMutants applies each operator at each site of the selected functions; one mutant per site.
func genMutants(repo, rel string, funcs []string) []mutant {
	path := filepath.Join(repo, rel)
	orig, err := os.ReadFile(path)
	if err != nil {
		return nil
	}
	want := map[string]bool{}
	for _, f := range funcs {
		want[f] = true
	}
	// count sites first by a dry traversal, then re-parse per mutant
	type site struct {
		kind string
		idx  int
	}
	var sites []site
	visit := func(apply int, kindSel string) ([]byte, string) {
		fset := token.NewFileSet()
		file, err := parser.ParseFile(fset, path, orig, parser.ParseComments)
		if err != nil {
			return nil, ""
		}
		counter := map[string]int{}
		desc := ""
		hit := func(kind string) bool {
			i := counter[kind]
			counter[kind]++
			if apply < 0 {
				sites = append(sites, site{kind, i})
				return false
			}
			return kind == kindSel && i == apply
		}
		pos := func(n ast.Node) string { return fmt.Sprintf("%s:%d", rel, fset.Position(n.Pos()).Line) }
		for _, d := range file.Decls {
			fd, ok := d.(*ast.FuncDecl)
			if !ok || fd.Body == nil || (len(want) > 0 && !want[fd.Name.Name]) {
				continue
			}
			ast.Inspect(fd.Body, func(n ast.Node) bool {
				switch x := n.(type) {
				case *ast.BinaryExpr:
					var nop token.Token
					switch x.Op {
					case token.LSS:
						nop = token.LEQ
					case token.LEQ:
						nop = token.LSS
					case token.GTR:
						nop = token.GEQ
					case token.GEQ:
						nop = token.GTR
					case token.EQL:
						nop = token.NEQ
					case token.NEQ:
						nop = token.EQL
					}
					if nop != token.ILLEGAL && hit("relop") {
						desc = fmt.Sprintf("%s: %s -> %s in %s", pos(x), x.Op, nop, fd.Name.Name)
						x.Op = nop
					}
				case *ast.BasicLit:
					if x.Kind == token.INT && hit("intlit") {
						if v, err := strconv.Atoi(x.Value); err == nil {
							desc = fmt.Sprintf("%s: integer literal %d -> %d in %s", pos(x), v, v+1, fd.Name.Name)
							x.Value = strconv.Itoa(v + 1)
						}
					}
				case *ast.BlockStmt:
					for i := 0; i < len(x.List); i++ {
						st := x.List[i]
						del := false
						switch y := st.(type) {
						case *ast.ExprStmt:
							if call, ok := y.X.(*ast.CallExpr); ok {
								if sel, ok := call.Fun.(*ast.SelectorExpr); ok {
									switch sel.Sel.Name {
									case "Lock", "Unlock", "RLock", "RUnlock", "Wait", "Done", "Add", "Flush", "AppendChild", "SetResultCode":
										del = true
									}
								}
							}
						case *ast.DeferStmt:
							del = true
						case *ast.GoStmt:
							if hit("ungo") {
								desc = fmt.Sprintf("%s: go statement made synchronous in %s", pos(y), fd.Name.Name)
								x.List[i] = &ast.ExprStmt{X: y.Call}
							}
						}
						if del && hit("delstmt") {
							desc = fmt.Sprintf("%s: statement deleted in %s", pos(st), fd.Name.Name)
							x.List = append(append([]ast.Stmt{}, x.List[:i]...), x.List[i+1:]...)
							i--
						}
					}
					for i := 0; i+1 < len(x.List); i++ {
						_, e1 := x.List[i].(*ast.ExprStmt)
						_, e2 := x.List[i+1].(*ast.ExprStmt)
						_, a1 := x.List[i].(*ast.AssignStmt)
						if (e1 || a1) && e2 && hit("swapstmt") {
							desc = fmt.Sprintf("%s: statement swapped with the next one in %s", pos(x.List[i]), fd.Name.Name)
							x.List[i], x.List[i+1] = x.List[i+1], x.List[i]
						}
					}
				case *ast.CallExpr:
					if sel, ok := x.Fun.(*ast.SelectorExpr); ok && sel.Sel.Name == "EqualFold" && len(x.Args) == 2 && hit("eqfold") {
						desc = fmt.Sprintf("%s: strings.EqualFold replaced by == in %s", pos(x), fd.Name.Name)
						// rewritten below through the parent: mark by renaming to a helper we add
						sel.Sel.Name = "EqualFold"
						x.Fun = &ast.Ident{Name: "gldapverifStrEq"}
					}
				}
				return true
			})
		}
		if apply < 0 {
			return nil, ""
		}
		var buf bytes.Buffer
		if err := format.Node(&buf, fset, file); err != nil {
			return nil, ""
		}
		out := buf.Bytes()
		if kindSel == "eqfold" {
			out = append(out, []byte("\nfunc gldapverifStrEq(a, b string) bool { return a == b }\n")...)
		}
		return out, desc
	}
	visit(-1, "")
	var ms []mutant
	for _, s := range sites {
		src, desc := visit(s.idx, s.kind)
		if src == nil || desc == "" || bytes.Equal(src, orig) {
			continue
		}
		ms = append(ms, mutant{file: rel, desc: desc, src: src})
	}
	return ms
}

func (c *Ctx) mutantSelfTest(self, id string) {
	files := mutantFiles[id]
	var all []mutant
	for _, f := range files {
		all = append(all, genMutants(c.Repo, f, mutantFuncs[id])...)
	}
	// deterministic sample
	max := 48
	if v := os.Getenv("VERIF_MUTANTS"); v != "" {
		if n, err := strconv.Atoi(v); err == nil {
			max = n
		}
	}
	seed := 0
	if v := os.Getenv("VERIF_SEED"); v != "" {
		seed, _ = strconv.Atoi(v)
	}
	if len(all) > max {
		step := float64(len(all)) / float64(max)
		var pick []mutant
		for i := 0; i < max; i++ {
			pick = append(pick, all[(int(float64(i)*step)+seed)%len(all)])
		}
		all = pick
	}
	type res struct {
		m       mutant
		outcome string
		first   string
	}
	results := make([]res, len(all))
	sem := make(chan struct{}, 8)
	var wg sync.WaitGroup
	for i, m := range all {
		wg.Add(1)
		go func(i int, m mutant) {
			defer wg.Done()
			sem <- struct{}{}
			defer func() { <-sem }()
			dir, err := os.MkdirTemp("", "gldapmut")
			if err != nil {
				results[i] = res{m, "error", err.Error()}
				return
			}
			defer os.RemoveAll(dir)
			dst := filepath.Join(dir, m.file)
			_ = os.MkdirAll(filepath.Dir(dst), 0o755)
			_ = os.WriteFile(dst, m.src, 0o644)
			out, code := runSelf(self, "-prop", id, "-tier", "quick", "-overlay", dir, "-noevidence", "-repo", c.Repo, "-verif", c.Verif)
			switch {
			case strings.Contains(out, "cannot load /repo") || strings.Contains(out, "type/parse errors"):
				results[i] = res{m, "did-not-compile", ""}
			case code != 0:
				results[i] = res{m, "killed", firstViolations(out)}
			default:
				results[i] = res{m, "survived", ""}
			}
		}(i, m)
	}
	wg.Wait()
	counts := map[string]int{}
	var survived, sample []string
	for _, r := range results {
		counts[r.outcome]++
		if r.outcome == "survived" {
			survived = append(survived, r.m.desc)
		} else if r.outcome == "killed" && len(sample) < 5 {
			sample = append(sample, r.m.desc+" => "+r.first)
		}
	}
	sort.Strings(survived)
	c.R.Extra["mutants"] = map[string]any{
		"generated": len(all), "killed": counts["killed"], "survived": counts["survived"], "did_not_compile": counts["did-not-compile"],
		"survivors":     survived,
		"killed_sample": sample,
		"note":          "syntax-tree mutants of the property's anchor functions applied through packages.Config.Overlay; a survivor is either an equivalent mutant (e.g. a relational operator on a path the property does not constrain) or a gap of the rules; it never changes the verdict on the real tree",
	}
	c.R.Trivial("THOROUGH-mutants", id+": mutant self-test", "-", fmt.Sprintf("%d mutants: %d killed, %d survived, %d did not compile", len(all), counts["killed"], counts["survived"], counts["did-not-compile"]))
}
