// Package rules holds the property-specific rule instances.
package rules

import (
	"fmt"
	"go/token"
	"go/types"
	"sort"
	"strings"

	"gldapverif/an"
	"gldapverif/report"

	"golang.org/x/tools/go/ssa"
)

// Ctx is what a property check gets.
type Ctx struct {
	P     *an.Prog
	R     *report.Report
	Tier  string
	Repo  string
	Verif string
	Sub   bool // a sub-run whose obligations another property imports (does not import in turn)
}

// Registry maps property id -> check.
var Registry = map[string]func(*Ctx){}

// Descriptions maps property id -> explanation text for the evidence.
var Descriptions = map[string]string{}

const (
	G  = an.PkgGldap
	TD = an.PkgTD
)

// fn resolves an anchor function or records a checker error.
func (c *Ctx) fn(pkg, name string) *ssa.Function {
	f, err := c.P.MustFunc(pkg, name)
	if err != nil {
		c.R.Fatal("%v", err)
		return nil
	}
	c.R.Analysed = append(c.R.Analysed, an.ShortName(f))
	return f
}

func (c *Ctx) pos(in ssa.Instruction) string { return c.P.InstrPos(in) }

// nonTestModuleFuncs lists module functions defined outside _test.go files
// (the root gldap package keeps test helpers in testing.go: functions whose
// first parameter is *testing.T are excluded as well).
func (c *Ctx) shippedFuncs(pkgs ...string) []*ssa.Function {
	var out []*ssa.Function
	for _, f := range c.P.ModuleFuncs() {
		if len(f.Blocks) == 0 {
			continue
		}
		pp := an.FuncPkgPath(f)
		if len(pkgs) > 0 {
			ok := false
			for _, p := range pkgs {
				if p == pp {
					ok = true
				}
			}
			if !ok {
				continue
			}
		}
		if c.P.IsTestFile(f.Pos()) {
			continue
		}
		if takesTestingT(f) {
			continue
		}
		out = append(out, f)
	}
	return out
}

func takesTestingT(f *ssa.Function) bool {
	root := f
	for root.Parent() != nil {
		root = root.Parent()
	}
	ps := root.Signature.Params()
	for i := 0; i < ps.Len(); i++ {
		if an.TypeIs(ps.At(i).Type(), "testing", "T") {
			return true
		}
	}
	return false
}

// fieldLoad: v is a load of field `field` of named struct pkg.typ; returns the
// base pointer value.
func fieldLoad(v ssa.Value, pkg, typ, field string) (ssa.Value, bool) {
	v = an.Strip(v)
	u, ok := v.(*ssa.UnOp)
	if !ok || u.Op != token.MUL {
		// an accessor method that only returns the field: `c.id()` for `c.connID`
		if call, isCall := v.(*ssa.Call); isCall {
			if g := an.StaticCallee(call.Common()); g != nil && an.InModule(g) && len(call.Common().Args) == 1 {
				if t, fl, isG := an.FieldGetter(g); isG && t == typ && fl == field && an.FuncPkgPath(g) == pkg {
					return call.Common().Args[0], true
				}
			}
		}
		// ... or one result of an accessor that reads several fields in one critical section
		if ex, isEx := v.(*ssa.Extract); isEx {
			if call, isCall := ex.Tuple.(*ssa.Call); isCall {
				if g := an.StaticCallee(call.Common()); g != nil && an.InModule(g) && len(call.Common().Args) == 1 {
					if t, fl, isG := an.FieldGetterK(g, ex.Index); isG && t == typ && fl == field && an.FuncPkgPath(g) == pkg {
						return call.Common().Args[0], true
					}
				}
			}
		}
		if f, ok := v.(*ssa.Field); ok {
			if an.TypeIs(f.X.Type(), pkg, typ) && an.FieldValName(f) == field {
				return f.X, true
			}
		}
		return nil, false
	}
	fa, ok := u.X.(*ssa.FieldAddr)
	if !ok {
		return nil, false
	}
	if !an.TypeIs(fa.X.Type(), pkg, typ) || an.FieldAddrName(fa) != field && (pkg != G || an.FieldAddrName(fa) != fld(typ, field)) {
		return nil, false
	}
	return fa.X, true
}

// fieldAddr: v is &base.field of named struct pkg.typ.
func fieldAddr(v ssa.Value, pkg, typ, field string) (ssa.Value, bool) {
	fa, ok := v.(*ssa.FieldAddr)
	if !ok {
		return nil, false
	}
	if !an.TypeIs(fa.X.Type(), pkg, typ) || an.FieldAddrName(fa) != field && (pkg != G || an.FieldAddrName(fa) != fld(typ, field)) {
		return nil, false
	}
	return fa.X, true
}

// fieldStores lists all stores to field `field` of struct pkg.typ in the
// given functions.
type fieldStore struct {
	Fn    *ssa.Function
	Store *ssa.Store
	Base  ssa.Value
}

func fieldStores(fns []*ssa.Function, pkg, typ, field string) []fieldStore {
	var out []fieldStore
	for _, f := range fns {
		an.Instrs(f, func(in ssa.Instruction) {
			st, ok := in.(*ssa.Store)
			if !ok {
				return
			}
			if base, ok := fieldAddr(st.Addr, pkg, typ, field); ok {
				out = append(out, fieldStore{f, st, base})
			}
		})
	}
	return out
}

// fieldWrite is an assignment of a struct field: a plain store, or Store /
// Swap / CompareAndSwap of a sync/atomic typed field.
type fieldWrite struct {
	Fn     *ssa.Function
	At     ssa.Instruction
	Val    ssa.Value
	Base   ssa.Value
	Atomic bool
}

func fieldWrites(fns []*ssa.Function, pkg, typ, field string) []fieldWrite {
	var out []fieldWrite
	for _, fs := range fieldStores(fns, pkg, typ, field) {
		out = append(out, fieldWrite{fs.Fn, fs.Store, fs.Store.Val, fs.Base, false})
	}
	for _, f := range fns {
		for _, ci := range an.Calls(f) {
			cc := ci.Common()
			callee := cc.StaticCallee()
			if callee == nil || an.FuncPkgPath(callee) != "sync/atomic" || len(cc.Args) < 2 {
				continue
			}
			base, ok := fieldAddr(cc.Args[0], pkg, typ, field)
			if !ok {
				continue
			}
			switch callee.Name() {
			case "Store", "Swap":
				out = append(out, fieldWrite{f, ci, cc.Args[1], base, true})
			case "CompareAndSwap":
				if len(cc.Args) == 3 {
					out = append(out, fieldWrite{f, ci, cc.Args[2], base, true})
				}
			}
		}
	}
	return out
}

// atomicLoadOf: the call is Load() of the sync/atomic typed field pkg.typ.field.
func atomicLoadOf(cc *ssa.CallCommon, pkg, typ string) (field string, ok bool) {
	callee := cc.StaticCallee()
	if callee == nil || an.FuncPkgPath(callee) != "sync/atomic" || callee.Name() != "Load" || len(cc.Args) != 1 {
		return "", false
	}
	fa, isFA := cc.Args[0].(*ssa.FieldAddr)
	if !isFA || !an.TypeIs(fa.X.Type(), pkg, typ) {
		return "", false
	}
	return an.FieldAddrName(fa), true
}

// fieldAddrUses lists every FieldAddr of pkg.typ.field in the functions.
func fieldAddrUses(fns []*ssa.Function, pkg, typ, field string) []*ssa.FieldAddr {
	var out []*ssa.FieldAddr
	for _, f := range fns {
		an.Instrs(f, func(in ssa.Instruction) {
			if fa, ok := in.(*ssa.FieldAddr); ok {
				if an.TypeIs(fa.X.Type(), pkg, typ) && an.FieldAddrName(fa) == field {
					out = append(out, fa)
				}
			}
		})
	}
	return out
}

// callSites lists call instructions in fns whose common matches pred.
func callSites(fns []*ssa.Function, pred func(*ssa.CallCommon) bool) []ssa.CallInstruction {
	var out []ssa.CallInstruction
	for _, f := range fns {
		for _, c := range an.Calls(f) {
			if pred(c.Common()) {
				out = append(out, c)
			}
		}
	}
	return out
}

// syncOnlyFrom: fn runs only as part of root, synchronously: every call site
// of fn in the shipped functions is a plain call (no go, no defer) located in
// root or in a function for which the same holds; a closure counts through
// the place where its function literal is invoked.
func syncOnlyFrom(fn, root *ssa.Function, shipped []*ssa.Function, depth int) (bool, string) {
	if fn == root {
		return true, ""
	}
	if depth > 8 {
		return false, "call chain too deep"
	}
	var sites []ssa.CallInstruction
	if fn.Parent() != nil {
		// closure: where is the literal used?
		for _, b := range fn.Parent().Blocks {
			for _, in := range b.Instrs {
				mc, ok := in.(*ssa.MakeClosure)
				if !ok || mc.Fn != ssa.Value(fn) || mc.Referrers() == nil {
					continue
				}
				for _, ref := range *mc.Referrers() {
					if _, dbg := ref.(*ssa.DebugRef); dbg {
						continue
					}
					ci, ok := ref.(ssa.CallInstruction)
					if !ok || ci.Common().Value != ssa.Value(mc) {
						return false, "the function literal " + fname(fn) + " is stored or passed on"
					}
					sites = append(sites, ci)
				}
			}
		}
	} else {
		for _, g := range shipped {
			for _, ci := range an.Calls(g) {
				if an.StaticCallee(ci.Common()) == fn {
					sites = append(sites, ci)
				}
			}
		}
	}
	if len(sites) == 0 {
		return false, fname(fn) + " has no call site"
	}
	for _, ci := range sites {
		if !isCall(ci) {
			return false, fname(fn) + " is started with go / defer in " + fname(ci.Parent())
		}
		if ok, why := syncOnlyFrom(ci.Parent(), root, shipped, depth+1); !ok {
			if why == "" {
				why = fname(ci.Parent()) + " is not part of " + fname(root)
			}
			return false, why
		}
	}
	return true, ""
}

// checkLockRelease: every Lock / RLock taken in one of the functions is
// released on every path to the function's exit (by an Unlock / RUnlock call or
// a deferred one). A lock that stays held blocks every later user of the mutex
// for ever.
func (c *Ctx) checkLockRelease(rule string, fns []*ssa.Function, consequence string) int {
	n := 0
	for _, f := range fns {
		for _, ci := range an.Calls(f) {
			k, mu := an.LockOp(ci.Common())
			if (k != "Lock" && k != "RLock") || !isCall(ci) {
				continue
			}
			n++
			mp := an.MutexPath(mu)
			want := "Unlock"
			if k == "RLock" {
				want = "RUnlock"
			}
			unlock := func(in ssa.Instruction) bool {
				c2, ok := in.(ssa.CallInstruction)
				if !ok {
					return false
				}
				k2, m2 := an.LockOp(c2.Common())
				return k2 == want && an.MutexPath(m2) == mp && !isGo(c2)
			}
			w := an.Search(an.After(ci), an.IsReturn, unlock)
			c.R.Check(w == nil, rule, fname(f)+": "+k+" of "+mp+" released on every path", c.pos(ci), "every path from the "+k+" to a return passes "+want+" (or its defer)", mp+" is not released on some path: "+consequence)
		}
	}
	return n
}

func isStatic(pkg, name string) func(*ssa.CallCommon) bool {
	return func(c *ssa.CallCommon) bool { return an.CalleeIs(c, pkg, name) }
}

// nilErrReturn: the Return's result #idx is the nil constant.
func resultIsNil(ret *ssa.Return, idx int) bool {
	if idx >= len(ret.Results) {
		return false
	}
	return an.IsNilConst(an.Strip(ret.Results[idx]))
}

// errResultIndex returns the index of the (last) error result of fn, or -1.
func errResultIndex(fn *ssa.Function) int {
	rs := fn.Signature.Results()
	for i := rs.Len() - 1; i >= 0; i-- {
		if types.Identical(rs.At(i).Type(), types.Universe.Lookup("error").Type()) {
			return i
		}
	}
	return -1
}

// nick gives closures that play a structural role a stable name, so that
// obligation keys do not depend on go/ssa's closure numbering.
var nick = map[*ssa.Function]string{}

func fname(f *ssa.Function) string {
	if n, ok := nick[f]; ok {
		return n
	}
	if p := f.Parent(); p != nil {
		if n, ok := nick[p]; ok {
			return n + strings.TrimPrefix(f.Name(), p.Name())
		}
	}
	return an.ShortName(f)
}

func sortedKeys[M ~map[string]V, V any](m M) []string {
	var ks []string
	for k := range m {
		ks = append(ks, k)
	}
	sort.Strings(ks)
	return ks
}

func join(ss []string) string { return strings.Join(ss, ", ") }

func sprintf(f string, a ...any) string { return fmt.Sprintf(f, a...) }

// isGoOrDefer reports whether the call instruction is a go or defer.
func isGo(ci ssa.CallInstruction) bool    { _, ok := ci.(*ssa.Go); return ok }
func isDefer(ci ssa.CallInstruction) bool { _, ok := ci.(*ssa.Defer); return ok }
func isCall(ci ssa.CallInstruction) bool  { _, ok := ci.(*ssa.Call); return ok }

// describeTrail renders a witness path from an.Search.
func (c *Ctx) trail(w []ssa.Instruction) string {
	var parts []string
	for _, in := range w {
		parts = append(parts, c.pos(in))
	}
	if len(parts) > 8 {
		parts = append(parts[:4], append([]string{"..."}, parts[len(parts)-3:]...)...)
	}
	return strings.Join(parts, " -> ")
}

func sortFuncs(fs []*ssa.Function) {
	sort.Slice(fs, func(i, j int) bool { return an.FuncKey(fs[i]) < an.FuncKey(fs[j]) })
}

func sortStrings(s []string) { sort.Strings(s) }

// importRules runs another property's check as a sub-run and copies the
// obligations pick selects into this report under `rule` (a failed one with
// `consequence` appended). Sub-runs do not import in turn. Returns how many
// obligations were copied.
func (c *Ctx) importRules(run func(*Ctx), pick func(report.Obligation) bool, rule, consequence string) int {
	if c.Sub {
		return 0
	}
	tmp := &Ctx{P: c.P, R: report.New("tmp"), Tier: c.Tier, Sub: true}
	run(tmp)
	n := 0
	for _, o := range tmp.R.Obls {
		if !pick(o) {
			continue
		}
		n++
		if o.Status == report.Discharged {
			c.R.OK(rule, o.Construct, o.Pos, o.Detail)
		} else {
			c.R.Fail(rule, o.Construct, o.Pos, o.Detail+consequence)
		}
	}
	return n
}

// fld resolves a field the rules know by its name on the pinned tree
// (conn.requestsWg, Server.connWg, shutdownCtx, conn.mu) to the name it has in
// the program being analysed: the same name if the struct still has it,
// otherwise the field that plays the role structurally - the only
// sync.WaitGroup / context.Context field of the struct, or the connection's
// mutex that is not the response lock. A renamed field is the same field.
func fld(typ, name string) string {
	p := an.Current
	if p == nil {
		return name
	}
	if fldMemoProg != p {
		fldMemoProg, fldMemo = p, map[string]string{}
	}
	key := typ + "." + name
	if v, ok := fldMemo[key]; ok {
		return v
	}
	res := name
	defer func() { fldMemo[key] = res }()
	nt := p.NamedType(G, typ)
	if nt == nil {
		return res
	}
	st, ok := nt.Underlying().(*types.Struct)
	if !ok {
		return res
	}
	var byType = func(pkg, tn string, exclude map[string]bool) []string {
		var out []string
		for i := 0; i < st.NumFields(); i++ {
			f := st.Field(i)
			if an.TypeIs(f.Type(), pkg, tn) && !isPointer(f.Type()) && !exclude[f.Name()] || pkg == "context" && an.TypeIs(f.Type(), pkg, tn) {
				out = append(out, f.Name())
			}
		}
		return out
	}
	for i := 0; i < st.NumFields(); i++ {
		if st.Field(i).Name() == name {
			return res
		}
	}
	var cands []string
	switch key {
	case "conn.requestsWg", "Server.connWg":
		cands = byType("sync", "WaitGroup", nil)
	case "conn.shutdownCtx", "Server.shutdownCtx":
		cands = byType("context", "Context", nil)
	case "Mux.unbindRoute", "Mux.defaultRoute", "Mux.routes":
		// the Mux field the registration method of that name stores (appends) into
		reg := map[string]string{"Mux.unbindRoute": "(*Mux).Unbind", "Mux.defaultRoute": "(*Mux).DefaultRoute", "Mux.routes": "(*Mux).Bind"}[key]
		if f := p.Func(G, reg); f != nil {
			seen := map[string]bool{}
			an.Instrs(f, func(in ssa.Instruction) {
				if st, ok := in.(*ssa.Store); ok {
					if fa, ok := st.Addr.(*ssa.FieldAddr); ok && an.TypeIs(fa.X.Type(), G, "Mux") && !seen[an.FieldAddrName(fa)] {
						seen[an.FieldAddrName(fa)] = true
						cands = append(cands, an.FieldAddrName(fa))
					}
				}
			})
		}
	case "conn.mu":
		// the connection's mutexes minus the response lock (the one whose address is handed to newResponseWriter)
		excl := map[string]bool{"writerMu": true}
		for _, f := range p.FuncsOf(G) {
			for _, ci := range an.Calls(f) {
				if isNewRW(ci.Common()) && len(ci.Common().Args) > 1 {
					if fa, isFA := an.Strip(ci.Common().Args[1]).(*ssa.FieldAddr); isFA {
						excl[an.FieldAddrName(fa)] = true
					}
				}
			}
		}
		cands = append(byType("sync", "Mutex", excl), byType("sync", "RWMutex", excl)...)
	}
	if len(cands) == 1 {
		res = cands[0]
	}
	return res
}

var (
	fldMemoProg *an.Prog
	fldMemo     map[string]string
)

func init() { an.ForcedBranch = classifierForced }
