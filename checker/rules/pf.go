package rules

// Engine E2: enumeration of run-time panic sites in a slice of the program
// and their discharge by guard facts (forward must-dataflow over SSA with
// access-path keys, callee success summaries and functional-option contexts).

import (
	"fmt"
	"go/token"
	"go/types"
	"os"
	"regexp"
	"sort"
	"strconv"
	"strings"

	"gldapverif/an"

	"golang.org/x/tools/go/ssa"
)

// lin is a linear integer term: value = base + off; base == "" means constant.
type lin struct {
	base   string
	off    int64
	nonNeg bool // the base term is known to be >= 0
}

func (l lin) String() string {
	if l.base == "" {
		return fmt.Sprint(l.off)
	}
	if l.off == 0 {
		return l.base
	}
	return fmt.Sprintf("%s%+d", l.base, l.off)
}

// pfState is the set of facts known at a program point.
type pfState struct {
	lenGE  map[string][]lin  // len(key) >= each bound
	nonNil map[string]bool   // value at key is not nil
	dyn    map[string]string // interface value at key has this dynamic type
	eq     map[string]lin    // integer-typed value at key equals this constant / caller term
	ub     map[string][]lin  // loop variable (phi) at key <= each bound
	dead   bool              // unreachable (pruned)
}

func newState() *pfState {
	return &pfState{lenGE: map[string][]lin{}, nonNil: map[string]bool{}, dyn: map[string]string{}, eq: map[string]lin{}, ub: map[string][]lin{}}
}

func (s *pfState) clone() *pfState {
	o := newState()
	o.dead = s.dead
	for k, v := range s.lenGE {
		o.lenGE[k] = append([]lin(nil), v...)
	}
	for k, v := range s.ub {
		o.ub[k] = append([]lin(nil), v...)
	}
	for k := range s.nonNil {
		o.nonNil[k] = true
	}
	for k, v := range s.dyn {
		o.dyn[k] = v
	}
	for k, v := range s.eq {
		o.eq[k] = v
	}
	return o
}

func (s *pfState) addLen(key string, l lin) {
	for i, x := range s.lenGE[key] {
		if x.base == l.base {
			if l.off > x.off {
				s.lenGE[key][i].off = l.off
			}
			return
		}
	}
	s.lenGE[key] = append(s.lenGE[key], l)
}

func meet(a, b *pfState) *pfState {
	if a == nil || a.dead {
		if b == nil {
			return nil
		}
		return b.clone()
	}
	if b == nil || b.dead {
		return a.clone()
	}
	o := newState()
	for k, av := range a.lenGE {
		bv, ok := b.lenGE[k]
		if !ok {
			continue
		}
		for _, x := range av {
			for _, y := range bv {
				if x.base == y.base {
					m := x
					if y.off < m.off {
						m.off = y.off
					}
					o.lenGE[k] = append(o.lenGE[k], m)
				}
			}
		}
	}
	for k, av := range a.ub {
		for _, x := range av {
			for _, y := range b.ub[k] {
				if x.base == y.base {
					m := x
					if y.off > m.off {
						m.off = y.off
					}
					o.ub[k] = append(o.ub[k], m)
				}
			}
		}
	}
	for k := range a.nonNil {
		if b.nonNil[k] {
			o.nonNil[k] = true
		}
	}
	for k, v := range a.dyn {
		if b.dyn[k] == v {
			o.dyn[k] = v
		}
	}
	for k, v := range a.eq {
		if b.eq[k] == v {
			o.eq[k] = v
		}
	}
	return o
}

func (s *pfState) equal(o *pfState) bool {
	if s == nil || o == nil {
		return s == o
	}
	if s.dead != o.dead || len(s.lenGE) != len(o.lenGE) || len(s.nonNil) != len(o.nonNil) || len(s.dyn) != len(o.dyn) || len(s.eq) != len(o.eq) {
		return false
	}
	for k, v := range s.eq {
		if o.eq[k] != v {
			return false
		}
	}
	if len(s.ub) != len(o.ub) {
		return false
	}
	for k, v := range s.ub {
		w := o.ub[k]
		if len(v) != len(w) {
			return false
		}
		for _, x := range v {
			f := false
			for _, y := range w {
				if x.base == y.base && x.off == y.off {
					f = true
				}
			}
			if !f {
				return false
			}
		}
	}
	for k, v := range s.lenGE {
		w := o.lenGE[k]
		if len(v) != len(w) {
			return false
		}
		for _, x := range v {
			f := false
			for _, y := range w {
				if x.base == y.base && x.off == y.off {
					f = true
				}
			}
			if !f {
				return false
			}
		}
	}
	for k := range s.nonNil {
		if !o.nonNil[k] {
			return false
		}
	}
	for k, v := range s.dyn {
		if o.dyn[k] != v {
			return false
		}
	}
	return true
}

// killField removes facts whose key passes through a field with this name.
func (s *pfState) killField(name string, keepLen bool) {
	has := func(k string) bool {
		return strings.Contains(k, "."+name+".") || strings.HasSuffix(k, "."+name) || strings.Contains(k, "."+name+"[")
	}
	// bounds expressed in terms of the length of something reached through the field are stale in any case
	for k, ls := range s.lenGE {
		var kept []lin
		for _, l := range ls {
			if strings.HasPrefix(l.base, "len:") && has(strings.TrimPrefix(l.base, "len:")) {
				continue
			}
			kept = append(kept, l)
		}
		if len(kept) != len(ls) {
			if len(kept) == 0 {
				delete(s.lenGE, k)
			} else {
				s.lenGE[k] = kept
			}
		}
	}
	if !keepLen {
		for k := range s.lenGE {
			if has(k) {
				delete(s.lenGE, k)
			}
		}
	}
	for k := range s.nonNil {
		if has(k) {
			delete(s.nonNil, k)
		}
	}
	for k := range s.dyn {
		if has(k) {
			delete(s.dyn, k)
		}
	}
	for k := range s.eq {
		if has(k) {
			delete(s.eq, k)
		}
	}
}

// killPrefix removes facts about field `name` of the object whose key prefix is given.
func (s *pfState) killPrefix(prefix, name string) {
	has := func(k string) bool {
		return strings.HasPrefix(k, prefix+"."+name)
	}
	for k := range s.lenGE {
		if has(k) {
			delete(s.lenGE, k)
		}
	}
	for k := range s.nonNil {
		if has(k) {
			delete(s.nonNil, k)
		}
	}
	for k := range s.dyn {
		if has(k) {
			delete(s.dyn, k)
		}
	}
}

// optCtx is the functional-option context a callee is analysed in.
type optCtx struct {
	known  bool              // the caller's option list is a literal list
	fields map[string]optVal // options-struct field -> value
	sig    string
}

type optVal struct {
	kind   string // "paramAddr" | "param" | "const" | "conv"
	arg    lin    // integer value of the argument (caller side), when integral
	isInt  bool
	nilArg bool   // by-value pointer/interface argument that is the nil constant
	cst    string // exact constant for kind "const" ("true", "false", "3", "nil")
}

// pfSite is one potential run-time panic.
type pfSite struct {
	Fn     *ssa.Function
	Instr  ssa.Instruction
	Kind   string // index | slice | typeassert | nilderef | panic | makeslice | div | libpre
	Key    string // construct key (function + kind + access path)
	OK     bool
	Detail string
	Ctx    string
}

// pfEngine analyses a set of functions.
type pfEngine struct {
	c         *Ctx
	S         *optSummary
	sites     map[string]*pfSite // by Key(+ctx)
	order     []string
	summaries map[string]*pfSummary // fnKey|ctxsig -> success summary
	inProg    map[string]bool
	modFields map[*ssa.Function]map[string]bool
	flagFacts map[string]*pfState // "Type.field" -> facts (keys rooted at "$recv")
	analysed  map[*ssa.Function]bool
	exported  map[*ssa.Function]bool // entry functions whose parameters are caller-controlled
	newIntOK  map[string]bool        // accepted dynamic types of ber.NewInteger
	berTypes  map[int64]string       // universal primitive tag -> dynamic type of Packet.Value after ber.readPacket
	depth     int
	paramNil  map[*ssa.Parameter]bool // memo of paramMayBeNil
}

// pfSummary: facts guaranteed when the function returns a nil error (or, for
// functions without error result, on every return), over keys rooted at
// parameter names; plus which results are non-nil then.
type pfSummary struct {
	facts         *pfState
	resNonNil     map[int]bool
	resMayBeNil   map[int]bool // result i can be nil together with a nil error
	resNilOnErr   map[int]bool // result i is nil on some return that reports an error
	hasErr        bool
	paramNames    []string
	unconditional bool
}

func (c *Ctx) newPF() *pfEngine {
	e := &pfEngine{c: c, S: c.opts(), sites: map[string]*pfSite{}, summaries: map[string]*pfSummary{}, inProg: map[string]bool{},
		modFields: map[*ssa.Function]map[string]bool{}, flagFacts: map[string]*pfState{}, analysed: map[*ssa.Function]bool{}, exported: map[*ssa.Function]bool{}}
	e.newIntOK = e.extractNewIntegerTypes()
	memo := map[string]bool{}
	busy := map[string]bool{}
	paramNonNeg = func(p *ssa.Parameter, seen map[ssa.Value]bool) bool {
		f := p.Parent()
		if f == nil || !an.InModule(f) || f.Parent() != nil || f.Object() == nil || f.Object().Exported() {
			return false
		}
		idx := -1
		for i, q := range f.Params {
			if q == p {
				idx = i
			}
		}
		if idx < 0 {
			return false
		}
		sites := 0
		for _, g := range c.P.ModuleFuncs() {
			for _, b := range g.Blocks {
				for _, in := range b.Instrs {
					ci, isCall := in.(ssa.CallInstruction)
					if isCall && ci.Common().IsInvoke() && ci.Common().Method.Name() == f.Name() {
						return false // may be reached through an interface
					}
					for _, op := range in.Operands(nil) {
						if *op != ssa.Value(f) {
							continue
						}
						if !isCall || ci.Common().Value != ssa.Value(f) {
							return false // the function escapes as a value
						}
						if _, plain := in.(*ssa.Call); !plain {
							return false // go / defer: still a call, but keep the rule simple
						}
						for j, a := range ci.Common().Args {
							if a == ssa.Value(f) {
								return false
							}
							if j == idx && !nonNegValue(a, seen) {
								return false
							}
						}
						sites++
					}
				}
			}
		}
		return sites > 0
	}
	resultNonNeg = func(f *ssa.Function, i int) bool {
		k := an.FuncKey(f) + "#" + fmt.Sprint(i)
		if v, ok := memo[k]; ok {
			return v
		}
		if busy[k] {
			return false
		}
		busy[k] = true
		defer delete(busy, k)
		ok := true
		n := 0
		for _, ret := range an.Returns(f) {
			res := an.ReturnResults(ret)
			if i >= len(res) {
				ok = false
				break
			}
			n++
			if !nonNegValue(res[i], nil) {
				ok = false
			}
		}
		memo[k] = ok && n > 0
		return memo[k]
	}
	return e
}

// extractNewIntegerTypes reads the accepted dynamic types from the type
// switch of ber.NewInteger (library fact re-derived on every run).
func (e *pfEngine) extractNewIntegerTypes() map[string]bool {
	out := map[string]bool{}
	f := e.c.P.Func(an.PkgBer, "NewInteger")
	if f == nil {
		e.c.R.Fatal("ber.NewInteger not found")
		return out
	}
	var valueParam *ssa.Parameter
	for _, p := range f.Params {
		if p.Name() == "value" || types.IsInterface(p.Type()) {
			valueParam = p
		}
	}
	an.Instrs(f, func(in ssa.Instruction) {
		if ta, ok := in.(*ssa.TypeAssert); ok && ta.CommaOk && an.Strip(ta.X) == ssa.Value(valueParam) {
			out[types.TypeString(ta.AssertedType, nil)] = true
		}
	})
	hasPanic := false
	an.Instrs(f, func(in ssa.Instruction) {
		if _, ok := in.(*ssa.Panic); ok {
			hasPanic = true
		}
	})
	if len(out) < 4 || !hasPanic {
		e.c.R.Fatal("LIB-ber-newinteger: cannot re-derive the accepted types of ber.NewInteger (found %d, panic=%v)", len(out), hasPanic)
	}
	return out
}

// berValueTypes re-derives, from the source of ber.readPacket, which dynamic
// type Packet.Value has for a universal primitive packet of a given tag: the
// stores to p.Value that are control-dependent on `p.Tag == k` (switch arm)
// inside the `p.ClassType == ClassUniversal` branch. A tag is listed only if
// every store in its arm stores one and the same type unconditionally at the
// head of the arm.
func (e *pfEngine) berValueTypes() map[int64]string {
	if e.berTypes != nil {
		return e.berTypes
	}
	e.berTypes = map[int64]string{}
	f := e.c.P.Func(an.PkgBer, "readPacket")
	if f == nil {
		return e.berTypes
	}
	dom := func(b *ssa.BasicBlock) *ssa.BasicBlock { return b.Idom() }
	type arm struct {
		types map[string]bool
		cond  bool
	}
	arms := map[int64]*arm{}
	an.Instrs(f, func(in ssa.Instruction) {
		st, ok := in.(*ssa.Store)
		if !ok {
			return
		}
		fa, ok := st.Addr.(*ssa.FieldAddr)
		if !ok || an.FieldAddrName(fa) != "Value" || !an.TypeIs(fa.X.Type(), an.PkgBer, "Packet") {
			return
		}
		if c, ok := st.Val.(*ssa.Const); ok && c.IsNil() {
			return // p.Value = nil initialisation
		}
		mi, ok := st.Val.(*ssa.MakeInterface)
		if !ok {
			return
		}
		// nearest dominating `Tag == k` test taken on its true edge
		b := st.Block()
		direct := true
		for d := dom(b); d != nil; b, d = d, dom(d) {
			iff, ok := d.Instrs[len(d.Instrs)-1].(*ssa.If)
			if !ok {
				continue
			}
			bo, ok := iff.Cond.(*ssa.BinOp)
			if !ok || bo.Op != token.EQL {
				direct = false
				continue
			}
			k, isK := an.IntConst(bo.Y)
			ld, isLd := bo.X.(*ssa.UnOp)
			if !isK || !isLd {
				direct = false
				continue
			}
			tfa, ok := ld.X.(*ssa.FieldAddr)
			if !ok || an.FieldAddrName(tfa) != "Tag" {
				direct = false
				continue
			}
			if d.Succs[0] != b {
				// reached through the false edge: an earlier arm's test
				continue
			}
			a := arms[k]
			if a == nil {
				a = &arm{types: map[string]bool{}}
				arms[k] = a
			}
			a.types[types.TypeString(mi.X.Type(), nil)] = true
			if !direct {
				a.cond = true
			}
			return
		}
	})
	for k, a := range arms {
		if len(a.types) == 1 && !a.cond {
			for t := range a.types {
				e.berTypes[k] = t
			}
		}
	}
	// the facts the decode slice relies on; if the library no longer gives them, say so
	for k, want := range map[int64]string{1: "bool", 2: "int64", 4: "string", 10: "int64"} {
		if e.berTypes[k] != want {
			e.c.R.Fatal("LIB-ber-valuetypes: cannot re-derive from ber.readPacket that a universal primitive packet of tag %d carries a %s Value (derived %q)", k, want, e.berTypes[k])
		}
	}
	return e.berTypes
}

// ---------------------------------------------------------------- keys

func (e *pfEngine) key(v ssa.Value) string { return an.Path(v) }

// isRangeIndex: v = phi(-1, v)+1, the induction variable go/ssa builds for
// `for i := range s`.
func isRangeIndex(v ssa.Value) bool {
	x, ok := v.(*ssa.BinOp)
	if !ok || x.Op != token.ADD {
		return false
	}
	phi, ok := x.X.(*ssa.Phi)
	if !ok {
		return false
	}
	if k, ok := an.IntConst(x.Y); !ok || k != 1 {
		return false
	}
	for _, ed := range phi.Edges {
		if c, ok := an.IntConst(ed); ok && c == -1 {
			continue
		}
		if ed == ssa.Value(x) {
			continue
		}
		return false
	}
	return true
}

func isCountingPhi(p *ssa.Phi, seen map[ssa.Value]bool) bool {
	if seen[p] {
		return true
	}
	seen[p] = true
	for _, ed := range p.Edges {
		if !nonNegValue(ed, seen) {
			return false
		}
	}
	return true
}

// resultNonNeg is set by the engine: reports whether result #i of an
// in-module function is non-negative at every return.
var resultNonNeg func(f *ssa.Function, i int) bool

// paramNonNeg is set by the engine: reports whether an integer parameter of
// an unexported module function receives a non-negative value at every call
// site (the function must not escape as a value and must not be reachable
// through an interface).
var paramNonNeg func(p *ssa.Parameter, seen map[ssa.Value]bool) bool

func nonNegValue(v ssa.Value, seen map[ssa.Value]bool) bool {
	if seen == nil {
		seen = map[ssa.Value]bool{}
	}
	v = an.Strip(v)
	if p, ok := v.(*ssa.Parameter); ok && paramNonNeg != nil && isIntType(p.Type()) {
		if seen[v] {
			return false
		}
		seen[v] = true
		return paramNonNeg(p, seen)
	}
	if ex, ok := v.(*ssa.Extract); ok && resultNonNeg != nil {
		if call, ok := ex.Tuple.(*ssa.Call); ok {
			if f := call.Common().StaticCallee(); f != nil && an.InModule(f) && len(f.Blocks) > 0 {
				return resultNonNeg(f, ex.Index)
			}
		}
	}
	if k, ok := an.IntConst(v); ok {
		return k >= 0
	}
	if b, ok := v.Type().Underlying().(*types.Basic); ok && b.Info()&types.IsUnsigned != 0 {
		return true
	}
	switch x := v.(type) {
	case *ssa.Call:
		if b, ok := x.Common().Value.(*ssa.Builtin); ok && (b.Name() == "len" || b.Name() == "cap") {
			return true
		}
	case *ssa.Convert:
		if b, ok := x.X.Type().Underlying().(*types.Basic); ok && b.Info()&types.IsUnsigned != 0 {
			// widening from unsigned (uint8 -> int): stays non-negative when the target is wider
			if tb, ok := x.Type().Underlying().(*types.Basic); ok && (tb.Kind() == types.Int || tb.Kind() == types.Int64 || tb.Kind() == types.Int32 && b.Kind() != types.Uint32 && b.Kind() != types.Uint64 && b.Kind() != types.Uint) {
				if b.Kind() == types.Uint8 || b.Kind() == types.Uint16 || (b.Kind() == types.Uint32 && tb.Kind() != types.Int32) {
					return true
				}
			}
		}
		return false
	case *ssa.BinOp:
		switch x.Op {
		case token.ADD:
			// range index: phi(-1, self)+1
			if phi, ok := x.X.(*ssa.Phi); ok {
				if k, ok := an.IntConst(x.Y); ok && k == 1 {
					allOK := true
					for _, ed := range phi.Edges {
						if c, ok := an.IntConst(ed); ok && c >= -1 {
							continue
						}
						if ed == ssa.Value(x) {
							continue
						}
						allOK = false
					}
					if allOK {
						return true
					}
				}
			}
			return nonNegValue(x.X, seen) && nonNegValue(x.Y, seen)
		case token.AND:
			if k, ok := an.IntConst(x.Y); ok && k >= 0 {
				return true
			}
			if k, ok := an.IntConst(x.X); ok && k >= 0 {
				return true
			}
		case token.MUL:
			return nonNegValue(x.X, seen) && nonNegValue(x.Y, seen)
		}
	case *ssa.Phi:
		again := seen[x]
		if isCountingPhi(x, seen) {
			return true
		}
		if again {
			return false
		}
		delete(seen, x)
		// a clamp: `if v < 0 { v = 0 }` - every edge is a non-negative value, or carries v along the edge where
		// `v < 0` was just found false (`v >= 0` true)
		if seen[x] {
			return false
		}
		seen[x] = true
		for i, e := range x.Edges {
			if i >= len(x.Block().Preds) {
				return false
			}
			if k, ok := an.IntConst(e); ok {
				if k < 0 {
					return false
				}
				continue
			}
			p := x.Block().Preds[i]
			okEdge := false
			facts := an.BranchFacts(p)
			if len(p.Instrs) > 0 {
				if iff, isIf := p.Instrs[len(p.Instrs)-1].(*ssa.If); isIf && p.Succs[0] != p.Succs[1] {
					facts = append(facts, an.EdgeCond{Cond: iff.Cond, True: p.Succs[0] == x.Block()})
				}
			}
			for _, f := range facts {
				cond, neg := an.Not(f.Cond)
				bo, isB := cond.(*ssa.BinOp)
				if !isB {
					continue
				}
				truth := f.True != neg
				kY, isKY := an.IntConst(bo.Y)
				if an.Strip(bo.X) == an.Strip(e) && isKY {
					if bo.Op == token.LSS && kY <= 0 && !truth || bo.Op == token.GEQ && kY >= 0 && truth || bo.Op == token.GTR && kY >= -1 && truth || bo.Op == token.LEQ && kY < 0 && !truth {
						okEdge = true
					}
				}
			}
			if !okEdge && !nonNegValue(e, seen) {
				return false
			}
		}
		return true
	}
	return false
}

// ---------------------------------------------------------------- function analysis

type pfRun struct {
	e        *pfEngine
	fn       *ssa.Function
	ctx      *optCtx
	in       map[*ssa.BasicBlock]*pfState
	optsV    map[ssa.Value]bool // values that denote the options struct (getter result / its local copy)
	check    bool
	entry    *pfState
	liveEdge map[[2]*ssa.BasicBlock]bool // CFG edges that can be taken under the option context
	phiAlias map[*ssa.Phi]ssa.Value      // phis with a single live incoming edge
	inIdx    bool
	phiOf    map[string]*ssa.Phi // key -> loop variable (registered by evalInt)
}

// key is the access-path key of a value; under an option context a phi with
// exactly one live incoming edge denotes that operand.
func (r *pfRun) key(v ssa.Value) string {
	if len(r.phiAlias) > 0 {
		old := an.PhiHook
		an.PhiHook = func(p *ssa.Phi) ssa.Value { return r.phiAlias[p] }
		defer func() { an.PhiHook = old }()
	}
	if r.ctx != nil && r.ctx.known && !r.inIdx {
		old := an.IdxHook
		an.IdxHook = func(iv ssa.Value) (string, bool) {
			r.inIdx = true
			defer func() { r.inIdx = false }()
			if l := r.evalInt(iv, nil); l.base == "" {
				return fmt.Sprint(l.off), true
			}
			return "", false
		}
		defer func() { an.IdxHook = old }()
	}
	return an.Path(v)
}

func (e *pfEngine) analyse(fn *ssa.Function, ctx *optCtx, entry *pfState, check bool) *pfRun {
	r := &pfRun{e: e, fn: fn, ctx: ctx, in: map[*ssa.BasicBlock]*pfState{}, optsV: map[ssa.Value]bool{}, entry: entry}
	if len(fn.Blocks) == 0 {
		return r
	}
	r.findOptsValues()
	if entry == nil {
		entry = newState()
	}
	r.fixpoint(entry)
	if ctx != nil && ctx.known {
		// second pass under the option context: a phi whose other incoming
		// edges are infeasible under the context denotes its one live operand
		// (e.g. chkPacket in (*packet).assert once withAssertChild is known).
		alias := map[*ssa.Phi]ssa.Value{}
		for _, b := range fn.Blocks {
			if r.in[b] == nil {
				continue
			}
			for _, in := range b.Instrs {
				phi, ok := in.(*ssa.Phi)
				if !ok {
					break
				}
				var live []ssa.Value
				for i, p := range b.Preds {
					if r.in[p] != nil && r.liveEdge[[2]*ssa.BasicBlock{p, b}] {
						live = append(live, phi.Edges[i])
					}
				}
				if len(live) == 1 && len(phi.Edges) > 1 {
					alias[phi] = live[0]
				}
			}
		}
		if len(alias) > 0 {
			r.phiAlias = alias
			r.in = map[*ssa.BasicBlock]*pfState{}
			r.fixpoint(entry)
		}
	}
	if check {
		r.check = true
		for _, b := range fn.Blocks {
			if st := r.in[b]; st != nil && !st.dead {
				r.transfer(b, st.clone(), true)
			}
		}
	}
	return r
}

func (r *pfRun) fixpoint(entry *pfState) {
	fn := r.fn
	r.liveEdge = map[[2]*ssa.BasicBlock]bool{}
	r.in[fn.Blocks[0]] = entry.clone()
	work := []*ssa.BasicBlock{fn.Blocks[0]}
	inWork := map[*ssa.BasicBlock]bool{fn.Blocks[0]: true}
	iter := 0
	for len(work) > 0 && iter < 5000 {
		iter++
		b := work[0]
		work = work[1:]
		inWork[b] = false
		st := r.in[b]
		if st == nil {
			continue
		}
		outs := r.transfer(b, st.clone(), false)
		for i, s := range b.Succs {
			if i >= len(outs) || outs[i] == nil || outs[i].dead {
				continue
			}
			r.liveEdge[[2]*ssa.BasicBlock{b, s}] = true
			var ns *pfState
			if old := r.in[s]; old == nil {
				ns = outs[i]
			} else {
				ns = meet(old, outs[i])
			}
			if r.in[s] == nil || !ns.equal(r.in[s]) {
				r.in[s] = ns
				if !inWork[s] {
					work = append(work, s)
					inWork[s] = true
				}
			}
		}
	}
}

// findOptsValues marks the getter call result and local copies of it.
func (r *pfRun) findOptsValues() {
	an.Instrs(r.fn, func(in ssa.Instruction) {
		call, ok := in.(*ssa.Call)
		if !ok {
			return
		}
		if g := r.e.S.Getters[call.Common().StaticCallee()]; g != nil && g.OK {
			// only when the getter is given this function's own variadic parameter
			if len(r.fn.Params) > 0 && call.Common().Args[len(call.Common().Args)-1] == ssa.Value(r.fn.Params[len(r.fn.Params)-1]) {
				r.optsV[call] = true
				for _, ref := range *call.Referrers() {
					if st, ok := ref.(*ssa.Store); ok && st.Val == ssa.Value(call) {
						if al, ok := st.Addr.(*ssa.Alloc); ok {
							r.optsV[al] = true
						}
					}
				}
			}
		}
	})
}

// optsDefaultSets: the defaults function of this function's option getter gives field f a non-zero default.
func (r *pfRun) optsDefaultSets(f string) bool {
	found := false
	an.Instrs(r.fn, func(in ssa.Instruction) {
		call, ok := in.(*ssa.Call)
		if !ok {
			return
		}
		if g := r.e.S.Getters[call.Common().StaticCallee()]; g != nil {
			if _, has := g.Defaults[f]; has {
				found = true
			}
		}
	})
	return found
}

// optsField: v is a load of field F of the options struct; returns F.
func (r *pfRun) optsField(v ssa.Value) (string, bool) {
	switch x := v.(type) {
	case *ssa.UnOp:
		if x.Op != token.MUL {
			return "", false
		}
		if fa, ok := x.X.(*ssa.FieldAddr); ok && r.optsV[fa.X] {
			return an.FieldAddrName(fa), true
		}
	case *ssa.Field:
		if r.optsV[x.X] {
			return an.FieldValName(x), true
		}
	}
	return "", false
}

// evalInt turns an integer-valued SSA value into a linear term.
func (r *pfRun) evalInt(v ssa.Value, st *pfState) lin {
	if k, ok := an.IntConst(v); ok {
		return lin{"", k, true}
	}
	if isRangeIndex(v) {
		return lin{r.key(v), 0, true}
	}
	switch x := v.(type) {
	case *ssa.BinOp:
		switch x.Op {
		case token.ADD:
			if k, ok := an.IntConst(x.Y); ok {
				l := r.evalInt(x.X, st)
				l.off += k
				return l
			}
			if k, ok := an.IntConst(x.X); ok {
				l := r.evalInt(x.Y, st)
				l.off += k
				return l
			}
		case token.SUB:
			if k, ok := an.IntConst(x.Y); ok {
				l := r.evalInt(x.X, st)
				l.off -= k
				return l
			}
		}
	case *ssa.Call:
		if b, ok := x.Common().Value.(*ssa.Builtin); ok && b.Name() == "len" {
			return lin{"len:" + r.key(x.Common().Args[0]), 0, true}
		}
	case *ssa.UnOp:
		if x.Op == token.MUL {
			// *opts.f with a known context
			if f, ok := r.optsField(x.X); ok && r.ctx != nil && r.ctx.known {
				if ov, ok := r.ctx.fields[f]; ok && ov.kind == "paramAddr" && ov.isInt {
					return ov.arg
				}
			}
		}
		if f, ok := r.optsField(x); ok && r.ctx != nil && r.ctx.known {
			if ov, ok := r.ctx.fields[f]; ok && (ov.kind == "param" || ov.kind == "conv" || ov.kind == "const") && ov.isInt {
				return ov.arg
			}
		}
	case *ssa.Convert:
		if bt, ok := x.Type().Underlying().(*types.Basic); ok && bt.Info()&types.IsInteger != 0 {
			if bx, ok := x.X.Type().Underlying().(*types.Basic); ok && bx.Info()&types.IsInteger != 0 {
				if k, ok := an.IntConst(x.X); ok {
					return lin{"", k, k >= 0}
				}
			}
		}
	}
	sv := an.Strip(v)
	if sv != v {
		return r.evalInt(sv, st)
	}
	if phi, isPhi := v.(*ssa.Phi); isPhi {
		if r.phiOf == nil {
			r.phiOf = map[string]*ssa.Phi{}
		}
		r.phiOf[r.key(v)] = phi
	}
	return lin{r.key(v), 0, nonNegValue(v, nil)}
}

// knownNil evaluates `x` (pointer/interface) under the option context:
// returns (isNil, known).
func (r *pfRun) knownNil(x ssa.Value) (bool, bool) {
	if r.ctx == nil || !r.ctx.known {
		return false, false
	}
	if f, ok := r.optsField(x); ok {
		ov, set := r.ctx.fields[f]
		if !set {
			// default: zero value unless the defaults literal sets it (non-pointer defaults only in this code base)
			if isNilable(x.Type()) {
				return true, true
			}
			return false, false
		}
		switch ov.kind {
		case "paramAddr":
			return false, true
		case "param":
			if ov.nilArg {
				return true, true
			}
		}
	}
	return false, false
}

func isNilable(t types.Type) bool {
	switch t.Underlying().(type) {
	case *types.Pointer, *types.Interface, *types.Map, *types.Slice, *types.Chan, *types.Signature:
		return true
	}
	return false
}

// applyCond adds the facts implied by cond == truth; returns false if the
// edge is infeasible under the option context.
func (r *pfRun) applyCond(st *pfState, cond ssa.Value, truth bool) bool {
	switch x := cond.(type) {
	case *ssa.UnOp:
		if x.Op == token.NOT {
			return r.applyCond(st, x.X, !truth)
		}
		if x.Op == token.MUL {
			// a bool field of the options struct under a known option context: set to a constant by an option
			// of the call, or left at its zero value
			if f, ok := r.optsField(x); ok && r.ctx != nil && r.ctx.known {
				if bt, isB := x.Type().Underlying().(*types.Basic); isB && bt.Kind() == types.Bool {
					if ov, set := r.ctx.fields[f]; set {
						if ov.kind == "const" && (ov.cst == "true" || ov.cst == "false") {
							return (ov.cst == "true") == truth
						}
					} else if !r.optsDefaultSets(f) {
						return !truth // zero value: false
					}
				}
			}
			// boolean flag field, e.g. p.validated
			if base, name, ok := an.LoadField(x); ok && truth {
				if nt := an.StructOf(base.Type()); nt != nil {
					if ff := r.e.flagFacts[nt.Obj().Name()+"."+name]; ff != nil {
						r.instantiate(st, ff, map[string]string{"$recv": r.key(base)}, nil)
					}
				}
			}
		}
	case *ssa.Extract:
		if x.Index == 1 {
			if ta, ok := x.Tuple.(*ssa.TypeAssert); ok && ta.CommaOk && truth {
				st.dyn[r.key(ta.X)] = types.TypeString(ta.AssertedType, nil)
			}
		}
	case *ssa.BinOp:
		// nil comparisons
		if y, trueMeansNil, ok := an.NilCheck(x); ok {
			if isNil, known := r.knownNil(y); known {
				if (isNil == trueMeansNil) != truth {
					return false
				}
				return true
			}
			isNilNow := truth == trueMeansNil
			// error result of a call: apply callee summary on err == nil
			if ex, ok := an.Strip(y).(*ssa.Extract); ok {
				if call, ok := ex.Tuple.(*ssa.Call); ok && isErrorType(ex.Type()) && isNilNow {
					r.applySummary(st, call)
					// a library call (ber.ReadPacket, x509 / tls constructors): the contract "a nil error comes with a usable
					// value" is trusted, as everywhere else in E2 (such values are never nullable by design)
					if f := call.Common().StaticCallee(); f == nil && call.Common().IsInvoke() || f != nil && !an.InModule(f) {
						if refs := call.Referrers(); refs != nil {
							for _, ref := range *refs {
								if sib, isEx := ref.(*ssa.Extract); isEx && sib != ex && isNilable(sib.Type()) {
									st.nonNil[r.key(sib)] = true
								}
							}
						}
					}
				}
			} else if call, ok := an.Strip(y).(*ssa.Call); ok && isErrorType(call.Type()) && isNilNow {
				r.applySummary(st, call)
			}
			if !isNilNow {
				st.nonNil[r.key(y)] = true
			}
			return true
		}
		switch x.Op {
		case token.LSS, token.LEQ, token.GTR, token.GEQ, token.EQL, token.NEQ:
			if !isIntType(x.X.Type()) {
				return true
			}
			a, b := r.evalInt(x.X, st), r.evalInt(x.Y, st)
			op := x.Op
			if !truth {
				op = negate(op)
			}
			// constant folding under context
			if a.base == "" && b.base == "" {
				if !cmp(a.off, op, b.off) {
					return false
				}
				return true
			}
			r.lenFact(st, a, op, b)
			r.lenFact(st, b, flip(op), a)
			r.ubFact(st, x.X, a, op, b)
			r.ubFact(st, x.Y, b, flip(op), a)
			if op == token.EQL {
				r.eqFact(st, a, b)
				r.eqFact(st, b, a)
			}
		}
	}
	return true
}

func isIntType(t types.Type) bool {
	b, ok := t.Underlying().(*types.Basic)
	return ok && b.Info()&types.IsInteger != 0
}

func negate(op token.Token) token.Token {
	switch op {
	case token.LSS:
		return token.GEQ
	case token.LEQ:
		return token.GTR
	case token.GTR:
		return token.LEQ
	case token.GEQ:
		return token.LSS
	case token.EQL:
		return token.NEQ
	case token.NEQ:
		return token.EQL
	}
	return op
}

func flip(op token.Token) token.Token {
	switch op {
	case token.LSS:
		return token.GTR
	case token.LEQ:
		return token.GEQ
	case token.GTR:
		return token.LSS
	case token.GEQ:
		return token.LEQ
	}
	return op
}

func cmp(a int64, op token.Token, b int64) bool {
	switch op {
	case token.LSS:
		return a < b
	case token.LEQ:
		return a <= b
	case token.GTR:
		return a > b
	case token.GEQ:
		return a >= b
	case token.EQL:
		return a == b
	case token.NEQ:
		return a != b
	}
	return true
}

// eqFact records "the integer at key a.base equals b" (b a constant, a
// parameter of this function or a caller-side term).
func (r *pfRun) eqFact(st *pfState, a, b lin) {
	if a.base == "" || a.off != 0 || strings.HasPrefix(a.base, "len:") || strings.HasPrefix(a.base, "caller:") {
		return
	}
	if strings.HasPrefix(b.base, "len:") {
		return
	}
	st.eq[a.base] = b
	r.deriveDyn(st, a.base)
}

// deriveDyn: once class, type and tag of a ber packet N are known constants,
// the dynamic type of N.Value follows from how ber.readPacket fills it (table
// re-derived from the library source on every run, see berValueTypes).
func (r *pfRun) deriveDyn(st *pfState, k string) {
	i := strings.LastIndex(k, ".Identifier.")
	if i < 0 {
		return
	}
	N := k[:i]
	get := func(f string) (int64, bool) {
		l, ok := st.eq[N+".Identifier."+f]
		if !ok || l.base != "" {
			return 0, false
		}
		return l.off, true
	}
	cl, ok1 := get("ClassType")
	ty, ok2 := get("TagType")
	tg, ok3 := get("Tag")
	if !ok1 || !ok2 || !ok3 || cl != 0 || ty != 0 {
		return
	}
	if t, ok := r.e.berValueTypes()[tg]; ok {
		st.dyn[N+".Value"] = t
	}
}

// lenFact: from `a op b` with a = len(S)+k derive a lower bound on len(S).
func (r *pfRun) lenFact(st *pfState, a lin, op token.Token, b lin) {
	if !strings.HasPrefix(a.base, "len:") {
		return
	}
	S := strings.TrimPrefix(a.base, "len:")
	switch op {
	case token.GTR:
		st.addLen(S, lin{b.base, b.off + 1 - a.off, b.nonNeg})
	case token.GEQ, token.EQL:
		st.addLen(S, lin{b.base, b.off - a.off, b.nonNeg})
	case token.NEQ:
		if b.base == "" && b.off-a.off == 0 {
			st.addLen(S, lin{"", 1, true})
		}
	}
}

// ubFact records an upper bound of a loop variable: `i < e` / `i <= e` on the
// edge taken, for i a phi (an SSA value: the bound holds wherever the fact
// reaches) and e a constant, a parameter-like SSA value or the length of one
// (nothing that a store could change).
func (r *pfRun) ubFact(st *pfState, av ssa.Value, a lin, op token.Token, b lin) {
	// the bounded value must be an SSA value that no store can change: a loop variable, a parameter, a call result
	// (or a conversion of one); its key is then a plain SSA name
	pure := false
	switch x := an.Strip(av).(type) {
	case *ssa.Phi, *ssa.Parameter, *ssa.Call, *ssa.Extract:
		pure = true
	case *ssa.Convert:
		switch x.X.(type) {
		case *ssa.Phi, *ssa.Parameter, *ssa.Call, *ssa.Extract:
			pure = true
		}
	}
	if !pure || a.base == "" || strings.HasPrefix(a.base, "len:") || strings.Contains(a.base, ".") || strings.Contains(b.base, ".") {
		return
	}
	var u lin
	switch op {
	case token.LSS:
		u = lin{b.base, b.off - 1 - a.off, b.nonNeg}
	case token.LEQ, token.EQL:
		u = lin{b.base, b.off - a.off, b.nonNeg}
	default:
		return
	}
	for i, x := range st.ub[a.base] {
		if x.base == u.base {
			if u.off < x.off {
				st.ub[a.base][i].off = u.off
			}
			return
		}
	}
	st.ub[a.base] = append(st.ub[a.base], u)
}

// constIntExpr: an integer constant, or a sum / difference of constants that
// go/ssa left unfolded (`read++` on a variable known to be 0).
func constIntExpr(v ssa.Value) (int64, bool) {
	if k, ok := an.IntConst(v); ok {
		return k, true
	}
	if bo, ok := v.(*ssa.BinOp); ok && (bo.Op == token.ADD || bo.Op == token.SUB) {
		a, okA := constIntExpr(bo.X)
		b, okB := constIntExpr(bo.Y)
		if okA && okB {
			if bo.Op == token.ADD {
				return a + b, true
			}
			return a - b, true
		}
	}
	return 0, false
}

// lockstep: phis of the same loop header that start at constants and are
// both incremented by one on every back edge differ by a constant:
// returns q and d with p == q + d for every such partner q of p.
func lockstep(p *ssa.Phi) map[*ssa.Phi]int64 {
	out := map[*ssa.Phi]int64{}
	shape := func(x *ssa.Phi) (init int64, ok bool) {
		hasInit, hasInc := false, false
		for _, e := range x.Edges {
			if k, isK := constIntExpr(e); isK {
				if hasInit && k != init {
					return 0, false
				}
				init, hasInit = k, true
				continue
			}
			bo, isB := e.(*ssa.BinOp)
			if !isB || bo.Op != token.ADD || bo.X != ssa.Value(x) {
				return 0, false
			}
			if k, isK := an.IntConst(bo.Y); !isK || k != 1 {
				return 0, false
			}
			hasInc = true
		}
		return init, hasInit && hasInc
	}
	pi, ok := shape(p)
	if !ok {
		return out
	}
	for _, in := range p.Block().Instrs {
		q, isPhi := in.(*ssa.Phi)
		if !isPhi || q == p || len(q.Edges) != len(p.Edges) {
			continue
		}
		qi, ok := shape(q)
		if !ok {
			continue
		}
		same := true
		for i := range p.Edges {
			_, pc := constIntExpr(p.Edges[i])
			_, qc := constIntExpr(q.Edges[i])
			if pc != qc {
				same = false
			}
		}
		if same {
			out[q] = pi - qi
		}
	}
	return out
}

// transfer runs a block; returns the state on each successor edge.
func (r *pfRun) transfer(b *ssa.BasicBlock, st *pfState, check bool) []*pfState {
	for _, in := range b.Instrs {
		if check {
			r.checkInstr(in, st)
		}
		switch x := in.(type) {
		case *ssa.Store:
			r.doStore(x, st)
		case ssa.CallInstruction:
			r.doCallKills(x, st)
			if call, ok := x.(*ssa.Call); ok {
				r.doCallFacts(call, st)
			}
		case *ssa.Slice:
			// len(x[lo:]) >= len(x) - lo for constant lo
			lo := int64(0)
			okLo := true
			if x.Low != nil {
				lo, okLo = an.IntConst(x.Low)
			}
			if okLo && x.High == nil {
				for _, l := range st.lenGE[r.key(x.X)] {
					if l.base == "" {
						st.addLen(r.key(x), lin{"", l.off - lo, true})
					}
				}
			}
			// slicing a pointer to an array (what `make([]T, N)` with a constant N compiles to): the result has
			// exactly high-low elements, high defaulting to the array length
			if pt, isPtr := x.X.Type().Underlying().(*types.Pointer); isPtr && okLo {
				if at, isArr := pt.Elem().Underlying().(*types.Array); isArr {
					hi, okHi := at.Len(), true
					if x.High != nil {
						hi, okHi = an.IntConst(x.High)
					}
					if okHi && hi-lo > 0 {
						st.addLen(r.key(x), lin{"", hi - lo, true})
					}
				}
			}
		case *ssa.MakeSlice:
			// len(make([]T, n)) == n
			if l := r.evalInt(x.Len, st); l.base != "" || l.off > 0 {
				st.addLen(r.key(x), l)
			}
		case *ssa.Alloc, *ssa.MakeClosure, *ssa.MakeMap, *ssa.MakeChan, *ssa.MakeInterface:
		}
	}
	outs := make([]*pfState, len(b.Succs))
	if len(b.Instrs) == 0 {
		return outs
	}
	switch last := b.Instrs[len(b.Instrs)-1].(type) {
	case *ssa.If:
		t, f := st.clone(), st.clone()
		if !r.applyCond(t, last.Cond, true) {
			t.dead = true
		}
		if !r.applyCond(f, last.Cond, false) {
			f.dead = true
		}
		outs[0], outs[1] = t, f
	case *ssa.Jump:
		outs[0] = st
	}
	return outs
}

func (r *pfRun) doStore(x *ssa.Store, st *pfState) {
	switch a := x.Addr.(type) {
	case *ssa.FieldAddr:
		name := an.FieldAddrName(a)
		keepLen := false
		// x.f = append(x.f, ...) only grows
		if call, ok := x.Val.(*ssa.Call); ok {
			if b, ok := call.Common().Value.(*ssa.Builtin); ok && b.Name() == "append" {
				if ld, ok := call.Common().Args[0].(*ssa.UnOp); ok && ld.Op == token.MUL {
					if fa2, ok := ld.X.(*ssa.FieldAddr); ok && an.FieldAddrName(fa2) == name && r.key(fa2.X) == r.key(a.X) {
						keepLen = true
					}
				}
			}
		}
		key := strings.TrimPrefix(an.Path(a), "&")
		if al, isLocal := an.CellRoot(a.X).(*ssa.Alloc); isLocal {
			// a store into a struct allocated in this function can only affect keys rooted at that allocation
			st.killPrefix("alloc:"+an.ValueID(al), name)
		} else {
			st.killField(name, keepLen)
		}
		if r.valueNonNil(x.Val, st) {
			st.nonNil[key] = true
		}
		if ms, ok := x.Val.(*ssa.MakeSlice); ok {
			if l := r.evalInt(ms.Len, st); l.base != "" || l.off > 0 {
				st.addLen(key, l)
			}
		}
	case *ssa.IndexAddr:
		// element store: affects no tracked fact
	}
}

// valueNonNil: v is certainly not nil.
func (r *pfRun) valueNonNil(v ssa.Value, st *pfState) bool {
	sv := an.Strip(v)
	switch x := sv.(type) {
	case *ssa.Alloc, *ssa.MakeClosure, *ssa.Function, *ssa.MakeMap, *ssa.MakeSlice, *ssa.MakeChan, *ssa.FieldAddr, *ssa.IndexAddr, *ssa.Global:
		return true
	case *ssa.MakeInterface:
		return true
	case *ssa.Const:
		return !x.IsNil()
	case *ssa.Call:
		if f := x.Common().StaticCallee(); f != nil && an.InModule(f) {
			sum := r.e.summary(f, nil)
			if sum != nil && !sum.hasErr && sum.resNonNil[0] {
				return true
			}
		}
	}
	if _, ok := v.(*ssa.MakeInterface); ok {
		return true
	}
	if st.nonNil[r.key(v)] {
		return true
	}
	return false
}

// doCallKills removes facts invalidated by what the callee may store.
func (r *pfRun) doCallKills(ci ssa.CallInstruction, st *pfState) {
	cc := ci.Common()
	var callees []*ssa.Function
	if f := an.StaticCallee(cc); f != nil {
		callees = append(callees, f)
	} else if cc.IsInvoke() {
		callees = r.e.chaTargets(cc)
	} else if _, isB := cc.Value.(*ssa.Builtin); isB {
		return
	} else {
		// dynamic call of a function value (handler / option closure): option closures only store into option structs
		callees = r.e.dynTargets(cc)
	}
	for _, f := range callees {
		for name := range r.e.mods(f) {
			st.killField(name, name == "Children" && r.e.onlyGrowsChildren(f))
		}
	}
}

// doCallFacts: facts available right after a call irrespective of error
// tests (functions without an error result).
func (r *pfRun) doCallFacts(call *ssa.Call, st *pfState) {
	f := call.Common().StaticCallee()
	if f == nil || !an.InModule(f) {
		return
	}
	if errResultIndex(f) >= 0 {
		return
	}
	r.applySummary(st, call)
}

// applySummary instantiates the callee's success summary at a call.
func (r *pfRun) applySummary(st *pfState, call *ssa.Call) {
	f := call.Common().StaticCallee()
	if f == nil || !an.InModule(f) || len(f.Blocks) == 0 {
		return
	}
	ctx := r.ctxFor(call, st)
	sum := r.e.summary(f, ctx)
	if sum == nil {
		return
	}
	subst := map[string]string{}
	substInt := map[string]lin{}
	for i, p := range f.Params {
		if i < len(call.Common().Args) {
			a := call.Common().Args[i]
			subst[p.Name()] = r.key(a)
			if isIntType(a.Type()) {
				substInt[p.Name()] = r.evalInt(a, st)
			}
		}
	}
	r.instantiate(st, sum.facts, subst, substInt)
	for i := range sum.resNonNil {
		if f.Signature.Results().Len() == 1 {
			st.nonNil[r.key(call)] = true
		} else {
			st.nonNil[fmt.Sprintf("%s#%d", r.key(call), i)] = true
		}
	}
}

// instantiate copies facts whose keys are rooted at a substituted name.
func (r *pfRun) instantiate(st *pfState, facts *pfState, subst map[string]string, substInt map[string]lin) {
	if facts == nil {
		return
	}
	tr := func(k string) (string, bool) {
		for from, to := range subst {
			if k == from {
				return to, true
			}
			if strings.HasPrefix(k, from+".") || strings.HasPrefix(k, from+"[") {
				return r.canon(to, k[len(from):]), true
			}
		}
		return "", false
	}
	for k, ls := range facts.lenGE {
		if nk, ok := tr(k); ok {
			for _, l := range ls {
				if l.base == "" {
					st.addLen(nk, l)
				} else if strings.HasPrefix(l.base, "caller:") {
					st.addLen(nk, lin{strings.TrimPrefix(l.base, "caller:"), l.off, l.nonNeg})
				}
			}
		}
	}
	for k := range facts.nonNil {
		if nk, ok := tr(k); ok {
			st.nonNil[nk] = true
		}
	}
	for k, v := range facts.dyn {
		if nk, ok := tr(k); ok {
			st.dyn[nk] = v
		}
	}
	for k, v := range facts.eq {
		nk, ok := tr(k)
		if !ok {
			continue
		}
		switch {
		case v.base == "":
		case strings.HasPrefix(v.base, "caller:"):
			v.base = strings.TrimPrefix(v.base, "caller:")
		default:
			a, ok := substInt[v.base]
			if !ok {
				continue
			}
			v = lin{a.base, a.off + v.off, false}
		}
		st.eq[nk] = v
		r.deriveDyn(st, nk)
	}
}

// canon joins a caller-side base key with a callee-side suffix, forwarding
// through local struct literals: base "alloc:f:t5" + ".Packet.Children" where
// t5 = &packet{Packet: X} becomes key(X)+".Children".
func (r *pfRun) canon(base, suffix string) string {
	if strings.HasPrefix(base, "alloc:") && strings.HasPrefix(suffix, ".") {
		// find the alloc in this function
		var al *ssa.Alloc
		an.Instrs(r.fn, func(in ssa.Instruction) {
			if a, ok := in.(*ssa.Alloc); ok && an.Path(a) == base {
				al = a
			}
		})
		if al != nil {
			rest := suffix[1:]
			fld := rest
			tail := ""
			if i := strings.IndexAny(rest, ".["); i >= 0 {
				fld, tail = rest[:i], rest[i:]
			}
			if st, ok := al.Type().(*types.Pointer).Elem().Underlying().(*types.Struct); ok {
				for i := 0; i < st.NumFields(); i++ {
					if st.Field(i).Name() == fld {
						if sv, ok := an.LocalFieldStore(al, i); ok {
							return an.Path(sv) + tail
						}
					}
				}
			}
		}
	}
	return base + suffix
}

// ctxFor builds the option context of a call whose callee takes options.
func (r *pfRun) ctxFor(call *ssa.Call, st *pfState) *optCtx {
	f := call.Common().StaticCallee()
	if f == nil || !f.Signature.Variadic() {
		return nil
	}
	last := f.Signature.Params().At(f.Signature.Params().Len() - 1)
	sl, ok := last.Type().(*types.Slice)
	if !ok {
		return nil
	}
	if nt, ok := sl.Elem().(*types.Named); !ok || nt.Obj().Name() != "Option" {
		return nil
	}
	args := call.Common().Args
	list, ok := r.e.S.variadicOptions(args[len(args)-1])
	if !ok {
		return &optCtx{known: false, sig: "?"}
	}
	ctx := &optCtx{known: true, fields: map[string]optVal{}}
	var sig []string
	for _, oc := range list {
		if !oc.Ctor.OK {
			return &optCtx{known: false, sig: "?"}
		}
		for _, s := range oc.Ctor.Sets {
			if s.Conditional {
				return &optCtx{known: false, sig: "?"}
			}
			ov := optVal{kind: s.Kind, cst: s.Const}
			if s.Kind == "const" {
				if k, err := strconv.ParseInt(s.Const, 10, 64); err == nil {
					ov.arg, ov.isInt = lin{"", k, k >= 0}, true
				}
			}
			if s.Kind == "param" || s.Kind == "paramAddr" || s.Kind == "conv" {
				a := oc.Args[s.Param]
				if isIntType(a.Type()) {
					l := r.evalInt(a, st)
					if l.base != "" && !strings.HasPrefix(l.base, "caller:") {
						l.base = "caller:" + l.base
					}
					ov.arg, ov.isInt = l, true
				}
				if an.IsNilConst(an.Strip(a)) {
					ov.nilArg = true
				}
			}
			ctx.fields[s.Field] = ov
			sig = append(sig, fmt.Sprintf("%s=%s:%v%s", s.Field, s.Kind, ov.arg, ov.cst))
		}
	}
	sort.Strings(sig)
	ctx.sig = strings.Join(sig, ",")
	return ctx
}

// ---------------------------------------------------------------- summaries

func (e *pfEngine) summary(f *ssa.Function, ctx *optCtx) *pfSummary {
	sig := an.FuncKey(f) + "|"
	if ctx != nil {
		sig += ctx.sig
		if !ctx.known {
			sig += "?"
		}
	}
	if s, ok := e.summaries[sig]; ok {
		return s
	}
	if e.inProg[sig] || e.depth > 8 {
		return nil
	}
	e.inProg[sig] = true
	e.depth++
	defer func() { e.depth--; delete(e.inProg, sig) }()
	check := ctx != nil && ctx.known // sites inside option-taking callees are checked per context
	run := e.analyse(f, ctx, nil, check)
	ei := errResultIndex(f)
	sum := &pfSummary{hasErr: ei >= 0, resNonNil: map[int]bool{}, resMayBeNil: map[int]bool{}, resNilOnErr: map[int]bool{}}
	var acc *pfState
	first := true
	nres := f.Signature.Results().Len()
	nonNilAll := make([]bool, nres)
	for i := range nonNilAll {
		nonNilAll[i] = true
	}
	for _, ret := range an.Returns(f) {
		st := run.stateAt(ret)
		if st == nil || st.dead {
			continue
		}
		res := an.ReturnResults(ret)
		if ei >= 0 && !an.IsNilConst(an.Strip(res[ei])) {
			for i := 0; i < nres; i++ {
				if i != ei && isNilable(f.Signature.Results().At(i).Type()) && an.IsNilConst(an.Strip(res[i])) {
					sum.resNilOnErr[i] = true
				}
			}
			continue
		}
		if first {
			acc = st.clone()
			first = false
		} else {
			acc = meet(acc, st)
		}
		for i := 0; i < nres; i++ {
			if i == ei {
				continue
			}
			if !isNilable(f.Signature.Results().At(i).Type()) || !run.valueNonNil(res[i], st) {
				nonNilAll[i] = false
			}
			if isNilable(f.Signature.Results().At(i).Type()) && an.IsNilConst(an.Strip(res[i])) {
				sum.resMayBeNil[i] = true
			}
		}
	}
	if acc == nil {
		acc = newState()
	}
	// keep only keys rooted at parameters
	keep := newState()
	rooted := func(k string) bool {
		for _, p := range f.Params {
			if k == p.Name() || strings.HasPrefix(k, p.Name()+".") || strings.HasPrefix(k, p.Name()+"[") {
				return true
			}
		}
		return false
	}
	for k, v := range acc.lenGE {
		if rooted(k) {
			keep.lenGE[k] = v
		}
	}
	for k := range acc.nonNil {
		if rooted(k) {
			keep.nonNil[k] = true
		}
	}
	for k, v := range acc.dyn {
		if rooted(k) {
			keep.dyn[k] = v
		}
	}
	for k, v := range acc.eq {
		if rooted(k) {
			keep.eq[k] = v
		}
	}
	sum.facts = keep
	if os.Getenv("GLDAPCHECK_PFDEBUG") != "" && strings.Contains(sig, os.Getenv("GLDAPCHECK_PFDEBUG")) {
		fmt.Fprintf(os.Stderr, "PFSUM %s\n  alias=%d\n  acc.eq=%v\n  keep.eq=%v\n  keep.len=%v\n", sig, len(run.phiAlias), acc.eq, keep.eq, keep.lenGE)
	}
	if !first {
		for i, ok := range nonNilAll {
			if ok && i != ei {
				sum.resNonNil[i] = true
			}
		}
	}
	e.summaries[sig] = sum
	return sum
}

// stateAt recomputes the state just before an instruction.
func (r *pfRun) stateAt(at ssa.Instruction) *pfState {
	b := at.Block()
	st := r.in[b]
	if st == nil {
		return nil
	}
	st = st.clone()
	for _, in := range b.Instrs {
		if in == at {
			return st
		}
		switch x := in.(type) {
		case *ssa.Store:
			r.doStore(x, st)
		case ssa.CallInstruction:
			r.doCallKills(x, st)
			if call, ok := x.(*ssa.Call); ok {
				r.doCallFacts(call, st)
			}
		}
	}
	return st
}

// ---------------------------------------------------------------- mod sets

func (e *pfEngine) chaTargets(cc *ssa.CallCommon) []*ssa.Function {
	// in-module implementations of the invoked method
	var out []*ssa.Function
	name := cc.Method.Name()
	for _, f := range e.c.P.ModuleFuncs() {
		if f.Signature.Recv() != nil && f.Name() == name && len(f.Blocks) > 0 {
			if types.Implements(f.Signature.Recv().Type(), cc.Value.Type().Underlying().(*types.Interface)) {
				out = append(out, f)
			}
		}
	}
	return out
}

func (e *pfEngine) dynTargets(cc *ssa.CallCommon) []*ssa.Function {
	var out []*ssa.Function
	sig, ok := cc.Value.Type().Underlying().(*types.Signature)
	if !ok {
		return nil
	}
	for _, f := range e.c.P.ModuleFuncs() {
		if f.Parent() != nil && len(f.Blocks) > 0 && types.Identical(f.Signature, sig) {
			// closures of that signature (option closures, handlers)
			out = append(out, f)
		}
	}
	return out
}

// mods: names of struct fields a function may store to, transitively through
// static calls into non-stdlib code (closures it creates included).
func (e *pfEngine) mods(f *ssa.Function) map[string]bool {
	if m, ok := e.modFields[f]; ok {
		return m
	}
	m := map[string]bool{}
	e.modFields[f] = m // cycle guard
	if len(f.Blocks) == 0 {
		return m
	}
	pp := an.FuncPkgPath(f)
	if !strings.Contains(pp, ".") { // standard library: no knowledge of module types except through callbacks
		return m
	}
	an.Instrs(f, func(in ssa.Instruction) {
		switch x := in.(type) {
		case *ssa.Store:
			if fa, ok := x.Addr.(*ssa.FieldAddr); ok {
				if _, isLocal := an.CellRoot(fa.X).(*ssa.Alloc); isLocal {
					if al := an.CellRoot(fa.X).(*ssa.Alloc); !al.Heap {
						return
					}
				}
				m[an.FieldAddrName(fa)] = true
			}
		case ssa.CallInstruction:
			cc := x.Common()
			var cs []*ssa.Function
			if g := an.StaticCallee(cc); g != nil {
				cs = append(cs, g)
			} else if cc.IsInvoke() {
				cs = e.chaTargets(cc)
			} else if _, isB := cc.Value.(*ssa.Builtin); !isB {
				cs = e.dynTargets(cc)
			}
			for _, g := range cs {
				for k := range e.mods(g) {
					m[k] = true
				}
			}
		case *ssa.MakeClosure:
			for k := range e.mods(x.Fn.(*ssa.Function)) {
				m[k] = true
			}
		}
	})
	return m
}

// onlyGrowsChildren: every store to a field named Children reachable from f
// has the form x.Children = append(x.Children, ...).
func (e *pfEngine) onlyGrowsChildren(f *ssa.Function) bool {
	seen := map[*ssa.Function]bool{}
	ok := true
	var walk func(g *ssa.Function)
	walk = func(g *ssa.Function) {
		if seen[g] || len(g.Blocks) == 0 || !strings.Contains(an.FuncPkgPath(g), ".") {
			return
		}
		seen[g] = true
		an.Instrs(g, func(in ssa.Instruction) {
			switch x := in.(type) {
			case *ssa.Store:
				fa, isF := x.Addr.(*ssa.FieldAddr)
				if !isF || an.FieldAddrName(fa) != "Children" {
					return
				}
				grows := false
				if call, isC := x.Val.(*ssa.Call); isC {
					if b, isB := call.Common().Value.(*ssa.Builtin); isB && b.Name() == "append" {
						if ld, isL := call.Common().Args[0].(*ssa.UnOp); isL {
							if fa2, isF2 := ld.X.(*ssa.FieldAddr); isF2 && an.FieldAddrName(fa2) == "Children" && an.Path(fa2.X) == an.Path(fa.X) {
								grows = true
							}
						}
					}
				}
				if !grows {
					if al, isA := an.CellRoot(fa.X).(*ssa.Alloc); isA && !al.Heap {
						grows = true
					}
				}
				if !grows {
					// initial store into a freshly allocated node (constructor)
					if _, isA := an.Strip(fa.X).(*ssa.Alloc); isA {
						grows = true
					}
				}
				if !grows {
					ok = false
				}
			case ssa.CallInstruction:
				if h := an.StaticCallee(x.Common()); h != nil {
					walk(h)
				}
			}
		})
	}
	walk(f)
	return ok
}

// ---------------------------------------------------------------- site checks

func (e *pfEngine) site(fn *ssa.Function, in ssa.Instruction, kind, what string, ok bool, detail string, ctx *optCtx) {
	key := fname(fn) + ": " + kind + " " + what
	if s, dup := e.sites[key]; dup {
		// a site checked in several contexts / iterations: it must hold in all
		if !ok && s.OK {
			s.OK, s.Detail = false, detail
			if ctx != nil {
				s.Ctx = ctx.sig
			}
		}
		return
	}
	s := &pfSite{Fn: fn, Instr: in, Kind: kind, Key: key, OK: ok, Detail: detail}
	if ctx != nil {
		s.Ctx = ctx.sig
	}
	e.sites[key] = s
	e.order = append(e.order, key)
}

func (r *pfRun) covered(st *pfState, S string, idx lin, strict bool) (bool, string) {
	return r.coveredD(st, S, idx, strict, 0)
}

func (r *pfRun) coveredD(st *pfState, S string, idx lin, strict bool, depth int) (bool, string) {
	if depth < 3 && idx.base != "" {
		// the index is a loop variable with a known upper bound: i <= u  =>  enough that len(S) covers u + off
		for _, u := range st.ub[idx.base] {
			if ok, why := r.coveredD(st, S, lin{u.base, u.off + idx.off, u.nonNeg}, strict, depth+1); ok {
				return true, fmt.Sprintf("%s <= %s and %s", idx.base, u, why)
			}
		}
		// ... or runs in lockstep with one (p == q + d)
		if p := r.phiOf[idx.base]; p != nil && depth == 0 {
			for q, d := range lockstep(p) {
				if ok, why := r.coveredD(st, S, lin{r.key(q), idx.off + d, idx.nonNeg}, strict, depth+1); ok {
					return true, fmt.Sprintf("%s == %s%+d (incremented together) and %s", idx.base, r.key(q), d, why)
				}
			}
		}
	}
	// need len(S) >= idx+1 (strict) or len(S) >= idx
	need := idx.off
	if strict {
		need++
	}
	for _, l := range st.lenGE[S] {
		if l.base == idx.base && l.off >= need {
			return true, fmt.Sprintf("len(%s) >= %s", S, l)
		}
	}
	// len(S) >= len(T) + k  and  len(T) >= idx + 1 - k
	for _, l := range st.lenGE[S] {
		if !strings.HasPrefix(l.base, "len:") || l.off < 0 {
			continue
		}
		T := strings.TrimPrefix(l.base, "len:")
		if T == S {
			continue
		}
		if ok, why := r.coveredD(st, T, lin{idx.base, idx.off - l.off, idx.nonNeg}, strict, depth+1); ok {
			return true, fmt.Sprintf("len(%s) >= %s and %s", S, l, why)
		}
	}
	return false, ""
}

func (r *pfRun) linNonNeg(st *pfState, l lin) bool {
	if l.base == "" {
		return l.off >= 0
	}
	if strings.HasPrefix(l.base, "len:") {
		S := strings.TrimPrefix(l.base, "len:")
		if l.off >= 0 {
			return true
		}
		for _, b := range st.lenGE[S] {
			if b.base == "" && b.off+l.off >= 0 {
				return true
			}
		}
		return false
	}
	return l.nonNeg && l.off >= 0
}

func (r *pfRun) checkInstr(in ssa.Instruction, st *pfState) {
	e := r.e
	switch x := in.(type) {
	case *ssa.TypeAssert:
		if x.CommaOk {
			return
		}
		k := e.key(x.X)
		want := types.TypeString(x.AssertedType, nil)
		if st.dyn[k] == want {
			e.site(r.fn, in, "typeassert", k+".("+want+")", true, "dominated by a successful comma-ok assertion of the same value to "+want, r.ctx)
		} else if _, isIface := x.AssertedType.Underlying().(*types.Interface); isIface && types.AssignableTo(x.X.Type(), x.AssertedType) {
			e.site(r.fn, in, "typeassert", k+".("+want+")", true, "static type already implements the interface", r.ctx)
		} else {
			e.site(r.fn, in, "typeassert", k+".("+types.TypeString(x.AssertedType, shortq)+")", false, "unchecked type assertion: the dynamic type of "+k+" is not established on this path (use the comma-ok form or assert first)", r.ctx)
		}
	case *ssa.IndexAddr:
		r.checkIndex(in, x.X, x.Index, st)
	case *ssa.Index:
		r.checkIndex(in, x.X, x.Index, st)
	case *ssa.Lookup:
		if _, isMap := x.X.Type().Underlying().(*types.Map); isMap {
			return
		}
		r.checkIndex(in, x.X, x.Index, st)
	case *ssa.Slice:
		r.checkSlice(x, st)
	case *ssa.BinOp:
		if (x.Op == token.QUO || x.Op == token.REM) && isIntType(x.Type()) {
			if k, ok := an.IntConst(x.Y); ok && k != 0 {
				return
			}
			e.site(r.fn, in, "div", an.Path(x.Y), false, "integer division by a value not shown to be non-zero", r.ctx)
		}
		switch x.Op {
		case token.SHL, token.SHR:
			// a shift by a negative count is a run-time panic; only signed, non-constant counts can be negative
			if b, ok := x.Y.Type().Underlying().(*types.Basic); ok && b.Info()&types.IsUnsigned == 0 {
				if _, isK := an.IntConst(x.Y); !isK {
					what := "shift count " + an.Path(x.Y)
					if nonNegValue(x.Y, nil) || r.linNonNeg(st, r.evalInt(x.Y, st)) {
						e.site(r.fn, in, "shift", what, true, "the count is never negative", r.ctx)
					} else {
						e.site(r.fn, in, "shift", what, false, "shift by a signed count that may be negative: Go panics with `negative shift amount`", r.ctx)
					}
				}
			}
		}
	case *ssa.Panic:
		if s, ok := an.StrConst(x.X); ok && s == "blocking select matched no case" {
			return
		}
		e.site(r.fn, in, "panic", "explicit", false, "explicit panic", r.ctx)
	case *ssa.MakeSlice:
		for _, v := range []ssa.Value{x.Len, x.Cap} {
			l := r.evalInt(v, st)
			if !r.linNonNeg(st, l) {
				e.site(r.fn, in, "makeslice", l.String(), false, "make with a size that can be negative: "+l.String(), r.ctx)
				return
			}
		}
		e.site(r.fn, in, "makeslice", an.Path(x.Len)+","+an.Path(x.Cap), true, "sizes are non-negative (constants, len(), unsigned or bounded below by a dominating length test)", r.ctx)
	case *ssa.UnOp:
		if x.Op == token.MUL {
			r.checkDeref(in, x.X, st)
		}
	case *ssa.FieldAddr:
		if isPointer(x.X.Type()) && r.nullableByDesign(x.X) {
			k := e.key(x.X)
			if r.valueNonNil(x.X, st) {
				e.site(r.fn, in, "nilderef", "field of "+k, true, "non-nil on every path reaching the access", r.ctx)
			} else {
				e.site(r.fn, in, "nilderef", "field of "+k, false, k+" may be nil here and a field of it is accessed", r.ctx)
			}
		}
	case *ssa.MapUpdate:
		if !r.valueNonNil(x.Map, st) {
			if _, isParam := an.Strip(x.Map).(*ssa.Parameter); isParam || an.IsNilConst(an.Strip(x.Map)) {
				e.site(r.fn, in, "nilderef", "map "+e.key(x.Map), false, "assignment to an entry of a map that may be nil", r.ctx)
			} else if ld, isLd := x.Map.(*ssa.UnOp); isLd && ld.Op == token.MUL {
				// a map kept in a field of an exported struct type: the zero value of the type (`&gldap.Mux{}`, which
				// NewServer itself installs) has a nil map, and assigning to an entry of a nil map panics
				if fa, isFA := ld.X.(*ssa.FieldAddr); isFA {
					if nt := an.StructOf(fa.X.Type()); nt != nil && nt.Obj().Exported() && nt.Obj().Pkg() != nil && strings.HasPrefix(nt.Obj().Pkg().Path(), an.ModPath) {
						e.site(r.fn, in, "nilderef", "map field "+e.key(x.Map), false, "assignment to an entry of the map field "+nt.Obj().Name()+"."+an.FieldAddrName(fa)+", which is nil in a zero-value "+nt.Obj().Name()+" (no dominating nil test or assignment)", r.ctx)
					}
				}
			}
		} else if ld, isLd := x.Map.(*ssa.UnOp); isLd && ld.Op == token.MUL {
			if _, isFA := ld.X.(*ssa.FieldAddr); isFA {
				e.site(r.fn, in, "nilderef", "map field "+e.key(x.Map), true, "non-nil on every path reaching the assignment", r.ctx)
			}
		}
	case ssa.CallInstruction:
		r.checkCall(x, st)
	}
}

func shortq(p *types.Package) string { return p.Name() }

func (r *pfRun) checkIndex(in ssa.Instruction, X, Index ssa.Value, st *pfState) {
	e := r.e
	t := X.Type().Underlying()
	if p, ok := t.(*types.Pointer); ok {
		t = p.Elem().Underlying()
	}
	if arr, ok := t.(*types.Array); ok {
		if k, ok := an.IntConst(Index); ok && k >= 0 && k < arr.Len() {
			return // constant index into an array: checked by the compiler
		}
		l := r.evalInt(Index, st)
		// `for i := range arr` / `for _, v := range arr`: the induction variable is tested against a constant bound
		if isRangeIndex(Index) && Index.Referrers() != nil {
			for _, ref := range *Index.Referrers() {
				bo, ok := ref.(*ssa.BinOp)
				if !ok || bo.Op != token.LSS || bo.X != Index {
					continue
				}
				if k, isK := an.IntConst(bo.Y); isK && k <= arr.Len() && len(bo.Block().Succs) == 2 && bo.Block().Succs[0].Dominates(in.Block()) {
					e.site(r.fn, in, "index", e.key(X)+"["+l.String()+"]", true, "range index over an array of that length", r.ctx)
					return
				}
			}
		}
		// a variable index with a known constant upper bound below the array length (`if tag >= len(table) { return }`)
		if l.base != "" && r.linNonNeg(st, l) {
			for _, u := range st.ub[l.base] {
				if u.base == "" && u.off+l.off < arr.Len() {
					e.site(r.fn, in, "index", e.key(X)+"["+l.String()+"]", true, fmt.Sprintf("%s <= %d < array length %d", l.base, u.off, arr.Len()), r.ctx)
					return
				}
			}
		}
		e.site(r.fn, in, "index", e.key(X)+"["+l.String()+"]", false, "variable index into an array", r.ctx)
		return
	}
	S := e.key(X)
	idx := r.evalInt(Index, st)
	what := S + "[" + idx.String() + "]"
	if sortLessIndex(r.fn, X, Index) {
		e.site(r.fn, in, "index", what, true, "index parameter of the less function given to sort.Slice/SliceStable for this very slice: the library calls it only with 0 <= i, j < len(slice)", r.ctx)
		return
	}
	if !r.linNonNeg(st, idx) {
		e.site(r.fn, in, "index", what, false, "index may be negative", r.ctx)
		return
	}
	if ok, why := r.covered(st, S, idx, true); ok {
		e.site(r.fn, in, "index", what, true, why, r.ctx)
		return
	}
	e.site(r.fn, in, "index", what, false, "no dominating guard establishes len("+S+") > "+idx.String(), r.ctx)
}

// sortLessIndex: fn is a closure used only as the less argument of
// sort.Slice / sort.SliceStable(x, less), Index is one of its two parameters
// and X is that same slice x.
func sortLessIndex(fn *ssa.Function, X, Index ssa.Value) bool {
	p, ok := Index.(*ssa.Parameter)
	if !ok || fn.Parent() == nil || len(fn.Params) != 2 || (fn.Params[0] != p && fn.Params[1] != p) {
		return false
	}
	found := false
	for _, b := range fn.Parent().Blocks {
		for _, in := range b.Instrs {
			mc, ok := in.(*ssa.MakeClosure)
			if !ok || mc.Fn != ssa.Value(fn) {
				continue
			}
			refs := mc.Referrers()
			if refs == nil {
				return false
			}
			for _, ref := range *refs {
				call, ok := ref.(*ssa.Call)
				if !ok {
					if _, dbg := ref.(*ssa.DebugRef); dbg {
						continue
					}
					return false
				}
				cc := call.Common()
				if !(an.CalleeIs(cc, "sort", "Slice") || an.CalleeIs(cc, "sort", "SliceStable")) || len(cc.Args) != 2 || cc.Args[1] != ssa.Value(mc) {
					return false
				}
				if an.Path(an.Strip(cc.Args[0])) != an.Path(an.Strip(X)) {
					return false
				}
				found = true
			}
		}
	}
	return found
}

func (r *pfRun) checkSlice(x *ssa.Slice, st *pfState) {
	e := r.e
	t := x.X.Type().Underlying()
	if p, ok := t.(*types.Pointer); ok {
		if arr, ok := p.Elem().Underlying().(*types.Array); ok {
			// array slicing with constant or absent bounds
			okc := true
			for _, v := range []ssa.Value{x.Low, x.High, x.Max} {
				if v == nil {
					continue
				}
				if k, ok := an.IntConst(v); !ok || k < 0 || k > arr.Len() {
					okc = false
				}
			}
			if okc {
				return
			}
		}
	}
	S := e.key(x.X)
	lo := lin{"", 0, true}
	if x.Low != nil {
		lo = r.evalInt(x.Low, st)
	}
	what := S + "[" + lo.String() + ":"
	if x.High != nil {
		what += r.evalInt(x.High, st).String()
	}
	what += "]"
	if !r.linNonNeg(st, lo) {
		e.site(r.fn, x, "slice", what, false, "lower bound may be negative", r.ctx)
		return
	}
	if x.High == nil {
		if lo.base == "" && lo.off == 0 {
			return
		}
		if ok, why := r.covered(st, S, lo, false); ok {
			e.site(r.fn, x, "slice", what, true, why, r.ctx)
		} else {
			e.site(r.fn, x, "slice", what, false, "no dominating guard establishes len("+S+") >= "+lo.String(), r.ctx)
		}
		return
	}
	hi := r.evalInt(x.High, st)
	if hi.base == "" && hi.off == 0 && lo.base == "" && lo.off == 0 {
		return // x[:0] / x[0:0] is always in range
	}
	okHi, why := r.covered(st, S, hi, false)
	if hi.base == "len:"+S && hi.off <= 0 && r.linNonNeg(st, hi) {
		okHi, why = true, "upper bound is len-"+fmt.Sprint(-hi.off)
	}
	okLo := (lo.base == "" && lo.off == 0) || (lo.base == hi.base && lo.off <= hi.off)
	if okHi && okLo {
		e.site(r.fn, x, "slice", what, true, why, r.ctx)
	} else {
		e.site(r.fn, x, "slice", what, false, fmt.Sprintf("bounds not established: need %s <= %s <= len(%s)", lo, hi, S), r.ctx)
	}
}

// checkDeref: loads through pointers that are nullable by design.
func (r *pfRun) checkDeref(in ssa.Instruction, addr ssa.Value, st *pfState) {
	e := r.e
	switch addr.(type) {
	case *ssa.Alloc, *ssa.FieldAddr, *ssa.IndexAddr, *ssa.Global, *ssa.FreeVar:
		return
	}
	pt, ok := addr.Type().Underlying().(*types.Pointer)
	if !ok {
		return
	}
	// pointer to basic type: option fields such as *int
	if _, isBasic := pt.Elem().Underlying().(*types.Basic); !isBasic {
		return
	}
	k := e.key(addr)
	if isNil, known := r.knownNil(addr); known {
		if isNil && r.valueNonNil(addr, st) {
			// not set by the caller, but the function itself filled in a default on this path
			e.site(r.fn, in, "nilderef", k, true, "non-nil on every path (nil test or definite assignment)", r.ctx)
			return
		}
		if isNil {
			e.site(r.fn, in, "nilderef", k, false, "dereference of an option that is not set in this call context", r.ctx)
		} else {
			e.site(r.fn, in, "nilderef", k, true, "option is set by the caller in this context", r.ctx)
		}
		return
	}
	if r.valueNonNil(addr, st) {
		e.site(r.fn, in, "nilderef", k, true, "non-nil on every path (nil test or definite assignment)", r.ctx)
		return
	}
	e.site(r.fn, in, "nilderef", k, false, "dereference of "+k+" which may be nil (no dominating nil test or assignment)", r.ctx)
}

var mustCompileRE = regexp.MustCompile

func (r *pfRun) checkCall(ci ssa.CallInstruction, st *pfState) {
	e := r.e
	cc := ci.Common()
	f := an.StaticCallee(cc)
	// receiver / base nullability for pointer values that are nullable by design:
	// results of in-module functions that may return (nil, nil), locals assigned nil, nil-able parameters of exported entries.
	check := func(v ssa.Value, role string) {
		if !isNilable(v.Type()) {
			return
		}
		if !r.nullableByDesign(v) {
			return
		}
		k := e.key(v)
		if r.valueNonNil(v, st) {
			e.site(r.fn, ci, "nilderef", role+" "+k, true, "non-nil on every path reaching the use", r.ctx)
		} else {
			e.site(r.fn, ci, "nilderef", role+" "+k, false, k+" may be nil here and is used as "+role, r.ctx)
		}
	}
	if cc.IsInvoke() {
		check(cc.Value, "interface receiver")
	} else if f == nil {
		if _, isB := cc.Value.(*ssa.Builtin); !isB {
			check(cc.Value, "called function value")
		}
	}
	if f == nil {
		return
	}
	switch an.FuncKey(f) {
	case an.PkgBer + ".NewInteger":
		v := cc.Args[3]
		mi, ok := v.(*ssa.MakeInterface)
		tn := ""
		if ok {
			tn = types.TypeString(mi.X.Type().Underlying(), nil)
		}
		if ok && e.newIntOK[tn] {
			e.site(r.fn, ci, "libpre", "ber.NewInteger value "+types.TypeString(mi.X.Type(), shortq), true, "static type "+tn+" is in the set accepted by ber.NewInteger's type switch", r.ctx)
		} else {
			e.site(r.fn, ci, "libpre", "ber.NewInteger value "+an.Path(v), false, "ber.NewInteger panics for this dynamic type", r.ctx)
		}
	case "regexp.MustCompile":
		if s, ok := an.StrConst(cc.Args[0]); ok {
			if _, err := regexp.Compile(s); err == nil {
				e.site(r.fn, ci, "libpre", "regexp.MustCompile(const)", true, "constant pattern compiles", r.ctx)
				return
			}
		}
		e.site(r.fn, ci, "libpre", "regexp.MustCompile", false, "pattern is not a valid constant", r.ctx)
	case an.PkgBer + ".(*Packet).AppendChild":
		// AppendChild reads the child's bytes: a nil child is a nil dereference inside the library
		if len(cc.Args) == 2 {
			check(cc.Args[1], "child handed to ber.AppendChild (which dereferences it)")
		}
	case "strings.Repeat":
		l := r.evalInt(cc.Args[1], st)
		if !r.linNonNeg(st, l) {
			e.site(r.fn, ci, "libpre", "strings.Repeat count "+l.String(), false, "strings.Repeat panics on a negative count", r.ctx)
		} else {
			e.site(r.fn, ci, "libpre", "strings.Repeat count "+l.String(), true, "count is non-negative", r.ctx)
		}
	}
	// pointer receiver of an in-module method whose value is nullable by design
	if f.Signature.Recv() != nil && len(cc.Args) > 0 && an.InModule(f) {
		check(cc.Args[0], "method receiver")
	}
}

// computeParamNil fills e.paramNil: a pointer parameter of an unexported,
// non-closure module function is "nullable by design" when some call site in
// the analysed slice hands it a value that is itself nullable by design and not
// known to be non-nil at that site (e.g. the packet a failed read returned
// together with its error). Least fixpoint over the slice; the summaries and
// sites computed on the way are discarded, the real analysis starts afresh.
func (e *pfEngine) computeParamNil(fns []*ssa.Function) {
	e.paramNil = map[*ssa.Parameter]bool{}
	for iter := 0; iter < 6; iter++ {
		changed := false
		for _, g := range fns {
			if len(g.Blocks) == 0 {
				continue
			}
			var run *pfRun
			for _, ci := range an.Calls(g) {
				f := an.StaticCallee(ci.Common())
				if f == nil || !an.InModule(f) || f.Parent() != nil || len(f.Blocks) == 0 || e.exported[f] {
					continue
				}
				for i, a := range ci.Common().Args {
					if i >= len(f.Params) || !isNilable(a.Type()) || e.paramNil[f.Params[i]] {
						continue
					}
					if _, isPtr := a.Type().Underlying().(*types.Pointer); !isPtr {
						continue
					}
					if run == nil {
						run = e.analyse(g, nil, nil, false)
					}
					if !run.nullableByDesign(a) {
						continue
					}
					st := run.stateAt(ci)
					if st == nil || st.dead || run.valueNonNil(a, st) {
						continue
					}
					e.paramNil[f.Params[i]] = true
					changed = true
				}
			}
		}
		if !changed {
			break
		}
	}
	e.summaries = map[string]*pfSummary{}
	e.sites = map[string]*pfSite{}
	e.order = nil
}

// nullableByDesign: v's origin is one the code itself makes nil sometimes.
func (r *pfRun) nullableByDesign(v ssa.Value) bool {
	sv := an.Strip(v)
	switch x := sv.(type) {
	case *ssa.Const:
		return x.IsNil()
	case *ssa.Phi:
		for _, ed := range x.Edges {
			if an.IsNilConst(an.Strip(ed)) || r.nullableByDesign(ed) && ed != ssa.Value(x) {
				return true
			}
		}
	case *ssa.Extract:
		if call, ok := x.Tuple.(*ssa.Call); ok {
			if f := call.Common().StaticCallee(); f != nil && an.InModule(f) {
				if sum := r.e.summary(f, nil); sum != nil && (sum.resMayBeNil[x.Index] || sum.resNilOnErr[x.Index] && call.Parent() == r.fn) {
					// (a result that is nil only together with an error is followed within the function that made the
					// call, where the error test is visible; not into closures)
					return true
				}
			} else if f != nil && an.FuncPkgPath(f) == an.PkgBer && call.Parent() == r.fn {
				// a packet the ber library returns together with an error is nil when the error is not (its decoders
				// return (nil, err)); the err == nil edge establishes that it is not
				rs := f.Signature.Results()
				if n := rs.Len(); n >= 2 && x.Index < n-1 && types.Identical(rs.At(n-1).Type(), types.Universe.Lookup("error").Type()) {
					if _, isPtr := rs.At(x.Index).Type().Underlying().(*types.Pointer); isPtr {
						return true
					}
				}
			}
		}
	case *ssa.Parameter:
		if !r.e.exported[r.fn] && r.e.paramNil[x] {
			return true
		}
		if r.e.exported[r.fn] {
			// caller-controlled argument of an exported entry (not the receiver)
			if r.fn.Signature.Recv() != nil && len(r.fn.Params) > 0 && x == r.fn.Params[0] {
				return false
			}
			return true
		}
	case *ssa.UnOp:
		if x.Op == token.MUL {
			// variable cell with a nil store
			if al, ok := an.CellRoot(x.X).(*ssa.Alloc); ok {
				stores, _ := an.CellStores(al)
				for _, s := range stores {
					if an.IsNilConst(an.Strip(s.Val)) {
						return true
					}
				}
			}
		}
	}
	return false
}
