package rules

import (
	"go/token"
	"go/types"
	"sort"
	"strings"

	"gldapverif/an"
	"gldapverif/report"

	"golang.org/x/tools/go/ssa"
)

func init() {
	Registry["C15"] = checkC15
	Descriptions["C15"] = "Static lock-set / confinement analysis over a frozen classification of every field of conn, Server, Mux, ResponseWriter and Directory: " +
		"C15-immutable (written only by the constructor or before the object is published to another goroutine), C15-guarded (every access outside the constructor holds the field's mutex on the same object in the must-held lock set; reads may hold it in read mode; unlocked reads are accepted only in the single function that performs all writes, i.e. on the writing goroutine), " +
		"C15-confined (fields touched only by the connection goroutine, by C13-inline including Request.StartTLS), C15-precondition (Mux tables and Server.router are only written by the registration methods; 'routes registered before Run'), " +
		"C15-waitgroup (Add/Done/Wait pairing and ordering of requestsWg and connWg), C15-copylocks (no by-value copy of a struct holding a mutex), C15-foreign-config (gldap writes fields only of tls.Configs it built or cloned itself), C15-capture (no go closure captures a variable that is assigned again after the spawn), C15-classified (no unclassified field). " +
		"C15-encode-readonly (no Encode method of a control and no packet method of a response stores through its receiver: they run before the writer lock, on objects shared between responses), C15-alias (a mutex-guarded slice field whose elements are written in place - index store, copy, append onto a re-slice - never has its backing array returned by a getter or handed to a callee that keeps it). Does not decide races in user handlers or anything that contradicts the stated confinement assumption."
}

type fieldClass struct {
	class   string   // immutable | guarded | confined | precondition | sync
	guard   string   // mutex field name for guarded
	writers []string // functions allowed to write (ShortName prefixes)
}

var c15TableRef = map[string]map[string]fieldClass{
	"conn": {
		"mu": {class: "sync"}, "requestsWg": {class: "sync"}, "writerMu": {class: "sync"},
		"connID": {class: "immutable", writers: []string{"newConn"}}, "logger": {class: "immutable", writers: []string{"newConn"}},
		"router": {class: "immutable", writers: []string{"newConn"}}, "shutdownCtx": {class: "immutable", writers: []string{"newConn"}},
		"disablePanicRecovery": {class: "immutable", writers: []string{"newConn", "(*Server).Run"}},
		"netConn":              {class: "confined", guard: "mu", writers: []string{"newConn", "(*conn).initConn"}},
		"reader":               {class: "guarded", guard: "mu", writers: []string{"(*conn).initConn"}},
		"writer":               {class: "confined", guard: "mu", writers: []string{"(*conn).initConn"}},
	},
	"Server": {
		"mu": {class: "sync"}, "connWg": {class: "sync"},
		"logger": {class: "immutable", writers: []string{"NewServer"}}, "readTimeout": {class: "immutable", writers: []string{"NewServer"}}, "writeTimeout": {class: "immutable", writers: []string{"NewServer"}},
		"onCloseHandler": {class: "immutable", writers: []string{"NewServer"}}, "disablePanicRecovery": {class: "immutable", writers: []string{"NewServer"}},
		"shutdownCancel": {class: "immutable", writers: []string{"NewServer"}}, "shutdownCtx": {class: "immutable", writers: []string{"NewServer"}},
		"listener":      {class: "guarded", guard: "mu", writers: []string{"(*Server).Run"}},
		"listenerReady": {class: "guarded", guard: "mu", writers: []string{"(*Server).Run", "(*Server).Stop"}},
		"router":        {class: "precondition", guard: "mu", writers: []string{"NewServer", "(*Server).Router"}},
		"tlsConfig":     {class: "confined", writers: []string{"(*Server).Run"}},
	},
	"Mux": {
		"mu":           {class: "sync"},
		"routes":       {class: "precondition", guard: "mu", writers: []string{"NewMux", "(*Mux).Bind", "(*Mux).Search", "(*Mux).ExtendedOperation", "(*Mux).Modify", "(*Mux).Add", "(*Mux).Delete"}},
		"defaultRoute": {class: "precondition", guard: "mu", writers: []string{"(*Mux).DefaultRoute"}},
		"unbindRoute":  {class: "precondition", guard: "mu", writers: []string{"(*Mux).Unbind"}},
	},
	"ResponseWriter": {
		"writerMu": {class: "immutable", writers: []string{"newResponseWriter"}}, "writer": {class: "immutable", writers: []string{"newResponseWriter"}},
		"logger": {class: "immutable", writers: []string{"newResponseWriter"}}, "connID": {class: "immutable", writers: []string{"newResponseWriter"}}, "requestID": {class: "immutable", writers: []string{"newResponseWriter"}},
	},
	"Directory": {
		"mu": {class: "sync"},
		"t":  {class: "immutable", writers: []string{"Start"}}, "s": {class: "immutable", writers: []string{"Start"}}, "logger": {class: "immutable", writers: []string{"Start"}},
		"port": {class: "immutable", writers: []string{"Start"}}, "host": {class: "immutable", writers: []string{"Start"}}, "useTLS": {class: "immutable", writers: []string{"Start"}},
		"client": {class: "immutable", writers: []string{"Start"}}, "server": {class: "immutable", writers: []string{"Start"}}, "userDN": {class: "immutable", writers: []string{"Start"}}, "groupDN": {class: "immutable", writers: []string{"Start"}},
		"users": {class: "guarded", guard: "mu", writers: []string{"Start"}}, "groups": {class: "guarded", guard: "mu", writers: []string{"Start"}}, "tokenGroups": {class: "guarded", guard: "mu", writers: []string{"Start"}},
		"allowAnonymousBind": {class: "guarded", guard: "mu", writers: []string{"Start"}}, "controls": {class: "guarded", guard: "mu", writers: []string{"Start"}},
	},
}

type fieldAccess struct {
	fn    *ssa.Function
	fa    *ssa.FieldAddr
	write bool
	at    ssa.Instruction
}

func rootFn(f *ssa.Function) *ssa.Function {
	for f.Parent() != nil {
		f = f.Parent()
	}
	return f
}

// capturedCell is a variable captured by reference by a go closure.
type capturedCell struct {
	name string
	bad  bool // assigned again by the spawning function after the go statement (or written by the goroutine and read by the parent)
}

// capturedCells lists the variables the closure started by g captures by
// reference and whether each is shared with later code of the spawning
// function f (a path from the go statement to a store that does not re-execute
// the variable's allocation: i.e. not a per-iteration variable).
func capturedCells(f *ssa.Function, g *ssa.Go) []capturedCell {
	mc, ok := g.Common().Value.(*ssa.MakeClosure)
	if !ok {
		return nil
	}
	var out []capturedCell
	for _, b := range mc.Bindings {
		al, ok := an.CellRoot(b).(*ssa.Alloc)
		if !ok {
			continue
		}
		stores, _ := an.CellStores(al)
		bad := false
		for _, st := range stores {
			if st.Parent() != f {
				continue // written inside a closure: would be a shared variable
			}
			// a path that re-executes the Alloc creates a fresh variable (per-iteration variable)
			if an.Search(an.After(g), isInstr(st), isInstr(al)) != nil {
				bad = true
			}
		}
		for _, st := range stores {
			if st.Parent() == mc.Fn.(*ssa.Function) {
				// the goroutine writes a captured variable: is it read by the parent afterwards?
				for _, ld := range an.CellLoads(al) {
					if ld.Parent() == f && an.Search(an.After(g), isInstr(ld), isInstr(al)) != nil {
						bad = true
					}
				}
			}
		}
		out = append(out, capturedCell{al.Comment, bad})
	}
	return out
}

// effRoot is the top-level function an access belongs to; an unexported helper
// that only runs as a synchronous part of one other function (all its call
// sites are plain calls, none inside a go closure, all leading to the same
// function) belongs to that function.
func (c *Ctx) effRoot(f *ssa.Function, depth int) *ssa.Function {
	shippedAll := c.shippedFuncs(G, TD)
	r := rootFn(f)
	if depth > 4 || r.Object() == nil || r.Object().Exported() {
		return r
	}
	var owner *ssa.Function
	for _, g := range shippedAll {
		for _, ci := range an.Calls(g) {
			if an.StaticCallee(ci.Common()) != r {
				continue
			}
			if !isCall(ci) || insideGoClosure(g) {
				return r
			}
			o := c.effRoot(g, depth+1)
			if owner != nil && owner != o {
				return r
			}
			owner = o
		}
	}
	if owner == nil {
		return r
	}
	return owner
}

// effRoots: like effRoot, but for a private helper shared by several callers:
// all the functions as part of which it can run (nil when it can also run
// asynchronously, or is exported).
func (c *Ctx) effRoots(f *ssa.Function, depth int) []*ssa.Function {
	shippedAll := c.shippedFuncs(G, TD)
	r := rootFn(f)
	if depth > 4 || r.Object() == nil || r.Object().Exported() {
		return []*ssa.Function{r}
	}
	seen := map[*ssa.Function]bool{}
	var out []*ssa.Function
	n := 0
	for _, g := range shippedAll {
		for _, ci := range an.Calls(g) {
			if an.StaticCallee(ci.Common()) != r {
				continue
			}
			n++
			if !isCall(ci) || insideGoClosure(g) {
				return []*ssa.Function{r}
			}
			for _, o := range c.effRoots(g, depth+1) {
				if !seen[o] {
					seen[o] = true
					out = append(out, o)
				}
			}
		}
	}
	if n == 0 {
		return []*ssa.Function{r}
	}
	return out
}

func checkC15(c *Ctx) {
	R := c.R
	m := c.serverModel()
	if m == nil {
		return
	}
	fns := c.shippedFuncs(G, TD)
	// the classification table under the field names of the program at hand (a renamed field is the same field: fld)
	c15Table := map[string]map[string]fieldClass{}
	for typ, fields := range c15TableRef {
		c15Table[typ] = map[string]fieldClass{}
		for f, fc := range fields {
			if typ == "conn" || typ == "Server" {
				if fc.guard != "" {
					fc.guard = fld(typ, fc.guard)
				}
				f = fld(typ, f)
			}
			c15Table[typ][f] = fc
		}
	}
	pkgOf := map[string]string{"conn": G, "Server": G, "Mux": G, "ResponseWriter": G, "Directory": TD}
	// ---- classification completeness (fields the table does not know are classified from their accesses below)
	type unlistedField struct {
		typ string
		fld *types.Var
	}
	var unlisted []unlistedField
	for typ, pkg := range pkgOf {
		nt := c.P.NamedType(pkg, typ)
		if nt == nil {
			R.Fatal("type %s not found", typ)
			continue
		}
		st := nt.Underlying().(*types.Struct)
		for i := 0; i < st.NumFields(); i++ {
			if _, ok := c15Table[typ][st.Field(i).Name()]; !ok {
				unlisted = append(unlisted, unlistedField{typ, st.Field(i)})
			}
		}
		for f := range c15Table[typ] {
			found := false
			for i := 0; i < st.NumFields(); i++ {
				if st.Field(i).Name() == f {
					found = true
				}
			}
			if !found {
				R.Note("classification table lists %s.%s which no longer exists", typ, f)
			}
		}
	}
	R.Trivial("C15-classified", "every field of conn, Server, Mux, ResponseWriter, Directory is classified", "-", "table checked against the struct definitions")

	// ---- collect accesses
	locksets := map[*ssa.Function]map[ssa.Instruction]an.LockSet{}
	var ls func(f *ssa.Function) map[ssa.Instruction]an.LockSet
	busy := map[*ssa.Function]bool{}
	// entryLocks: locks every in-module caller holds at the call, expressed on the callee's parameters
	// (unexported functions only: exported ones can be called from anywhere).
	// deferEntry: a closure that its parent defers runs when the parent leaves - normally or by a panic - i.e. at any
	// point after the defer statement, and before the deferred calls registered earlier (LIFO). It holds every lock
	// held at all those points, except the ones that a deferred Unlock registered after it releases first.
	deferEntry := func(f *ssa.Function) an.LockSet {
		g := f.Parent()
		if g == nil || busy[f] {
			return nil
		}
		var di *ssa.Defer
		n := 0
		uses := 0
		for _, ci := range an.Calls(g) {
			if mc, ok := ci.Common().Value.(*ssa.MakeClosure); ok && mc.Fn == ssa.Value(f) {
				uses++
				if d, isD := ci.(*ssa.Defer); isD {
					di = d
					n++
				}
			}
		}
		if mcs := an.ClosureSite(f); mcs == nil || mcs.Referrers() == nil || len(*mcs.Referrers()) != 1 {
			return nil // the closure value is used for something else as well
		}
		if n != 1 || uses != 1 {
			return nil
		}
		busy[f] = true
		defer delete(busy, f)
		held := ls(g)
		var acc an.LockSet
		seen := map[*ssa.BasicBlock]bool{}
		var laterUnlock []string
		var visit func(b *ssa.BasicBlock, from int)
		visit = func(b *ssa.BasicBlock, from int) {
			for i := from; i < len(b.Instrs); i++ {
				x := b.Instrs[i]
				if d, isD := x.(*ssa.Defer); isD {
					if kind, m := an.LockOp(d.Common()); kind == "Unlock" {
						laterUnlock = append(laterUnlock, an.MutexPath(m))
					} else if kind == "RUnlock" {
						laterUnlock = append(laterUnlock, an.MutexPath(m)+"(r)")
					}
				}
				switch x.(type) {
				case ssa.CallInstruction, *ssa.Return, *ssa.RunDefers, *ssa.Panic, *ssa.UnOp, *ssa.Store, *ssa.IndexAddr, *ssa.Index, *ssa.TypeAssert, *ssa.BinOp, *ssa.Slice, *ssa.Lookup, *ssa.FieldAddr:
					// a point at which the function may leave (return or run-time panic)
					h := held[x]
					if acc == nil {
						acc = an.LockSet{}
						for k := range h {
							acc[k] = true
						}
					} else {
						for k := range acc {
							if !h[k] {
								delete(acc, k)
							}
						}
					}
				}
			}
			for _, sb := range b.Succs {
				if !seen[sb] {
					seen[sb] = true
					visit(sb, 0)
				}
			}
		}
		pt := an.After(di)
		visit(pt.B, pt.I)
		for _, k := range laterUnlock {
			delete(acc, k)
		}
		return acc
	}
	entryLocks := func(f *ssa.Function) an.LockSet {
		if f.Parent() != nil {
			return deferEntry(f)
		}
		if f.Object() == nil || f.Object().Exported() || busy[f] {
			return nil
		}
		busy[f] = true
		defer delete(busy, f)
		var acc an.LockSet
		n := 0
		for _, g := range fns {
			for _, ci := range an.Calls(g) {
				if an.StaticCallee(ci.Common()) != f || isGo(ci) {
					continue
				}
				n++
				held := ls(g)[ci]
				tr := an.LockSet{}
				for k := range held {
					for i, a := range ci.Common().Args {
						if i >= len(f.Params) {
							break
						}
						ap := an.Path(an.Strip(a))
						if strings.HasPrefix(k, ap+".") {
							tr[f.Params[i].Name()+k[len(ap):]] = true
						}
					}
				}
				if acc == nil {
					acc = tr
				} else {
					for k := range acc {
						if !tr[k] {
							delete(acc, k)
						}
					}
				}
			}
		}
		if n == 0 {
			return nil
		}
		return acc
	}
	ls = func(f *ssa.Function) map[ssa.Instruction]an.LockSet {
		if s, ok := locksets[f]; ok {
			return s
		}
		s := an.LockSets(f, entryLocks(f))
		locksets[f] = s
		return s
	}
	type key struct{ typ, field string }
	acc := map[key][]fieldAccess{}
	for _, f := range fns {
		an.Instrs(f, func(in ssa.Instruction) {
			fa, ok := in.(*ssa.FieldAddr)
			if !ok {
				return
			}
			nt := an.StructOf(fa.X.Type())
			if nt == nil || nt.Obj().Pkg() == nil {
				return
			}
			typ := nt.Obj().Name()
			if pkgOf[typ] != nt.Obj().Pkg().Path() {
				return
			}
			fld := an.FieldAddrName(fa)
			refs := fa.Referrers()
			if refs == nil {
				return
			}
			for _, r := range *refs {
				switch x := r.(type) {
				case *ssa.Store:
					if x.Addr == ssa.Value(fa) {
						acc[key{typ, fld}] = append(acc[key{typ, fld}], fieldAccess{f, fa, true, x})
					}
				case *ssa.UnOp:
					if x.Op == token.MUL {
						acc[key{typ, fld}] = append(acc[key{typ, fld}], fieldAccess{f, fa, false, x})
					}
				case ssa.CallInstruction, *ssa.FieldAddr, *ssa.MakeInterface, *ssa.MakeClosure:
					// address taken (sync types, &c.writerMu): handled by class "sync" / immutable sharing
				}
			}
		})
	}
	isCtor := func(a fieldAccess) bool {
		_, ok := an.Strip(a.fa.X).(*ssa.Alloc)
		return ok
	}
	allowedWriter := func(fc fieldClass, f *ssa.Function) bool {
		name := an.ShortName(rootFn(f))
		eff := an.ShortName(c.effRoot(f, 0)) // a helper that runs only as part of an allowed writer
		for _, w := range fc.writers {
			if w == name || w == eff {
				return true
			}
		}
		// a private helper shared by several of the allowed writers (`m.register(r)` called by every registration method)
		roots := c.effRoots(f, 0)
		if len(roots) > 1 {
			for _, o := range roots {
				okO := false
				for _, w := range fc.writers {
					if w == an.ShortName(o) {
						okO = true
					}
				}
				if !okO {
					return false
				}
			}
			return true
		}
		return false
	}
	mutexHeld := func(a fieldAccess, guard string, readOK bool) (bool, string) {
		sets := ls(a.fn)
		held := sets[a.at]
		want := strings.TrimSuffix(an.Path(an.Strip(a.fa.X)), "") + "." + guard
		if held.Holds(want, readOK) {
			return true, held.String()
		}
		return false, held.String()
	}
	// fields the table does not list (added since it was written): classify them from how they are used
	for _, u := range unlisted {
		name := u.typ + "." + u.fld.Name()
		pos := c.P.Pos(u.fld.Pos())
		ft := u.fld.Type()
		if p, ok := ft.(*types.Pointer); ok {
			ft = p.Elem()
		}
		if nt, ok := ft.(*types.Named); ok && nt.Obj().Pkg() != nil && (nt.Obj().Pkg().Path() == "sync" || nt.Obj().Pkg().Path() == "sync/atomic") {
			R.OK("C15-classified", name+" (not in the table)", pos, "a "+nt.Obj().Pkg().Path()+"."+nt.Obj().Name()+": synchronises itself")
			continue
		}
		as := acc[key{u.typ, u.fld.Name()}]
		onlyCtor := true
		for _, a := range as {
			if a.write && !isCtor(a) {
				onlyCtor = false
			}
		}
		if onlyCtor {
			R.OK("C15-classified", name+" (not in the table)", pos, sprintf("written only while the object is built (%d accesses): immutable afterwards", len(as)))
			continue
		}
		// a mutex of the same struct held at every access after construction
		guard := ""
		if nt := c.P.NamedType(pkgOf[u.typ], u.typ); nt != nil {
			st := nt.Underlying().(*types.Struct)
			for i := 0; i < st.NumFields() && guard == ""; i++ {
				mt := st.Field(i).Type()
				if p, ok := mt.(*types.Pointer); ok {
					mt = p.Elem()
				}
				if !an.TypeIs(mt, "sync", "Mutex") && !an.TypeIs(mt, "sync", "RWMutex") {
					continue
				}
				all := true
				for _, a := range as {
					if isCtor(a) {
						continue
					}
					if held, _ := mutexHeld(a, st.Field(i).Name(), !a.write); !held {
						all = false
					}
				}
				if all {
					guard = st.Field(i).Name()
				}
			}
		}
		if guard != "" {
			R.OK("C15-classified", name+" (not in the table)", pos, sprintf("every access after construction (%d) holds %s.%s", len(as), u.typ, guard))
			continue
		}
		// a field of conn used only by the connection's own goroutine (the read loop and what it calls synchronously):
		// every function that touches it is reached only through synchronous calls from the function the accept loop
		// starts with `go` once per connection - never from a per-request goroutine, another goroutine or the exported API
		if u.typ == "conn" && m.connFn != nil {
			callers := map[*ssa.Function][]*ssa.Function{}
			goTargets := map[*ssa.Function]bool{}
			for _, f := range fns {
				for _, g := range syncCallees(f) {
					callers[g] = append(callers[g], f)
				}
				for _, ci := range an.Calls(f) {
					if isGo(ci) {
						if g := an.StaticCallee(ci.Common()); g != nil {
							goTargets[g] = true
						}
					}
				}
			}
			confined, why := true, ""
			seen := map[*ssa.Function]bool{}
			var up func(f *ssa.Function)
			up = func(f *ssa.Function) {
				if seen[f] || !confined {
					return
				}
				seen[f] = true
				if f == m.connFn {
					return
				}
				switch {
				case goTargets[f]:
					confined, why = false, fname(f)+" runs on a goroutine of its own"
					return
				case f.Parent() == nil && token.IsExported(f.Name()):
					confined, why = false, fname(f)+" is part of the exported API"
					return
				case len(callers[f]) == 0 && f.Parent() != nil:
					// a closure nobody calls directly: deferred / called through a value in its parent
					up(f.Parent())
					return
				case len(callers[f]) == 0:
					confined, why = false, "no caller of "+fname(f)+" is known"
					return
				}
				for _, g := range callers[f] {
					up(g)
				}
			}
			nAcc := 0
			for _, a := range as {
				if isCtor(a) {
					continue
				}
				nAcc++
				up(a.fn)
			}
			if confined && nAcc > 0 {
				R.OK("C15-classified", name+" (not in the table)", pos, sprintf("every access after construction (%d) is made by the connection's own goroutine: the functions that touch it are reached only synchronously from the per-connection goroutine", nAcc))
				continue
			}
			_ = why
		}
		R.Unknown("C15-classified", name, pos, "field is not in the concurrency classification table and is neither a sync type, nor written only during construction, nor accessed only under one mutex of the struct: cannot show its accesses are race-free")
	}
	var keys []key
	for k := range acc {
		keys = append(keys, k)
	}
	sort.Slice(keys, func(i, j int) bool {
		if keys[i].typ != keys[j].typ {
			return keys[i].typ < keys[j].typ
		}
		return keys[i].field < keys[j].field
	})
	for _, k := range keys {
		fc, ok := c15Table[k.typ][k.field]
		if !ok {
			continue
		}
		name := k.typ + "." + k.field
		switch fc.class {
		case "sync":
			continue
		case "immutable":
			for _, a := range acc[k] {
				if !a.write {
					continue
				}
				okW := isCtor(a) && allowedWriter(fc, a.fn)
				why := "constructor literal in " + fname(a.fn)
				if !okW && allowedWriter(fc, a.fn) && rootFn(a.fn) == m.run && k.typ == "conn" {
					// written on the freshly built conn before it is handed to the connection goroutine
					base := an.Strip(a.fa.X)
					ex, isEx := base.(*ssa.Extract)
					if isEx && ex.Tuple == ssa.Value(m.newConn) && an.InstrDominates(a.at, m.connGo) {
						okW, why = true, "stored on the new conn before the go statement that publishes it"
					}
				}
				R.Check(okW, "C15-immutable", fname(a.fn)+": write "+name, c.pos(a.at), why, name+" is written after construction (in "+fname(a.fn)+"): concurrent readers race with it")
			}
		case "guarded":
			writerRoots := map[*ssa.Function]bool{}
			for _, a := range acc[k] {
				if a.write && !isCtor(a) {
					writerRoots[c.effRoot(a.fn, 0)] = true
				}
			}
			for _, a := range acc[k] {
				if isCtor(a) && allowedWriter(fc, a.fn) {
					continue
				}
				if a.write {
					held, hs := mutexHeld(a, fc.guard, false)
					R.Check(held, "C15-guarded", fname(a.fn)+": write "+name, c.pos(a.at), "under "+k.typ+"."+fc.guard+" "+hs, name+" is written without holding "+k.typ+"."+fc.guard+" (held: "+hs+")")
					continue
				}
				held, hs := mutexHeld(a, fc.guard, true)
				if held {
					R.OK("C15-guarded", fname(a.fn)+": read "+name, c.pos(a.at), "under "+k.typ+"."+fc.guard+" "+hs)
					continue
				}
				// unlocked read on the writing goroutine: the access is in the single top-level function that performs every write, not inside a go closure
				if len(writerRoots) == 1 && writerRoots[c.effRoot(a.fn, 0)] && !insideGoClosure(a.fn) {
					R.OK("C15-guarded", fname(a.fn)+": read "+name, c.pos(a.at), "unlocked read in "+fname(rootFn(a.fn))+", the only function that writes the field (same goroutine)")
					continue
				}
				R.Fail("C15-guarded", fname(a.fn)+": read "+name, c.pos(a.at), name+" is read without holding "+k.typ+"."+fc.guard+" while "+strings.Join(rootNames(writerRoots), ", ")+" write(s) it under the lock: data race when both run concurrently")
			}
		case "confined":
			connSlice := map[*ssa.Function]bool{}
			for f := range syncReach(m.connFn) {
				for _, a := range an.WithClosures(f) {
					connSlice[a] = true
				}
			}
			startTLS := c.P.Func(G, "(*Request).StartTLS")
			for _, a := range acc[k] {
				if isCtor(a) && allowedWriter(fc, a.fn) {
					continue
				}
				if a.write {
					okW := allowedWriter(fc, a.fn)
					if okW && fc.guard != "" {
						held, _ := mutexHeld(a, fc.guard, false)
						okW = held
					}
					R.Check(okW, "C15-confined", fname(a.fn)+": write "+name, c.pos(a.at), "written only by its owner ("+strings.Join(fc.writers, ", ")+")", name+" is written outside its owner functions or without its lock")
					continue
				}
				onConn := connSlice[a.fn] && !insideGoClosureBelow(a.fn, m.connFn)
				if partOfStartTLS, _ := syncOnlyFrom(a.fn, startTLS, c.shippedFuncs(G), 0); startTLS != nil && partOfStartTLS {
					onConn = true // a helper that runs only as part of Request.StartTLS (served inline by the read loop: C13-dispatch)
				}
				if a.fn == startTLS || c.effRoot(a.fn, 0) == rootFn(m.run) && !insideGoClosure(a.fn) || a.fn == c.P.Func(G, "(*conn).initConn") {
					onConn = true
				}
				if held, _ := mutexHeld(a, fc.guard, true); fc.guard != "" && held {
					onConn = true
				}
				R.Check(onConn, "C15-confined", fname(a.fn)+": read "+name, c.pos(a.at), "read on the goroutine that owns the field (connection goroutine / Run)", name+" is read from a goroutine other than its owner without a lock")
			}
		case "precondition":
			for _, a := range acc[k] {
				if !a.write {
					continue
				}
				if isCtor(a) && allowedWriter(fc, a.fn) {
					continue
				}
				okW := allowedWriter(fc, a.fn)
				if okW {
					held, _ := mutexHeld(a, fc.guard, false)
					okW = held
				}
				R.Check(okW, "C15-precondition", fname(a.fn)+": write "+name, c.pos(a.at), "written only by the registration methods, under "+k.typ+"."+fc.guard, name+" is written outside the registration methods or without the lock")
			}
		}
	}
	R.Floor("C15-guarded", 4)
	R.Floor("C15-immutable", 4)

	// ---- C15-alias: the lock guards the slice header stored in a field, not the backing array: when elements of a
	// guarded slice field are written in place (a store through an index, copy into it, append onto a re-slice of it),
	// the array must not be reachable from outside the lock - returned by a getter, or handed to a function that keeps
	// it (a response's SetControls, encoded after the handler has released the lock).
	c.checkSliceAlias(fns, c15Table, pkgOf)

	// ---- C15-encode-readonly: a response and its controls are encoded by ResponseWriter.Write before the writer lock is
	// taken, and one control object is routinely attached to many responses (a server's fixed policy control, the test
	// directory's controls): the encoders - every Encode method of a control type and every packet method of a response
	// type, with what they call - only read the object they encode (no store through the receiver: no lazily cached
	// encoding, no counters)
	{
		n := 0
		for _, f := range fns {
			if an.FuncPkgPath(f) != G || f.Signature.Recv() == nil || f.Parent() != nil || len(f.Params) == 0 {
				continue
			}
			if f.Name() != "Encode" && f.Name() != "packet" {
				continue
			}
			if f.Name() == "Encode" && !(f.Signature.Params().Len() == 0 && f.Signature.Results().Len() == 1) {
				continue
			}
			n++
			bad := ""
			for g := range syncReach(f) {
				if !an.InModule(g) || len(g.Params) == 0 {
					continue
				}
				// stores through g's own receiver / first parameter when that is the encoded object handed down
				if g != f {
					continue // callees are given packets under construction; only the encoder's own receiver is the shared object
				}
				an.Instrs(g, func(in ssa.Instruction) {
					st, ok := in.(*ssa.Store)
					if !ok {
						return
					}
					root := st.Addr
					for {
						if fa, ok := root.(*ssa.FieldAddr); ok {
							root = fa.X
							continue
						}
						if ia, ok := root.(*ssa.IndexAddr); ok {
							root = ia.X
							continue
						}
						if ld, ok := root.(*ssa.UnOp); ok && ld.Op == token.MUL {
							root = ld.X
							continue
						}
						break
					}
					if root == ssa.Value(g.Params[0]) && root != st.Addr {
						bad = c.pos(st)
					}
				})
			}
			R.Check(bad == "", "C15-encode-readonly", fname(f)+": encoding only reads the object", c.P.Pos(f.Pos()), "no store through the receiver",
				"the encoder writes to the object it encodes (at "+bad+"): the same control / response can be encoded by two goroutines at once (ResponseWriter.Write encodes before taking the writer lock), which makes this an unsynchronised write")
		}
		R.Count("C15-encode-readonly/encoders", n)
	}

	// ---- C15-waitgroup: reuse the pairing / ordering rules
	for _, sub := range []func(*Ctx){checkC08, checkC12} {
		tmp := &Ctx{P: c.P, R: report.New("tmp"), Tier: c.Tier, Sub: true}
		sub(tmp)
		for _, o := range tmp.R.Obls {
			if o.Rule == "C08-paired" || o.Rule == "C12-add-vs-wait" || (o.Rule == "C12-done-last" && strings.Contains(o.Construct, "connWg.Add")) {
				switch o.Status {
				case report.Discharged:
					R.OK("C15-waitgroup", o.Construct, o.Pos, o.Detail)
				default:
					R.Fail("C15-waitgroup", o.Construct, o.Pos, o.Detail)
				}
			}
		}
	}
	R.Floor("C15-waitgroup", 2)

	// ---- C15-guarded-object: the bufio.Writer behind ResponseWriter.writer / conn.writer is itself shared
	// state: every method call on it must be made under the connection's writerMu (rules of C05)
	{
		tmp := &Ctx{P: c.P, R: report.New("tmp"), Tier: c.Tier, Sub: true}
		checkC05(tmp)
		for _, o := range tmp.R.Obls {
			if o.Rule == "C05-owner" || o.Rule == "C05-locked" || (o.Rule == "C05-shared" && strings.Contains(o.Construct, "newResponseWriter")) {
				switch o.Status {
				case report.Discharged:
					R.OK("C15-guarded-object", o.Construct, o.Pos, o.Detail)
				default:
					R.Fail("C15-guarded-object", o.Construct, o.Pos, o.Detail)
				}
			}
		}
		R.Floor("C15-guarded-object", 2)
	}

	// ---- C15-foreign-config: a *tls.Config handed in by the application (WithTLSConfig, Request.StartTLS) is shared -
	// between connections being upgraded, with crypto/tls handshakes in flight and with the caller. gldap writes a field
	// of a tls.Config only when the config is its own: a literal it just built or the result of Clone()
	{
		nCfg := 0
		for _, f := range c.shippedFuncs(G) {
			an.Instrs(f, func(in ssa.Instruction) {
				st, ok := in.(*ssa.Store)
				if !ok {
					return
				}
				fa, ok := st.Addr.(*ssa.FieldAddr)
				if !ok || !an.TypeIs(fa.X.Type(), "crypto/tls", "Config") {
					return
				}
				nCfg++
				own := false
				switch x := an.Strip(fa.X).(type) {
				case *ssa.Alloc:
					own = true
				case *ssa.Call:
					if g := x.Common().StaticCallee(); g != nil && an.FuncPkgPath(g) == "crypto/tls" && g.Name() == "Clone" {
						own = true
					}
				}
				R.Check(own, "C15-foreign-config", fname(f)+": write tls.Config."+an.FieldAddrName(fa), c.pos(st), "the config is a literal or Clone() made by this function", "tls.Config."+an.FieldAddrName(fa)+" is written through "+an.Path(fa.X)+", a config gldap did not create: the application's config is shared by every connection being upgraded and by handshakes in flight, so the write races with their reads")
			})
		}
		R.Count("C15-foreign-config/stores", nCfg)
		R.Trivial("C15-foreign-config", "gldap writes no tls.Config it did not create", "-", sprintf("%d stores to tls.Config fields in package gldap examined", nCfg))
	}

	// ---- C15-copylocks
	for typ, pkg := range pkgOf {
		nt := c.P.NamedType(pkg, typ)
		if nt == nil || typ == "ResponseWriter" {
			continue
		}
		for _, f := range fns {
			an.Instrs(f, func(in ssa.Instruction) {
				v, ok := in.(ssa.Value)
				if !ok {
					return
				}
				if _, isAlloc := in.(*ssa.Alloc); isAlloc {
					return
				}
				if vt, ok := v.Type().(*types.Named); ok && vt.Obj() == nt.Obj() {
					R.Fail("C15-copylocks", fname(f)+": "+typ+" copied by value", c.pos(in), "a "+typ+" (which holds a mutex / wait group) is copied by value")
				}
			})
		}
	}
	R.Trivial("C15-copylocks", "no by-value copies of lock-holding structs", "-", "conn, Server, Mux, Directory only ever handled through pointers")

	// ---- C15-capture
	nCap := 0
	for _, f := range fns {
		for _, ci := range an.Calls(f) {
			g, ok := ci.(*ssa.Go)
			if !ok {
				continue
			}
			for _, cv := range capturedCells(f, g) {
				nCap++
				R.Check(!cv.bad, "C15-capture", fname(f)+": go closure captures "+cv.name, c.pos(g), "the captured variable is not assigned again after the goroutine is started (per-iteration variable)", "variable "+cv.name+" is captured by a goroutine and assigned again afterwards by the spawning function: the goroutine races with the next iteration")
			}
		}
	}
	R.Count("C15-capture/captured-cells", nCap)
	R.Assumptions = append(R.Assumptions,
		"Request.StartTLS is called from the StartTLS handler, which runs inline on the read-loop goroutine (C13-inline)",
		"routes are registered and Server.Router is called before Run (statement's precondition)",
		"sync.Mutex / RWMutex / WaitGroup / context provide the documented happens-before edges")
	R.NotDecided = append(R.NotDecided, "races in user handlers", "races contradicting the confinement assumption (would need a schedule)")
}

func rootNames(m map[*ssa.Function]bool) []string {
	var out []string
	for f := range m {
		out = append(out, fname(f))
	}
	sort.Strings(out)
	return out
}

// insideGoClosure: f is (nested in) the target of a go statement.
func insideGoClosure(f *ssa.Function) bool {
	for x := f; x != nil; x = x.Parent() {
		if mc := an.ClosureSite(x); mc != nil {
			for _, r := range *mc.Referrers() {
				if _, ok := r.(*ssa.Go); ok {
					return true
				}
			}
		}
	}
	return false
}

// insideGoClosureBelow: between f and stop (exclusive) there is a go target.
func insideGoClosureBelow(f, stop *ssa.Function) bool {
	for x := f; x != nil && x != stop; x = x.Parent() {
		if mc := an.ClosureSite(x); mc != nil {
			for _, r := range *mc.Referrers() {
				if _, ok := r.(*ssa.Go); ok {
					return true
				}
			}
		}
	}
	return false
}

// checkSliceAlias: see C15-alias in checkC15.
func (c *Ctx) checkSliceAlias(fns []*ssa.Function, table map[string]map[string]fieldClass, pkgOf map[string]string) {
	R := c.R
	type key struct{ typ, fld string }
	// derivedFrom: v is (a re-slice / conversion / phi of) a load of the field
	var derived func(v ssa.Value, k key, d int) bool
	derived = func(v ssa.Value, k key, d int) bool {
		if v == nil || d > 6 {
			return false
		}
		switch x := v.(type) {
		case *ssa.UnOp:
			if x.Op == token.MUL {
				if fa, ok := x.X.(*ssa.FieldAddr); ok {
					if st := an.StructOf(fa.X.Type()); st != nil && st.Obj().Name() == k.typ && st.Obj().Pkg() != nil && st.Obj().Pkg().Path() == pkgOf[k.typ] && an.FieldAddrName(fa) == k.fld {
						return true
					}
				}
			}
		case *ssa.Slice:
			return derived(x.X, k, d+1)
		case *ssa.ChangeType:
			return derived(x.X, k, d+1)
		case *ssa.Phi:
			for _, e := range x.Edges {
				if derived(e, k, d+1) {
					return true
				}
			}
		}
		return false
	}
	// retains: g keeps its parameter pi (stores it, returns it, captures it in a closure / goroutine)
	retains := func(g *ssa.Function, pi int) bool {
		if g == nil || len(g.Blocks) == 0 || pi >= len(g.Params) {
			return true // not analysable: assume it may
		}
		p := ssa.Value(g.Params[pi])
		var flows func(v ssa.Value, d int) bool
		flows = func(v ssa.Value, d int) bool {
			if v == nil || d > 6 {
				return false
			}
			if v == p {
				return true
			}
			switch x := v.(type) {
			case *ssa.Slice:
				return flows(x.X, d+1)
			case *ssa.ChangeType:
				return flows(x.X, d+1)
			case *ssa.MakeInterface:
				return flows(x.X, d+1)
			case *ssa.Phi:
				for _, e := range x.Edges {
					if flows(e, d+1) {
						return true
					}
				}
			}
			return false
		}
		keep := false
		an.Instrs(g, func(in ssa.Instruction) {
			switch x := in.(type) {
			case *ssa.Store:
				if flows(x.Val, 0) {
					if _, local := an.Strip(x.Addr).(*ssa.Alloc); !local || an.Strip(x.Addr).(*ssa.Alloc).Heap {
						keep = true
					}
				}
			case *ssa.Return:
				for _, r := range an.ReturnResults(x) {
					if flows(r, 0) {
						keep = true
					}
				}
			case *ssa.MakeClosure:
				for _, b := range x.Bindings {
					if flows(b, 0) {
						keep = true
					}
				}
			case *ssa.Go:
				for _, a := range x.Common().Args {
					if flows(a, 0) {
						keep = true
					}
				}
			case *ssa.Send:
				if flows(x.X, 0) {
					keep = true
				}
			}
		})
		return keep
	}
	var keys []key
	for typ, fields := range table {
		nt := c.P.NamedType(pkgOf[typ], typ)
		if nt == nil {
			continue
		}
		stt, ok := nt.Underlying().(*types.Struct)
		if !ok {
			continue
		}
		for i := 0; i < stt.NumFields(); i++ {
			f := stt.Field(i)
			fc, listed := fields[f.Name()]
			if _, isSlice := f.Type().Underlying().(*types.Slice); isSlice && listed && (fc.class == "guarded" || fc.class == "precondition") {
				keys = append(keys, key{typ, f.Name()})
			}
		}
	}
	sort.Slice(keys, func(i, j int) bool { return keys[i].typ+keys[i].fld < keys[j].typ+keys[j].fld })
	n := 0
	for _, k := range keys {
		name := k.typ + "." + k.fld
		var writes, escapes []string
		for _, f := range fns {
			an.Instrs(f, func(in ssa.Instruction) {
				switch x := in.(type) {
				case *ssa.Store:
					if ia, ok := x.Addr.(*ssa.IndexAddr); ok && derived(ia.X, k, 0) {
						writes = append(writes, "element store at "+c.pos(x))
					}
				case *ssa.Return:
					for _, r := range an.ReturnResults(x) {
						if derived(r, k, 0) {
							escapes = append(escapes, "returned by "+fname(f)+" at "+c.pos(x))
						}
					}
				case ssa.CallInstruction:
					cc := x.Common()
					if b, ok := cc.Value.(*ssa.Builtin); ok {
						switch b.Name() {
						case "append":
							if sl, isSl := cc.Args[0].(*ssa.Slice); isSl && derived(sl, k, 0) {
								writes = append(writes, "append onto a re-slice of the field at "+c.pos(x))
							}
						case "copy":
							if derived(cc.Args[0], k, 0) {
								writes = append(writes, "copy into the field at "+c.pos(x))
							}
						}
						return
					}
					g := an.StaticCallee(cc)
					args := cc.Args
					for ai, a := range args {
						if !derived(a, k, 0) {
							continue
						}
						pi := ai
						if g != nil && an.InModule(g) && !retains(g, pi) {
							continue
						}
						if g != nil && !an.InModule(g) {
							continue // library helpers (fmt, sort, slices ...) do not keep their arguments
						}
						what := "a dynamic call"
						if g != nil {
							what = fname(g)
						}
						escapes = append(escapes, "handed to "+what+", which keeps it, at "+c.pos(x))
					}
				}
			})
		}
		n++
		key := name + ": backing array is not written in place while reachable from outside the lock"
		pos := c.P.Pos(c.P.NamedType(pkgOf[k.typ], k.typ).Obj().Pos())
		switch {
		case len(writes) == 0:
			R.OK("C15-alias", key, pos, sprintf("never written in place (replaced wholesale or appended to); %d place(s) hand the array out", len(escapes)))
		case len(escapes) == 0:
			R.OK("C15-alias", key, pos, sprintf("written in place at %d site(s), but the array never leaves the lock: getters return copies", len(writes)))
		default:
			sort.Strings(writes)
			sort.Strings(escapes)
			R.Fail("C15-alias", key, pos, name+" is written in place ("+writes[0]+") and its backing array is reachable without the lock ("+escapes[0]+"): the reader of the handed-out slice races with that write although every access to the field itself holds the mutex")
		}
	}
	R.Count("C15-alias/fields", n)
}
