package rules

import (
	"go/token"
	"go/types"
	"strings"

	"gldapverif/an"

	"golang.org/x/tools/go/ssa"
)

// serverModel locates, structurally, the goroutine skeleton of the server:
// the accept loop in Run, the per-connection goroutine and its teardown, the
// read loop and the per-request goroutine.
type serverModel struct {
	run, stop, serve, closeFn, muxServe *ssa.Function

	closeHelper *ssa.Function       // helper of the teardown that calls (*conn).close, when the call is not in the teardown itself
	accept      *ssa.Call           // listener.Accept() in Run
	newConn     *ssa.Call           // newConn(...) in Run
	connGo      *ssa.Go             // go func(){...}() per connection
	connFn      *ssa.Function       // its target
	serveCall   ssa.CallInstruction // call of serveRequests inside connFn
	teardown    *ssa.Function       // function containing the call of (*conn).close
	tdDefer     *ssa.Defer          // the defer in connFn that registers teardown (nil if teardown == connFn)
	closeCall   ssa.CallInstruction // call of (*conn).close inside teardown

	loopHead *ssa.BasicBlock // read loop header in serveRequests
	readReq  *ssa.Call       // c.readRequest(...) in serveRequests
	reqGo    *ssa.Go         // per-request go
	reqFn    *ssa.Function
}

// syncCallees returns in-module functions called synchronously (call or
// defer, not go) from fn, including deferred/inline closures.
func syncCallees(fn *ssa.Function) []*ssa.Function {
	var out []*ssa.Function
	for _, ci := range an.Calls(fn) {
		if isGo(ci) {
			continue
		}
		if f := an.StaticCallee(ci.Common()); f != nil && an.InModule(f) && len(f.Blocks) > 0 {
			out = append(out, f)
			continue
		}
		out = append(out, invokeTargets(fn.Prog, ci.Common())...)
	}
	return out
}

// invokeTargets resolves a method call through an interface declared in the
// module to the methods of every module type that implements it (class
// hierarchy resolution restricted to the module's own interfaces; interfaces
// of other packages - io.Writer, net.Conn, hclog.Logger - are library code).
func invokeTargets(prog *ssa.Program, cc *ssa.CallCommon) []*ssa.Function {
	if !cc.IsInvoke() {
		return nil
	}
	nt, ok := cc.Value.Type().(*types.Named)
	if !ok || nt.Obj().Pkg() == nil || !strings.HasPrefix(nt.Obj().Pkg().Path(), an.ModPath) {
		return nil
	}
	iface, ok := nt.Underlying().(*types.Interface)
	if !ok {
		return nil
	}
	var out []*ssa.Function
	for _, pkg := range prog.AllPackages() {
		if !strings.HasPrefix(pkg.Pkg.Path(), an.ModPath) {
			continue
		}
		for _, mem := range pkg.Members {
			tn, ok := mem.(*ssa.Type)
			if !ok {
				continue
			}
			for _, t := range []types.Type{tn.Type(), types.NewPointer(tn.Type())} {
				if types.IsInterface(t) || !types.Implements(t, iface) {
					continue
				}
				sel := prog.MethodSets.MethodSet(t).Lookup(cc.Method.Pkg(), cc.Method.Name())
				if sel == nil {
					continue
				}
				if f := prog.MethodValue(sel); f != nil {
					// promoted-method wrappers: follow to the declared method
					if f.Synthetic != "" {
						for _, ci := range an.Calls(f) {
							if g := an.StaticCallee(ci.Common()); g != nil && len(g.Blocks) > 0 && an.InModule(g) {
								out = append(out, g)
							}
						}
						continue
					}
					if len(f.Blocks) > 0 {
						out = append(out, f)
					}
				}
			}
		}
	}
	return out
}

// syncReach is the set of in-module functions reachable from fn through
// synchronous static calls (fn included).
func syncReach(fn *ssa.Function) map[*ssa.Function]bool {
	seen := map[*ssa.Function]bool{}
	var walk func(f *ssa.Function)
	walk = func(f *ssa.Function) {
		if seen[f] {
			return
		}
		seen[f] = true
		for _, g := range syncCallees(f) {
			walk(g)
		}
	}
	walk(fn)
	return seen
}

func callTo(fn *ssa.Function, pkg, name string) []ssa.CallInstruction {
	var out []ssa.CallInstruction
	for _, ci := range an.Calls(fn) {
		if an.CalleeIs(ci.Common(), pkg, name) {
			out = append(out, ci)
		}
	}
	return out
}

func goTarget(g *ssa.Go) *ssa.Function { return an.StaticCallee(g.Common()) }

func (c *Ctx) serverModel() *serverModel {
	m := &serverModel{}
	m.run = c.fn(G, "(*Server).Run")
	m.stop = c.fn(G, "(*Server).Stop")
	m.serve = c.fn(G, "(*conn).serveRequests")
	m.closeFn = c.fn(G, "(*conn).close")
	m.muxServe = c.fn(G, "(*Mux).serve")
	if m.run == nil || m.stop == nil || m.serve == nil || m.closeFn == nil || m.muxServe == nil {
		return nil
	}
	// accept + newConn
	for _, ci := range an.Calls(m.run) {
		cc := ci.Common()
		if call, ok := ci.(*ssa.Call); ok {
			if cc.IsInvoke() && cc.Method.Name() == "Accept" && an.TypeIs(cc.Value.Type(), "net", "Listener") {
				if m.accept != nil {
					c.R.Fatal("more than one Accept call in Run")
				}
				m.accept = call
			}
			if an.CalleeIs(cc, G, "newConn") {
				m.newConn = call
			}
		}
		if g, ok := ci.(*ssa.Go); ok {
			t := goTarget(g)
			if t != nil && syncReach(t)[m.serve] {
				if m.connGo != nil {
					c.R.Fatal("more than one go statement in Run reaches serveRequests")
				}
				m.connGo, m.connFn = g, t
			}
		}
	}
	// newConn may also be called at the start of the per-connection goroutine
	if m.newConn == nil && m.connFn != nil {
		for _, ci := range an.Calls(m.connFn) {
			if call, ok := ci.(*ssa.Call); ok && an.CalleeIs(ci.Common(), G, "newConn") {
				m.newConn = call
			}
		}
	}
	if m.accept == nil || m.newConn == nil || m.connGo == nil {
		c.R.Fatal("Run: cannot locate Accept / newConn / per-connection go (accept=%v newConn=%v go=%v)", m.accept != nil, m.newConn != nil, m.connGo != nil)
		return nil
	}
	// serveRequests call in connFn (or a sync callee)
	for _, ci := range an.Calls(m.connFn) {
		if an.CalleeIs(ci.Common(), G, "(*conn).serveRequests") && !isGo(ci) {
			m.serveCall = ci
		}
	}
	if m.serveCall == nil {
		c.R.Fatal("per-connection goroutine does not call serveRequests directly")
		return nil
	}
	// teardown: the function among connFn and its deferred closures that calls (*conn).close
	cands := []*ssa.Function{m.connFn}
	defers := map[*ssa.Function]*ssa.Defer{}
	for _, ci := range an.Calls(m.connFn) {
		if d, ok := ci.(*ssa.Defer); ok {
			// a deferred function literal of the goroutine, or a deferred named function / method of the module
			if t := an.StaticCallee(d.Common()); t != nil && an.InModule(t) && len(t.Blocks) > 0 && (t.Parent() == m.connFn || t.Parent() == nil) {
				cands = append(cands, t)
				defers[t] = d
			}
		}
	}
	for _, f := range cands {
		if cs := callTo(f, G, "(*conn).close"); len(cs) > 0 {
			if m.teardown != nil || len(cs) > 1 {
				c.R.Fatal("(*conn).close is called more than once in the per-connection goroutine")
			}
			m.teardown, m.closeCall, m.tdDefer = f, cs[0], defers[f]
		}
	}
	if m.teardown == nil {
		// the close may sit in a helper the teardown calls once (`id, err := s.closeConn(conn, done)`): the helper call
		// then stands for conn.close() in the teardown (it returns only after the close has)
		for _, f := range cands {
			for _, ci := range an.Calls(f) {
				call, ok := ci.(*ssa.Call)
				if !ok {
					continue
				}
				h := an.StaticCallee(call.Common())
				if h == nil || !an.InModule(h) || len(h.Blocks) == 0 || h == m.closeFn {
					continue
				}
				cs := callTo(h, G, "(*conn).close")
				if len(cs) != 1 || !isCall(cs[0]) {
					continue
				}
				// every path through the helper closes
				if an.Search(an.Entry(h), an.IsReturn, isInstr(cs[0])) != nil {
					continue
				}
				if m.teardown != nil {
					c.R.Fatal("(*conn).close is called more than once in the per-connection goroutine")
				}
				m.teardown, m.closeCall, m.tdDefer = f, call, defers[f]
				m.closeHelper = h
			}
		}
	}
	if m.teardown == nil {
		c.R.Fatal("per-connection goroutine has no teardown calling (*conn).close")
		return nil
	}
	// read loop
	for _, ci := range an.Calls(m.serve) {
		if call, ok := ci.(*ssa.Call); ok && an.CalleeIs(ci.Common(), G, "(*conn).readRequest") {
			if m.readReq != nil {
				c.R.Fatal("more than one readRequest call in serveRequests")
			}
			m.readReq = call
		}
		if g, ok := ci.(*ssa.Go); ok {
			if t := goTarget(g); t != nil && syncReach(t)[m.muxServe] {
				if m.reqGo != nil {
					c.R.Fatal("more than one per-request go in serveRequests")
				}
				m.reqGo, m.reqFn = g, t
			}
		}
	}
	if m.readReq == nil {
		c.R.Fatal("serveRequests does not call readRequest")
		return nil
	}
	// loop header: innermost loop header dominating readReq: the nearest
	// dominator block of readReq's block that has a back edge (a predecessor it dominates).
	for b := m.readReq.Block(); b != nil; b = b.Idom() {
		isHead := false
		for _, p := range b.Preds {
			if b.Dominates(p) {
				isHead = true
			}
		}
		if isHead {
			m.loopHead = b
			break
		}
	}
	if m.loopHead == nil {
		c.R.Fatal("serveRequests: readRequest is not inside a loop")
		return nil
	}
	nick[m.connFn] = "(*Server).Run:connGoroutine"
	if m.teardown != m.connFn {
		nick[m.teardown] = "(*Server).Run:connTeardown"
	}
	if m.reqFn != nil {
		nick[m.reqFn] = "(*conn).serveRequests:requestGoroutine"
	}
	c.R.Analysed = append(c.R.Analysed, fname(m.connFn), fname(m.teardown))
	if m.reqFn != nil {
		c.R.Analysed = append(c.R.Analysed, fname(m.reqFn))
	}
	return m
}

// loopHeadOf finds the innermost loop header dominating the instruction.
func loopHeadOf(in ssa.Instruction) *ssa.BasicBlock {
	for b := in.Block(); b != nil; b = b.Idom() {
		for _, p := range b.Preds {
			if b.Dominates(p) {
				return b
			}
		}
	}
	return nil
}

// isDynCallOfField: call whose callee value is a load of struct field
// pkg.typ.field (e.g. s.onCloseHandler(id), s.shutdownCancel()).
func isDynCallOfField(cc *ssa.CallCommon, pkg, typ, field string) bool {
	if cc.IsInvoke() || cc.StaticCallee() != nil {
		return false
	}
	_, ok := fieldLoad(cc.Value, pkg, typ, field)
	return ok
}

// isWG reports a call of sync.WaitGroup method `m` on field pkg.typ.field.
func isWG(cc *ssa.CallCommon, method, pkg, typ, field string) bool {
	if isWGDirect(cc, method, pkg, typ, field) {
		// inside a thin wrapper (`func (s *Server) reserveConn() { s.connWg.Add(1); ... }`) the call is not a site of
		// its own: the wrapper's call sites are
		if fa, ok := cc.Args[0].(*ssa.FieldAddr); ok && wgWrapper(fa.Parent(), method, pkg, typ, field) {
			return false
		}
		return true
	}
	if method == "Add" || method == "Done" {
		if g := cc.StaticCallee(); g != nil && an.InModule(g) && len(cc.Args) == 1 && wgWrapper(g, method, pkg, typ, field) {
			return true
		}
	}
	return false
}

func isWGDirect(cc *ssa.CallCommon, method, pkg, typ, field string) bool {
	f := cc.StaticCallee()
	if f == nil || an.FuncPkgPath(f) != "sync" || f.Name() != method || f.Signature.Recv() == nil ||
		!an.TypeIs(f.Signature.Recv().Type(), "sync", "WaitGroup") || len(cc.Args) == 0 {
		return false
	}
	_, ok := fieldAddr(cc.Args[0], pkg, typ, field)
	return ok
}

// wgAddIsOne: the Add site adds the constant 1 (a wrapper site does by construction).
func wgAddIsOne(ci ssa.CallInstruction) bool {
	if len(ci.Common().Args) < 2 {
		return true // wrapper call: wgWrapper checked the constant
	}
	k, isK := an.IntConst(ci.Common().Args[1])
	return isK && k == 1
}

var wgWrapperMemo = map[string]bool{}

// wgWrapper: g is a method of pkg.typ without further parameters or results
// that, on its only path, performs exactly one <field>.Add(1) / <field>.Done()
// on its receiver and otherwise nothing but atomic counter updates and
// logging: calling it is that WaitGroup operation.
func wgWrapper(g *ssa.Function, method, pkg, typ, field string) bool {
	if g == nil || len(g.Blocks) != 1 || len(g.Params) != 1 || g.Signature.Results().Len() != 0 || g.Signature.Recv() == nil {
		return false
	}
	key := g.String() + "|" + method + "|" + typ + "." + field
	if v, ok := wgWrapperMemo[key]; ok {
		return v
	}
	n, ok := 0, true
	for _, in := range g.Blocks[0].Instrs {
		switch x := in.(type) {
		case ssa.CallInstruction:
			cc := x.Common()
			if _, isCall := x.(*ssa.Call); !isCall {
				ok = false
				continue
			}
			if isWGDirect(cc, method, pkg, typ, field) {
				base, _ := fieldAddr(cc.Args[0], pkg, typ, field)
				if an.Strip(base) != ssa.Value(g.Params[0]) {
					ok = false
				}
				if method == "Add" {
					if k, isK := an.IntConst(cc.Args[1]); !isK || k != 1 {
						ok = false
					}
				}
				n++
				continue
			}
			if f := cc.StaticCallee(); f != nil && an.FuncPkgPath(f) == "sync/atomic" {
				continue
			}
			if cc.IsInvoke() && an.TypeIs(cc.Value.Type(), "github.com/hashicorp/go-hclog", "Logger") {
				continue
			}
			ok = false
		case *ssa.Store, *ssa.Send, *ssa.Select, *ssa.MapUpdate, *ssa.Panic:
			ok = false
		}
	}
	res := ok && n == 1
	wgWrapperMemo[key] = res
	return res
}

// isInvoke reports an interface method call name on interface type pkg.iface.
func isInvoke(cc *ssa.CallCommon, pkg, iface, name string) bool {
	return cc.IsInvoke() && cc.Method.Name() == name && an.TypeIs(cc.Value.Type(), pkg, iface)
}

// instrPred helpers
func isInstr(x ssa.Instruction) func(ssa.Instruction) bool {
	return func(in ssa.Instruction) bool { return in == x }
}

func callPred(p func(*ssa.CallCommon) bool) func(ssa.Instruction) bool {
	return func(in ssa.Instruction) bool {
		ci, ok := in.(ssa.CallInstruction)
		return ok && p(ci.Common())
	}
}

// plainCallPred matches only *ssa.Call (not go/defer).
func plainCallPred(p func(*ssa.CallCommon) bool) func(ssa.Instruction) bool {
	return func(in ssa.Instruction) bool {
		ci, ok := in.(*ssa.Call)
		return ok && p(ci.Common())
	}
}

func inBlock(b *ssa.BasicBlock) func(ssa.Instruction) bool {
	return func(in ssa.Instruction) bool { return in.Block() == b }
}

func or(ps ...func(ssa.Instruction) bool) func(ssa.Instruction) bool {
	return func(in ssa.Instruction) bool {
		for _, p := range ps {
			if p(in) {
				return true
			}
		}
		return false
	}
}

// fieldEqConst decomposes cond as `load(pkg.typ.field) == const` and returns
// the constant's string value.
func fieldEqConst(cond ssa.Value, pkg, typ, field string) (string, bool) {
	s, neq, ok := fieldCmpConst(cond, pkg, typ, field)
	return s, ok && !neq
}

// fieldCmpConst recognises `x.field == "const"` and `x.field != "const"`
// (either operand order); neq tells which.
func fieldCmpConst(cond ssa.Value, pkg, typ, field string) (s string, neq bool, ok bool) {
	bo, isB := cond.(*ssa.BinOp)
	if !isB || (bo.Op != token.EQL && bo.Op != token.NEQ) {
		return "", false, false
	}
	try := func(a, b ssa.Value) (string, bool) {
		if _, ok := fieldLoad(a, pkg, typ, field); !ok {
			return "", false
		}
		return an.StrConst(b)
	}
	if v, ok := try(bo.X, bo.Y); ok {
		return v, bo.Op == token.NEQ, true
	}
	v, ok2 := try(bo.Y, bo.X)
	return v, bo.Op == token.NEQ, ok2
}

// eqAtom recognises a comparison of a known atom with its constant: match,
// and whether the condition is written as the negation (!=).
type eqAtom func(v ssa.Value) (match, negated bool)

// hasEqFact: block b is control-dependent on the atom's equality being `polarity`.
func hasEqFact(b *ssa.BasicBlock, polarity bool, a eqAtom) bool {
	for _, f := range an.BranchFacts(b) {
		cond, neg := an.Not(f.Cond)
		match, negated := a(cond)
		if !match {
			// a test of a classifier's result: `kindOf(r) == kindUnbind` implies what every return of kindOf
			// with that value was control-dependent on
			if pol, known := classImplies(cond, f.True != neg, a); known && pol == polarity {
				return true
			}
			continue
		}
		if (f.True != neg) != negated == polarity {
			return true
		}
	}
	return false
}

// ifsOnEq lists the Ifs on the atom; Neg tells whether the If's condition is the negation of the equality.
func ifsOnEq(fn *ssa.Function, a eqAtom) []condIf {
	var out []condIf
	an.Instrs(fn, func(in ssa.Instruction) {
		iff, ok := in.(*ssa.If)
		if !ok {
			return
		}
		cond, neg := an.Not(iff.Cond)
		if match, negated := a(cond); match {
			out = append(out, condIf{iff, neg != negated})
			return
		}
		// a classifier test that is equivalent to the atom (true => atom has polarity p, false => the opposite)
		pt, kt := classImplies(cond, true, a)
		pf, kf := classImplies(cond, false, a)
		if kt && kf && pt != pf {
			out = append(out, condIf{iff, neg != !pt})
		}
	})
	return out
}

// classifierCall: cond is `K(args...) == k` / `!= k` for a module function K
// all of whose returns yield integer constants; returns the call, k and
// whether the comparison is !=.
func classifierCall(cond ssa.Value) (*ssa.Call, int64, bool, bool) {
	bo, ok := cond.(*ssa.BinOp)
	if !ok || (bo.Op != token.EQL && bo.Op != token.NEQ) {
		return nil, 0, false, false
	}
	x, kc := bo.X, bo.Y
	if _, isK := an.IntConst(x); isK {
		x, kc = bo.Y, bo.X
	}
	k, isK := an.IntConst(kc)
	call, isCall := an.Strip(x).(*ssa.Call)
	if !isK || !isCall {
		return nil, 0, false, false
	}
	K := an.StaticCallee(call.Common())
	if K == nil || !an.InModule(K) || len(K.Blocks) == 0 {
		return nil, 0, false, false
	}
	for _, ret := range an.Returns(K) {
		res := an.ReturnResults(ret)
		if len(res) != 1 {
			return nil, 0, false, false
		}
		if _, isC := an.IntConst(res[0]); !isC {
			return nil, 0, false, false
		}
	}
	// a pure classification: no stores, no calls
	pure := true
	an.Instrs(K, func(in ssa.Instruction) {
		switch in.(type) {
		case *ssa.Store, ssa.CallInstruction:
			pure = false
		}
	})
	if !pure {
		return nil, 0, false, false
	}
	return call, k, bo.Op == token.NEQ, true
}

// classImplies: the classifier test cond having the value truth implies that
// the atom has polarity pol (every return of the classifier the test selects
// is control-dependent on the atom with that polarity).
func classImplies(cond ssa.Value, truth bool, a eqAtom) (pol bool, known bool) {
	call, k, neq, ok := classifierCall(cond)
	if !ok {
		return false, false
	}
	K := an.StaticCallee(call.Common())
	wantEq := truth != neq // the classifier's result equals k
	n := 0
	for _, ret := range an.Returns(K) {
		v, _ := an.IntConst(an.ReturnResults(ret)[0])
		if (v == k) != wantEq {
			continue
		}
		found := false
		for _, f := range an.BranchFacts(ret.Block()) {
			c2, neg := an.Not(f.Cond)
			if match, negated := a(c2); match {
				p := (f.True != neg) != negated
				if n > 0 && p != pol {
					return false, false
				}
				pol, found = p, true
				break
			}
		}
		if !found {
			return false, false
		}
		n++
	}
	return pol, n > 0
}

// atomBase: the struct value whose field the (negation-stripped) condition
// tests: the base of a `x.field ⋈ const` comparison or of a table lookup
// indexed by it, or the argument a classifier test passes for that struct.
func atomBase(cond ssa.Value, pkg, typ, field string) ssa.Value {
	if call, _, _, ok := classifierCall(cond); ok {
		for _, a := range call.Common().Args {
			if an.TypeIs(a.Type(), pkg, typ) {
				return a
			}
		}
		return nil
	}
	var operands []ssa.Value
	switch x := cond.(type) {
	case *ssa.BinOp:
		operands = []ssa.Value{x.X, x.Y}
	case *ssa.Lookup:
		operands = []ssa.Value{x.Index}
	}
	for _, o := range operands {
		if b, ok := fieldLoad(o, pkg, typ, field); ok {
			return b
		}
	}
	return nil
}

// hasFact reports whether the block is control-dependent (through
// single-predecessor branch edges on its dominator chain) on pred(cond) with
// the given polarity.
func hasFact(b *ssa.BasicBlock, polarity bool, pred func(ssa.Value) bool) bool {
	return hasFactD(b, polarity, pred, 0)
}

func hasFactD(b *ssa.BasicBlock, polarity bool, pred func(ssa.Value) bool, depth int) bool {
	for _, f := range an.BranchFacts(b) {
		cond, neg := an.Not(f.Cond)
		pol := f.True != neg
		if pol == polarity && pred(cond) {
			return true
		}
		// a boolean assembled from several tests (`closed := a(err) || b(err); if !closed {...}`): a phi of constants and
		// test results; the fact holds when it holds on every edge the phi's value allows
		if phi, isPhi := cond.(*ssa.Phi); isPhi && depth < 3 && phiFact(phi, pol, polarity, pred, depth) {
			return true
		}
		// a test of a classifier's result (`switch classify(err) { case kindClosed: ...`): it implies the predicate when
		// every return of the classifier that the test selects is itself control-dependent on it
		if depth < 2 {
			if p, known := classImpliesPred(cond, pol, pred, depth); known && p == polarity {
				return true
			}
		}
	}
	// a join of edges each of which carries the fact (`if a(x) || b(x) { ... }` with both a and b satisfying pred)
	if len(b.Preds) >= 2 && depth < 3 {
		for _, p := range b.Preds {
			if len(p.Instrs) == 0 {
				return false
			}
			edge := false
			if iff, ok := p.Instrs[len(p.Instrs)-1].(*ssa.If); ok && p.Succs[0] != p.Succs[1] {
				cond, neg := an.Not(iff.Cond)
				pol := (p.Succs[0] == b) != neg
				edge = pol == polarity && pred(cond)
			}
			if !edge && !hasFactD(p, polarity, pred, depth+1) {
				return false
			}
		}
		return true
	}
	return false
}

// phiFact: the boolean phi having the value `truth` implies that a condition
// satisfying pred has polarity `polarity`: every edge that can carry that value
// does - a constant edge through the branch it comes from, a value edge through
// the value itself.
func phiFact(phi *ssa.Phi, truth, polarity bool, pred func(ssa.Value) bool, depth int) bool {
	n := 0
	for i, e := range phi.Edges {
		if i >= len(phi.Block().Preds) {
			return false
		}
		p := phi.Block().Preds[i]
		if v, isC := an.BoolConst(e); isC {
			if v != truth {
				continue // this edge cannot carry the value
			}
			ok := false
			if len(p.Instrs) > 0 {
				if iff, isIf := p.Instrs[len(p.Instrs)-1].(*ssa.If); isIf && p.Succs[0] != p.Succs[1] {
					cond, neg := an.Not(iff.Cond)
					ok = ((p.Succs[0] == phi.Block()) != neg) == polarity && pred(cond)
				}
			}
			if !ok && !hasFactD(p, polarity, pred, depth+1) {
				return false
			}
			n++
			continue
		}
		cond, neg := an.Not(e)
		if (truth != neg) == polarity && pred(cond) {
			n++
			continue
		}
		if inner, isPhi := cond.(*ssa.Phi); isPhi && depth < 3 && phiFact(inner, truth != neg, polarity, pred, depth+1) {
			n++
			continue
		}
		return false
	}
	return n > 0
}

// classifierForced: the If tests the result t of a pure classifier K against a
// constant, and the tests of the same t that dominate it leave only one outcome:
// t is already known, or every other value K can return has been excluded
// (`switch kind(r) { case a: ... case b: ... case c: ... }` with K's range {a,b,c}:
// the edge "none of them" is infeasible). Installed as an.ForcedBranch.
func classifierForced(iff *ssa.If) (int, bool) {
	if v, ok := forcedMemo[iff]; ok {
		return v.k, v.ok
	}
	k, ok := classifierForced0(iff)
	forcedMemo[iff] = struct {
		k  int
		ok bool
	}{k, ok}
	return k, ok
}

var forcedMemo = map[*ssa.If]struct {
	k  int
	ok bool
}{}

func classifierForced0(iff *ssa.If) (int, bool) {
	cond, neg := an.Not(iff.Cond)
	call, k, neq, ok := classifierCallLoose(cond)
	if !ok {
		return 0, false
	}
	K := an.StaticCallee(call.Common())
	rng := map[int64]bool{}
	for _, ret := range an.Returns(K) {
		v, _ := an.IntConst(an.ReturnResults(ret)[0])
		rng[v] = true
	}
	known, has := int64(0), false
	for _, f := range an.BranchFacts(iff.Block()) {
		c2, n2 := an.Not(f.Cond)
		call2, k2, neq2, ok2 := classifierCallLoose(c2)
		if !ok2 || call2 != call {
			continue
		}
		eq := ((f.True != n2) != neq2) // t == k2 holds on this path
		if eq {
			known, has = k2, true
		} else {
			delete(rng, k2)
		}
	}
	var eqHolds bool
	switch {
	case has:
		eqHolds = known == k
	case !rng[k]:
		eqHolds = false
	case len(rng) == 1:
		eqHolds = true
	default:
		return 0, false
	}
	condVal := eqHolds != neq // value of the comparison as written
	if condVal != neg {       // value of the If's condition
		return 0, true
	}
	return 1, true
}

// classifierCallLoose is classifierCall for classifiers of values other than
// requests (errors): K may call functions outside the module (errors.Is,
// strings.Contains, err.Error(), net.Error.Temporary()) but stores nothing
// and calls nothing of the module.
func classifierCallLoose(cond ssa.Value) (*ssa.Call, int64, bool, bool) {
	if call, k, neq, ok := classifierCall(cond); ok {
		return call, k, neq, ok
	}
	bo, ok := cond.(*ssa.BinOp)
	if !ok || (bo.Op != token.EQL && bo.Op != token.NEQ) {
		return nil, 0, false, false
	}
	x, kc := bo.X, bo.Y
	if _, isK := an.IntConst(x); isK {
		x, kc = bo.Y, bo.X
	}
	k, isK := an.IntConst(kc)
	call, isCall := an.Strip(x).(*ssa.Call)
	if !isK || !isCall {
		return nil, 0, false, false
	}
	K := an.StaticCallee(call.Common())
	if K == nil || !an.InModule(K) || len(K.Blocks) == 0 {
		return nil, 0, false, false
	}
	for _, ret := range an.Returns(K) {
		res := an.ReturnResults(ret)
		if len(res) != 1 {
			return nil, 0, false, false
		}
		if _, isC := an.IntConst(res[0]); !isC {
			return nil, 0, false, false
		}
	}
	pure := true
	an.Instrs(K, func(in ssa.Instruction) {
		switch y := in.(type) {
		case *ssa.Store:
			if _, local := an.CellRoot(y.Addr).(*ssa.Alloc); !local {
				pure = false
			}
		case *ssa.Go, *ssa.Defer:
			pure = false
		case *ssa.Call:
			if g := an.StaticCallee(y.Common()); g != nil && an.InModule(g) {
				pure = false
			} else if g == nil && !y.Common().IsInvoke() {
				if _, isB := y.Common().Value.(*ssa.Builtin); !isB {
					pure = false
				}
			}
		}
	})
	if !pure {
		return nil, 0, false, false
	}
	return call, k, bo.Op == token.NEQ, true
}

// classImpliesPred: the classifier test cond having the value truth implies
// that a condition satisfying pred has polarity pol: every return of the
// classifier which the test selects is control-dependent on such a condition
// with that polarity.
func classImpliesPred(cond ssa.Value, truth bool, pred func(ssa.Value) bool, depth int) (pol bool, known bool) {
	call, k, neq, ok := classifierCallLoose(cond)
	if !ok {
		return false, false
	}
	K := an.StaticCallee(call.Common())
	wantEq := truth != neq
	n := 0
	for _, ret := range an.Returns(K) {
		v, _ := an.IntConst(an.ReturnResults(ret)[0])
		if (v == k) != wantEq {
			continue
		}
		pt := hasFactD(ret.Block(), true, pred, depth+1)
		pf := hasFactD(ret.Block(), false, pred, depth+1)
		if pt && pf {
			// several conditions satisfy pred (`case a(err), b(err): ...; case c(err): ...`): one of them holds here and
			// the earlier ones do not - "a condition satisfying pred is true" is what holds
			pf = false
		}
		if pt == pf {
			return false, false
		}
		if n > 0 && pt != pol {
			return false, false
		}
		pol = pt
		n++
	}
	return pol, n > 0
}

func isErrorType(t types.Type) bool {
	return types.Identical(t, types.Universe.Lookup("error").Type())
}

// succOn returns the successor of the If ending block b taken when cond is `val`.
func succOn(iff *ssa.If, val bool) *ssa.BasicBlock {
	if val {
		return iff.Block().Succs[0]
	}
	return iff.Block().Succs[1]
}

// ifsOn lists If instructions of fn whose (negation-stripped) condition
// satisfies pred; returns the If and whether the condition is negated.
type condIf struct {
	If  *ssa.If
	Neg bool
}

func ifsOn(fn *ssa.Function, pred func(ssa.Value) bool) []condIf {
	var out []condIf
	an.Instrs(fn, func(in ssa.Instruction) {
		iff, ok := in.(*ssa.If)
		if !ok {
			return
		}
		cond, neg := an.Not(iff.Cond)
		if pred(cond) {
			out = append(out, condIf{iff, neg})
			return
		}
		// a classifier test one of whose outcomes implies the predicate
		if p, known := classImpliesPred(cond, true, pred, 0); known && p {
			out = append(out, condIf{iff, neg})
		} else if p, known := classImpliesPred(cond, false, pred, 0); known && p {
			out = append(out, condIf{iff, !neg})
		}
	})
	return out
}

// errNilIf is a branch of fn that decides whether errVal is nil: directly
// (`if err != nil`), or through a classifier of the module applied to it
// (`switch classifyReadErr(err) { case readOK: ...`) whose selected returns are
// all under `err == nil` (and the others all under `err != nil`).
type errNilIf struct {
	If      *ssa.If
	NilSucc *ssa.BasicBlock // taken when errVal is nil
	ErrSucc *ssa.BasicBlock // taken when it is not
}

func errNilIfs(fn *ssa.Function, errVal ssa.Value) []errNilIf {
	var out []errNilIf
	an.Instrs(fn, func(in ssa.Instruction) {
		iff, ok := in.(*ssa.If)
		if !ok {
			return
		}
		cond, neg := an.Not(iff.Cond)
		if x, trueMeansNil, isNC := an.NilCheck(cond); isNC && an.StripX(x) == errVal {
			nilIdx := 0
			if trueMeansNil == neg {
				nilIdx = 1
			}
			out = append(out, errNilIf{iff, iff.Block().Succs[nilIdx], iff.Block().Succs[1-nilIdx]})
			return
		}
		call, _, _, isK := classifierCallLoose(cond)
		if !isK {
			return
		}
		K := an.StaticCallee(call.Common())
		pi := -1
		for i, a := range call.Common().Args {
			if an.StripX(a) == errVal && i < len(K.Params) {
				pi = i
			}
		}
		if pi < 0 {
			return
		}
		isNil := func(v ssa.Value) bool {
			x, trueMeansNil, ok := an.NilCheck(v)
			return ok && trueMeansNil && an.Strip(x) == ssa.Value(K.Params[pi])
		}
		isNonNil := func(v ssa.Value) bool {
			x, trueMeansNil, ok := an.NilCheck(v)
			return ok && !trueMeansNil && an.Strip(x) == ssa.Value(K.Params[pi])
		}
		// meaning(truth): +1 the classifier test having this value implies err == nil, -1 implies err != nil, 0 unknown
		meaning := func(truth bool) int {
			if p, known := classImpliesPred(cond, truth, isNil, 0); known {
				if p {
					return 1
				}
				return -1
			}
			if p, known := classImpliesPred(cond, truth, isNonNil, 0); known {
				if p {
					return -1
				}
				return 1
			}
			return 0
		}
		mt, mf := meaning(true), meaning(false)
		if mt*mf != -1 {
			return
		}
		condTrue := 0
		if neg {
			condTrue = 1
		}
		nilIdx := condTrue
		if mt == -1 {
			nilIdx = 1 - condTrue
		}
		out = append(out, errNilIf{iff, iff.Block().Succs[nilIdx], iff.Block().Succs[1-nilIdx]})
	})
	return out
}
