package rules

import (
	"gldapverif/report"
	"go/token"
	"regexp"
	"sort"
	"strconv"
	"strings"

	"gldapverif/an"

	"golang.org/x/tools/go/ssa"
)

func init() {
	Registry["C01"] = checkC01
	Descriptions["C01"] = "Engine E1/E5 (decode side): newMessage and the *Parameters methods it calls are interpreted symbolically along every success path (branches from which only one side can still succeed are forced, genuine forks enumerated, range loops as one symbolic element); the origin of every exported message field is an expression over the BER tree and is compared with a table transcribed from RFC 4511 (position, accessor, list construction over the whole child list, order). " +
		"C01-kindmap (protocolOp tag -> kind -> message type -> route operation compose to the RFC bijection; unknown tags are an error), C01-version (a Bind succeeds only if version == 3), C01-field / C01-list (field origins), C01-assert (every class/type/tag assertion on a table node carries the RFC's values), C01-reach (every well-formed shape has a success path), C01-readonly-data (between ReadPacket and the handler only non-consuming bytes.Buffer methods touch a received packet's Data), C01-stream-sync (after a failed read the read loop never reads the connection again, unless the failure is a sentinel produced nowhere after a ber.ReadPacket call), C01-fresh-controls (every decoded control is allocated by the call that decodes it: rule C14-fresh). " +
		"Values are never inspected. Trusted: ldap.DecompileFilter, ber.ReadPacket."
}

// shorthand notation for origins
var (
	reStr    = regexp.MustCompile(`bytes\.\(\*Buffer\)\.String\(([^()]*)\.Data\)`)
	reInt    = regexp.MustCompile(`assert\(([^()]*)\.Value,int64\)#0`)
	reBool   = regexp.MustCompile(`assert\(([^()]*)\.Value,bool\)#0`)
	reBer    = regexp.MustCompile(`conv<string>\(github\.com/go-asn1-ber/asn1-ber\.\(\*Packet\)\.Bytes\(([^()]*)\)\)`)
	reCtl    = regexp.MustCompile(`decodeControl\(([^()]*)\)#0`)
	reFilter = regexp.MustCompile(`github\.com/go-ldap/ldap/v3\.DecompileFilter\(([^()]*)\)#0`)
	reConvI  = regexp.MustCompile(`conv<int>\((int\([^()]*\))\)`)
)

func shortOrigin(s string) string {
	s = strings.ReplaceAll(s, "$0.Packet.Children[1]", "OP")
	s = strings.ReplaceAll(s, "$0.Packet", "R")
	s = reStr.ReplaceAllString(s, "str($1)")
	s = reInt.ReplaceAllString(s, "int($1)")
	s = reBool.ReplaceAllString(s, "bool($1)")
	s = reBer.ReplaceAllString(s, "ber($1)")
	s = reCtl.ReplaceAllString(s, "ctl($1)")
	s = reFilter.ReplaceAllString(s, "filter($1)")
	s = reConvI.ReplaceAllString(s, "$1")
	return s
}

const ctlList = "list(R.Children[2].Children => ctl(R.Children[2].Children[*]))"

// c01Ref: message type -> field -> accepted origins (RFC 4511 section 4).
var c01Ref = map[string]map[string][]string{
	"UnbindMessage": {"baseMessage.id": {"int(R.Children[0])"}},
	"SimpleBindMessage": {
		"baseMessage.id": {"int(R.Children[0])"},
		"UserName":       {"str(OP.Children[1])"},
		"Password":       {"str(OP.Children[2])"},
		"AuthChoice":     {`"simple"`},
		"Controls":       {ctlList, "nil", "zero"},
	},
	"SearchMessage": {
		"baseMessage.id": {"int(R.Children[0])"},
		"BaseDN":         {"str(OP.Children[0])"},
		"Scope":          {"int(OP.Children[1])"},
		"DerefAliases":   {"int(OP.Children[2])"},
		"SizeLimit":      {"int(OP.Children[3])"},
		"TimeLimit":      {"int(OP.Children[4])"},
		"TypesOnly":      {"bool(OP.Children[5])"},
		"Filter":         {"filter(OP.Children[6])"},
		"Attributes":     {"list(OP.Children[7].Children => str(OP.Children[7].Children[*]))"},
		"Controls":       {ctlList, "nil", "zero"},
	},
	"ExtendedOperationMessage": {
		"baseMessage.id": {"int(R.Children[0])"},
		"Name":           {"str(OP.Children[0])"},
	},
	"ModifyMessage": {
		"baseMessage.id": {"int(R.Children[0])"},
		"DN":             {"str(OP.Children[0])"},
		"Changes": {
			"list(OP.Children[1].Children => struct{Modification.Type=str(OP.Children[1].Children[*].Children[1].Children[0]); Modification.Vals=list(OP.Children[1].Children[*].Children[1].Children[1].Children => ber(OP.Children[1].Children[*].Children[1].Children[1].Children[*])); Operation=int(OP.Children[1].Children[*].Children[0])})",
			"list(OP.Children[1].Children => struct{Modification.Type=str(OP.Children[1].Children[*].Children[1].Children[0]); Modification.Vals=list(OP.Children[1].Children[*].Children[1].Children[1].Children => str(OP.Children[1].Children[*].Children[1].Children[1].Children[*])); Operation=int(OP.Children[1].Children[*].Children[0])})",
		},
		"Controls": {ctlList, "nil", "zero"},
	},
	"AddMessage": {
		"baseMessage.id": {"int(R.Children[0])"},
		"DN":             {"str(OP.Children[0])"},
		"Attributes":     {"list(OP.Children[1].Children => struct{Type=str(OP.Children[1].Children[*].Children[0]); Vals=list(OP.Children[1].Children[*].Children[1].Children => str(OP.Children[1].Children[*].Children[1].Children[*]))})"},
		"Controls":       {ctlList, "nil", "zero"},
	},
	"DeleteMessage": {
		"baseMessage.id": {"int(R.Children[0])"},
		"DN":             {"str(OP)"},
		"Controls":       {ctlList, "nil", "zero"},
	},
}

// RFC child counts of the protocolOp node, used to discard success paths that
// exist only for shapes a well-formed request cannot have.
var c01OpChildren = map[string]int{"SimpleBindMessage": 3, "SearchMessage": 8, "ExtendedOperationMessage": -1, "ModifyMessage": 2, "AddMessage": 2}

// c01Counts: node -> {mandatory elements, all elements} of its RFC 4511 element list.
var c01Counts = map[string]map[string][2]int{
	"SimpleBindMessage":        {"OP": {3, 3}},
	"SearchMessage":            {"OP": {8, 8}},
	"ExtendedOperationMessage": {"OP": {1, 2}},
	"ModifyMessage":            {"OP": {2, 2}, "OP.Children[1].Children[*]": {2, 2}, "OP.Children[1].Children[*].Children[1]": {2, 2}},
	"AddMessage":               {"OP": {2, 2}, "OP.Children[1].Children[*]": {2, 2}},
}

// countAssert matches an assert event on a node's child count: assert(NODE min=K ...) / assert(NODE len=K ...).
var countAssert = regexp.MustCompile(`^assert\((\S+?)(?: min=(\d+))?(?: len=(\d+))?(?:\.Children\[[^\]]*\])? is `)

// shapeCondition: the condition (as the path interpreter prints it) tests only
// the BER shape of the request, a library decoder's verdict, or the bind version.
func shapeCondition(c string) bool {
	c = strings.TrimPrefix(c, "!")
	switch {
	case c == "==(nil,nil)" || !strings.Contains(c, "$0"):
		return true // does not depend on the request at all
	case strings.Contains(c, ".Identifier.ClassType") || strings.Contains(c, ".Identifier.TagType") || strings.Contains(c, ".Identifier.Tag,") || strings.Contains(c, ".Identifier.Tag)") || strings.Contains(c, ".Identifier.Tag]"):
		return true
	case strings.Contains(c, "len(") && strings.Contains(c, ".Children)") && !strings.Contains(c, ".Data") && !strings.Contains(c, ".Value"):
		return true
	case strings.HasPrefix(c, "assert(") && strings.HasSuffix(c, ")#1"):
		return true // comma-ok of a type assertion on a decoded value
	case shapeNilTest.MatchString(c):
		return true
	case strings.Contains(c, "DecompileFilter(") || strings.Contains(c, "decodeControl("):
		return true
	case bindVersionTest.MatchString(c):
		return true
	}
	return false
}

var (
	shapeNilTest    = regexp.MustCompile(`^==\((nil,[^()]*\.Children\[[^()]*\]|[^()]*\.Children\[[^()]*\],nil)\)$`)
	bindVersionTest = regexp.MustCompile(`^==\(assert\(\$0\.Packet\.Children\[1\]\.Children\[0\]\.Value,int64\)(#0)?,3\)$`)
)

// c01Asserts: node (short notation) -> required "CLASS type [tag]".
var c01Asserts = map[string]map[string]string{
	"*":                 {"R.Children[0]": "UNIV p INT", "R.Children[2]": "CTX c"},
	"SimpleBindMessage": {"OP.Children[0]": "UNIV p INT", "OP.Children[1]": "UNIV p OCTSTR", "OP.Children[2]": "CTX p 0"},
	"SearchMessage": {"OP.Children[0]": "UNIV p OCTSTR", "OP.Children[1]": "UNIV p ENUM", "OP.Children[2]": "UNIV p ENUM", "OP.Children[3]": "UNIV p INT", "OP.Children[4]": "UNIV p INT",
		"OP.Children[5]": "UNIV p BOOL", "OP.Children[7]": "UNIV c SEQ", "OP.Children[7].Children[*]": "UNIV p OCTSTR"},
	"ExtendedOperationMessage": {"OP.Children[0]": "CTX p 0"},
	"ModifyMessage": {"OP.Children[0]": "UNIV p OCTSTR", "OP.Children[1]": "UNIV c SEQ", "OP.Children[1].Children[*]": "UNIV c SEQ", "OP.Children[1].Children[*].Children[0]": "UNIV p ENUM",
		"OP.Children[1].Children[*].Children[1]": "UNIV c SEQ", "OP.Children[1].Children[*].Children[1].Children[0]": "UNIV p OCTSTR", "OP.Children[1].Children[*].Children[1].Children[1]": "UNIV c SET"},
	"AddMessage": {"OP.Children[0]": "UNIV p OCTSTR", "OP.Children[1]": "UNIV c SEQ", "OP.Children[1].Children[*]": "UNIV c SEQ", "OP.Children[1].Children[*].Children[0]": "UNIV p OCTSTR",
		"OP.Children[1].Children[*].Children[1]": "UNIV c SET", "OP.Children[1].Children[*].Children[1].Children[*]": "UNIV p OCTSTR"},
	"DeleteMessage": {},
	"UnbindMessage": {},
}

var reTagCmp = regexp.MustCompile(`^(!?)==\((?:OP\.Identifier\.Tag,(\d+)|(\d+),OP\.Identifier\.Tag)\)$`)

var reLenCmp = regexp.MustCompile(`^(!?)(<|<=|>|>=|==|!=)\(len\((.*)\.Children\),(\d+)\)$`)

// feasible: does the recorded decision agree with a node having n children?
func lenDecisionHolds(d guideDecision, node string, n int) (bool, bool) {
	c := shortOrigin(d.Cond)
	m := reLenCmp.FindStringSubmatch(c)
	if m == nil || m[3] != node {
		return true, false
	}
	k, _ := strconv.Atoi(m[4])
	var v bool
	switch m[2] {
	case "<":
		v = n < k
	case "<=":
		v = n <= k
	case ">":
		v = n > k
	case ">=":
		v = n >= k
	case "==":
		v = n == k
	case "!=":
		v = n != k
	}
	if m[1] == "!" {
		v = !v
	}
	return v == d.True, true
}

func checkC01(c *Ctx) {
	R := c.R
	// ---------------------------------------------------------------- kindmap
	km := c.kindMaps()
	if km == nil {
		return
	}
	for _, p := range km.problems {
		R.Unknown("C01-kindmap", "classification tables", "-", p)
	}
	rfcTags := map[int64]string{0: "SimpleBindMessage", 2: "UnbindMessage", 3: "SearchMessage", 6: "ModifyMessage", 8: "AddMessage", 10: "DeleteMessage", 23: "ExtendedOperationMessage"}
	appConst := map[int64]string{0: "ApplicationBindRequest", 2: "ApplicationUnbindRequest", 3: "ApplicationSearchRequest", 6: "ApplicationModifyRequest", 8: "ApplicationAddRequest", 10: "ApplicationDelRequest", 23: "ApplicationExtendedRequest"}
	for _, tag := range []int64{0, 2, 3, 6, 8, 10, 23} {
		if v, ok := c.P.ConstInt(G, appConst[tag]); !ok || v != tag {
			R.Fail("C01-kindmap", "constant "+appConst[tag], "-", "application tag constant differs from RFC 4511")
		}
		kind := km.tagToKind[tag]
		got := km.kindToType[kind]
		R.Check(kind != "" && got == rfcTags[tag], "C01-kindmap", sprintf("protocolOp tag %d -> *%s", tag, rfcTags[tag]), c.P.Pos(km.requestType.Pos()),
			sprintf("requestType: %d -> %q; newMessage: %q -> *%s", tag, kind, kind, got), sprintf("a request with protocolOp tag %d is delivered as *%s (kind %q) instead of *%s", tag, got, kind, rfcTags[tag]))
	}
	for tag, kind := range km.tagToKind {
		if _, ok := rfcTags[tag]; !ok {
			R.Fail("C01-kindmap", sprintf("protocolOp tag %d is unsupported", tag), c.P.Pos(km.requestType.Pos()), sprintf("tag %d (not one of the seven supported operations) is classified as %q and delivered to a handler", tag, kind))
		}
	}
	R.Check(km.defaultIsErr, "C01-kindmap", "unknown protocolOp tags are rejected", c.P.Pos(km.requestType.Pos()), "requestType's default arm returns a non-nil error", "an unsupported protocolOp tag does not produce an error")
	// the default arm of newMessage must be unreachable or must not be a supported kind
	for kind, typ := range km.kindToType {
		if kind == "default" {
			continue
		}
		seen := false
		for _, k2 := range km.tagToKind {
			if k2 == kind {
				seen = true
			}
		}
		if !seen {
			R.Fail("C01-kindmap", "newMessage arm "+kind, c.P.Pos(km.newMessage.Pos()), "newMessage builds *"+typ+" for kind "+kind+" which no protocolOp tag maps to")
		}
	}
	// message type -> route operation (bijection)
	ops := map[string]string{}
	for typ, op := range km.typeToOp {
		if prev, dup := ops[op]; dup {
			R.Fail("C01-kindmap", "route operation "+op, c.P.Pos(km.newRequest.Pos()), "two message types ("+prev+", "+typ+") are classified as the same operation")
		}
		ops[op] = typ
	}
	R.Check(len(km.typeToOp) == 7, "C01-kindmap", "newRequest classifies the seven message types", c.P.Pos(km.newRequest.Pos()), "seven arms, distinct operations", sprintf("newRequest has %d classified message types", len(km.typeToOp)))
	R.Check(km.extNameFrom["ExtendedOperationMessage"] == "Name", "C01-kindmap", "Request.extendedName comes from the decoded name", c.P.Pos(km.newRequest.Pos()), "extendedName = message.Name for extended requests, empty otherwise", "the extended operation name used for routing is not the decoded name")

	// ---------------------------------------------------------------- version gate
	if rp := c.fn(G, "(*packet).requestPacket"); rp != nil {
		w := &an.Walker{Fn: rp}
		atoms := w.CondAtoms()
		var tagAtom, verAtom string
		for _, a := range atoms {
			if strings.HasPrefix(a, "==(") && (strings.HasSuffix(a, ".Tag,0)") || strings.HasPrefix(a, "==(0,") && strings.HasSuffix(a, ".Tag)")) {
				tagAtom = a
			}
			if strings.HasPrefix(a, "==(3,assert(") {
				verAtom = a
			}
		}
		if tagAtom == "" {
			R.Fail("C01-version", "(*packet).requestPacket: bind arm", c.P.Pos(rp.Pos()), "no test for the bind request tag among: "+strings.Join(atoms, "; "))
		} else {
			bad := ""
			ei := errResultIndex(rp)
			for _, val := range an.Valuations(atoms) {
				if !val[tagAtom] {
					continue
				}
				k := w.Run(val)
				if k.Ret == nil {
					continue
				}
				res := an.ReturnResults(k.Ret)
				if an.IsNilConst(an.Strip(res[ei])) && (verAtom == "" || !val[verAtom]) {
					bad = an.ValString(val)
				}
			}
			R.Check(bad == "" && verAtom != "", "C01-version", "(*packet).requestPacket: a bind succeeds only with version 3", c.P.Pos(rp.Pos()), "every success path of the bind arm has taken version == 3 (read as an int64 from the first child)", "a bind request is accepted without version == 3: "+bad)
		}
	}

	// ---------------------------------------------------------------- field origins
	nm := km.newMessage
	rejects := map[string]string{} // "type|condition" -> position of a rejection that depends on more than the request's shape
	paths, complete := c.guidedPaths(nm, &symEnv{}, map[string]bool{G + ".decodeControl": true}, 6000)
	R.Count("C01/success-paths", len(paths))
	if !complete {
		R.Fatal("newMessage: too many success paths")
	}
	type variant struct {
		fields  map[string]string
		asserts []string
		n       int
	}
	byType := map[string]map[string]*variant{}
	for _, p := range paths {
		r := p.Res
		if r.undec != "" || len(r.retExpr) < 1 || !strings.HasPrefix(r.retExpr[0], "&alloc:") || k(r) == nil {
			R.Unknown("C01-field", "newMessage: path not interpretable", c.P.Pos(nm.Pos()), "a success path could not be interpreted: "+r.undec+" "+strings.Join(r.notes, "; "))
			continue
		}
		typ := ptrNamed(an.Strip(an.ReturnResults(k(r))[0]).Type())
		// feasibility for well-formed shapes
		feasible := true
		if n, ok := c01OpChildren[typ]; ok && n >= 0 {
			for _, d := range p.Trace {
				if holds, applies := lenDecisionHolds(d, "OP", n); applies && !holds {
					feasible = false
				}
			}
		}
		// the protocolOp tag tested inside requestPacket must be the tag of the kind being built
		for _, d := range p.Trace {
			cs := shortOrigin(d.Cond)
			if m := reTagCmp.FindStringSubmatch(cs); m != nil {
				kk, _ := strconv.Atoi(m[2] + m[3])
				isEq := false
				for tag, tn := range rfcTags {
					if tn == typ && int64(kk) == tag {
						isEq = true
					}
				}
				v := isEq
				if m[1] == "!" {
					v = !v
				}
				if v != d.True {
					feasible = false
				}
			}
		}
		if !feasible {
			continue
		}
		fields := map[string]string{}
		r.fr.fieldsOf(r.retExpr[0][1:], "", fields, 0)
		for fk, fv := range fields {
			fields[fk] = shortOrigin(fv)
		}
		var as []string
		for _, a := range p.Asserts {
			as = append(as, shortOrigin(a))
		}
		for _, fb := range p.AllForced {
			if !shapeCondition(fb.Cond) {
				k := typ + "|" + fb.Cond
				if rejects[k] == "" {
					rejects[k] = fb.Pos
				}
			}
		}
		sig := ""
		for _, fk := range sortedKeys(fields) {
			sig += fk + "=" + fields[fk] + "\n"
		}
		sig += strings.Join(as, "\n")
		if byType[typ] == nil {
			byType[typ] = map[string]*variant{}
		}
		if v, ok := byType[typ][sig]; ok {
			v.n++
		} else {
			byType[typ][sig] = &variant{fields: fields, asserts: as, n: 1}
		}
	}
	var types []string
	for t := range c01Ref {
		types = append(types, t)
	}
	sort.Strings(types)
	for _, typ := range types {
		ref := c01Ref[typ]
		vars := byType[typ]
		if len(vars) == 0 {
			R.Fail("C01-reach", "*"+typ+": a well-formed request decodes", c.P.Pos(nm.Pos()), "no success path builds a *"+typ+" for a well-formed request")
			continue
		}
		R.OK("C01-reach", "*"+typ+": a well-formed request decodes", c.P.Pos(nm.Pos()), sprintf("%d distinct success shapes", len(vars)))
		// name of the default-arm variant (ExtendedOperationUnknown) is excluded below
		for _, field := range sortedKeys(ref) {
			accepted := ref[field]
			bad := ""
			seen := map[string]bool{}
			for _, v := range vars {
				got, has := v.fields[field]
				if !has {
					got = "zero"
				}
				if typ == "ExtendedOperationMessage" && field == "Name" && got == `"Unknown"` {
					continue // unreachable default arm (requestType rejects unknown tags)
				}
				seen[got] = true
				ok := false
				for _, a := range accepted {
					if got == a {
						ok = true
					}
				}
				if !ok {
					bad = got
				}
			}
			key := "*" + typ + "." + strings.TrimPrefix(field, "baseMessage.")
			rule := "C01-field"
			if strings.HasPrefix(accepted[0], "list(") {
				rule = "C01-list"
			}
			var sv []string
			for s := range seen {
				sv = append(sv, s)
			}
			sort.Strings(sv)
			if bad == "" && len(accepted) > 1 && field == "Controls" {
				// the well-formed case with controls must exist
				if !seen[ctlList] {
					bad = "controls are never decoded: " + strings.Join(sv, " | ")
				}
			}
			if bad == "" && field != "Controls" && len(seen) == 0 {
				bad = "field never set"
			}
			R.Check(bad == "", rule, key, c.P.Pos(nm.Pos()), "origin "+strings.Join(sv, " | "), "field does not carry what the client encoded: got "+bad+", RFC 4511 position/accessor: "+strings.Join(accepted, " | "))
		}
		// unexpected extra fields
		for _, v := range vars {
			for f := range v.fields {
				if _, ok := ref[f]; !ok && !(typ == "ExtendedOperationMessage" && f == "Value") {
					R.Unknown("C01-field", "*"+typ+"."+f, c.P.Pos(nm.Pos()), "field without a reference origin")
				}
			}
		}
		// asserts
		want := map[string]string{}
		for n, s := range c01Asserts["*"] {
			want[n] = s
		}
		for n, s := range c01Asserts[typ] {
			want[n] = s
		}
		for _, node := range sortedKeys(want) {
			okAll := true
			sawAny := false
			wrong := ""
			for _, v := range vars {
				// only variants that read the node need the assert: the node name appears in some field or it is an OP child
				reads := false
				for _, fv := range v.fields {
					if strings.Contains(fv, node+")") || strings.Contains(fv, node+".") || strings.Contains(fv, node+" ") {
						reads = true
					}
				}
				found := false
				for _, a := range v.asserts {
					if strings.HasPrefix(a, "assert("+node+" ") {
						sawAny = true
						if strings.HasSuffix(a, " is "+want[node]+")") {
							found = true
						} else {
							wrong = a
						}
					}
				}
				if reads && !found {
					okAll = false
				}
			}
			switch {
			case wrong != "":
				R.Fail("C01-assert", "*"+typ+": "+node+" is "+want[node], c.P.Pos(nm.Pos()), "the decoder asserts "+wrong+" but RFC 4511 makes this node "+want[node]+": well-formed requests are rejected (or the wrong node type is accepted)")
			case !okAll:
				R.Fail("C01-assert", "*"+typ+": "+node+" is "+want[node], c.P.Pos(nm.Pos()), "the node is read without its class/type/tag having been asserted")
			case sawAny:
				R.OK("C01-assert", "*"+typ+": "+node+" is "+want[node], c.P.Pos(nm.Pos()), "asserted with the RFC's class, type and tag on every path that reads it")
			}
		}
	}
	// ---------------------------------------------------------------- what the decoder rejects
	// C01-reject: "every well-formed request reaches the handler": the conditions under which the decode path gives up
	// (the branches whose other side cannot succeed) test the request's shape - class, type, tag, number of children,
	// the dynamic type ber gave a value, the library decoders of filter and controls - and the bind version; a
	// rejection that depends on the bytes of a value (its characters, its length, its range) refuses requests RFC 4511
	// calls well-formed
	for _, k := range sortedKeys(rejects) {
		parts := strings.SplitN(k, "|", 2)
		R.Fail("C01-reject", "*"+parts[0]+": decoding gives up only on malformed requests", rejects[k], "the decoder rejects a request depending on "+parts[1]+", which is not a property of the request's BER shape: well-formed requests with such values never reach the handler")
	}
	R.Trivial("C01-reject", "newMessage: rejections depend on the request's shape only", c.P.Pos(nm.Pos()), sprintf("%d success paths: every branch taken because its other side cannot succeed tests class / type / tag / child count / dynamic type / a library decoder's error / the bind version", len(paths)))
	// C01-count: a child-count assertion agrees with the RFC's element list: an exact count only where the RFC has no
	// optional element, a minimum no larger than the RFC's mandatory elements
	for _, typ := range sortedKeys(c01Counts) {
		for _, v := range byType[typ] {
			for _, a := range v.asserts {
				m := countAssert.FindStringSubmatch(a)
				if m == nil {
					continue
				}
				lim, known := c01Counts[typ][m[1]]
				if !known {
					continue
				}
				key := "*" + typ + ": number of children of " + m[1]
				if m[2] != "" {
					if n, _ := strconv.Atoi(m[2]); n > lim[0] {
						R.Fail("C01-count", key, c.P.Pos(nm.Pos()), sprintf("the decoder demands at least %d children but RFC 4511 allows %d: well-formed requests are rejected", n, lim[0]))
					} else {
						R.OK("C01-count", key, c.P.Pos(nm.Pos()), sprintf("minimum %d <= the RFC's %d mandatory elements", n, lim[0]))
					}
				}
				if m[3] != "" {
					if n, _ := strconv.Atoi(m[3]); lim[0] != lim[1] || n != lim[0] {
						R.Fail("C01-count", key, c.P.Pos(nm.Pos()), sprintf("the decoder demands exactly %d children but RFC 4511 allows %d to %d: well-formed requests are rejected", n, lim[0], lim[1]))
					} else {
						R.OK("C01-count", key, c.P.Pos(nm.Pos()), sprintf("exactly %d, as in the RFC", n))
					}
				}
			}
		}
	}
	// ---------------------------------------------------------------- read-only packet data
	// the decoder's string accessors read packet.Data (a *bytes.Buffer): between reading the frame and handing the
	// request to the handler nothing may consume, reset or append to a received packet's Data
	if rr := c.fn(G, "(*conn).readRequest"); rr != nil {
		readOnly := map[string]bool{"String": true, "Bytes": true, "Len": true, "Cap": true, "Available": true}
		nData := 0
		var fns []*ssa.Function
		for f := range syncReach(rr) {
			fns = append(fns, an.WithClosures(f)...)
		}
		sort.Slice(fns, func(i, j int) bool { return an.FuncKey(fns[i]) < an.FuncKey(fns[j]) })
		seenFn := map[*ssa.Function]bool{}
		for _, f := range fns {
			if seenFn[f] {
				continue
			}
			seenFn[f] = true
			an.Instrs(f, func(in ssa.Instruction) {
				ld, ok := in.(*ssa.UnOp)
				if !ok || ld.Op != token.MUL {
					return
				}
				fa, ok := ld.X.(*ssa.FieldAddr)
				if !ok || an.FieldAddrName(fa) != "Data" || !an.TypeIs(fa.X.Type(), an.PkgBer, "Packet") || ld.Referrers() == nil {
					return
				}
				for _, ref := range *ld.Referrers() {
					if _, isDbg := ref.(*ssa.DebugRef); isDbg {
						continue
					}
					nData++
					key := fname(f) + ": use of a received packet's Data"
					if ci, ok := ref.(ssa.CallInstruction); ok {
						if callee := ci.Common().StaticCallee(); callee != nil && an.FuncPkgPath(callee) == "bytes" && len(ci.Common().Args) > 0 && ci.Common().Args[0] == ssa.Value(ld) {
							if readOnly[callee.Name()] {
								R.OK("C01-readonly-data", key, c.pos(ref), "bytes.Buffer."+callee.Name()+" does not consume the buffer")
							} else if callee.Name() == "Truncate" && isReparseIdiom(ci, fa) {
								R.OK("C01-readonly-data", key+" (re-parse idiom)", c.pos(ref), "Data.Truncate(0) followed in the same block by AppendChild(ber.DecodePacket(Data.Bytes())) of the same packet: the content is parsed and written back")
							} else {
								R.Fail("C01-readonly-data", key, c.pos(ref), "bytes.Buffer."+callee.Name()+" on the Data of a packet on the decode path changes what the decoder's later Data.String()/Bytes() return: the handler no longer receives what the client encoded")
							}
							continue
						}
					}
					R.Fail("C01-readonly-data", key, c.pos(ref), "the packet's Data buffer is handed to code that may consume it ("+ref.String()+") on the decode path")
				}
			})
		}
		R.Extra["C01-readonly-data/uses"] = nData
	}
	// ---- C01-stream-sync: every request is decoded from the position where the previous one ended. A read that fails may
	// have consumed part of a request (ber.ReadPacket reads the header, then the content), so after a failed read the
	// connection's stream is never read again: every path from the failure edge of readRequest in the read loop leaves
	// the loop. A retry is accepted only under `errors.Is(err, S)` for a sentinel S of the module that is produced
	// nowhere after a ber.ReadPacket call (a wait that consumed nothing, e.g. a failed Peek).
	if m := c.serverModel(); m != nil && m.readReq != nil && m.serve != nil {
		var failEdges []*ssa.BasicBlock
		for _, r := range *m.readReq.Referrers() {
			if ex, isEx := r.(*ssa.Extract); isEx && ex.Index == 1 {
				for _, e := range errNilIfs(m.serve, ex) {
					failEdges = append(failEdges, e.ErrSucc)
				}
			}
		}
		readSlice := syncReach(c.fn(G, "(*conn).readRequest"))
		cleanSentinel := func(v ssa.Value) bool {
			call, ok := v.(*ssa.Call)
			if !ok || !an.CalleeIs(call.Common(), "errors", "Is") || len(call.Common().Args) != 2 {
				return false
			}
			ld, ok := an.Strip(call.Common().Args[1]).(*ssa.UnOp)
			if !ok {
				return false
			}
			gl, ok := ld.X.(*ssa.Global)
			if !ok || gl.Pkg == nil || !strings.HasPrefix(gl.Pkg.Pkg.Path(), an.ModPath) {
				return false
			}
			// the sentinel is produced nowhere after a ber.ReadPacket call
			used := false
			for f := range readSlice {
				if !an.InModule(f) {
					continue
				}
				var uses, reads []ssa.Instruction
				an.Instrs(f, func(in ssa.Instruction) {
					if u, isU := in.(*ssa.UnOp); isU && u.X == ssa.Value(gl) {
						uses = append(uses, in)
					}
					if ci, isCI := in.(ssa.CallInstruction); isCI && callReaches(ci, func(cc *ssa.CallCommon) bool { return an.CalleeIs(cc, an.PkgBer, "ReadPacket") }, map[*ssa.Function]bool{}) {
						reads = append(reads, in)
					}
				})
				for _, u := range uses {
					used = true
					for _, rd := range reads {
						if an.Search(an.After(rd), isInstr(u), nil) != nil {
							return false
						}
					}
				}
			}
			return used
		}
		key := "(*conn).serveRequests: no read after a failed read"
		if len(failEdges) == 0 {
			R.Unknown("C01-stream-sync", key, c.pos(m.readReq), "no test of readRequest's error found in the read loop")
		}
		for _, fb := range failEdges {
			w := an.Search(an.Point{B: fb, I: 0}, isInstr(m.readReq), func(in ssa.Instruction) bool { return hasFact(in.Block(), true, cleanSentinel) })
			R.Check(w == nil, "C01-stream-sync", key, c.pos(m.readReq), "every path from the failure edge of readRequest leaves the read loop (or retries only after a wait that consumed nothing)",
				"after a failed read the loop reads the connection again ("+c.trail(w)+"): a read that gave up in the middle of a request (timeout inside ber.ReadPacket) has consumed part of it, and the next request is decoded from the middle of the client's bytes")
		}
	}
	// ---- C01-fresh-controls: "attached controls equal what the client encoded" also after other requests have been
	// decoded: each decoded control is an object of its own (rule C14-fresh, imported)
	c.importRules(checkC14, func(o report.Obligation) bool { return o.Rule == "C14-fresh" }, "C01-fresh-controls", " - the controls a handler was given no longer equal what its client encoded")
	R.Floor("C01-readonly-data", 2)
	R.Floor("C01-field", 20)
	R.Floor("C01-list", 5)
	R.Floor("C01-assert", 25)
	R.Floor("C01-kindmap", 9)
	R.NotDecided = append(R.NotDecided, "that ldap.DecompileFilter renders the filter semantically (library)", "value equality of anything: only positions, accessors, order and completeness are decided")
	R.Assumptions = append(R.Assumptions, "decodeControl is treated as an opaque per-element decoder here; its own field map is C14's", "ber.ReadPacket builds Children in wire order")
}

// isReparseIdiom recognises
//
//	children, err := ber.DecodePacketErr(p.Data.Bytes()); ...; p.Data.Truncate(0); ...; p.AppendChild(children)
//
// (decodeControl's way of turning an opaque control value into a tree): the
// truncation is followed, in the same block, by appending the packet decoded
// from the very bytes that were dropped.
func isReparseIdiom(trunc ssa.CallInstruction, dataField *ssa.FieldAddr) bool {
	if len(trunc.Common().Args) != 2 {
		return false
	}
	if k, ok := an.IntConst(trunc.Common().Args[1]); !ok || k != 0 {
		return false
	}
	pkt := an.Path(dataField.X)
	b := trunc.Block()
	after := false
	for _, in := range b.Instrs {
		if in == ssa.Instruction(trunc) {
			after = true
			continue
		}
		if !after {
			continue
		}
		call, ok := in.(*ssa.Call)
		if !ok || !an.CalleeIs(call.Common(), an.PkgBer, "(*Packet).AppendChild") {
			continue
		}
		if an.Path(call.Common().Args[0]) != pkt {
			continue
		}
		child := an.Strip(call.Common().Args[1])
		if ex, ok := child.(*ssa.Extract); ok {
			child = ex.Tuple
		}
		dec, ok := child.(*ssa.Call)
		if !ok || !(an.CalleeIs(dec.Common(), an.PkgBer, "DecodePacketErr") || an.CalleeIs(dec.Common(), an.PkgBer, "DecodePacket")) {
			continue
		}
		src, ok := an.Strip(dec.Common().Args[0]).(*ssa.Call)
		if !ok || !an.CalleeIs(src.Common(), "bytes", "(*Buffer).Bytes") {
			continue
		}
		if base, name, ok := an.LoadField(src.Common().Args[0]); ok && name == "Data" && an.Path(base) == pkt && dec.Block().Dominates(b) {
			return true
		}
	}
	return false
}

func k(r *interpResult) *ssa.Return {
	if r == nil || r.fr == nil || r.fr.k == nil {
		return nil
	}
	return r.fr.k.Ret
}
