package rules

import (
	"go/token"
	"go/types"
	"strings"

	"gldapverif/an"
	"gldapverif/report"

	"golang.org/x/tools/go/ssa"
)

func init() {
	Registry["C06"] = checkC06
	Registry["C10"] = checkC10
	Registry["C13"] = checkC13
	Descriptions["C06"] = "C06-own-request (the variables the per-request goroutine captures are per-iteration ones, never assigned again by the read loop after the go statement), C06-counter (Request.ID is fed, through newRequest/readRequest/ResponseWriter.requestID, by the read loop's induction register phi(0,v+1)+1), " +
		"C06-sequential-read (readRequest is called only synchronously from the read loop), C06-async (every synchronous route to a handler from the loop is control-dependent on routeOp==unbind or extendedName==StartTLS; all other requests reach (*Mux).serve only through a go statement), " +
		"C06-nojoin (the loop body contains no operation that can wait for a handler), C06-nolock-wait (no mutex of Server or Mux can be held at a call that waits for a connection's handlers), C06-conn-async (serveRequests is reached from Run only through go), C06-nowrite (the read loop writes to the client itself only under the Unbind / StartTLS tests or on a path that leaves the loop: a handler blocked in Write holds the writer lock). Decides numbering and absence of wait edges; scheduler progress is not decided."
	Descriptions["C10"] = "C10-first (both dispatch sites are control-dependent on routeOp != unbind, and every path from the read reaches the unbind test before a response write, a dispatch or the next read), C10-terminal (from the unbind edge every path leaves serveRequests without readRequest, serve, go or the loop back edge), " +
		"C10-handler-once (the unbind route's handler is invoked exactly once iff one is registered, with this request and writer), C10-silent (gldap writes no response on that path), C10-classify (UnbindMessage <-> unbindRouteOperation <-> APP[2]), C10-inflight-waited (the teardown waits for the handlers dispatched before the Unbind - requestsWg.Add happens before the go statement, Wait precedes Close: rules C08-paired / C08-sequence)."
	Descriptions["C13"] = "C13-inline (StartTLS dispatch is a plain call in the read loop), C13-rawhandshake (tls.Server on a load of conn.netConn; initConn reached only when Handshake returned nil, with that very tls.Conn), " +
		"C13-pair (initConn stores netConn, reader=bufio.NewReader(x), writer=bufio.NewWriter(x) for the same x under conn.mu; these fields are written nowhere else), " +
		"C13-fresh-writer (c.writer is re-loaded in every loop iteration; c.reader at every ReadPacket), C13-no-bypass (no direct Read/Write on the socket, no tls.Conn.NetConn), C13-answered (every response written is flushed by that Write on every kind of connection: rules C05-oneframe), C13-deadline (a deadline armed on the socket in mid-session is cleared for each direction it covered on every path to a success return), C13-lockrelease / C13-slot-release (a mutex locked, or a slot of a channel semaphore taken, on the upgrade path is given back on every exit, the failed handshake included). Does not decide crypto/tls behaviour."
}

// isHandlerInvoke: a dynamic call of a value of type HandlerFunc (or the
// same underlying signature).
func isHandlerInvoke(cc *ssa.CallCommon) bool {
	if cc.IsInvoke() || cc.StaticCallee() != nil {
		return false
	}
	t := cc.Value.Type()
	if an.TypeIs(t, G, "HandlerFunc") {
		return true
	}
	sig, ok := t.Underlying().(*types.Signature)
	if !ok || sig.Params().Len() != 2 || sig.Results().Len() != 0 {
		return false
	}
	return an.TypeIs(sig.Params().At(0).Type(), G, "ResponseWriter") && an.TypeIs(sig.Params().At(1).Type(), G, "Request")
}

func isMuxServe(cc *ssa.CallCommon) bool { return an.CalleeIs(cc, G, "(*Mux).serve") }

func (c *Ctx) unbindConst() string {
	s, ok := c.P.ConstStr(G, "unbindRouteOperation")
	if !ok {
		c.R.Fatal("constant unbindRouteOperation not found")
	}
	return s
}

func (c *Ctx) startTLSConst() string {
	s, ok := c.P.ConstStr(G, "ExtendedOperationStartTLS")
	if !ok {
		c.R.Fatal("constant ExtendedOperationStartTLS not found")
	}
	return s
}

func (c *Ctx) isUnbindAtom() eqAtom {
	ub := c.unbindConst()
	return func(v ssa.Value) (bool, bool) {
		s, neq, ok := fieldCmpConst(v, G, "Request", "routeOp")
		return ok && s == ub, neq
	}
}

func (c *Ctx) isStartTLSAtom() eqAtom {
	st := c.startTLSConst()
	return func(v ssa.Value) (bool, bool) {
		// membership of the request's extended name in a constant set whose only member is StartTLS:
		// `serialOps[r.extendedName]` with a package-level map[...]bool{StartTLS: true}
		if lk, ok := v.(*ssa.Lookup); ok && !lk.CommaOk {
			if _, isName := fieldLoad(lk.Index, G, "Request", "extendedName"); isName {
				if tab, okTab := an.GlobalMapTable(lk.X); okTab && len(tab.Entries) == 1 {
					k, okK := an.StrConst(tab.Entries[0].Key)
					val, okV := an.BoolConst(tab.Entries[0].Val)
					if okK && okV && val && k == st {
						return true, false
					}
				}
			}
		}
		s, neq, ok := fieldCmpConst(v, G, "Request", "extendedName")
		return ok && s == st, neq
	}
}

// unbindHandlerGetter: f returns nil exactly when m.unbindRoute is nil and
// m.unbindRoute.handler() otherwise.
func unbindHandlerGetter(f *ssa.Function) bool {
	rets := an.Returns(f)
	nRes := f.Signature.Results().Len()
	if len(rets) == 0 || nRes < 1 || nRes > 2 {
		return false
	}
	// (handler, ok): the second result tells whether a route is registered
	if nRes == 2 && !types.Identical(f.Signature.Results().At(1).Type(), types.Typ[types.Bool]) {
		return false
	}
	isRoute := func(x ssa.Value) bool { _, ok := fieldLoad(x, G, "Mux", "unbindRoute"); return ok }
	sawHandler := false
	for _, ret := range rets {
		all := an.ReturnResults(ret)
		if len(all) != nRes {
			return false
		}
		res := an.Strip(all[0])
		switch {
		case an.IsNilConst(res):
			if !nilFact(ret.Block(), true, isRoute) {
				return false
			}
			if nRes == 2 {
				if v, isC := an.BoolConst(all[1]); !isC || v {
					return false
				}
			}
		default:
			call, ok := res.(*ssa.Call)
			if !ok || !call.Common().IsInvoke() || call.Common().Method.Name() != "handler" || !isRoute(call.Common().Value) || !nilFact(ret.Block(), false, isRoute) {
				return false
			}
			if nRes == 2 {
				if v, isC := an.BoolConst(all[1]); !isC || !v {
					return false
				}
			}
			sawHandler = true
		}
	}
	return sawHandler
}

// ------------------------------------------------------------------ C06

func checkC06(c *Ctx) {
	R := c.R
	m := c.serverModel()
	if m == nil {
		return
	}
	shipped := c.shippedFuncs(G)
	newRequest := c.fn(G, "newRequest")
	readRequest := c.fn(G, "(*conn).readRequest")
	newRW := c.fn(G, "newResponseWriter")
	if newRequest == nil || readRequest == nil || newRW == nil {
		return
	}
	// ---- C06-own-request: "each request is handed to its handler": the dispatched goroutine must see the
	// request and writer of the iteration that started it
	c.checkOwnIteration("C06-own-request", m)
	// ---- C06-counter
	// (a) newRequest stores its id parameter into Request.ID
	nID := 0
	for _, fs := range fieldStores([]*ssa.Function{newRequest}, G, "Request", "ID") {
		nID++
		R.Check(an.Strip(fs.Store.Val) == ssa.Value(newRequest.Params[0]), "C06-counter", "newRequest: Request.ID <- id", c.pos(fs.Store), "stored unchanged", "Request.ID is "+an.Path(fs.Store.Val)+", not newRequest's id parameter")
	}
	if nID == 0 {
		R.Fail("C06-counter", "newRequest: Request.ID <- id", c.P.Pos(newRequest.Pos()), "newRequest never sets Request.ID")
	}
	// (b) readRequest passes its requestID parameter
	for _, ci := range callTo(readRequest, G, "newRequest") {
		R.Check(an.Strip(ci.Common().Args[0]) == ssa.Value(readRequest.Params[1]), "C06-counter", "(*conn).readRequest: newRequest(requestID, ...)", c.pos(ci), "passed unchanged", "readRequest numbers the request with "+an.Path(ci.Common().Args[0])+", not its requestID parameter")
	}
	// (c) serveRequests passes the induction value, directly or through w.requestID
	arg := an.Strip(m.readReq.Common().Args[1])
	via := "directly"
	if base, ok := fieldLoad(arg, G, "ResponseWriter", "requestID"); ok {
		ex, isEx := an.Strip(base).(*ssa.Extract)
		var call *ssa.Call
		if isEx {
			call, _ = ex.Tuple.(*ssa.Call)
		}
		if call == nil || !isNewRW(call.Common()) {
			R.Fail("C06-counter", "(*conn).serveRequests: readRequest(id)", c.pos(m.readReq), "request number comes from a ResponseWriter that is not this iteration's newResponseWriter result")
			arg = nil
		} else {
			arg = an.Strip(call.Common().Args[len(call.Common().Args)-1])
			if inner := forwardedNewRW(call.Common()); inner != nil {
				// the wrapper hands its own parameter on as the request number: find which argument of the call that is
				arg = nil
				if p, isP := an.Strip(inner.Common().Args[4]).(*ssa.Parameter); isP {
					for i, fp := range p.Parent().Params {
						if fp == p && i < len(call.Common().Args) {
							arg = an.Strip(call.Common().Args[i])
						}
					}
				}
				if arg == nil {
					R.Fail("C06-counter", "(*conn).serveRequests: readRequest(id)", c.pos(m.readReq), "the ResponseWriter wrapper does not pass its parameter on as the request number")
				}
			} else {
				arg = an.Strip(call.Common().Args[4])
			}
			via = "through w.requestID"
			for _, fs := range fieldStores([]*ssa.Function{newRW}, G, "ResponseWriter", "requestID") {
				R.Check(an.Strip(fs.Store.Val) == ssa.Value(newRW.Params[4]), "C06-counter", "newResponseWriter: requestID <- requestID parameter", c.pos(fs.Store), "stored unchanged", "ResponseWriter.requestID is not the parameter")
			}
			if loopHeadOf(call) != m.loopHead {
				R.Fail("C06-counter", "(*conn).serveRequests: writer per iteration", c.pos(call), "the ResponseWriter that carries the number is not created inside the read loop")
			}
		}
	}
	if arg != nil {
		ok, why := inductionPlusOne(arg)
		if !ok {
			// the counter kept in a variable cell (a deferred closure reads it): `for id = 1; ; id++` or `id := 0; for { id++ ... }`
			if ok2, why2 := readLoopCellCounter(arg, m); ok2 {
				ok, why = true, why2
				arg = nil
			} else if why2 != "" {
				why = why2
			}
		}
		if ok && arg != nil {
			switch x := arg.(type) {
			case *ssa.BinOp:
				if loopHeadOf(x) != m.loopHead && x.Block() != m.loopHead {
					ok, why = false, "the counter is not incremented in the read loop"
				}
			case *ssa.Phi:
				// for id := 1; ; id++ : the loop variable of the read loop itself, starting at 1
				if x.Block() != m.loopHead {
					ok, why = false, "the counter is not the read loop's variable"
				}
				start := false
				for _, e := range x.Edges {
					if k, isK := an.IntConst(e); isK {
						if _, isC := e.(*ssa.Const); isC && k == 1 {
							start = true
						}
					}
				}
				if !start {
					ok, why = false, "the loop variable does not start at 1"
				}
			}
		}
		R.Check(ok, "C06-counter", "(*conn).serveRequests: request number is the loop counter", c.pos(m.readReq), "readRequest receives "+via+" "+why, "request numbering is not 1,2,3,... in arrival order: "+why)
	}
	// other writers of Request.ID
	for _, fs := range fieldStores(shipped, G, "Request", "ID") {
		// (the hand-built disconnection notice request is a fresh composite literal, in the read loop or a helper of it:
		// building a new Request does not renumber one that was read)
		if _, fresh := an.Strip(fs.Base).(*ssa.Alloc); fs.Fn != newRequest && fs.Fn != m.serve && !fresh {
			R.Fail("C06-counter", fname(fs.Fn)+": store Request.ID", c.pos(fs.Store), "Request.ID is written outside newRequest")
		}
	}
	R.Floor("C06-counter", 2)

	// ---- C06-sequential-read
	for _, ci := range callSites(shipped, isStatic(G, "(*conn).readRequest")) {
		ok := ci == ssa.CallInstruction(m.readReq) && isCall(ci)
		R.Check(ok, "C06-sequential-read", fname(ci.Parent())+": readRequest", c.pos(ci), "only the read loop reads, synchronously, on the connection goroutine", "readRequest is called from a second place or asynchronously: arrival order no longer equals numbering order")
	}
	for _, ci := range callSites(shipped, func(cc *ssa.CallCommon) bool { return an.CalleeIs(cc, an.PkgBer, "ReadPacket") }) {
		// the stream has one reader: every ber.ReadPacket runs as part of readRequest, synchronously
		ok, why := syncOnlyFrom(ci.Parent(), readRequest, shipped, 0)
		R.Check(ok && isCall(ci), "C06-sequential-read", fname(ci.Parent())+": ber.ReadPacket", c.pos(ci), "reached only through synchronous calls from readRequest: single reader of the stream", "ber.ReadPacket can run outside the read loop's readRequest: "+why)
	}
	R.Floor("C06-sequential-read", 2)

	// ---- C06-async
	isUnbind, isTLS := c.isUnbindAtom(), c.isStartTLSAtom()
	nSync := 0
	for _, ci := range an.Calls(m.serve) {
		cc := ci.Common()
		if !(isMuxServe(cc) || isHandlerInvoke(cc)) {
			continue
		}
		if isGo(ci) {
			continue
		}
		nSync++
		what := "router.serve"
		if isHandlerInvoke(cc) {
			what = "handler call"
		}
		key := "(*conn).serveRequests: synchronous " + what
		switch {
		case hasEqFact(ci.Block(), true, isUnbind):
			R.OK("C06-async", key+" (unbind)", c.pos(ci), "only reached when routeOp == unbind")
		case hasEqFact(ci.Block(), true, isTLS):
			R.OK("C06-async", key+" (StartTLS)", c.pos(ci), "only reached when extendedName == StartTLS")
		default:
			R.Fail("C06-async", key, c.pos(ci), "a handler is run synchronously in the read loop for requests other than Unbind/StartTLS: a blocking handler delays every later request on the connection")
		}
	}
	if m.reqGo == nil {
		R.Fail("C06-async", "(*conn).serveRequests: go router.serve", c.pos(m.readReq), "no go statement dispatches requests: requests are served one at a time")
	} else {
		// the go closure calls serve exactly once on every path with this iteration's w and r
		t := m.reqFn
		okOnce, why := serveExactlyOnce(t, m)
		R.Check(okOnce, "C03-dispatch", fname(t)+": serve(w, r) exactly once", c.P.Pos(t.Pos()), "one call on every path with this iteration's writer and the request just read", "dispatch is not exactly-once with this iteration's (w, r): "+why)
		// the go must not be under the unbind / TLS atoms and must be after a successful read
		R.Check(an.InstrDominates(m.readReq, m.reqGo), "C06-async", "(*conn).serveRequests: go after readRequest", c.pos(m.reqGo), "dispatch follows the read", "go statement is not dominated by readRequest")
	}
	R.Count("C06-async/sync-sites", nSync)
	R.Floor("C06-async", 2)

	// ---- C06-nowrite: a handler blocked in a write to a client that does not read holds the connection's writer lock;
	// the read loop must not write to the client itself (and so queue behind that handler) on a path that goes on to
	// read the next request. Writes under the unbind / StartTLS tests and on paths that leave the loop are allowed.
	isConnCWrite := func(cc *ssa.CallCommon) bool {
		return an.CalleeIs(cc, G, "(*ResponseWriter).Write") || an.CalleeIs(cc, "bufio", "(*Writer).Flush") || an.CalleeIs(cc, "bufio", "(*Writer).Write")
	}
	nCW := 0
	for _, ci := range an.Calls(m.serve) {
		cc := ci.Common()
		if isGo(ci) || isMuxServe(cc) || isHandlerInvoke(cc) {
			continue
		}
		if _, isDefer := ci.(*ssa.Defer); isDefer {
			continue
		}
		if !callReaches(ci, isConnCWrite, map[*ssa.Function]bool{}) {
			continue
		}
		nCW++
		key := "(*conn).serveRequests: write to the client from the read loop: " + calleeLabel(cc)
		switch {
		case hasEqFact(ci.Block(), true, isUnbind), hasEqFact(ci.Block(), true, isTLS):
			R.OK("C06-nowrite", key, c.pos(ci), "only reached for Unbind / StartTLS")
		case m.readReq != nil && an.Search(an.After(ci), isInstr(m.readReq), nil) == nil:
			R.OK("C06-nowrite", key, c.pos(ci), "no path from this write reads another request: the loop is being left")
		default:
			R.Fail("C06-nowrite", key, c.pos(ci), "the read loop writes to the client and then reads the next request: a handler blocked in Write to a client that does not drain its socket holds the writer lock, so later requests on the connection are not dispatched until it gets out")
		}
	}
	R.Count("C06-nowrite/sites", nCW)

	// ---- C06-nojoin
	slice := syncReach(m.serve)
	delete(slice, m.muxServe)
	for f := range syncReach(m.muxServe) {
		delete(slice, f) // handlers' side is allowed to block; it is only entered inline for unbind/StartTLS
	}
	nJoin := 0
	for f := range slice {
		if !an.InModule(f) {
			continue
		}
		an.Instrs(f, func(in ssa.Instruction) {
			bad := ""
			switch x := in.(type) {
			case *ssa.Send:
				bad = "channel send"
			case *ssa.Select:
				if x.Blocking {
					bad = "blocking select"
				}
			case *ssa.UnOp:
				if x.Op == token.ARROW {
					bad = "channel receive"
				}
			case ssa.CallInstruction:
				cc := x.Common()
				if cf := cc.StaticCallee(); cf != nil && an.FuncPkgPath(cf) == "sync" && cf.Name() == "Wait" {
					bad = "sync." + cf.Signature.Recv().Type().String() + ".Wait"
				}
			}
			if bad != "" {
				nJoin++
				R.Fail("C06-nojoin", fname(f)+": "+bad, c.pos(in), "the read loop (or a function it calls synchronously) can block on "+bad+" and so wait for a handler")
			}
		})
		// locks taken in the slice must never be held across a handler call
		for _, ci := range an.Calls(f) {
			if k, mu := an.LockOp(ci.Common()); k == "Lock" || k == "RLock" {
				fa, ok := mu.(*ssa.FieldAddr)
				if !ok {
					R.Unknown("C06-nojoin", fname(f)+": lock "+an.Path(mu), c.pos(ci), "cannot name the mutex")
					continue
				}
				st := an.StructOf(fa.X.Type())
				fld := an.FieldAddrName(fa)
				held := c.lockHeldAcrossHandler(st, fld)
				nJoin++
				owner := "(unnamed struct " + an.Path(fa.X) + ")"
				if st != nil {
					owner = st.Obj().Name()
				}
				R.Check(held == "", "C06-nojoin", fname(f)+": lock "+owner+"."+fld, c.pos(ci), "this mutex is never held while a handler runs", "the read loop acquires "+owner+"."+fld+", which is held across a handler call at "+held)
			}
		}
	}
	R.Trivial("C06-nojoin", "(*conn).serveRequests: no wait edge", c.P.Pos(m.serve.Pos()), sprintf("%d functions in the synchronous read slice scanned for Wait / channel operations / blocking select", len(slice)))

	// ---- C06-nolock-handler: no lock of gldap's own is (possibly) held while a handler runs: a handler that
	// blocks would otherwise stall every other request that needs the same lock (on this and other connections).
	nH := 0
	for _, f := range shipped {
		var may map[ssa.Instruction]an.LockSet
		for _, ci := range an.Calls(f) {
			cc := ci.Common()
			if !(isHandlerInvoke(cc) || isMuxServe(cc)) {
				continue
			}
			if may == nil {
				may = an.MayLockSets(f, nil)
			}
			nH++
			held := may[ci]
			// locks held by a deferred Unlock registered earlier are in the set as well (not released before the call)
			key := fname(f) + ": no lock held while a handler runs"
			if len(held) == 0 {
				R.OK("C06-nolock-handler", key, c.pos(ci), "no mutex can be held at this handler invocation")
			} else {
				R.Fail("C06-nolock-handler", key, c.pos(ci), "mutex "+held.String()+" can be held while the handler runs: a handler that blocks delays the dispatch of every other request that needs this lock")
			}
		}
	}
	R.Count("C06-nolock-handler/sites", nH)
	R.Floor("C06-nolock-handler", 2)

	// ---- C06-nolock-wait: no lock that connections share (a mutex of Server or Mux) is (possibly) held at a call that
	// waits for one connection's handlers (conn.requestsWg.Wait, e.g. through (*conn).close): a handler that blocks
	// would stall, through that lock, the accept loop or the other connections that need it.
	nW := 0
	for _, f := range shipped {
		var may map[ssa.Instruction]an.LockSet
		for _, ci := range an.Calls(f) {
			if isGo(ci) {
				continue
			}
			if !callReaches(ci, func(cc *ssa.CallCommon) bool { return isWG(cc, "Wait", G, "conn", "requestsWg") }, map[*ssa.Function]bool{}) {
				continue
			}
			if may == nil {
				may = an.MayLockSets(f, nil)
			}
			nW++
			bad := ""
			for k := range may[ci] {
				if o := lockOwnerType(f, k); o == "Server" || o == "Mux" || o == "package" {
					bad = o + "." + strings.TrimSuffix(k[strings.LastIndex(k, ".")+1:], "(r)")
				}
			}
			key := fname(f) + ": waits for a connection's handlers without a server-wide lock"
			if bad == "" {
				R.OK("C06-nolock-wait", key, c.pos(ci), "no mutex shared by all connections can be held while this call waits for the handlers")
			} else {
				R.Fail("C06-nolock-wait", key, c.pos(ci), bad+" can be held while this call waits for the connection's handlers to return: a handler that blocks stalls everything else that needs the lock (other connections, the accept loop)")
			}
		}
	}
	R.Count("C06-nolock-wait/sites", nW)
	R.Floor("C06-nolock-wait", 2)

	// ---- C06-conn-async
	for _, ci := range callSites(shipped, isStatic(G, "(*conn).serveRequests")) {
		R.Check(ci == m.serveCall, "C06-conn-async", fname(ci.Parent())+": serveRequests", c.pos(ci), "called only inside the per-connection goroutine started by go in Run", "serveRequests is called outside the per-connection goroutine: the accept loop would serve connections one at a time")
	}
	R.Check(m.connGo != nil && loopHeadOf(m.connGo) == loopHeadOf(m.accept), "C06-conn-async", "(*Server).Run: go per connection in accept loop", c.pos(m.connGo), "every accepted connection gets its own goroutine", "the per-connection go is not in the accept loop")
	// ---- C06-dispatched: "each request other than StartTLS and Unbind is handed to its handler without waiting for
	// earlier handlers": on every path from a request read to the next read exactly one dispatch runs - the go statement of
	// the per-request goroutine or the inline serve of Unbind / StartTLS (rule C03-dispatch). A request parked in a
	// queue or handed to a shared worker on some path is not dispatched by the read loop at all on that path
	if c.importRules(checkC03, func(o report.Obligation) bool { return o.Rule == "C03-dispatch" }, "C06-dispatched", " - on some path the request is not started on a goroutine of its own when it is read") > 0 {
		R.Floor("C06-dispatched", 2)
	}
	// ---- C06-nolock-io: "a handler that blocks delays ... nothing on other connections": a handler blocked in a write to
	// a client that does not read holds no lock the read loops or writers of other connections need (rule C07-nolock-io)
	if c.importRules(checkC07, func(o report.Obligation) bool { return o.Rule == "C07-nolock-io" }, "C06-nolock-io", " - the read loop of this and of every other connection that needs the lock stops dispatching") > 0 {
		R.Floor("C06-nolock-io", 2)
	}
	R.NotDecided = append(R.NotDecided, "scheduler fairness / actual progress of concurrent handlers")
}

// callReaches: the call is, or synchronously runs (through module functions,
// not through go statements), a call matching pred.
func callReaches(ci ssa.CallInstruction, pred func(*ssa.CallCommon) bool, seen map[*ssa.Function]bool) bool {
	if pred(ci.Common()) {
		return true
	}
	for _, u := range syncCalleesOf(ci) {
		if seen[u] {
			continue
		}
		seen[u] = true
		for _, f := range an.WithClosures(u) {
			if f != u {
				// closures of u run synchronously only when deferred or called; count them all (conservative)
				seen[f] = true
			}
			for _, ic := range an.Calls(f) {
				if isGo(ic) {
					continue
				}
				if callReaches(ic, pred, seen) {
					return true
				}
			}
		}
	}
	return false
}

// readLoopCellCounter: the request number is a load of a local variable of
// serveRequests that is assigned a constant before the read loop and
// otherwise only by one `x = x + 1` inside it, executed exactly once per
// iteration, with the first number read being 1: start 0 and the increment
// before the read, or start 1 and the increment after it (closures only read).
func readLoopCellCounter(v ssa.Value, m *serverModel) (bool, string) {
	ld, ok := v.(*ssa.UnOp)
	if bo, isBO := v.(*ssa.BinOp); isBO && bo.Op == token.ADD {
		// the value just stored by the increment (`id++` then `f(id)`: the load is resolved to the stored id+1)
		if k, isK := an.IntConst(bo.Y); isK && k == 1 {
			if l2, isL := bo.X.(*ssa.UnOp); isL && l2.Op == token.MUL {
				if a2, isA := l2.X.(*ssa.Alloc); isA {
					stored := false
					for _, r := range *bo.Referrers() {
						if st, isSt := r.(*ssa.Store); isSt && st.Addr == ssa.Value(a2) && st.Val == ssa.Value(bo) {
							stored = true
						}
					}
					if stored {
						ld, ok = l2, true
					}
				}
			}
		}
	}
	if !ok || ld.Op != token.MUL {
		return false, ""
	}
	al, ok := ld.X.(*ssa.Alloc)
	if !ok || al.Parent() != m.serve {
		return false, ""
	}
	stores, esc := an.CellStores(al)
	if esc {
		return false, "the counter variable escapes"
	}
	var inc, init *ssa.Store
	for _, st := range stores {
		if st.Parent() != m.serve {
			return false, "the counter is assigned from a closure"
		}
		if _, isK := an.IntConst(st.Val); isK && loopHeadOf(st) != m.loopHead && st.Block() != m.loopHead {
			if init != nil {
				return false, "the counter is initialised twice"
			}
			init = st
			continue
		}
		bo, isB := st.Val.(*ssa.BinOp)
		if !isB || bo.Op != token.ADD || inc != nil {
			return false, "the counter has another assignment"
		}
		k, isK := an.IntConst(bo.Y)
		l2, isL := bo.X.(*ssa.UnOp)
		if !isK || k != 1 || !isL || l2.Op != token.MUL || l2.X != ssa.Value(al) {
			return false, "the counter's assignment is not counter+1"
		}
		inc = st
	}
	if inc == nil {
		return false, "the counter is never incremented"
	}
	if loopHeadOf(inc) != m.loopHead && inc.Block() != m.loopHead {
		return false, "the increment is not in the read loop"
	}
	start := int64(0) // a zero-valued variable without explicit initialisation
	if init != nil {
		start, _ = an.IntConst(init.Val)
	}
	// once per iteration (headEntry: control re-enters the loop head, i.e. the next iteration begins)
	headEntry := func(in ssa.Instruction) bool { return in.Block() == m.loopHead && an.PointOf(in).I == 0 }
	if an.Search(an.After(inc), isInstr(inc), nil) == nil {
		// never repeated at all
	} else if w := an.Search(an.After(inc), isInstr(inc), headEntry); w != nil {
		return false, "the increment can run more than once per iteration"
	}
	pre := an.InstrDominates(inc, m.readReq) && an.Search(an.After(inc), isInstr(m.readReq), headEntry) != nil
	post := an.Search(an.After(m.readReq), headEntry, isInstr(inc)) == nil // every way back to the loop head passes the increment
	switch {
	case start == 0 && pre:
		return true, "variable starting at 0, incremented once per iteration before the read: 1, 2, 3, ..."
	case start == 1 && post && !an.InstrDominates(inc, m.readReq):
		return true, "variable starting at 1, incremented once at the end of every iteration (for id = 1; ; id++): 1, 2, 3, ..."
	}
	return false, sprintf("the numbering does not start at 1 or the increment is not executed once per iteration around the read (start %d)", start)
}

func isThisIterationWriter(v ssa.Value, m *serverModel) bool {
	ex, ok := v.(*ssa.Extract)
	if !ok || ex.Index != 0 {
		return false
	}
	call, ok := ex.Tuple.(*ssa.Call)
	if !ok || !isNewRW(call.Common()) {
		return false
	}
	return loopHeadOf(call) == m.loopHead || call.Block() == m.loopHead
}

// isNewRW: a call of newResponseWriter, or of a forwarding wrapper around it.
func isNewRW(cc *ssa.CallCommon) bool {
	return an.CalleeIs(cc, G, "newResponseWriter") || forwardedNewRW(cc) != nil
}

// forwardedNewRW: the callee is a wrapper that does nothing but
// `return newResponseWriter(...)` (one call, its results returned unchanged);
// returns that inner call.
func forwardedNewRW(cc *ssa.CallCommon) *ssa.Call {
	f := an.StaticCallee(cc)
	if f == nil || !an.InModule(f) || len(f.Blocks) != 1 {
		return nil
	}
	var inner *ssa.Call
	n := 0
	for _, ci := range an.Calls(f) {
		n++
		if call, ok := ci.(*ssa.Call); ok && an.CalleeIs(ci.Common(), G, "newResponseWriter") {
			inner = call
		}
	}
	if n != 1 || inner == nil {
		return nil
	}
	for _, in := range f.Blocks[0].Instrs {
		if _, isStore := in.(*ssa.Store); isStore {
			return nil
		}
	}
	rets := an.Returns(f)
	if len(rets) != 1 || len(rets[0].Results) != 2 {
		return nil
	}
	for i, r := range rets[0].Results {
		ex, ok := r.(*ssa.Extract)
		if !ok || ex.Tuple != ssa.Value(inner) || ex.Index != i {
			return nil
		}
	}
	return inner
}

func isThisRequest(v ssa.Value, m *serverModel) bool {
	ex, ok := v.(*ssa.Extract)
	return ok && ex.Index == 0 && ex.Tuple == ssa.Value(m.readReq)
}

// lockHeldAcrossHandler reports a position where the mutex struct.field is in
// the must-held set at a call of (*Mux).serve or of a handler value, or "".
func (c *Ctx) lockHeldAcrossHandler(st *types.Named, field string) string {
	for _, f := range c.shippedFuncs(G) {
		var sets map[ssa.Instruction]an.LockSet
		for _, ci := range an.Calls(f) {
			cc := ci.Common()
			if !(isMuxServe(cc) || isHandlerInvoke(cc)) {
				continue
			}
			if sets == nil {
				sets = an.LockSets(f, nil)
			}
			for k := range sets[ci] {
				// key form "<path>.<field>" possibly with "(r)"; the mutex must belong to the same struct type
				want := ""
				if st != nil {
					want = st.Obj().Name()
				}
				if hasSuffixField(k, field) && lockOwnerType(f, k) == want {
					return c.pos(ci)
				}
			}
		}
	}
	return ""
}

func hasSuffixField(key, field string) bool {
	k := key
	if len(k) > 3 && k[len(k)-3:] == "(r)" {
		k = k[:len(k)-3]
	}
	return len(k) > len(field) && k[len(k)-len(field)-1:] == "."+field
}

// ------------------------------------------------------------------ C10

func checkC10(c *Ctx) {
	R := c.R
	m := c.serverModel()
	if m == nil {
		return
	}
	isUnbind := c.isUnbindAtom()
	ifs := ifsOnEq(m.serve, isUnbind)
	if len(ifs) != 1 {
		R.Fail("C10-first", "(*conn).serveRequests: routeOp == unbind test", c.pos(m.readReq), sprintf("expected one test of r.routeOp == unbindRouteOperation in the read loop, found %d", len(ifs)))
		return
	}
	g := ifs[0]
	ubSucc := succOn(g.If, !g.Neg)
	// the tested request is the one just read
	{
		v, _ := an.Not(g.If.Cond)
		base := atomBase(v, G, "Request", "routeOp")
		R.Check(base != nil && isThisRequest(an.StripX(base), m), "C10-first", "(*conn).serveRequests: unbind test on the request just read", c.pos(g.If), "r is this iteration's readRequest result", "the unbind test does not look at the request just read")
	}
	// ---- C10-first: nothing is done with the request before the unbind test is decided (a case tried before it -
	// a limit, a filter - that answers or skips the request would let an Unbind be answered and the loop go on)
	{
		wrResp := callPred(func(cc *ssa.CallCommon) bool { return an.CalleeIs(cc, G, "(*ResponseWriter).Write") })
		early := or(isInstr(m.readReq), callPred(isMuxServe), func(in ssa.Instruction) bool { _, ok := in.(*ssa.Go); return ok }, callPred(isNewRW), wrResp)
		if w := an.SearchCorr(an.After(m.readReq), early, isInstr(g.If), nil); w != nil {
			R.Fail("C10-first", "(*conn).serveRequests: unbind test decided before the request is answered, dispatched or skipped", c.pos(w[len(w)-1]), "a request that was read can be answered, dispatched or skipped (next read) before the routeOp == unbind test is made: an Unbind taking that path does not end the connection: "+c.trail(w))
		} else {
			R.OK("C10-first", "(*conn).serveRequests: unbind test decided before the request is answered, dispatched or skipped", c.pos(g.If), "every path from the read reaches the unbind test before any response write, dispatch or the next read")
		}
	}
	// ---- C10-first: dispatch sites are on the non-unbind side
	n := 0
	for _, ci := range an.Calls(m.serve) {
		cc := ci.Common()
		if !isMuxServe(cc) && !(isGo(ci) && goTarget(ci.(*ssa.Go)) == m.reqFn) {
			continue
		}
		n++
		what := "inline router.serve"
		if isGo(ci) {
			what = "go router.serve"
		}
		R.Check(hasEqFact(ci.Block(), false, isUnbind), "C10-first", "(*conn).serveRequests: "+what+" excluded for unbind", c.pos(ci), "control-dependent on routeOp != unbind (the unbind test is decided first)", "this dispatch site can be reached by an Unbind request")
	}
	R.Floor("C10-first", 2)
	// ---- C10-terminal
	// (path-sensitive: a loop that ends through a flag set on the unbind branch - `for !unbound` - passes the loop
	// head once more, to leave)
	bad := or(isInstr(m.readReq), callPred(isMuxServe), func(in ssa.Instruction) bool { _, ok := in.(*ssa.Go); return ok }, callPred(isNewRW))
	if w := an.SearchCorr(an.Point{B: ubSucc, I: 0}, bad, nil, nil); w != nil {
		R.Fail("C10-terminal", "(*conn).serveRequests: after unbind nothing is served", c.pos(g.If), "after an Unbind the loop can continue to read / dispatch: "+c.trail(w))
	} else {
		R.OK("C10-terminal", "(*conn).serveRequests: after unbind nothing is served", c.pos(g.If), "from the unbind edge every path returns from serveRequests without readRequest, router.serve, go or the loop back edge")
	}
	// all those paths do return (no infinite loop / panic needed): at least one return reachable
	if w := an.Search(an.Point{B: ubSucc, I: 0}, an.IsReturn, nil); w == nil {
		R.Fail("C10-terminal", "(*conn).serveRequests: unbind returns", c.pos(g.If), "no return reachable after unbind")
	}
	// ---- C10-handler-once
	// the handler call sits on the unbind path of serveRequests, or in a helper that path calls exactly once
	hFn, hStart := m.serve, an.Point{B: ubSucc, I: 0}
	inRegion := func(ci ssa.CallInstruction) bool { return ubSucc.Dominates(ci.Block()) }
	{
		direct := false
		for _, ci := range an.Calls(m.serve) {
			if isHandlerInvoke(ci.Common()) && ubSucc.Dominates(ci.Block()) {
				direct = true
			}
		}
		if !direct {
			for _, ci := range an.Calls(m.serve) {
				u := an.StaticCallee(ci.Common())
				if u == nil || !an.InModule(u) || len(u.Blocks) == 0 || !ubSucc.Dominates(ci.Block()) || !isCall(ci) {
					continue
				}
				has := false
				for _, ic := range an.Calls(u) {
					if isHandlerInvoke(ic.Common()) {
						has = true
					}
				}
				if ok, _ := syncOnlyFrom(u, m.serve, c.shippedFuncs(G), 0); !has || !ok {
					continue
				}
				// every path of the unbind branch runs the helper exactly once
				if an.Search(an.Point{B: ubSucc, I: 0}, an.IsReturn, isInstr(ci)) == nil && an.Search(an.After(ci), isInstr(ci), nil) == nil {
					hFn, hStart = u, an.Entry(u)
					inRegion = func(ssa.CallInstruction) bool { return true }
				}
			}
		}
	}
	var hcalls []ssa.CallInstruction
	for _, ci := range an.Calls(hFn) {
		if isHandlerInvoke(ci.Common()) && inRegion(ci) {
			hcalls = append(hcalls, ci)
		}
	}
	nilIfs := ifsOn(hFn, func(v ssa.Value) bool {
		x, _, ok := an.NilCheck(v)
		if !ok {
			return false
		}
		_, ok = fieldLoad(x, G, "Mux", "unbindRoute")
		return ok
	})
	// the handler value may come from a getter of the mux that returns unbindRoute.handler(), or nil when no unbind
	// route is registered; the nil test is then made on the getter's result
	viaGetter := false
	var okSucc *ssa.BasicBlock // (h, ok) getter: the successor taken when ok is true
	if len(hcalls) == 1 && len(nilIfs) == 0 {
		if ex, isEx := an.Strip(hcalls[0].Common().Value).(*ssa.Extract); isEx && ex.Index == 0 {
			if gc, ok := ex.Tuple.(*ssa.Call); ok {
				if gf := an.StaticCallee(gc.Common()); gf != nil && an.InModule(gf) && unbindHandlerGetter(gf) {
					nilIfs = ifsOn(hFn, func(v ssa.Value) bool {
						e1, is1 := an.Strip(v).(*ssa.Extract)
						return is1 && e1.Tuple == ssa.Value(gc) && e1.Index == 1
					})
					if len(nilIfs) == 1 {
						viaGetter = true
						okSucc = succOn(nilIfs[0].If, !nilIfs[0].Neg)
					}
				}
			}
		}
		if gc, ok := an.Strip(hcalls[0].Common().Value).(*ssa.Call); ok {
			if gf := an.StaticCallee(gc.Common()); gf != nil && an.InModule(gf) && unbindHandlerGetter(gf) {
				nilIfs = ifsOn(hFn, func(v ssa.Value) bool {
					x, _, ok := an.NilCheck(v)
					return ok && an.Strip(x) == ssa.Value(gc)
				})
				viaGetter = len(nilIfs) == 1
			}
		}
	}
	switch {
	case len(hcalls) != 1 || len(nilIfs) != 1:
		R.Fail("C10-handler-once", "(*conn).serveRequests: unbind handler once", c.pos(g.If), sprintf("expected one handler call guarded by one `unbindRoute != nil` test after the unbind edge; found %d calls, %d tests", len(hcalls), len(nilIfs)))
	default:
		h, ng := hcalls[0], nilIfs[0]
		v, _ := an.Not(ng.If.Cond)
		_, trueMeansNil, _ := an.NilCheck(v)
		nonNil := succOn(ng.If, trueMeansNil == ng.Neg)
		if okSucc != nil {
			nonNil = okSucc
		}
		ok := isCall(h)
		// handler value = unbindRoute.handler()
		hv, isCallV := an.Strip(h.Common().Value).(*ssa.Call)
		if viaGetter {
			// established above: the getter yields unbindRoute.handler() exactly when a route is registered
		} else if !isCallV || !hv.Common().IsInvoke() || hv.Common().Method.Name() != "handler" {
			ok = false
		} else if _, okf := fieldLoad(hv.Common().Value, G, "Mux", "unbindRoute"); !okf {
			ok = false
		}
		// with a route: exactly once; every path from unbind edge passes the nil test
		if an.Search(hStart, an.IsReturn, isInstr(ng.If)) != nil {
			ok = false
		}
		if an.Search(an.Point{B: nonNil, I: 0}, an.IsReturn, isInstr(h)) != nil {
			ok = false
		}
		if an.SearchCorr(an.After(h), isInstr(h), nil, nil) != nil {
			ok = false
		}
		args := h.Common().Args
		if len(args) != 2 || !isThisIterationWriter(an.StripX(args[0]), m) || !isThisRequest(an.StripX(args[1]), m) {
			ok = false
		}
		R.Check(ok, "C10-handler-once", "(*conn).serveRequests: unbind handler once", c.pos(h), "unbindRoute.handler()(w, r) runs exactly once iff an unbind route is registered, synchronously, with this request", "the unbind handler is not invoked exactly once with this request when registered (or is invoked without the nil test / asynchronously)")
	}
	// ---- C10-silent
	wr := callPred(func(cc *ssa.CallCommon) bool { return an.CalleeIs(cc, G, "(*ResponseWriter).Write") })
	if w := an.SearchCorr(an.Point{B: ubSucc, I: 0}, wr, nil, nil); w != nil {
		R.Fail("C10-silent", "(*conn).serveRequests: no response to unbind", c.pos(g.If), "gldap itself writes a response on the unbind path: "+c.trail(w))
	} else {
		R.OK("C10-silent", "(*conn).serveRequests: no response to unbind", c.pos(g.If), "no ResponseWriter.Write by gldap on the unbind path")
	}
	// ---- C10-classify
	km := c.kindMaps()
	if km != nil {
		R.Check(km.typeToOp["UnbindMessage"] == c.unbindConst(), "C10-classify", "newRequest: *UnbindMessage -> unbindRouteOperation", c.P.Pos(km.newRequest.Pos()), "type switch maps it", "newRequest maps *UnbindMessage to "+km.typeToOp["UnbindMessage"])
		R.Check(km.kindToType[km.tagToKind[2]] == "UnbindMessage", "C10-classify", "APP[2] -> unbind kind -> *UnbindMessage", c.P.Pos(km.newMessage.Pos()), "requestType/newMessage tables compose", "protocolOp tag 2 is not decoded into an *UnbindMessage")
	}
	// ---- C10-inflight-waited: "the connection is then closed once earlier in-flight handlers have finished" rests on
	// the requestsWg pairing and the Wait -> Close order of the teardown (C08)
	{
		tmp := &Ctx{P: c.P, R: report.New("tmp"), Tier: c.Tier, Sub: true}
		checkC08(tmp)
		for _, o := range tmp.R.Obls {
			if o.Rule == "C08-paired" || (o.Rule == "C08-sequence" && (strings.Contains(o.Construct, "Wait") || strings.Contains(o.Construct, "Close"))) {
				switch o.Status {
				case report.Discharged:
					R.OK("C10-inflight-waited", o.Construct, o.Pos, o.Detail)
				default:
					R.Fail("C10-inflight-waited", o.Construct, o.Pos, o.Detail)
				}
			}
		}
		R.Floor("C10-inflight-waited", 2)
	}
}

// ------------------------------------------------------------------ C13

func checkC13(c *Ctx) {
	R := c.R
	m := c.serverModel()
	if m == nil {
		return
	}
	startTLS := c.fn(G, "(*Request).StartTLS")
	initConn := c.fn(G, "(*conn).initConn")
	newConnFn := c.fn(G, "newConn")
	readPacket := c.fn(G, "(*conn).readPacket")
	if startTLS == nil || initConn == nil || newConnFn == nil || readPacket == nil {
		return
	}
	shipped := c.shippedFuncs(G)
	isTLS := c.isStartTLSAtom()
	c.checkDeadlineDiscipline("C13-deadline", m)
	// ---- C13-inline
	n := 0
	for _, ci := range an.Calls(m.serve) {
		if !hasEqFact(ci.Block(), true, isTLS) {
			continue
		}
		cc := ci.Common()
		if isMuxServe(cc) || isHandlerInvoke(cc) || isGo(ci) {
			n++
			ok := isCall(ci) && isMuxServe(cc)
			if ok {
				args := cc.Args
				ok = isThisIterationWriter(an.StripX(args[1]), m) && isThisRequest(an.StripX(args[2]), m)
			}
			R.Check(ok, "C13-inline", "(*conn).serveRequests: StartTLS served inline", c.pos(ci), "plain synchronous call of router.serve(w, r): the read loop does not read again until the handler has returned", "StartTLS is dispatched asynchronously or not through router.serve(w, r): the next read can race with the handshake")
		}
	}
	if n == 0 {
		R.Fail("C13-inline", "(*conn).serveRequests: StartTLS served inline", c.pos(m.readReq), "no dispatch site is control-dependent on extendedName == StartTLS: StartTLS goes through the concurrent path")
	}
	// the extendedName tested is that of the request just read and newRequest sets it from the message name
	for _, g := range ifsOnEq(m.serve, isTLS) {
		v, _ := an.Not(g.If.Cond)
		base := atomBase(v, G, "Request", "extendedName")
		R.Check(base != nil && isThisRequest(an.StripX(base), m), "C13-inline", "(*conn).serveRequests: StartTLS test on the request just read", c.pos(g.If), "r is this iteration's request", "StartTLS test looks at another request")
	}
	// ---- C13-rawhandshake
	// (tls.Server may be called in StartTLS itself or in a helper StartTLS calls: `tlsConn, err := r.conn.newTLSServerConn(cfg)`)
	// the whole upgrade may live in a method of the conn that StartTLS merely calls on r.conn and whose result it
	// reports (`return r.conn.upgradeToTLS(cfg)`): the rule is then about that method, with its receiver as r.conn
	body := startTLS
	isReqConn := func(v ssa.Value) bool {
		b, ok := fieldLoad(v, G, "Request", "conn")
		return ok && an.Strip(b) == ssa.Value(startTLS.Params[0])
	}
	if len(callTo(startTLS, "crypto/tls", "Server")) == 0 {
		for _, ci := range an.Calls(body) {
			call, isC := ci.(*ssa.Call)
			h := an.StaticCallee(ci.Common())
			if !isC || h == nil || !an.InModule(h) || len(h.Blocks) == 0 || h.Signature.Recv() == nil || len(call.Common().Args) == 0 || !isReqConn(call.Common().Args[0]) {
				continue
			}
			if len(callTo(h, "crypto/tls", "Server")) == 0 || len(callTo(h, G, "(*conn).initConn")) == 0 || errResultIndex(h) < 0 {
				continue
			}
			// StartTLS reports success only where the method did
			faithful := true
			for _, ret := range an.Returns(startTLS) {
				res := an.ReturnResults(ret)
				if an.Search(an.After(call), isInstr(ret), nil) == nil || isErrOfCall(res[0], call) {
					continue
				}
				if an.IsNilConst(an.Strip(res[0])) && !hasFact(ret.Block(), true, func(v ssa.Value) bool {
					x, trueMeansNil, ok := an.NilCheck(v)
					return ok && trueMeansNil && isErrOfCall(x, call)
				}) && !hasFact(ret.Block(), false, func(v ssa.Value) bool {
					x, trueMeansNil, ok := an.NilCheck(v)
					return ok && !trueMeansNil && isErrOfCall(x, call)
				}) {
					faithful = false
				}
			}
			R.Check(faithful, "C13-rawhandshake", "(*Request).StartTLS: reports the result of "+fname(h), c.pos(call), "success only where the method that performs the upgrade succeeded", "StartTLS can report success although "+fname(h)+" failed")
			hp := h.Params[0]
			body, isReqConn = h, func(v ssa.Value) bool { return an.Strip(v) == ssa.Value(hp) }
		}
	}
	var tlsServer *ssa.Call
	for _, ci := range callTo(body, "crypto/tls", "Server") {
		tlsServer, _ = ci.(*ssa.Call)
	}
	var tlsHelper *ssa.Function // the helper that builds the TLS connection, if any
	var tlsHelperCall *ssa.Call // its call in StartTLS
	var tlsSeen ssa.Value       // the new TLS connection as StartTLS sees it
	tlsHelperArgSocket := false // the helper is given the raw socket as an argument
	if tlsServer != nil {
		tlsSeen = tlsServer
	} else {
		for _, ci := range an.Calls(body) {
			call, isCall := ci.(*ssa.Call)
			h := an.StaticCallee(ci.Common())
			if !isCall || h == nil || !an.InModule(h) || len(h.Blocks) == 0 {
				continue
			}
			for _, hc := range callTo(h, "crypto/tls", "Server") {
				ts, _ := hc.(*ssa.Call)
				if ts == nil {
					continue
				}
				// which result of the helper is that connection (on every return that yields one)
				ridx := -1
				okRet := true
				for _, ret := range an.Returns(h) {
					res := an.ReturnResults(ret)
					for i, rv := range res {
						if an.Strip(rv) == ssa.Value(ts) {
							if ridx >= 0 && ridx != i {
								okRet = false
							}
							ridx = i
						} else if i == ridx && !an.IsNilConst(an.Strip(rv)) {
							okRet = false
						}
					}
				}
				if ridx < 0 || !okRet {
					continue
				}
				tlsServer, tlsHelper, tlsHelperCall = ts, h, call
				if h.Signature.Results().Len() == 1 {
					tlsSeen = call
				} else if call.Referrers() != nil {
					for _, rr := range *call.Referrers() {
						if ex, isEx := rr.(*ssa.Extract); isEx && ex.Index == ridx {
							tlsSeen = ex
						}
					}
				}
			}
		}
	}
	if tlsServer == nil || tlsSeen == nil {
		R.Fail("C13-rawhandshake", "(*Request).StartTLS: tls.Server(conn.netConn)", c.P.Pos(startTLS.Pos()), "no tls.Server call")
	} else {
		a0 := tlsServer.Common().Args[0]
		// the raw socket may be handed to the helper as an argument: `serverHandshake(r.conn.netConn, cfg)`
		if tlsHelper != nil {
			for i, hp := range tlsHelper.Params {
				if an.Strip(a0) == ssa.Value(hp) && i < len(tlsHelperCall.Common().Args) {
					a0 = tlsHelperCall.Common().Args[i]
					tlsHelperArgSocket = true
				}
			}
		}
		base, ok := fieldLoad(a0, G, "conn", "netConn")
		if ok {
			if tlsHelper == nil || tlsHelperArgSocket {
				ok = isReqConn(base)
			} else {
				// in the helper: its own receiver, which StartTLS binds to r.conn
				ok = false
				for i, hp := range tlsHelper.Params {
					if an.Strip(base) == ssa.Value(hp) && i < len(tlsHelperCall.Common().Args) {
						ok = isReqConn(tlsHelperCall.Common().Args[i])
					}
				}
			}
		}
		R.Check(ok, "C13-rawhandshake", "(*Request).StartTLS: tls.Server(conn.netConn)", c.pos(tlsServer), "TLS is layered on the raw socket r.conn.netConn (not on the buffered reader)", "tls.Server is applied to "+an.Path(a0)+" instead of r.conn.netConn")
		// Handshake on it, initConn only on success with it
		var hs *ssa.Call
		for _, ci := range an.Calls(body) {
			if call, ok := ci.(*ssa.Call); ok {
				if f := call.Common().StaticCallee(); f != nil && an.FuncPkgPath(f) == "crypto/tls" && (f.Name() == "Handshake" || f.Name() == "HandshakeContext") &&
					an.Strip(call.Common().Args[0]) == an.Strip(tlsSeen) {
					hs = call
				}
			}
		}
		// the handshake may be performed by the helper that builds the connection: its success is then the helper's
		// nil error, provided the helper returns a nil error only after Handshake returned nil
		var succ ssa.Value = nil
		if hs != nil {
			succ = hs
		} else if tlsHelper != nil {
			var hsIn *ssa.Call
			for _, ci := range an.Calls(tlsHelper) {
				if call, ok := ci.(*ssa.Call); ok {
					if f := call.Common().StaticCallee(); f != nil && an.FuncPkgPath(f) == "crypto/tls" && (f.Name() == "Handshake" || f.Name() == "HandshakeContext") &&
						an.Strip(call.Common().Args[0]) == ssa.Value(tlsServer) {
						hsIn = call
					}
				}
			}
			ei := errResultIndex(tlsHelper)
			if hsIn != nil && ei >= 0 {
				okH := true
				for _, ret := range an.Returns(tlsHelper) {
					res := an.ReturnResults(ret)
					if an.IsNilConst(an.Strip(res[ei])) {
						// success return: only where the handshake's error was nil
						nilHS := hasFact(ret.Block(), true, func(v ssa.Value) bool {
							x, trueMeansNil, ok := an.NilCheck(v)
							return ok && trueMeansNil && an.Strip(x) == ssa.Value(hsIn)
						}) || hasFact(ret.Block(), false, func(v ssa.Value) bool {
							x, trueMeansNil, ok := an.NilCheck(v)
							return ok && !trueMeansNil && an.Strip(x) == ssa.Value(hsIn)
						})
						if !nilHS {
							okH = false
						}
					} else if an.Strip(res[ei]) != ssa.Value(hsIn) && !definitelyError(res[ei], ret) {
						okH = false
					}
				}
				if okH && tlsHelperCall.Referrers() != nil {
					for _, rr := range *tlsHelperCall.Referrers() {
						if ex, isEx := rr.(*ssa.Extract); isEx && ex.Index == ei {
							succ = ex
							hs = hsIn
						}
					}
				}
			}
		}
		inits := callTo(body, G, "(*conn).initConn")
		var earlyInit ssa.CallInstruction
		if tlsHelper != nil {
			for _, ic := range callTo(tlsHelper, G, "(*conn).initConn") {
				earlyInit = ic
			}
		}
		switch {
		case earlyInit != nil:
			R.Fail("C13-rawhandshake", "(*Request).StartTLS: handshake before swap", c.pos(earlyInit), "the helper that creates the TLS connection ("+fname(tlsHelper)+") also swaps the connection's reader/writer to it, i.e. before StartTLS has performed the handshake: a failed handshake leaves the connection half upgraded (neither cleartext nor TLS works on it any more)")
		case hs == nil:
			R.Fail("C13-rawhandshake", "(*Request).StartTLS: handshake before swap", c.pos(tlsServer), "Handshake is not called on the new tls.Conn before the swap")
		case len(inits) != 1:
			R.Fail("C13-rawhandshake", "(*Request).StartTLS: handshake before swap", c.pos(hs), sprintf("expected one initConn call, found %d", len(inits)))
		default:
			ic := inits[0]
			okErr := hasFact(ic.Block(), false, func(v ssa.Value) bool {
				x, trueMeansNil, ok := an.NilCheck(v)
				return ok && !trueMeansNil && an.Strip(x) == an.Strip(succ)
			}) || hasFact(ic.Block(), true, func(v ssa.Value) bool {
				x, trueMeansNil, ok := an.NilCheck(v)
				return ok && trueMeansNil && an.Strip(x) == an.Strip(succ)
			})
			okArg := an.Strip(ic.Common().Args[1]) == an.Strip(tlsSeen)
			okRecv := isReqConn(ic.Common().Args[0])
			R.Check(okErr && okArg && okRecv && isCall(ic), "C13-rawhandshake", "(*Request).StartTLS: handshake before swap", c.pos(ic),
				"initConn(tlsConn) on r.conn is reached only when Handshake returned nil, with the handshaken connection", sprintf("swap is not conditional on a successful handshake of that very connection (errGuard=%v sameConn=%v sameReceiver=%v)", okErr, okArg, okRecv))
			// failed handshake returns an error
			for _, ret := range an.Returns(body) {
				if hasFact(ret.Block(), true, func(v ssa.Value) bool {
					x, trueMeansNil, ok := an.NilCheck(v)
					return ok && !trueMeansNil && an.Strip(x) == an.Strip(succ)
				}) {
					res := an.ReturnResults(ret)
					R.Check(!an.IsNilConst(an.Strip(res[0])), "C13-rawhandshake", "(*Request).StartTLS: handshake error returned", c.pos(ret), "non-nil error", "a failed handshake is reported as success")
				}
			}
		}
	}
	// ---- C13-pair
	ls := an.LockSets(initConn, nil)
	var stored = map[string]*ssa.Store{}
	connMu := "c." + fld("conn", "mu")
	for _, fld := range []string{"netConn", "reader", "writer"} {
		for _, fs := range fieldStores(shipped, G, "conn", fld) {
			switch {
			case fs.Fn == initConn:
				stored[fld] = fs.Store
				held := ls[fs.Store]
				R.Check(held.Holds(connMu, false), "C13-pair", "(*conn).initConn: store conn."+fld+" under c.mu", c.pos(fs.Store), "must-held "+held.String(), "conn."+fld+" is swapped without holding c.mu")
			case fs.Fn == newConnFn && fld == "netConn":
				R.Check(an.Strip(fs.Store.Val) == ssa.Value(newConnFn.Params[2]), "C13-pair", "newConn: store conn.netConn", c.pos(fs.Store), "constructor stores its parameter", "newConn stores something else than its netConn parameter")
			default:
				R.Fail("C13-pair", fname(fs.Fn)+": store conn."+fld, c.pos(fs.Store), "conn."+fld+" is written outside initConn: reader, writer and socket can get out of step")
			}
		}
	}
	if stored["netConn"] == nil || stored["reader"] == nil || stored["writer"] == nil {
		R.Fail("C13-pair", "(*conn).initConn: stores all three", c.P.Pos(initConn.Pos()), "initConn does not store netConn, reader and writer")
	} else {
		p := ssa.Value(initConn.Params[1])
		sameX := func(v ssa.Value) bool {
			v = an.Strip(v)
			if v == p {
				return true
			}
			if b, ok := fieldLoad(v, G, "conn", "netConn"); ok && an.Strip(b) == ssa.Value(initConn.Params[0]) {
				// load of c.netConn: must come after the store of the parameter
				return an.Strip(stored["netConn"].Val) == p && an.InstrDominates(stored["netConn"], v.(ssa.Instruction))
			}
			return false
		}
		okN := an.Strip(stored["netConn"].Val) == p
		okR, okW := false, false
		if call, ok := an.Strip(stored["reader"].Val).(*ssa.Call); ok && an.CalleeIs(call.Common(), "bufio", "NewReader") {
			okR = sameX(call.Common().Args[0])
		}
		if call, ok := an.Strip(stored["writer"].Val).(*ssa.Call); ok && an.CalleeIs(call.Common(), "bufio", "NewWriter") {
			okW = sameX(call.Common().Args[0])
		}
		R.Check(okN && okR && okW, "C13-pair", "(*conn).initConn: reader/writer wrap the new socket", c.pos(stored["writer"]), "netConn = x, reader = bufio.NewReader(x), writer = bufio.NewWriter(x) for the parameter x", sprintf("the three fields are not rebuilt from the same new connection (netConn=%v reader=%v writer=%v)", okN, okR, okW))
		// every non-error path stores all three
		for _, ret := range an.Returns(initConn) {
			res := an.ReturnResults(ret)
			if !an.IsNilConst(an.Strip(res[0])) {
				continue
			}
			all := true
			for _, fld := range []string{"netConn", "reader", "writer"} {
				if an.Search(an.Entry(initConn), isInstr(ret), isInstr(stored[fld])) != nil {
					all = false
				}
			}
			R.Check(all, "C13-pair", "(*conn).initConn: success path stores all three", c.pos(ret), "no success path skips a store", "a success path of initConn leaves part of the reader/writer/socket triple unchanged")
		}
	}
	// ---- C13-fresh-writer
	for _, s := range callSites([]*ssa.Function{m.serve}, isStatic(G, "newResponseWriter")) {
		a0 := an.Strip(s.Common().Args[0])
		ld, ok := a0.(*ssa.UnOp)
		fresh := ok && (loopHeadOf(ld) == m.loopHead || ld.Block() == m.loopHead) && loopHeadOf(s) == m.loopHead || (ok && s.Block() == m.loopHead && ld.Block() == m.loopHead)
		if _, isField := fieldLoad(a0, G, "conn", "writer"); !isField {
			fresh = false
		}
		R.Check(fresh, "C13-fresh-writer", "(*conn).serveRequests: c.writer loaded per iteration", c.pos(s), "the writer handed to the next request's ResponseWriter is read inside the loop, after the previous (inline) StartTLS handler returned", "c.writer is cached across iterations: after StartTLS responses would bypass TLS")
	}
	// nobody else holds on to c.writer: every read of the field happens inside the read loop (or in a helper the loop
	// runs synchronously), so that what it yields is used before the next StartTLS can replace the pair; a writer read
	// once per connection (in the connection goroutine, a watcher, a constructor) keeps pointing at the plain socket
	// after an upgrade
	inLoop := func(in ssa.Instruction) bool { return loopHeadOf(in) == m.loopHead || in.Block() == m.loopHead }
	for _, f := range shipped {
		an.Instrs(f, func(in ssa.Instruction) {
			ld, isLd := in.(*ssa.UnOp)
			if !isLd || ld.Op != token.MUL {
				return
			}
			if _, isW := fieldAddr(ld.X, G, "conn", "writer"); !isW {
				return
			}
			okSite := false
			switch {
			case f == m.serve:
				okSite = inLoop(ld)
			case f == initConn:
				okSite = true
			default:
				if okSync, _ := syncOnlyFrom(f, m.serve, shipped, 0); okSync {
					okSite = true
					for _, ci := range an.Calls(m.serve) {
						for _, u := range syncCalleesOf(ci) {
							if (u == f || reachesSync(u, f, map[*ssa.Function]bool{})) && !inLoop(ci) {
								okSite = false
							}
						}
					}
				}
			}
			R.Check(okSite, "C13-fresh-writer", fname(f)+": read of c.writer", c.pos(ld), "read inside the read loop, per request", "c.writer is read outside the read loop ("+fname(f)+"): what is built from it keeps writing to the old stream after StartTLS has replaced the reader/writer pair - bytes would leave the connection outside the TLS tunnel")
		})
	}
	for _, ci := range callSites(shipped, func(cc *ssa.CallCommon) bool { return an.CalleeIs(cc, an.PkgBer, "ReadPacket") }) {
		a0 := ci.Common().Args[0]
		_, ok := fieldLoad(a0, G, "conn", "reader")
		same := false
		if ld, isLd := an.Strip(a0).(*ssa.UnOp); isLd {
			same = ld.Parent() == ci.Parent()
		}
		R.Check(ok && same, "C13-fresh-writer", fname(ci.Parent())+": ber.ReadPacket(c.reader)", c.pos(ci), "c.reader is loaded at each read", "ReadPacket does not read from a fresh load of c.reader")
	}
	R.Floor("C13-fresh-writer", 2)
	// the connection lock taken for the swap (and for every read) is released again: a conn.mu that stays locked
	// after the upgrade blocks the next readPacket, i.e. nothing inside the tunnel is ever decoded
	{
		var lf []*ssa.Function
		for _, n := range []string{"(*conn).initConn", "(*conn).readPacket", "(*Request).StartTLS", "(*conn).close"} {
			if f := c.P.Func(G, n); f != nil {
				lf = append(lf, an.WithClosures(f)...)
				for g := range syncReach(f) {
					if g != f && an.InModule(g) {
						lf = append(lf, an.WithClosures(g)...)
					}
				}
			}
		}
		seen := map[*ssa.Function]bool{}
		var uniq []*ssa.Function
		for _, f := range lf {
			if !seen[f] {
				seen[f] = true
				uniq = append(uniq, f)
			}
		}
		c.checkLockRelease("C13-lockrelease", uniq, "the next read on the connection blocks for ever: no request inside the TLS tunnel is decoded")
		R.Floor("C13-lockrelease", 2)
		// ---- C13-slot-release: the same for a slot of a counting semaphore (a send on a buffered channel kept in a
		// package-level variable or a field): a slot taken on the upgrade path and not given back on one of its exits (the
		// early return of a failed handshake) is lost for every connection; once all are lost no StartTLS ever starts
		if st := c.fn(G, "(*Request).StartTLS"); st != nil {
			for f := range syncReach(st) {
				if !an.InModule(f) || c.P.IsTestFile(f.Pos()) {
					continue
				}
				chanKey := func(v ssa.Value) string {
					ld, ok := an.Strip(v).(*ssa.UnOp)
					if !ok || ld.Op != token.MUL {
						return ""
					}
					switch x := ld.X.(type) {
					case *ssa.Global:
						return x.String()
					case *ssa.FieldAddr:
						return an.Path(x)
					}
					return ""
				}
				type acq struct {
					at   ssa.Instruction
					from an.Point
					ch   string
				}
				var acqs []acq
				an.Instrs(f, func(in ssa.Instruction) {
					switch x := in.(type) {
					case *ssa.Send:
						if k := chanKey(x.Chan); k != "" {
							acqs = append(acqs, acq{x, an.After(x), k})
						}
					case *ssa.Select:
						for i, stt := range x.States {
							k := chanKey(stt.Chan)
							if stt.Dir != types.SendOnly || k == "" {
								continue
							}
							// the branch taken when this case fired: `if index == i`
							for _, r := range *x.Referrers() {
								ex, ok := r.(*ssa.Extract)
								if !ok || ex.Index != 0 {
									continue
								}
								for _, rr := range *ex.Referrers() {
									bo, ok := rr.(*ssa.BinOp)
									if !ok || bo.Op != token.EQL {
										continue
									}
									if kk, isK := an.IntConst(bo.Y); !isK || int(kk) != i {
										continue
									}
									for _, r3 := range *bo.Referrers() {
										if iff, ok := r3.(*ssa.If); ok {
											acqs = append(acqs, acq{x, an.Point{B: iff.Block().Succs[0], I: 0}, k})
										}
									}
								}
							}
						}
					}
				})
				for _, a := range acqs {
					release := func(in ssa.Instruction) bool {
						switch x := in.(type) {
						case *ssa.UnOp:
							return x.Op == token.ARROW && chanKey(x.X) == a.ch
						case *ssa.Defer:
							if g := an.StaticCallee(x.Common()); g != nil {
								rel := false
								an.Instrs(g, func(in2 ssa.Instruction) {
									if u, ok := in2.(*ssa.UnOp); ok && u.Op == token.ARROW {
										if ld, ok := an.Strip(u.X).(*ssa.UnOp); ok {
											if gl, ok := ld.X.(*ssa.Global); ok && gl.String() == a.ch {
												rel = true
											}
										}
									}
								})
								return rel
							}
						}
						return false
					}
					w := an.Search(a.from, an.IsReturn, release)
					R.Check(w == nil, "C13-slot-release", fname(f)+": slot of "+a.ch+" given back on every path", c.pos(a.at), "every path from taking the slot to a return receives from the channel (or defers it)",
						"a slot of the semaphore "+a.ch+" taken on the StartTLS path is not given back on some path ("+c.trail(w)+"): each such exit loses a slot for every connection, and once none is left no upgrade ever starts its handshake")
				}
			}
		}
	}
	// ---- C13-answered: "requests inside the tunnel are ... answered exactly as on a plain connection": a response a
	// handler writes is put on the stream and flushed by that very Write, whatever the connection is (rules
	// C05-oneframe / C05-locked of the frame emitter; an emitter that holds frames back on some connections fails them)
	if !c.Sub {
		tmp := &Ctx{P: c.P, R: report.New("tmp"), Tier: c.Tier, Sub: true}
		checkC05(tmp)
		for _, o := range tmp.R.Obls {
			if o.Rule == "C05-oneframe" {
				switch o.Status {
				case report.Discharged:
					R.OK("C13-answered", o.Construct, o.Pos, o.Detail)
				default:
					R.Fail("C13-answered", o.Construct, o.Pos, o.Detail)
				}
			}
		}
		R.Floor("C13-answered", 2)
	}
	// ---- C13-dispatched: "requests inside the tunnel are decoded, dispatched and answered exactly as on a plain
	// connection": every request the read loop reads is dispatched exactly once, whatever happened on the connection
	// before (rule C03-dispatch; a request dropped or answered by gldap itself on some path - e.g. when bookkeeping left
	// behind by the StartTLS request has used up a limit - is not served as on a plain connection)
	if c.importRules(checkC03, func(o report.Obligation) bool { return o.Rule == "C03-dispatch" }, "C13-dispatched", " - requests on (upgraded) connections are not all handed to their handler") > 0 {
		R.Floor("C13-dispatched", 2)
	}
	// ---- C13-no-bypass
	c.checkSocketDiscipline("C13-no-bypass")
	for _, f := range shipped {
		for _, ci := range an.Calls(f) {
			if cf := ci.Common().StaticCallee(); cf != nil && an.FuncPkgPath(cf) == "crypto/tls" && cf.Name() == "NetConn" {
				R.Fail("C13-no-bypass", fname(f)+": tls.Conn.NetConn", c.pos(ci), "the raw connection under the TLS layer is extracted")
			}
		}
	}
	R.Floor("C13-no-bypass", 2)
	R.Assumptions = append(R.Assumptions, "Request.StartTLS is called from the StartTLS handler, which C13-inline shows runs on the read-loop goroutine")
	R.NotDecided = append(R.NotDecided, "what crypto/tls puts on the wire; handshake outcome for a given client timing")
}

// lockOwnerType: the struct type owning the mutex named by a lock-set key in f
// (found by matching the key against the Lock calls of f).
func lockOwnerType(f *ssa.Function, key string) string {
	k := strings.TrimSuffix(key, "(r)")
	for _, ci := range an.Calls(f) {
		if kind, mu := an.LockOp(ci.Common()); kind != "" && an.MutexPath(mu) == k {
			if fa, ok := mu.(*ssa.FieldAddr); ok {
				if nt := an.StructOf(fa.X.Type()); nt != nil {
					return nt.Obj().Name()
				}
			}
			if _, ok := mu.(*ssa.Global); ok {
				return "package" // a package-level mutex is shared by every connection of every server
			}
		}
	}
	return ""
}

// checkDeadlineDiscipline: a deadline gldap arms on a connection's socket in
// the middle of a session (not at connection setup from the configured
// timeouts, not on the shutdown path, not as the last act of the read loop) is
// disarmed again, for every direction it covered, before the function reports
// success: a leftover write (or read) deadline makes later answers (requests)
// on that connection fail, unlike on a connection that never went through the
// function (e.g. a plain one that never upgraded with StartTLS).
func (c *Ctx) checkDeadlineDiscipline(rule string, m *serverModel) {
	R := c.R
	shipped := c.shippedFuncs(G)
	dirs := map[string]string{"SetDeadline": "RW", "SetReadDeadline": "R", "SetWriteDeadline": "W"}
	isZeroTime := func(v ssa.Value) bool {
		v = an.Strip(v)
		if k, ok := v.(*ssa.Const); ok && k.Value == nil {
			return true
		}
		if ld, ok := v.(*ssa.UnOp); ok && ld.Op == token.MUL {
			if al, ok := ld.X.(*ssa.Alloc); ok {
				sts, esc := an.CellStores(al)
				return !esc && len(sts) == 0 && len(*al.Referrers()) == 1
			}
		}
		return false
	}
	type site struct {
		ci   ssa.CallInstruction
		dirs string
		zero bool
	}
	byFn := map[*ssa.Function][]site{}
	for _, u := range c.socketUses() {
		if len(u.Kind) < 8 || u.Kind[:7] != "method:" {
			continue
		}
		d, ok := dirs[u.Kind[7:]]
		ci, isCall := u.Instr.(ssa.CallInstruction)
		if !ok || !isCall {
			continue
		}
		args := ci.Common().Args
		if len(args) == 0 {
			continue
		}
		byFn[u.Fn] = append(byFn[u.Fn], site{ci, d, isZeroTime(args[len(args)-1])})
	}
	n := 0
	for _, f := range shipped {
		for _, s := range byFn[f] {
			key := fname(f) + ": " + s.ci.Common().Value.Name() + " deadline"
			if cal := an.StaticCallee(s.ci.Common()); cal != nil {
				key = fname(f) + ": " + cal.Name()
			} else if s.ci.Common().IsInvoke() {
				key = fname(f) + ": " + s.ci.Common().Method.Name()
			}
			n++
			// a helper that only sets deadlines (`setDeadlines(c, read, write)`): what matters is where it is called from
			if f != m.serve && f != m.stop && f != m.connFn && !s.zero {
				var sites []ssa.CallInstruction
				for _, g := range shipped {
					for _, cs := range an.Calls(g) {
						if an.StaticCallee(cs.Common()) == f && isCall(cs) {
							sites = append(sites, cs)
						}
					}
				}
				allOK := len(sites) > 0
				for _, cs := range sites {
					g := cs.Parent()
					if !(g == m.stop || c.dominatedByShutdownRecv(cs) || c.isConnSetup(cs, m)) {
						allOK = false
					}
				}
				if allOK {
					R.OK(rule, key+" (in a helper called on the shutdown path / at connection setup)", c.pos(s.ci), sprintf("all %d calls of %s are made once the server is stopping or before the connection's first read", len(sites), fname(f)))
					continue
				}
			}
			switch {
			case s.zero:
				R.Trivial(rule, key+" (clear)", c.pos(s.ci), "zero time: disarms the deadline")
				continue
			case f == m.stop || c.dominatedByShutdownRecv(s.ci):
				R.Trivial(rule, key+" (shutdown)", c.pos(s.ci), "armed once the server is stopping: the connection is ending")
				continue
			case f == m.serve && an.Search(an.After(s.ci), isInstr(m.readReq), nil) == nil:
				R.OK(rule, key+" (end of read loop)", c.pos(s.ci), "no further request is read on this connection after it")
				continue
			case f != m.serve && c.endsReadLoop(f, m):
				R.OK(rule, key+" (end of read loop, in a helper)", c.pos(s.ci), "the helper runs only as part of the read loop, which reads no further request after calling it")
				continue
			case c.isConnSetup(s.ci, m):
				R.OK(rule, key+" (connection setup)", c.pos(s.ci), "armed before the first request is read, from the server's configured timeouts")
				continue
			}
			// armed in mid-session: every success return is preceded by a clear covering each direction
			bad := ""
			for _, d := range s.dirs {
				clears := func(in ssa.Instruction) bool {
					for _, o := range byFn[f] {
						if o.zero && ssa.Instruction(o.ci) == in && strings.ContainsRune(o.dirs, d) {
							return true
						}
					}
					return false
				}
				succ := func(in ssa.Instruction) bool {
					ret, ok := in.(*ssa.Return)
					if !ok {
						return false
					}
					ei := errResultIndex(f)
					return ei < 0 || !definitelyError(an.ReturnResults(ret)[ei], ret)
				}
				if w := an.SearchCorr(an.After(s.ci), succ, clears, nil); w != nil {
					bad = map[rune]string{'R': "read", 'W': "write"}[d] + " deadline still armed at " + c.pos(w[len(w)-1])
					break
				}
			}
			R.Check(bad == "", rule, key+" (mid-session) is disarmed before success", c.pos(s.ci), "every path to a success return clears each direction the deadline covered", "a deadline armed in the middle of a session is left in force when "+fname(f)+" succeeds ("+bad+"): once it expires every later read/answer on the connection fails, unlike on a connection that did not take this path")
		}
	}
	R.Count(rule+"/sites", n)
}

// isConnSetup: the call runs in the connection goroutine before the read
// loop is entered (directly, or in a helper that runs only as a synchronous
// part of that prefix).
func (c *Ctx) isConnSetup(ci ssa.CallInstruction, m *serverModel) bool {
	f := ci.Parent()
	if f == m.connFn {
		return an.Search(an.After(m.serveCall), isInstr(ci), nil) == nil
	}
	ok, _ := syncOnlyFrom(f, m.connFn, c.shippedFuncs(G), 0)
	if !ok {
		return false
	}
	// every call of the helper (chain) in connFn precedes the read loop
	for _, cc := range an.Calls(m.connFn) {
		if isGo(cc) {
			continue
		}
		for _, u := range syncCalleesOf(cc) {
			if u == f || reachesSync(u, f, map[*ssa.Function]bool{}) {
				if an.Search(an.After(m.serveCall), isInstr(cc), nil) != nil || cc == ssa.CallInstruction(m.serveCall) {
					return false
				}
			}
		}
	}
	return true
}

func reachesSync(from, to *ssa.Function, seen map[*ssa.Function]bool) bool {
	if from == to {
		return true
	}
	if seen[from] {
		return false
	}
	seen[from] = true
	for _, u := range syncCallees(from) {
		if reachesSync(u, to, seen) {
			return true
		}
	}
	return false
}

// endsReadLoop: f runs only as a synchronous part of serveRequests, and after
// every call that reaches it the read loop reads no further request.
func (c *Ctx) endsReadLoop(f *ssa.Function, m *serverModel) bool {
	if ok, _ := syncOnlyFrom(f, m.serve, c.shippedFuncs(G), 0); !ok {
		return false
	}
	n := 0
	for _, ci := range an.Calls(m.serve) {
		if isGo(ci) {
			continue
		}
		for _, u := range syncCalleesOf(ci) {
			if u == f || reachesSync(u, f, map[*ssa.Function]bool{}) {
				n++
				if an.Search(an.After(ci), isInstr(m.readReq), nil) != nil {
					return false
				}
			}
		}
	}
	return n > 0
}

// calleeLabel names a call for an obligation key: the static callee when
// there is one, the printed callee value otherwise.
func calleeLabel(cc *ssa.CallCommon) string {
	if f := an.StaticCallee(cc); f != nil {
		return fname(f)
	}
	if cc.IsInvoke() {
		return an.Path(cc.Value) + "." + cc.Method.Name()
	}
	return an.Path(cc.Value)
}
