package rules

import (
	"go/token"
	"go/types"
	"strings"

	"gldapverif/an"

	"golang.org/x/tools/go/ssa"
)

// kindMaps are the three classification tables of request decoding,
// extracted from the branch structure of requestType, newMessage and
// newRequest (not from names or text).
type kindMaps struct {
	requestType, newMessage, newRequest *ssa.Function

	tagToKind    map[int64]string  // protocolOp tag -> request kind constant
	defaultIsErr bool              // requestType's default returns a non-nil error
	kindToType   map[string]string // request kind -> *XMessage type name ("default" for the default arm)
	typeToOp     map[string]string // message type name -> routeOperation constant
	extNameFrom  map[string]string // message type name -> where extendedName comes from ("" or "Name")
	problems     []string
	unknownKind  string
	viaConstEval bool // the tag table was read by constant evaluation (E6), not from the branch structure
}

func eqConstInt(cond ssa.Value) (ssa.Value, int64, bool) {
	bo, ok := cond.(*ssa.BinOp)
	if !ok || bo.Op != token.EQL {
		return nil, 0, false
	}
	if k, ok := an.IntConst(bo.Y); ok {
		if _, isC := an.Strip(bo.X).(*ssa.Const); !isC {
			return bo.X, k, true
		}
	}
	if k, ok := an.IntConst(bo.X); ok {
		return bo.Y, k, true
	}
	return nil, 0, false
}

func eqConstStr(cond ssa.Value) (ssa.Value, string, bool) {
	bo, ok := cond.(*ssa.BinOp)
	if !ok || bo.Op != token.EQL {
		return nil, "", false
	}
	if s, ok := an.StrConst(bo.Y); ok {
		if _, isC := an.Strip(bo.X).(*ssa.Const); !isC {
			return bo.X, s, true
		}
	}
	if s, ok := an.StrConst(bo.X); ok {
		return bo.Y, s, true
	}
	return nil, "", false
}

// tableLookupOf: v is the value of a comma-ok map lookup; okFact tells whether
// block b is reached only when the lookup's ok result is true.
func tableLookupOf(v ssa.Value, b *ssa.BasicBlock) (lk *ssa.Lookup, okFact bool, isTab bool) {
	ex, ok := an.Strip(v).(*ssa.Extract)
	if !ok || ex.Index != 0 {
		return nil, false, false
	}
	lk, ok = ex.Tuple.(*ssa.Lookup)
	if !ok || !lk.CommaOk {
		return nil, false, false
	}
	for _, f := range an.BranchFacts(b) {
		cond, neg := an.Not(f.Cond)
		if e2, ok := an.Strip(cond).(*ssa.Extract); ok && e2.Tuple == ssa.Value(lk) && e2.Index == 1 && f.True != neg {
			okFact = true
		}
	}
	return lk, okFact, true
}

func ptrNamed(t types.Type) string {
	if p, ok := t.(*types.Pointer); ok {
		if nt, ok := p.Elem().(*types.Named); ok {
			return nt.Obj().Name()
		}
	}
	return ""
}

var kindMapsCache = map[*Ctx]*kindMaps{}

func (c *Ctx) kindMaps() *kindMaps {
	if km, ok := kindMapsCache[c]; ok {
		return km
	}
	km := &kindMaps{tagToKind: map[int64]string{}, kindToType: map[string]string{}, typeToOp: map[string]string{}, extNameFrom: map[string]string{}}
	km.requestType = c.fn(G, "(*packet).requestType")
	km.newMessage = c.fn(G, "newMessage")
	km.newRequest = c.fn(G, "newRequest")
	if km.requestType == nil || km.newMessage == nil || km.newRequest == nil {
		return nil
	}
	km.unknownKind, _ = c.P.ConstStr(G, "unknownRequestType")
	// ---- requestType: tag -> kind
	for _, ret := range an.Returns(km.requestType) {
		res := an.ReturnResults(ret)
		if len(res) != 2 {
			km.problems = append(km.problems, "requestType: unexpected result arity")
			continue
		}
		kind, isConst := an.StrConst(res[0])
		errNil := an.IsNilConst(an.Strip(res[1]))
		var tags []int64
		for _, f := range an.BranchFacts(ret.Block()) {
			cond, neg := an.Not(f.Cond)
			if f.True == neg {
				continue
			}
			if x, k, ok := eqConstInt(cond); ok {
				_, names := an.FieldChain(x)
				if len(names) > 0 && names[len(names)-1] == "Tag" {
					tags = append(tags, k)
				}
			}
		}
		// table form: `kind, ok := table[requestPacket.Tag]; if !ok { return unknown, err }; return kind, nil`
		if lk, okFact, isTab := tableLookupOf(res[0], ret.Block()); isTab && errNil && !isConst {
			_, names := an.FieldChain(lk.Index)
			tab, okTab := an.GlobalMapTable(lk.X)
			switch {
			case !okFact:
				km.problems = append(km.problems, "requestType: the table entry is returned without testing that the tag is in the table at "+c.pos(ret))
			case len(names) == 0 || names[len(names)-1] != "Tag":
				km.problems = append(km.problems, "requestType: the table is not indexed by the protocolOp tag")
			case !okTab:
				km.problems = append(km.problems, "requestType: the kind table is not a package-level map filled only by its literal")
			default:
				for _, e := range tab.Entries {
					k, okK := an.IntConst(e.Key)
					v, okV := an.StrConst(e.Val)
					if !okK || !okV {
						km.problems = append(km.problems, "requestType: non-constant entry in the kind table")
						continue
					}
					if old, dup := km.tagToKind[k]; dup && old != v {
						km.problems = append(km.problems, sprintf("requestType: tag %d mapped twice", k))
					}
					km.tagToKind[k] = v
				}
			}
			continue
		}
		switch {
		case errNil && isConst && len(tags) == 1:
			if old, dup := km.tagToKind[tags[0]]; dup && old != kind {
				km.problems = append(km.problems, sprintf("requestType: tag %d mapped twice", tags[0]))
			}
			km.tagToKind[tags[0]] = kind
		case errNil:
			km.problems = append(km.problems, "requestType: a success return at "+c.pos(ret)+" is not under exactly one `Tag == constant` case (cannot read the table)")
		case !errNil && len(tags) == 0:
			// error return: default arm or requestPacket failure
			if isConst && kind == km.unknownKind {
				km.defaultIsErr = true
			}
		}
	}
	// ---- fallback (engine E6): the table could not be read from the branch structure (an array literal behind a
	// bounds guard, a classifier helper, ...): evaluate requestType by constant propagation for every tag value
	// 0..63 with only `...Tag` fixed, on the path where requestPacket() succeeds
	{
		tableProblem := false
		for _, p := range km.problems {
			if strings.HasPrefix(p, "requestType:") {
				tableProblem = true
			}
		}
		if tableProblem || len(km.tagToKind) == 0 {
			byTag := map[int64]string{}
			okAll := true
			defErr := true
			for k := int64(0); k < 64; k++ {
				kk := k
				ev := &constEval{hook: func(v ssa.Value) (cval, bool) {
					if ld, isLd := v.(*ssa.UnOp); isLd && ld.Op == token.MUL {
						if _, names := an.FieldChain(ld); len(names) > 0 && names[len(names)-1] == "Tag" && ld.Parent() == km.requestType {
							return cval{k: 'i', i: kk}, true
						}
					}
					return cval{}, false
				}}
				res, ok := ev.run(km.requestType, []cval{{}}, 0)
				if !ok || len(res) != 2 {
					okAll = false
					break
				}
				switch {
				case res[1].k == 'n' && res[0].k == 's':
					byTag[k] = res[0].s
				case res[1].k == 'e':
					// error for this tag
				default:
					okAll = false
				}
				if res[1].k == 'n' && res[0].k == 's' && res[0].s == km.unknownKind {
					defErr = false
				}
			}
			if okAll && len(byTag) > 0 {
				var kept []string
				for _, p := range km.problems {
					if !strings.HasPrefix(p, "requestType:") {
						kept = append(kept, p)
					}
				}
				km.problems = kept
				km.tagToKind = byTag
				km.defaultIsErr = defErr
				km.viaConstEval = true
			}
		}
	}
	// ---- newMessage: kind -> type
	var reqTypeCall *ssa.Call
	for _, ci := range an.Calls(km.newMessage) {
		if call, ok := ci.(*ssa.Call); ok && an.CalleeIs(ci.Common(), G, "(*packet).requestType") {
			reqTypeCall = call
		}
	}
	for _, ret := range an.Returns(km.newMessage) {
		res := an.ReturnResults(ret)
		if len(res) != 2 || !an.IsNilConst(an.Strip(res[1])) {
			continue
		}
		tn := ptrNamed(an.Strip(res[0]).Type())
		var kinds []string
		for _, f := range an.BranchFacts(ret.Block()) {
			cond, neg := an.Not(f.Cond)
			if f.True == neg {
				continue
			}
			if x, s, ok := eqConstStr(cond); ok {
				if ex, isEx := an.Strip(x).(*ssa.Extract); isEx && reqTypeCall != nil && ex.Tuple == ssa.Value(reqTypeCall) && ex.Index == 0 {
					kinds = append(kinds, s)
				}
			}
		}
		switch {
		case tn == "":
			km.problems = append(km.problems, "newMessage: success return at "+c.pos(ret)+" does not return a pointer to a named message type")
		case len(kinds) == 1:
			km.kindToType[kinds[0]] = tn
		case len(kinds) == 0:
			km.kindToType["default"] = tn
		default:
			km.problems = append(km.problems, "newMessage: success return at "+c.pos(ret)+" under several kind cases")
		}
	}
	// ---- newRequest: type -> routeOp
	var msgCall *ssa.Call
	for _, ci := range an.Calls(km.newRequest) {
		if call, ok := ci.(*ssa.Call); ok && an.CalleeIs(ci.Common(), G, "newMessage") {
			msgCall = call
		}
	}
	typeOfEdge := func(b *ssa.BasicBlock) string {
		var ts []string
		for _, f := range an.BranchFacts(b) {
			cond, neg := an.Not(f.Cond)
			if f.True == neg {
				continue
			}
			ex, ok := cond.(*ssa.Extract)
			if !ok || ex.Index != 1 {
				continue
			}
			ta, ok := ex.Tuple.(*ssa.TypeAssert)
			if !ok || !ta.CommaOk {
				continue
			}
			if mex, ok := an.Strip(ta.X).(*ssa.Extract); ok && msgCall != nil && mex.Tuple == ssa.Value(msgCall) && mex.Index == 0 {
				ts = append(ts, ptrNamed(ta.AssertedType))
			}
		}
		if len(ts) == 1 {
			return ts[0]
		}
		return ""
	}
	stores := fieldStores([]*ssa.Function{km.newRequest}, G, "Request", "routeOp")
	if len(stores) > 1 {
		// one store per arm of the message type switch: r.routeOp = <constant> under `case *XMessage`
		for _, fs := range stores {
			tn := typeOfEdge(fs.Store.Block())
			sv, isC := an.StrConst(fs.Store.Val)
			if tn == "" || !isC {
				km.problems = append(km.problems, "newRequest: a store to Request.routeOp at "+c.pos(fs.Store)+" is not a constant under a single message-type case")
				continue
			}
			if old, dup := km.typeToOp[tn]; dup && old != sv {
				km.problems = append(km.problems, "newRequest: "+tn+" classified twice")
			}
			km.typeToOp[tn] = sv
		}
	} else if len(stores) != 1 {
		km.problems = append(km.problems, sprintf("newRequest: %d stores to Request.routeOp", len(stores)))
	} else {
		v := stores[0].Store.Val
		phi, ok := v.(*ssa.Phi)
		if !ok {
			km.problems = append(km.problems, "newRequest: Request.routeOp is not selected by the message type switch (value "+an.Path(v)+")")
		} else {
			for i, e := range phi.Edges {
				tn := typeOfEdge(phi.Block().Preds[i])
				s, isC := an.StrConst(e)
				if tn == "" || !isC {
					km.problems = append(km.problems, "newRequest: a routeOp alternative is not a constant under a single message-type case")
					continue
				}
				km.typeToOp[tn] = s
			}
		}
	}
	estores := fieldStores([]*ssa.Function{km.newRequest}, G, "Request", "extendedName")
	classify := func(tn string, e ssa.Value) {
		if sv, isC := an.StrConst(e); isC && sv == "" {
			km.extNameFrom[tn] = ""
			return
		}
		if base, ok := fieldLoad(e, G, "ExtendedOperationMessage", "Name"); ok {
			if ex, ok := an.Strip(base).(*ssa.Extract); ok && ex.Index == 0 {
				if ta, ok := ex.Tuple.(*ssa.TypeAssert); ok && ptrNamed(ta.AssertedType) == tn {
					km.extNameFrom[tn] = "Name"
					return
				}
			}
		}
		km.extNameFrom[tn] = "?" + an.Path(e)
	}
	if len(estores) >= 1 {
		if _, isPhi := estores[0].Store.Val.(*ssa.Phi); !isPhi || len(estores) > 1 {
			// stores inside the arms of the type switch; types without a store keep the empty name
			for tn := range km.typeToOp {
				km.extNameFrom[tn] = ""
			}
			for _, fs := range estores {
				if tn := typeOfEdge(fs.Store.Block()); tn != "" {
					classify(tn, fs.Store.Val)
				} else {
					km.problems = append(km.problems, "newRequest: a store to Request.extendedName at "+c.pos(fs.Store)+" is not under a single message-type case")
				}
			}
			estores = nil
		}
	}
	if len(estores) == 1 {
		if phi, ok := estores[0].Store.Val.(*ssa.Phi); ok {
			for i, e := range phi.Edges {
				tn := typeOfEdge(phi.Block().Preds[i])
				if s, isC := an.StrConst(e); isC && s == "" {
					km.extNameFrom[tn] = ""
					continue
				}
				if base, ok := fieldLoad(e, G, "ExtendedOperationMessage", "Name"); ok {
					if ex, ok := an.Strip(base).(*ssa.Extract); ok && ex.Index == 0 {
						if ta, ok := ex.Tuple.(*ssa.TypeAssert); ok && ptrNamed(ta.AssertedType) == tn {
							km.extNameFrom[tn] = "Name"
							continue
						}
					}
				}
				km.extNameFrom[tn] = "?" + an.Path(e)
			}
		}
	}
	kindMapsCache[c] = km
	return km
}
