package rules

import (
	"go/constant"
	"go/token"
	"go/types"

	"gldapverif/an"

	"golang.org/x/tools/go/ssa"
)

// Conditional constant propagation of one function specialised to given
// constant inputs (engine E6, used to read classification tables whatever
// their shape: switch, map literal, array literal behind a guard, classifier
// helper). Only integers, strings, booleans and nil-ness are tracked; every
// other value is "unknown". A branch on an unknown condition stops the
// evaluation, except the nil test of an unknown error value, which is taken
// as nil (the success path).

type cval struct {
	k  byte // 0 unknown, 'i' int, 's' string, 'b' bool, 'n' nil, 'e' non-nil
	i  int64
	s  string
	b  bool
	tu []cval // results of a call / comma-ok lookup
}

func (v cval) known() bool { return v.k == 'i' || v.k == 's' || v.k == 'b' }

func constOf(c *ssa.Const) cval {
	if c.Value == nil {
		return cval{k: 'n'}
	}
	switch c.Value.Kind() {
	case constant.Int:
		if i, ok := constant.Int64Val(c.Value); ok {
			return cval{k: 'i', i: i}
		}
	case constant.String:
		return cval{k: 's', s: constant.StringVal(c.Value)}
	case constant.Bool:
		return cval{k: 'b', b: constant.BoolVal(c.Value)}
	}
	return cval{}
}

type constEval struct {
	hook  func(v ssa.Value) (cval, bool) // values the caller fixes (e.g. the load of ...Tag)
	steps int
}

// globalArray reads a package-level array initialised once, by a composite
// literal, in init: index -> constant element.
func globalArray(g *ssa.Global) (map[int64]cval, bool) {
	if g.Pkg == nil {
		return nil, false
	}
	if _, isArr := g.Type().(*types.Pointer).Elem().Underlying().(*types.Array); !isArr {
		return nil, false
	}
	initFn := g.Pkg.Func("init")
	if initFn == nil {
		return nil, false
	}
	out := map[int64]cval{}
	nWhole := 0
	ok := true
	for _, m := range g.Pkg.Members {
		var fns []*ssa.Function
		switch x := m.(type) {
		case *ssa.Function:
			fns = append(fns, an.WithClosures(x)...)
		case *ssa.Type:
			for _, tt := range []types.Type{x.Type(), types.NewPointer(x.Type())} {
				ms := g.Pkg.Prog.MethodSets.MethodSet(tt)
				for i := 0; i < ms.Len(); i++ {
					if f := g.Pkg.Prog.MethodValue(ms.At(i)); f != nil && f.Pkg == g.Pkg && f.Synthetic == "" {
						fns = append(fns, an.WithClosures(f)...)
					}
				}
			}
		}
		for _, f := range fns {
			an.Instrs(f, func(in ssa.Instruction) {
				st, isSt := in.(*ssa.Store)
				if !isSt {
					return
				}
				if ia, isIA := st.Addr.(*ssa.IndexAddr); isIA && ia.X == ssa.Value(g) {
					k, isK := an.IntConst(ia.Index)
					c, isC := st.Val.(*ssa.Const)
					if f != initFn || !isK || !isC {
						ok = false
						return
					}
					out[k] = constOf(c)
					return
				}
				if st.Addr != ssa.Value(g) {
					return
				}
				nWhole++
				if f != initFn {
					ok = false
					return
				}
				// `*g = *tmp` where tmp is a local array filled element by element
				ld, isLd := st.Val.(*ssa.UnOp)
				if !isLd || ld.Op != token.MUL {
					ok = false
					return
				}
				al, isAl := ld.X.(*ssa.Alloc)
				if !isAl || al.Referrers() == nil {
					ok = false
					return
				}
				for _, r := range *al.Referrers() {
					ia, isIA := r.(*ssa.IndexAddr)
					if !isIA {
						continue
					}
					k, isK := an.IntConst(ia.Index)
					for _, rr := range *ia.Referrers() {
						if est, isE := rr.(*ssa.Store); isE && est.Addr == ssa.Value(ia) {
							c, isC := est.Val.(*ssa.Const)
							if !isK || !isC {
								ok = false
								continue
							}
							out[k] = constOf(c)
						}
					}
				}
			})
		}
	}
	return out, ok && nWhole <= 1
}

func sameConst(a, b cval) bool { return a.k == b.k && a.i == b.i && a.s == b.s && a.b == b.b }

func zeroOf(t types.Type) cval {
	if b, ok := t.Underlying().(*types.Basic); ok {
		switch {
		case b.Info()&types.IsInteger != 0:
			return cval{k: 'i'}
		case b.Info()&types.IsString != 0:
			return cval{k: 's'}
		case b.Info()&types.IsBoolean != 0:
			return cval{k: 'b'}
		}
	}
	return cval{}
}

// run evaluates fn on args; returns the values of the Return reached.
func (e *constEval) run(fn *ssa.Function, args []cval, depth int) ([]cval, bool) {
	if depth > 4 || len(fn.Blocks) == 0 {
		return nil, false
	}
	env := map[ssa.Value]cval{}
	cells := map[*ssa.Alloc]cval{}
	for i, p := range fn.Params {
		if i < len(args) {
			env[p] = args[i]
		}
	}
	var val func(v ssa.Value) cval
	val = func(v ssa.Value) cval {
		if e.hook != nil {
			if c, ok := e.hook(v); ok {
				return c
			}
		}
		if c, ok := v.(*ssa.Const); ok {
			return constOf(c)
		}
		if c, ok := env[v]; ok {
			return c
		}
		return cval{}
	}
	b := fn.Blocks[0]
	var prev *ssa.BasicBlock
	for {
		var next *ssa.BasicBlock
		for _, in := range b.Instrs {
			e.steps++
			if e.steps > 20000 {
				return nil, false
			}
			switch x := in.(type) {
			case *ssa.Phi:
				for i, p := range b.Preds {
					if p == prev {
						env[x] = val(x.Edges[i])
					}
				}
			case *ssa.BinOp:
				env[x] = evalBin(x.Op, val(x.X), val(x.Y))
			case *ssa.UnOp:
				switch x.Op {
				case token.NOT:
					if a := val(x.X); a.k == 'b' {
						env[x] = cval{k: 'b', b: !a.b}
					}
				case token.MUL:
					if c, ok := e.hook(x); e.hook != nil && ok {
						env[x] = c
						break
					}
					switch a := x.X.(type) {
					case *ssa.Alloc:
						if c, ok := cells[a]; ok {
							env[x] = c
						}
					case *ssa.IndexAddr:
						if g, isG := a.X.(*ssa.Global); isG {
							if tab, ok := globalArray(g); ok {
								if idx := val(a.Index); idx.k == 'i' {
									if c, has := tab[idx.i]; has {
										env[x] = c
									} else {
										env[x] = zeroOf(x.Type())
									}
								}
							}
						}
					}
				}
			case *ssa.Store:
				if al, ok := x.Addr.(*ssa.Alloc); ok {
					cells[al] = val(x.Val)
				}
			case *ssa.Convert:
				env[x] = val(x.X)
			case *ssa.ChangeType:
				env[x] = val(x.X)
			case *ssa.MakeInterface:
				env[x] = val(x.X)
			case *ssa.Lookup:
				if tab, ok := an.GlobalMapTable(x.X); ok {
					if key := val(x.Index); key.known() {
						found := cval{}
						has := false
						for _, ent := range tab.Entries {
							kc, okK := ent.Key.(*ssa.Const)
							vc, okV := ent.Val.(*ssa.Const)
							if okK && okV && sameConst(constOf(kc), key) {
								found, has = constOf(vc), true
							}
						}
						if !has {
							found = zeroOf(x.Type())
							if tup, isT := x.Type().(*types.Tuple); isT {
								found = zeroOf(tup.At(0).Type())
							}
						}
						if x.CommaOk {
							env[x] = cval{tu: []cval{found, {k: 'b', b: has}}}
						} else {
							env[x] = found
						}
					}
				}
			case *ssa.Extract:
				if t := val(x.Tuple); x.Index < len(t.tu) {
					env[x] = t.tu[x.Index]
				}
			case *ssa.Call:
				cc := x.Common()
				if f := an.StaticCallee(cc); f != nil && an.InModule(f) && len(f.Blocks) > 0 {
					var as []cval
					for _, a := range cc.Args {
						as = append(as, val(a))
					}
					if res, ok := e.run(f, as, depth+1); ok {
						if len(res) == 1 {
							env[x] = res[0]
						} else {
							env[x] = cval{tu: res}
						}
					}
				} else if f := cc.StaticCallee(); f != nil && (an.FuncPkgPath(f) == "fmt" && f.Name() == "Errorf" || an.FuncPkgPath(f) == "errors" && f.Name() == "New") {
					env[x] = cval{k: 'e'}
				}
			case *ssa.If:
				cv := val(x.Cond)
				if cv.k != 'b' {
					// nil test of an unknown error: the success path
					inner, neg := an.Not(x.Cond)
					if y, trueMeansNil, ok := an.NilCheck(inner); ok && isErrorType(y.Type()) && val(y).k == 0 {
						cv = cval{k: 'b', b: trueMeansNil != neg}
					} else {
						return nil, false
					}
				}
				if cv.b {
					next = b.Succs[0]
				} else {
					next = b.Succs[1]
				}
			case *ssa.Jump:
				next = b.Succs[0]
			case *ssa.Return:
				var out []cval
				for _, r := range an.ReturnResults(x) {
					out = append(out, val(r))
				}
				return out, true
			case *ssa.Panic:
				return nil, false
			}
		}
		if next == nil {
			return nil, false
		}
		prev, b = b, next
	}
}

func evalBin(op token.Token, a, b cval) cval {
	// nil comparisons
	if (a.k == 'n' || a.k == 'e') && (b.k == 'n' || b.k == 'e') && (a.k == 'n' || b.k == 'n') {
		eq := a.k == b.k
		switch op {
		case token.EQL:
			return cval{k: 'b', b: eq}
		case token.NEQ:
			return cval{k: 'b', b: !eq}
		}
	}
	if a.k != b.k || !a.known() {
		return cval{}
	}
	switch a.k {
	case 'i':
		switch op {
		case token.ADD:
			return cval{k: 'i', i: a.i + b.i}
		case token.SUB:
			return cval{k: 'i', i: a.i - b.i}
		case token.AND:
			return cval{k: 'i', i: a.i & b.i}
		case token.EQL:
			return cval{k: 'b', b: a.i == b.i}
		case token.NEQ:
			return cval{k: 'b', b: a.i != b.i}
		case token.LSS:
			return cval{k: 'b', b: a.i < b.i}
		case token.LEQ:
			return cval{k: 'b', b: a.i <= b.i}
		case token.GTR:
			return cval{k: 'b', b: a.i > b.i}
		case token.GEQ:
			return cval{k: 'b', b: a.i >= b.i}
		}
	case 's':
		switch op {
		case token.EQL:
			return cval{k: 'b', b: a.s == b.s}
		case token.NEQ:
			return cval{k: 'b', b: a.s != b.s}
		case token.ADD:
			return cval{k: 's', s: a.s + b.s}
		}
	case 'b':
		switch op {
		case token.EQL:
			return cval{k: 'b', b: a.b == b.b}
		case token.NEQ:
			return cval{k: 'b', b: a.b != b.b}
		}
	}
	return cval{}
}
