package rules

import (
	"go/types"

	"gldapverif/an"

	"golang.org/x/tools/go/ssa"
)

func init() {
	Registry["C05"] = checkC05
	Descriptions["C05"] = "Lock discipline of the shared response stream, decided on the SSA of (*ResponseWriter).Write, newResponseWriter and (*conn).serveRequests: " +
		"C05-owner (bufio.Writer methods are called only inside ResponseWriter.Write on rw.writer; the socket is never written directly), " +
		"C05-locked (must-held lock set at writer.Write and writer.Flush contains rw.writerMu), " +
		"C05-oneframe (every success path performs exactly one writer.Write of r.packet().Bytes() followed by exactly one Flush), " +
		"C05-shared (every ResponseWriter of a connection gets the connection's own writer and the address of the connection's own mutex; ResponseWriter literals exist only in newResponseWriter; conn is never copied), " +
		"C05-order (Write/Flush are synchronous calls). Decides mutual exclusion and frame wholeness for every schedule; does not explore any schedule, TLS or kernel behaviour."
}

func isBufioWriterMethod(cc *ssa.CallCommon) (string, ssa.Value, bool) {
	f := cc.StaticCallee()
	if f == nil || f.Signature.Recv() == nil || an.FuncPkgPath(f) != "bufio" {
		return "", nil, false
	}
	if !an.TypeIs(f.Signature.Recv().Type(), "bufio", "Writer") || len(cc.Args) == 0 {
		return "", nil, false
	}
	return f.Name(), cc.Args[0], true
}

// frameEmitter finds the function that puts a response frame on the stream:
// (*ResponseWriter).Write itself, or - when Write contains no bufio.Writer call -
// the one method of ResponseWriter that does, provided Write delegates to it:
// it runs only as a synchronous part of Write, is called on Write's own
// receiver, and Write returns its result unchanged on every path after the
// call. respIdx is the index (in the emitter's parameters) of the Response.
// emitterTakesBytes: the frame emitter is handed the encoded frame
// (r.packet().Bytes() of Write's response) instead of the response.
var emitterTakesBytes = map[*ssa.Function]bool{}

func (c *Ctx) frameEmitter() (emit *ssa.Function, respIdx int, why string) {
	write := c.fn(G, "(*ResponseWriter).Write")
	if write == nil {
		return nil, 0, "no (*ResponseWriter).Write"
	}
	has := func(f *ssa.Function) bool {
		for _, ci := range an.Calls(f) {
			if _, _, ok := isBufioWriterMethod(ci.Common()); ok {
				return true
			}
		}
		return false
	}
	if has(write) {
		return write, 1, ""
	}
	shipped := c.shippedFuncs(G)
	var cands []*ssa.Function
	for _, f := range shipped {
		if f != write && has(f) {
			cands = append(cands, f)
		}
	}
	if len(cands) != 1 {
		return write, 1, sprintf("Write contains no bufio.Writer call and %d other functions do", len(cands))
	}
	h := cands[0]
	if ok, w := syncOnlyFrom(h, write, shipped, 0); !ok {
		return write, 1, fname(h) + " writes to the stream but does not run only as part of Write: " + w
	}
	var call *ssa.Call
	for _, ci := range an.Calls(write) {
		if an.StaticCallee(ci.Common()) == h {
			if cc, ok := ci.(*ssa.Call); ok && call == nil {
				call = cc
			} else {
				return write, 1, fname(h) + " is called more than once (or deferred) in Write"
			}
		}
	}
	if call == nil {
		return write, 1, fname(h) + " is not called directly by Write"
	}
	if h.Parent() == write {
		// a function literal of Write invoked on the spot: it sees Write's own receiver and response
		respIdx = 1
	} else {
		if h.Signature.Recv() == nil || an.Strip(call.Common().Args[0]) != ssa.Value(write.Params[0]) {
			return write, 1, fname(h) + " is not called on Write's own receiver"
		}
		respIdx = -1
		for i, a := range call.Common().Args {
			if an.Strip(a) == ssa.Value(write.Params[1]) {
				respIdx = i
			}
		}
		if respIdx < 0 {
			// ... or the response already encoded: r.packet().Bytes() of Write's response
			for i, a := range call.Common().Args {
				if an.Canon(a) == "github.com/go-asn1-ber/asn1-ber.(*Packet).Bytes($1.packet().Packet)" {
					respIdx = i
					emitterTakesBytes[h] = true
				}
			}
		}
		if respIdx < 0 {
			return write, 1, fname(h) + " is not given Write's response"
		}
	}
	// after the call Write reports what the helper reported: it returns the helper's result itself, or nil only
	// where that result is known to be nil, or an error only where it is known to be non-nil
	resultNil := func(b *ssa.BasicBlock) (isNil, known bool) {
		for _, fct := range an.BranchFacts(b) {
			cond, neg := an.Not(fct.Cond)
			if x, trueMeansNil, ok := an.NilCheck(cond); ok && isErrOfCall(x, call) {
				return (fct.True != neg) == trueMeansNil, true
			}
		}
		return false, false
	}
	for _, ret := range an.Returns(write) {
		res := an.ReturnResults(ret)
		if len(res) != 1 {
			return write, 1, "Write does not return a single error"
		}
		afterCall := an.Search(an.After(call), isInstr(ret), nil) != nil
		withoutCall := an.Search(an.Entry(write), isInstr(ret), isInstr(call)) != nil
		isNilRet := an.IsNilConst(an.Strip(res[0]))
		if withoutCall && isNilRet {
			return write, 1, "Write can return nil without calling " + fname(h) + " at " + c.pos(ret)
		}
		if !afterCall || isErrOfCall(res[0], call) {
			continue
		}
		isNil, known := resultNil(ret.Block())
		if !known || isNil != isNilRet {
			return write, 1, "Write does not report the result of " + fname(h) + " faithfully at " + c.pos(ret)
		}
	}
	return h, respIdx, ""
}

// isErrOfCall: v is the error the call returned - the call's value itself, or
// the error component of its result tuple (`n, err := rw.writeFrame(r)`).
func isErrOfCall(v ssa.Value, call ssa.Value) bool {
	v = an.Strip(v)
	if v == call {
		return true
	}
	ex, ok := v.(*ssa.Extract)
	return ok && ex.Tuple == call && isErrorType(ex.Type())
}

// recvOf / respOf: the ResponseWriter and the Response as the frame emitter
// sees them; for a function literal of Write they are Write's own parameters
// (an.Strip resolves the literal's free variables to them).
func recvOf(emit *ssa.Function) ssa.Value {
	if emit.Parent() != nil {
		return emit.Parent().Params[0]
	}
	return emit.Params[0]
}

func respOf(emit *ssa.Function, respIdx int) ssa.Value {
	if emit.Parent() != nil {
		return emit.Parent().Params[1]
	}
	if respIdx < len(emit.Params) {
		return emit.Params[respIdx]
	}
	return nil
}

func checkC05(c *Ctx) {
	R := c.R
	apiWrite := c.fn(G, "(*ResponseWriter).Write")
	newRW := c.fn(G, "newResponseWriter")
	serve := c.fn(G, "(*conn).serveRequests")
	if apiWrite == nil || newRW == nil || serve == nil {
		return
	}
	// the function that emits the frame: Write, or the helper Write delegates to
	write, respIdx, whyNot := c.frameEmitter()
	if write != apiWrite {
		R.OK("C05-owner", "(*ResponseWriter).Write delegates frame emission to "+fname(write), c.P.Pos(write.Pos()), "called once on Write's receiver with Write's response; Write returns its result unchanged; it runs only as part of Write")
	} else if whyNot != "" {
		R.Fail("C05-owner", "(*ResponseWriter).Write emits the frame", c.P.Pos(apiWrite.Pos()), whyNot)
	}
	shipped := c.shippedFuncs(G)

	// ---- C05-owner
	nOwner := 0
	for _, f := range shipped {
		for _, ci := range an.Calls(f) {
			m, recv, ok := isBufioWriterMethod(ci.Common())
			if !ok {
				continue
			}
			nOwner++
			key := fname(f) + ": bufio.Writer." + m
			root := f
			for root.Parent() != nil {
				root = root.Parent()
			}
			base, isField := fieldLoad(recv, G, "ResponseWriter", "writer")
			switch {
			case root != write && f != write:
				R.Fail("C05-owner", key, c.pos(ci), "bufio.Writer."+m+" called outside (*ResponseWriter).Write: a second writer to the shared stream is not covered by the write lock")
			case !isField || an.Strip(base) != recvOf(write):
				R.Fail("C05-owner", key, c.pos(ci), "receiver of bufio.Writer."+m+" is not rw.writer (got "+an.Path(recv)+")")
			case !isCall(ci):
				R.Fail("C05-order", key, c.pos(ci), "bufio.Writer."+m+" is deferred or run on another goroutine; Write must return only after the frame is flushed")
			default:
				R.OK("C05-owner", key, c.pos(ci), "only (*ResponseWriter).Write touches the buffered writer, on rw.writer")
			}
		}
	}
	R.Floor("C05-owner", 2)
	// direct socket writes
	c.checkSocketDiscipline("C05-owner-socket")
	R.Floor("C05-owner-socket", 2)

	// ---- C05-locked
	ls := an.LockSets(write, nil)
	var wcalls, fcalls []ssa.CallInstruction
	for _, ci := range an.Calls(write) {
		m, _, ok := isBufioWriterMethod(ci.Common())
		if !ok {
			continue
		}
		held := ls[ci]
		key := "(*ResponseWriter).Write: " + m + " under rw.writerMu"
		if held.Holds("rw.writerMu", false) {
			R.OK("C05-locked", key, c.pos(ci), "must-held lock set "+held.String())
		} else {
			R.Fail("C05-locked", key, c.pos(ci), "rw.writerMu is not held on every path reaching bufio.Writer."+m+" (held: "+held.String()+")")
		}
		switch m {
		case "Write":
			wcalls = append(wcalls, ci)
		case "Flush":
			fcalls = append(fcalls, ci)
		case "Buffered", "Available", "Size":
			// read-only queries; covered by the lock check above
		default:
			R.Unknown("C05-oneframe", "(*ResponseWriter).Write: bufio.Writer."+m, c.pos(ci), "unexpected bufio.Writer method in Write; frame emission is modelled as Write followed by Flush")
		}
	}
	R.Floor("C05-locked", 2)
	// TryLock anywhere in Write is not an acquisition
	for _, ci := range an.Calls(write) {
		if k, _ := an.LockOp(ci.Common()); k == "TryLock" || k == "TryRLock" {
			R.Fail("C05-locked", "(*ResponseWriter).Write: "+k, c.pos(ci), "TryLock does not guarantee the lock is held")
		}
	}
	// the mutex locked is the shared one: rw.writerMu must be a *sync.Mutex field (pointer, shared), set only by newResponseWriter
	if fa := fieldAddrUses([]*ssa.Function{write}, G, "ResponseWriter", "writerMu"); len(fa) > 0 {
		_, isPtr := fa[0].Type().(*types.Pointer).Elem().(*types.Pointer)
		R.Check(isPtr, "C05-shared", "ResponseWriter.writerMu is a pointer", c.pos(fa[0]),
			"field type *sync.Mutex: writers of one connection can share one mutex", "ResponseWriter.writerMu is a mutex by value: each ResponseWriter would lock its own copy")
	}

	// ---- C05-oneframe
	isW := func(in ssa.Instruction) bool {
		ci, ok := in.(ssa.CallInstruction)
		if !ok {
			return false
		}
		m, _, ok := isBufioWriterMethod(ci.Common())
		return ok && m == "Write"
	}
	isF := func(in ssa.Instruction) bool {
		ci, ok := in.(ssa.CallInstruction)
		if !ok {
			return false
		}
		m, _, ok := isBufioWriterMethod(ci.Common())
		return ok && m == "Flush"
	}
	wc := an.CountEvents(write, an.Entry(write), isW, nil)
	fc := an.CountEvents(write, an.Entry(write), isF, nil)
	nSucc := 0
	ei := errResultIndex(write)
	for _, ret := range an.Returns(write) {
		res := an.ReturnResults(ret)
		if ei < 0 || ei >= len(res) || !an.IsNilConst(an.Strip(res[ei])) {
			continue
		}
		nSucc++
		key := "(*ResponseWriter).Write: success return"
		if wc[ret] == an.C1 && fc[ret] == an.C1 {
			R.OK("C05-oneframe", key, c.pos(ret), "exactly one writer.Write and one writer.Flush on every path to this `return nil`")
		} else {
			R.Fail("C05-oneframe", key, c.pos(ret), sprintf("on paths to this success return the number of writer.Write calls is %s and of writer.Flush calls is %s; both must be exactly 1", wc[ret], fc[ret]))
		}
	}
	if nSucc == 0 {
		R.Fail("C05-oneframe", "(*ResponseWriter).Write: success return", c.P.Pos(write.Pos()), "no `return nil` found")
	}
	// a successful Write means the frame was written AND flushed without error: the success return must be
	// control-dependent on err == nil of both calls
	errOK := func(ret *ssa.Return, call ssa.CallInstruction) bool {
		v, ok := call.(ssa.Value)
		if !ok {
			return false
		}
		var isErrOf func(x ssa.Value) bool
		isErrOf = func(x ssa.Value) bool {
			x = an.Strip(x)
			if x == v {
				return true
			}
			if phi, isPhi := x.(*ssa.Phi); isPhi {
				// `if err == nil && n != len(frame) { err = io.ErrShortWrite }`: the tested value is the call's error
				// or, on the other edges, an error that is never nil - it is nil only if the call's error was
				one := false
				for _, e := range phi.Edges {
					se := an.Strip(e)
					switch {
					case isErrOf(se):
						one = true
					case func() bool {
						if ld, ok := se.(*ssa.UnOp); ok {
							_, isG := ld.X.(*ssa.Global)
							return isG
						}
						if call, ok := se.(*ssa.Call); ok {
							if f := call.Common().StaticCallee(); f != nil {
								k := an.FuncPkgPath(f) + "." + f.Name()
								return k == "fmt.Errorf" || k == "errors.New"
							}
						}
						return false
					}():
					default:
						return false
					}
				}
				return one
			}
			ex, ok := x.(*ssa.Extract)
			return ok && ex.Tuple == v && isErrorType(ex.Type())
		}
		for _, fct := range an.BranchFacts(ret.Block()) {
			cond, neg := an.Not(fct.Cond)
			if x, trueMeansNil, ok := an.NilCheck(cond); ok && isErrOf(x) {
				if (fct.True != neg) == trueMeansNil {
					return true
				}
			}
		}
		return false
	}
	for _, ret := range an.Returns(write) {
		res := an.ReturnResults(ret)
		if ei < 0 || ei >= len(res) || !an.IsNilConst(an.Strip(res[ei])) {
			continue
		}
		okAll := len(wcalls) > 0 && len(fcalls) > 0
		for _, w := range wcalls {
			if !errOK(ret, w) {
				okAll = false
			}
		}
		for _, f := range fcalls {
			if !errOK(ret, f) {
				okAll = false
			}
		}
		R.Check(okAll, "C05-oneframe", "(*ResponseWriter).Write: success only when Write and Flush succeeded", c.pos(ret), "`return nil` is control-dependent on err == nil of writer.Write and writer.Flush", "Write can report success although writing or flushing the frame failed (or reports failure on success): the client would see a torn/missing frame for a 'successful' Write")
	}
	// the lock taken for the frame is released on every path (a lock that is never released loses every later frame)
	for _, ci := range an.Calls(write) {
		if k, mu := an.LockOp(ci.Common()); k == "Lock" && isCall(ci) {
			mp := an.MutexPath(mu)
			unlock := func(in ssa.Instruction) bool {
				c2, ok := in.(ssa.CallInstruction)
				if !ok {
					return false
				}
				k2, m2 := an.LockOp(c2.Common())
				return k2 == "Unlock" && an.MutexPath(m2) == mp && !isGo(c2)
			}
			w := an.Search(an.After(ci), an.IsReturn, unlock)
			R.Check(w == nil, "C05-locked", "(*ResponseWriter).Write: lock released on every path", c.pos(ci), "every path from Lock to a return passes Unlock (or its defer)", "the write lock is not released on some path: every later response on the connection blocks for ever")
		}
	}
	for _, f := range fcalls {
		// Flush must come after a Write on every path: no path entry -> Flush avoiding Write
		if w := an.Search(an.Entry(write), func(in ssa.Instruction) bool { return in == ssa.Instruction(f) }, isW); w != nil {
			R.Fail("C05-oneframe", "(*ResponseWriter).Write: Flush after Write", c.pos(f), "a path reaches Flush without writing the frame first: "+c.trail(w))
		} else {
			R.OK("C05-oneframe", "(*ResponseWriter).Write: Flush after Write", c.pos(f), "every path to Flush passes writer.Write")
		}
	}
	// argument of writer.Write is r.packet().Bytes() of the parameter r
	for _, w := range wcalls {
		key := "(*ResponseWriter).Write: bytes written"
		args := w.Common().Args
		ok := false
		detail := "argument is " + an.Path(args[1])
		if emitterTakesBytes[write] && an.Strip(args[1]) == respOf(write, respIdx) {
			ok = true // the parameter Write fills with r.packet().Bytes() of its response (frameEmitter)
		}
		if call, isC := an.Strip(args[1]).(*ssa.Call); isC && an.CalleeIs(call.Common(), an.PkgBer, "(*Packet).Bytes") {
			// receiver: load of .Packet of (invoke r.packet())
			if base, okf := fieldLoad(call.Common().Args[0], G, "packet", "Packet"); okf {
				if pc, isC := an.Strip(base).(*ssa.Call); isC && pc.Common().IsInvoke() && pc.Common().Method.Name() == "packet" &&
					an.Strip(pc.Common().Value) == respOf(write, respIdx) {
					ok = true
				}
			}
		}
		R.Check(ok, "C04-write", key, c.pos(w), "bytes = r.packet().Bytes() of the response parameter (one whole LDAPMessage)", "bytes handed to the stream are not r.packet().Bytes() of the parameter: "+detail)
	}
	R.Floor("C05-oneframe", 2)

	// ---- C05-order: no goroutine in Write
	for _, f := range an.WithClosures(write) {
		for _, ci := range an.Calls(f) {
			if isGo(ci) {
				R.Fail("C05-order", "(*ResponseWriter).Write: go", c.pos(ci), "Write starts a goroutine; completion of the frame is no longer ordered before Write's return")
			}
		}
	}
	R.Trivial("C05-order", "(*ResponseWriter).Write: synchronous", c.P.Pos(write.Pos()), "no go statement; Write and Flush are plain calls")

	// ---- C05-shared
	// (1) who-constructs ResponseWriter
	nCons := 0
	for _, f := range shipped {
		an.Instrs(f, func(in ssa.Instruction) {
			al, ok := in.(*ssa.Alloc)
			if !ok {
				return
			}
			if nt, ok := al.Type().(*types.Pointer).Elem().(*types.Named); ok && nt.Obj().Name() == "ResponseWriter" && nt.Obj().Pkg().Path() == G {
				nCons++
				R.Check(f == newRW, "C05-shared", fname(f)+": constructs ResponseWriter", c.pos(in),
					"ResponseWriter values are built only by newResponseWriter", "ResponseWriter built outside newResponseWriter: its lock/writer pairing is not checked")
			}
		})
	}
	// (2) newResponseWriter stores params unchanged
	for _, fs := range fieldStores([]*ssa.Function{newRW}, G, "ResponseWriter", "writerMu") {
		R.Check(an.Strip(fs.Store.Val) == ssa.Value(newRW.Params[1]), "C05-shared", "newResponseWriter: writerMu <- lock parameter", c.pos(fs.Store),
			"stored unchanged", "writerMu is not the lock passed in (got "+an.Path(fs.Store.Val)+"): writers would not exclude each other")
	}
	for _, fs := range fieldStores([]*ssa.Function{newRW}, G, "ResponseWriter", "writer") {
		R.Check(an.Strip(fs.Store.Val) == ssa.Value(newRW.Params[0]), "C05-shared", "newResponseWriter: writer <- w parameter", c.pos(fs.Store),
			"stored unchanged", "writer is not the writer passed in (got "+an.Path(fs.Store.Val)+")")
	}
	// other stores to these fields anywhere
	for _, fld := range []string{"writerMu", "writer"} {
		for _, fs := range fieldStores(shipped, G, "ResponseWriter", fld) {
			if fs.Fn != newRW {
				R.Fail("C05-shared", fname(fs.Fn)+": store ResponseWriter."+fld, c.pos(fs.Store), "ResponseWriter."+fld+" is reassigned outside its constructor")
			}
		}
	}
	// (3) construction sites
	sites := callSites(shipped, isStatic(G, "newResponseWriter"))
	lockField := ""
	for _, s := range sites {
		args := s.Common().Args
		f := s.Parent()
		key := fname(f) + ": newResponseWriter(writer, lock)"
		wbase, okw := fieldLoad(args[0], G, "conn", "writer")
		// the lock: the address of a sync.Mutex field of the conn (today conn.writerMu), the same field at every site
		var mbase ssa.Value
		okm := false
		if fa, isFA := an.Strip(args[1]).(*ssa.FieldAddr); isFA && an.TypeIs(fa.X.Type(), G, "conn") {
			if ft := fa.Type().(*types.Pointer).Elem(); an.TypeIs(ft, "sync", "Mutex") && !isPointer(ft) {
				mbase, okm = fa.X, true
				if lockField == "" {
					lockField = an.FieldAddrName(fa)
				} else if lockField != an.FieldAddrName(fa) {
					R.Fail("C05-shared", key, c.pos(s), "lock argument is &conn."+an.FieldAddrName(fa)+" here but &conn."+lockField+" at another construction site: responses of one connection would not share one lock")
					continue
				}
			}
		}
		switch {
		case !okw:
			R.Fail("C05-shared", key, c.pos(s), "writer argument is not a load of conn.writer (got "+an.Path(args[0])+")")
		case !okm:
			R.Fail("C05-shared", key, c.pos(s), "lock argument is not the address of a sync.Mutex field of the conn (got "+an.Path(args[1])+"): responses of one connection would not share one lock")
		case an.Strip(wbase) != an.Strip(mbase):
			R.Fail("C05-shared", key, c.pos(s), "writer and lock belong to different conn values")
		default:
			R.OK("C05-shared", key, c.pos(s), "writer = "+an.Path(args[0])+", lock = &"+an.Path(mbase)+"."+lockField+" of the same conn")
		}
	}
	R.Floor("C05-shared", 2)
	// (4) conn.writerMu is a sync.Mutex by value and conn is never copied
	if ct := c.P.NamedType(G, "conn"); ct != nil {
		st := ct.Underlying().(*types.Struct)
		for i := 0; i < st.NumFields(); i++ {
			if st.Field(i).Name() == lockField {
				R.Check(an.TypeIs(st.Field(i).Type(), "sync", "Mutex") && !isPointer(st.Field(i).Type()), "C05-shared", "conn."+lockField+" is a sync.Mutex value field", c.P.Pos(st.Field(i).Pos()),
					"one mutex per connection", "conn."+lockField+" is not a by-value sync.Mutex")
			}
		}
		for _, f := range shipped {
			an.Instrs(f, func(in ssa.Instruction) {
				v, ok := in.(ssa.Value)
				if !ok {
					return
				}
				if _, isAlloc := in.(*ssa.Alloc); isAlloc {
					return
				}
				if nt, ok := v.Type().(*types.Named); ok && nt.Obj() == ct.Obj() {
					R.Fail("C05-shared", fname(f)+": conn copied by value", c.pos(in), "a conn struct value is copied; its mutexes would be duplicated")
				}
			})
		}
	} else {
		R.Fatal("type gldap.conn not found")
	}
}

func isPointer(t types.Type) bool { _, ok := t.(*types.Pointer); return ok }
