package rules

import (
	"go/token"
	"go/types"
	"sort"

	"gldapverif/an"

	"golang.org/x/tools/go/ssa"
)

// optSet describes one field assignment made by an option constructor's closure.
type optSet struct {
	Struct string // options struct name, e.g. "responseOptions"
	Field  string
	// Kind: "param" (field = parameter value), "paramAddr" (field = address of a
	// private copy of the parameter), "const" (field = constant), "conv"
	// (field = numeric/string conversion of the parameter), "other".
	Kind        string
	Param       int    // parameter index of the constructor for param/paramAddr/conv
	Const       string // exact constant for Kind const
	Conditional bool   // the store is under a condition other than the type test
	Detail      string
}

type optCtor struct {
	Fn   *ssa.Function
	Sets []optSet
	OK   bool // shape recognised
	Why  string
}

// getOpts describes a getXOpts function: defaults ∘ applied options.
type getOpts struct {
	Fn       *ssa.Function
	Struct   string
	Defaults map[string]string // field -> constant (exact string) for non-zero defaults
	OK       bool
	Why      string
}

type optSummary struct {
	Ctors   map[*ssa.Function]*optCtor
	Getters map[*ssa.Function]*getOpts
	ApplyOK map[*ssa.Function]bool // applyOpts functions verified canonical
}

var optCache = map[*an.Prog]*optSummary{}

func (c *Ctx) opts() *optSummary {
	if s, ok := optCache[c.P]; ok {
		return s
	}
	s := &optSummary{Ctors: map[*ssa.Function]*optCtor{}, Getters: map[*ssa.Function]*getOpts{}, ApplyOK: map[*ssa.Function]bool{}}
	for _, pkg := range []string{G, TD} {
		for _, f := range c.P.FuncsOf(pkg) {
			if f.Parent() != nil || len(f.Blocks) == 0 || c.P.IsTestFile(f.Pos()) {
				continue
			}
			if isOptionType(f.Signature.Results(), pkg) {
				s.Ctors[f] = summarizeCtor(f)
			}
			if f.Name() == "applyOpts" {
				s.ApplyOK[f] = applyOptsCanonical(f)
			}
		}
	}
	for _, pkg := range []string{G, TD} {
		for _, f := range c.P.FuncsOf(pkg) {
			if f.Parent() != nil || len(f.Blocks) == 0 || c.P.IsTestFile(f.Pos()) {
				continue
			}
			if g := summarizeGetter(f, s); g != nil {
				s.Getters[f] = g
			}
		}
	}
	optCache[c.P] = s
	return s
}

func isOptionType(res *types.Tuple, pkg string) bool {
	if res.Len() != 1 {
		return false
	}
	nt, ok := res.At(0).Type().(*types.Named)
	return ok && nt.Obj().Name() == "Option" && nt.Obj().Pkg() != nil && nt.Obj().Pkg().Path() == pkg
}

func summarizeCtor(f *ssa.Function) *optCtor {
	oc := &optCtor{Fn: f}
	rets := an.Returns(f)
	if len(rets) != 1 {
		oc.Why = "more than one return"
		return oc
	}
	mc, ok := an.Strip(rets[0].Results[0]).(*ssa.MakeClosure)
	if !ok {
		oc.Why = "does not return a closure"
		return oc
	}
	cl := mc.Fn.(*ssa.Function)
	// parameter cells: Alloc cell -> param index
	paramOf := func(v ssa.Value) (int, bool, bool) { // (index, byAddr, ok)
		// by value: load of FreeVar cell bound to Alloc with single store of Param; or FreeVar bound directly to Param
		sv := an.Strip(v)
		for i, p := range f.Params {
			if sv == ssa.Value(p) {
				return i, false, true
			}
		}
		// by address: the FreeVar (pointer to cell) itself, or the Alloc
		root := an.CellRoot(v)
		if al, ok := root.(*ssa.Alloc); ok {
			stores, esc := an.CellStores(al)
			_ = esc
			if len(stores) == 1 {
				for i, p := range f.Params {
					if stores[0].Val == ssa.Value(p) {
						return i, true, true
					}
				}
			}
		}
		return 0, false, false
	}
	// the struct asserted
	var asserted *ssa.TypeAssert
	an.Instrs(cl, func(in ssa.Instruction) {
		if ta, ok := in.(*ssa.TypeAssert); ok && ta.X == ssa.Value(cl.Params[0]) {
			if asserted != nil && asserted != ta {
				oc.Why = "several type tests"
			}
			asserted = ta
		}
	})
	if asserted == nil {
		oc.Why = "closure does not type-test its argument"
		return oc
	}
	sname := ptrNamed(asserted.AssertedType)
	if sname == "" {
		oc.Why = "asserted type is not a pointer to a named struct"
		return oc
	}
	okShape := true
	an.Instrs(cl, func(in ssa.Instruction) {
		st, ok := in.(*ssa.Store)
		if !ok {
			return
		}
		fa, ok := st.Addr.(*ssa.FieldAddr)
		if !ok {
			okShape = false
			oc.Why = "store to something that is not a field of the options struct"
			return
		}
		// the base may be opts itself or opts.withDefaults (nested pointer)
		fieldPath := an.FieldAddrName(fa)
		base := an.Strip(fa.X)
		if ex, isEx := base.(*ssa.Extract); !isEx || ex.Tuple != ssa.Value(asserted) {
			// nested: o.withDefaults.X
			if b2, n, ok := an.LoadField(base); ok {
				if ex2, isEx2 := an.Strip(b2).(*ssa.Extract); isEx2 && ex2.Tuple == ssa.Value(asserted) {
					fieldPath = n + "." + fieldPath
				} else {
					okShape = false
					oc.Why = "store through an unrecognised base"
					return
				}
			} else {
				okShape = false
				oc.Why = "store through an unrecognised base"
				return
			}
		}
		set := optSet{Struct: sname, Field: fieldPath}
		// conditional? facts of the block beyond the type test
		nf := 0
		for _, fct := range an.BranchFacts(st.Block()) {
			cond, _ := an.Not(fct.Cond)
			if ex, ok := cond.(*ssa.Extract); ok && ex.Tuple == ssa.Value(asserted) {
				continue
			}
			nf++
		}
		set.Conditional = nf > 0
		v := st.Val
		if k, ok := v.(*ssa.Const); ok {
			set.Kind = "const"
			if k.Value != nil {
				set.Const = k.Value.ExactString()
			} else {
				set.Const = "nil"
			}
		} else if i, byAddr, ok := paramOf(v); ok {
			set.Param = i
			if byAddr && isPointer(v.Type()) && !isPointerParam(f, i) {
				set.Kind = "paramAddr"
			} else if byAddr {
				// FreeVar cell of a pointer-typed param loaded by value is handled by Strip; a raw cell address of pointer param:
				set.Kind = "paramAddr"
			} else {
				set.Kind = "param"
			}
		} else if cv, ok := an.Strip(v).(*ssa.Convert); ok {
			if i, _, ok := paramOf(cv.X); ok {
				set.Kind, set.Param = "conv", i
				set.Detail = types.TypeString(cv.X.Type(), nil) + "->" + types.TypeString(cv.Type(), nil)
			} else {
				set.Kind = "other"
			}
		} else {
			set.Kind = "other"
			set.Detail = an.Path(v)
		}
		oc.Sets = append(oc.Sets, set)
	})
	oc.OK = okShape && len(oc.Sets) > 0
	if len(oc.Sets) == 0 && oc.Why == "" {
		oc.Why = "closure stores nothing"
	}
	sort.Slice(oc.Sets, func(i, j int) bool { return oc.Sets[i].Field < oc.Sets[j].Field })
	return oc
}

func isPointerParam(f *ssa.Function, i int) bool {
	return i < len(f.Params) && isPointer(f.Params[i].Type())
}

// applyOptsCanonical: `for _, o := range opt { if o == nil { continue }; o(opts) }`.
func applyOptsCanonical(f *ssa.Function) bool {
	if len(f.Params) != 2 {
		return false
	}
	var dyn []*ssa.Call
	okAll := true
	an.Instrs(f, func(in ssa.Instruction) {
		switch x := in.(type) {
		case *ssa.Call:
			cc := x.Common()
			if _, isB := cc.Value.(*ssa.Builtin); isB {
				return
			}
			if cc.StaticCallee() == nil && !cc.IsInvoke() {
				dyn = append(dyn, x)
			} else {
				okAll = false
			}
		case *ssa.Go, *ssa.Defer, *ssa.Store, *ssa.Panic:
			okAll = false
		}
	})
	if !okAll || len(dyn) != 1 {
		return false
	}
	call := dyn[0]
	// callee = element of opt at the range index; arg = opts
	ld, ok := call.Common().Value.(*ssa.UnOp)
	if !ok || ld.Op != token.MUL {
		return false
	}
	ia, ok := ld.X.(*ssa.IndexAddr)
	if !ok || ia.X != ssa.Value(f.Params[1]) {
		return false
	}
	if len(call.Common().Args) != 1 || call.Common().Args[0] != ssa.Value(f.Params[0]) {
		return false
	}
	// index is the full-range induction variable: phi(-1, i+1) with i+1 < len(opt)
	bo, ok := ia.Index.(*ssa.BinOp)
	if !ok || bo.Op != token.ADD {
		return false
	}
	phi, ok := bo.X.(*ssa.Phi)
	if !ok {
		return false
	}
	for _, e := range phi.Edges {
		if k, ok := an.IntConst(e); ok && k == -1 {
			continue
		}
		if e == ssa.Value(bo) {
			continue
		}
		return false
	}
	// the only condition on the call besides the loop bound is o != nil
	for _, fct := range an.BranchFacts(call.Block()) {
		cond, _ := an.Not(fct.Cond)
		if x, _, ok := an.NilCheck(cond); ok && x == ssa.Value(ld) {
			continue
		}
		if b, ok := cond.(*ssa.BinOp); ok && b.Op == token.LSS && b.X == ssa.Value(bo) {
			continue
		}
		return false
	}
	return true
}

func summarizeGetter(f *ssa.Function, s *optSummary) *getOpts {
	// shape: t0 = new S; t1 = defaults(); *t0 = t1; applyOpts(iface(t0), opt...); return *t0
	if !f.Signature.Variadic() {
		return nil
	}
	res := f.Signature.Results()
	if res.Len() != 1 {
		return nil
	}
	nt, ok := res.At(0).Type().(*types.Named)
	if !ok {
		return nil
	}
	if _, isStruct := nt.Underlying().(*types.Struct); !isStruct {
		return nil
	}
	g := &getOpts{Fn: f, Struct: nt.Obj().Name(), Defaults: map[string]string{}}
	var apply *ssa.Call
	var defaults *ssa.Call
	for _, ci := range an.Calls(f) {
		call, ok := ci.(*ssa.Call)
		if !ok {
			g.Why = "go/defer in getter"
			return g
		}
		callee := call.Common().StaticCallee()
		switch {
		case callee != nil && s.ApplyOK[callee]:
			apply = call
		case callee != nil && callee.Signature.Results().Len() == 1 && types.Identical(callee.Signature.Results().At(0).Type(), nt):
			defaults = call
		case callee != nil && callee.Name() == "Helper":
		case call.Common().IsInvoke() && call.Common().Method.Name() == "Helper":
		default:
			if callee != nil && callee.Name() == "applyOpts" {
				g.Why = "applyOpts is not the canonical apply loop"
				return g
			}
		}
	}
	if apply == nil || defaults == nil {
		return nil
	}
	rets := an.Returns(f)
	if len(rets) != 1 {
		g.Why = "several returns"
		return g
	}
	ld, ok := rets[0].Results[0].(*ssa.UnOp)
	if !ok {
		g.Why = "does not return the options variable"
		return g
	}
	al, ok := ld.X.(*ssa.Alloc)
	if !ok {
		g.Why = "does not return the options variable"
		return g
	}
	// apply's first arg is &opts, second the variadic parameter
	if an.Strip(apply.Common().Args[0]) != ssa.Value(al) {
		g.Why = "applyOpts is not given &opts"
		return g
	}
	last := f.Params[len(f.Params)-1]
	if apply.Common().Args[1] != ssa.Value(last) {
		g.Why = "applyOpts is not given the caller's options unchanged"
		return g
	}
	// opts initialised from defaults() before apply
	initOK := false
	for _, st := range func() []*ssa.Store { ss, _ := an.CellStores(al); return ss }() {
		if st.Val == ssa.Value(defaults) && an.InstrDominates(st, apply) {
			initOK = true
		} else {
			g.Why = "options variable overwritten"
			return g
		}
	}
	if !initOK {
		g.Why = "options variable not initialised from defaults"
		return g
	}
	// defaults literal
	df := defaults.Common().StaticCallee()
	an.Instrs(df, func(in ssa.Instruction) {
		st, ok := in.(*ssa.Store)
		if !ok {
			return
		}
		if fa, ok := st.Addr.(*ssa.FieldAddr); ok {
			if k, ok := st.Val.(*ssa.Const); ok && k.Value != nil {
				g.Defaults[an.FieldAddrName(fa)] = k.Value.ExactString()
			} else if !ok {
				g.Defaults[an.FieldAddrName(fa)] = "?" + an.Path(st.Val)
			}
		}
	})
	g.OK = true
	return g
}

// settersOf lists option constructors that write struct.field.
func (s *optSummary) settersOf(structName, field string) []*optCtor {
	var out []*optCtor
	for _, oc := range s.Ctors {
		for _, st := range oc.Sets {
			if st.Struct == structName && st.Field == field {
				out = append(out, oc)
				break
			}
		}
	}
	sort.Slice(out, func(i, j int) bool { return out[i].Fn.Name() < out[j].Fn.Name() })
	return out
}

// getterFor returns the getXOpts summary whose result is the given struct.
func (s *optSummary) getterFor(structName string, pkg string) *getOpts {
	for f, g := range s.Getters {
		if g.Struct == structName && an.FuncPkgPath(f) == pkg {
			return g
		}
	}
	return nil
}

// optCall is one option given at a call site.
type optCall struct {
	Ctor *optCtor
	Call *ssa.Call
	Args []ssa.Value
}

// variadicOptions decodes the variadic options slice built at a call site:
// returns the list of constructor calls, or ok=false when the slice is not a
// literal list of constructor calls (e.g. passed through from a parameter).
func (s *optSummary) variadicOptions(v ssa.Value) ([]optCall, bool) {
	return s.variadicOptionsR(v, nil)
}

// variadicOptionsR is variadicOptions with a resolver for slot values that
// depend on the path (a phi of "nil Option" and an option constructor call):
// a nil slot is an option that is not given (the canonical apply loop skips nil).
func (s *optSummary) variadicOptionsR(v ssa.Value, resolve func(ssa.Value) ssa.Value) ([]optCall, bool) {
	if an.IsNilConst(v) {
		return nil, true
	}
	if k, ok := v.(*ssa.Const); ok && k.Value == nil {
		return nil, true
	}
	sl, ok := v.(*ssa.Slice)
	if !ok {
		return nil, false
	}
	al, ok := sl.X.(*ssa.Alloc)
	if !ok {
		return nil, false
	}
	at, ok := al.Type().(*types.Pointer).Elem().(*types.Array)
	if !ok {
		return nil, false
	}
	out := make([]optCall, at.Len())
	filled := make([]bool, at.Len())
	skipped := map[int64]bool{}
	for _, r := range *al.Referrers() {
		ia, ok := r.(*ssa.IndexAddr)
		if !ok {
			if r == ssa.Instruction(sl) {
				continue
			}
			if _, isDbg := r.(*ssa.DebugRef); isDbg {
				continue
			}
			return nil, false
		}
		k, ok := an.IntConst(ia.Index)
		if !ok || k < 0 || k >= at.Len() {
			return nil, false
		}
		for _, rr := range *ia.Referrers() {
			st, ok := rr.(*ssa.Store)
			if !ok {
				return nil, false
			}
			val := st.Val
			if resolve != nil {
				val = resolve(val)
			}
			if resolve != nil && an.IsNilConst(val) {
				skipped[k] = true
				filled[k] = true
				continue
			}
			call, ok := val.(*ssa.Call)
			if !ok {
				return nil, false
			}
			callee := call.Common().StaticCallee()
			oc := s.Ctors[callee]
			if oc == nil {
				return nil, false
			}
			out[k] = optCall{Ctor: oc, Call: call, Args: call.Common().Args}
			filled[k] = true
		}
	}
	for _, f := range filled {
		if !f {
			return nil, false
		}
	}
	var res []optCall
	for i, oc := range out {
		if !skipped[int64(i)] {
			res = append(res, oc)
		}
	}
	return res, true
}

// applyLoopSkipsNil: every applyOpts of the module calls an option only when it
// is not nil (so a nil Option in an option list is simply not applied).
func (s *optSummary) applyLoopSkipsNil() bool {
	found := false
	for _, g := range s.Getters {
		if g == nil || g.Fn == nil {
			continue
		}
		for _, ci := range an.Calls(g.Fn) {
			ap := ci.Common().StaticCallee()
			if ap == nil || ap.Name() != "applyOpts" || !an.InModule(ap) {
				continue
			}
			found = true
			ok := false
			for _, ic := range an.Calls(ap) {
				cc := ic.Common()
				if cc.StaticCallee() != nil || cc.IsInvoke() {
					continue
				}
				if _, isB := cc.Value.(*ssa.Builtin); isB {
					continue
				}
				// the dynamic call of the option: guarded by `o != nil`
				if nilFact(ic.Block(), false, func(x ssa.Value) bool { return x == cc.Value }) {
					ok = true
				}
			}
			if !ok {
				return false
			}
		}
	}
	return found
}
