package rules

import (
	"go/token"
	"go/types"
	"strings"

	"gldapverif/an"

	"golang.org/x/tools/go/ssa"
)

func init() {
	Registry["C20"] = checkC20
	Descriptions["C20"] = "Necessary per-handler clauses of the test directory's store behaviour (operation histories are not replayed): " +
		"C20-lookup (what handleModify's arms test and index with is looked up anew for every change: no loop-carried value of the loop over m.Changes), C20-arms (handleModify has an arm for add, delete and replace; on every path where the attribute exists - for add also where it does not - the arm performs a store into memory reachable from the matched entry, whose value derives from the change's values for add/replace), " +
		"C20-pairing (add/delete report success only after the store that implements them, and no such store happens on a path that reports another code), " +
		"C20-codes (add on an existing DN -> entryAlreadyExists under the found test; delete/modify default noSuchObject), " +
		"C20-search-source (entries written by the search handlers are elements of the directory's lists with all attributes in slice order; find returns elements of the list it is given, in order), C20-set (SetUsers / SetGroups store their parameter or a fresh copy of it, never something built on the previous population's backing array). Does not decide match()'s substring semantics, cross-operation histories, concurrency (C15)."
}

func handlerClosure(c *Ctx, name string) *ssa.Function {
	outer := c.fn(TD, "(*Directory)."+name)
	if outer == nil {
		return nil
	}
	rets := an.Returns(outer)
	if len(rets) != 1 {
		return nil
	}
	mc, ok := an.Strip(rets[0].Results[0]).(*ssa.MakeClosure)
	if !ok {
		c.R.Fatal("%s does not return a closure", name)
		return nil
	}
	h := mc.Fn.(*ssa.Function)
	nick[h] = "(*Directory)." + name + ":handler"
	c.R.Analysed = append(c.R.Analysed, fname(h))
	return h
}

// derivesFrom: v's operand tree (depth-limited) contains a load of field `field`.
func derivesFrom(v ssa.Value, field string, depth int, seen map[ssa.Value]bool) bool {
	if depth > 12 || v == nil || seen[v] {
		return false
	}
	seen[v] = true
	if _, n, ok := an.LoadField(v); ok && n == field {
		return true
	}
	if fa, ok := v.(*ssa.FieldAddr); ok && an.FieldAddrName(fa) == field {
		return true
	}
	in, ok := v.(ssa.Instruction)
	if !ok {
		return false
	}
	for _, op := range in.Operands(nil) {
		if op != nil && *op != nil && derivesFrom(*op, field, depth+1, seen) {
			return true
		}
	}
	// values stored into a varargs array that is sliced
	if sl, ok := v.(*ssa.Slice); ok {
		if al, ok := sl.X.(*ssa.Alloc); ok {
			for _, r := range *al.Referrers() {
				if ia, ok := r.(*ssa.IndexAddr); ok {
					for _, rr := range *ia.Referrers() {
						if st, ok := rr.(*ssa.Store); ok && derivesFrom(st.Val, field, depth+1, seen) {
							return true
						}
					}
				}
			}
		}
	}
	return false
}

// directoryTables: which of the Directory's entry tables (users / groups) the
// address may denote: the field itself, or a pointer loaded from a local
// literal table whose slots hold the addresses of those fields.
func directoryTables(addr ssa.Value) []string {
	if fa, ok := addr.(*ssa.FieldAddr); ok && an.TypeIs(fa.X.Type(), TD, "Directory") {
		if n := an.FieldAddrName(fa); n == "users" || n == "groups" {
			return []string{n}
		}
		return nil
	}
	ld, ok := addr.(*ssa.UnOp)
	if !ok || ld.Op != token.MUL {
		return nil
	}
	ia, ok := ld.X.(*ssa.IndexAddr)
	if !ok {
		return nil
	}
	// the indexed thing: a slice of a local array (slice literal)
	var arr *ssa.Alloc
	switch x := ia.X.(type) {
	case *ssa.Slice:
		arr, _ = x.X.(*ssa.Alloc)
	case *ssa.Alloc:
		arr = x
	}
	if arr == nil || arr.Referrers() == nil {
		return nil
	}
	set := map[string]bool{}
	for _, r := range *arr.Referrers() {
		slot, ok := r.(*ssa.IndexAddr)
		if !ok || slot.Referrers() == nil {
			continue
		}
		for _, rr := range *slot.Referrers() {
			if st, ok := rr.(*ssa.Store); ok && st.Addr == ssa.Value(slot) {
				fa, ok := st.Val.(*ssa.FieldAddr)
				if !ok || !an.TypeIs(fa.X.Type(), TD, "Directory") {
					return nil
				}
				n := an.FieldAddrName(fa)
				if n != "users" && n != "groups" {
					return nil
				}
				set[n] = true
			}
		}
	}
	var out []string
	for _, n := range []string{"users", "groups"} {
		if set[n] {
			out = append(out, n)
		}
	}
	return out
}

var badIndexTest map[*ssa.If]bool // index tests already reported (the scan runs once per modify arm)

func checkC20(c *Ctx) {
	badIndexTest = nil
	R := c.R
	success, _ := c.P.ConstInt(G, "ResultSuccess")
	isSetCode := func(in ssa.Instruction, code int64) bool {
		ci, ok := in.(ssa.CallInstruction)
		if !ok || !an.CalleeIs(ci.Common(), G, "(*baseResponse).SetResultCode") {
			return false
		}
		k, isK := an.IntConst(ci.Common().Args[1])
		return isK && k == code
	}
	isSuccess := func(in ssa.Instruction) bool { return isSetCode(in, success) }

	// ------------------------------------------------------------ modify arms
	if h := handlerClosure(c, "handleModify"); h != nil {
		// the matched entry: entries[0]
		var entry ssa.Value
		an.Instrs(h, func(in ssa.Instruction) {
			if ld, ok := in.(*ssa.UnOp); ok && ld.Op == token.MUL {
				if ia, ok := ld.X.(*ssa.IndexAddr); ok {
					if k, ok := an.IntConst(ia.Index); ok && k == 0 && an.TypeIs(ld.Type(), G, "Entry") && entry == nil {
						entry = ld
					}
				}
			}
		})
		var rooted func(v ssa.Value, d int) bool
		rooted = func(v ssa.Value, d int) bool {
			if d > 12 || v == nil {
				return false
			}
			if entry != nil && an.Strip(v) == an.Strip(entry) {
				return true
			}
			// any load of entries[0]
			if ld, ok := an.Strip(v).(*ssa.UnOp); ok && ld.Op == token.MUL {
				if ia, ok := ld.X.(*ssa.IndexAddr); ok {
					if k, ok := an.IntConst(ia.Index); ok && k == 0 && an.TypeIs(ld.Type(), G, "Entry") {
						return true
					}
				}
				return rooted(ld.X, d+1)
			}
			// the result of a lookup helper that is given (something reachable from) the entry and writes nothing:
			// `found, at := lastAttribute(e, name)`
			lookup := func(call *ssa.Call) bool {
				g := an.StaticCallee(call.Common())
				if g == nil || !an.InModule(g) || len(g.Blocks) == 0 {
					return false
				}
				pure := true
				an.Instrs(g, func(in ssa.Instruction) {
					if st, isSt := in.(*ssa.Store); isSt {
						if _, local := st.Addr.(*ssa.Alloc); !local {
							pure = false
						}
					}
				})
				if !pure {
					return false
				}
				for _, a := range call.Common().Args {
					if rooted(a, d+1) {
						return true
					}
				}
				return false
			}
			switch x := an.Strip(v).(type) {
			case *ssa.Extract:
				if call, ok := x.Tuple.(*ssa.Call); ok && isPointer(x.Type()) && lookup(call) {
					return true
				}
			case *ssa.Call:
				if isPointer(x.Type()) && lookup(x) {
					return true
				}
			}
			switch x := v.(type) {
			case *ssa.FieldAddr:
				return rooted(x.X, d+1)
			case *ssa.IndexAddr:
				return rooted(x.X, d+1)
			case *ssa.Slice:
				return rooted(x.X, d+1)
			case *ssa.Phi:
				for _, e := range x.Edges {
					if !an.IsNilConst(e) && rooted(e, d+1) {
						return true
					}
				}
			case *ssa.UnOp:
				if x.Op == token.MUL {
					return rooted(x.X, d+1)
				}
			}
			return false
		}
		// effects: stores / receiver-writing calls / copy into memory reachable from the entry
		type effect struct {
			in       ssa.Instruction
			fromVals bool
		}
		var effects []effect
		an.Instrs(h, func(in ssa.Instruction) {
			switch x := in.(type) {
			case *ssa.Store:
				if rooted(x.Addr, 0) {
					effects = append(effects, effect{in, derivesFrom(x.Val, "Vals", 0, map[ssa.Value]bool{})})
				}
			case *ssa.Call:
				cc := x.Common()
				if b, ok := cc.Value.(*ssa.Builtin); ok && b.Name() == "copy" && rooted(cc.Args[0], 0) {
					effects = append(effects, effect{in, false})
				}
				if f := cc.StaticCallee(); f != nil && f.Signature.Recv() != nil && an.TypeIs(f.Signature.Recv().Type(), G, "EntryAttribute") && len(cc.Args) > 0 && rooted(cc.Args[0], 0) {
					// the method writes its receiver's Values
					writes := len(fieldStores([]*ssa.Function{f}, G, "EntryAttribute", "Values")) > 0
					if writes {
						fv := false
						for _, a := range cc.Args[1:] {
							if derivesFrom(a, "Vals", 0, map[ssa.Value]bool{}) {
								fv = true
							}
						}
						effects = append(effects, effect{in, fv})
					}
				}
			}
		})
		isEffect := func(needVals bool) func(ssa.Instruction) bool {
			return func(in ssa.Instruction) bool {
				for _, e := range effects {
					if e.in == in && (!needVals || e.fromVals) {
						return true
					}
				}
				return false
			}
		}
		opName := map[int64]string{0: "add", 1: "delete", 2: "replace"}
		for _, op := range []int64{0, 1, 2} {
			key := fname(h) + ": " + opName[op] + " arm changes the matched entry"
			ifs := ifsOn(h, func(v ssa.Value) bool {
				x, k, ok := eqConstInt(v)
				if !ok || k != op {
					return false
				}
				_, names := an.FieldChain(x)
				return len(names) > 0 && names[len(names)-1] == "Operation"
			})
			if len(ifs) == 0 {
				R.Fail("C20-arms", key, c.P.Pos(h.Pos()), sprintf("handleModify has no arm for operation %d (%s)", op, opName[op]))
				continue
			}
			// where the processing of one change ends: the head of the loop over m.Changes (next change) or an exit
			var chgHead *ssa.BasicBlock
			an.Instrs(h, func(in ssa.Instruction) {
				iff, ok := in.(*ssa.If)
				if !ok || !an.IsRangeHeader(iff) {
					return
				}
				if bo, ok := iff.Cond.(*ssa.BinOp); ok {
					if lc, ok := bo.Y.(*ssa.Call); ok && len(lc.Common().Args) == 1 {
						if _, names := an.FieldChain(lc.Common().Args[0]); len(names) > 0 && names[len(names)-1] == "Changes" {
							chgHead = iff.Block()
						}
					}
				}
			})
			leaves := func(in ssa.Instruction) bool {
				if an.IsExit(in) {
					return true
				}
				return chgHead != nil && in.Block() == chgHead && an.PointOf(in).I == 0
			}
			needVals := op != 1
			// the tests `found != nil` of the handler (one SSA value tested in several places counts as one condition)
			foundKeys := map[string]bool{} // CondKey -> value of the key when the attribute exists
			if badIndexTest == nil {
				badIndexTest = map[*ssa.If]bool{}
			}
			an.Instrs(h, func(in ssa.Instruction) {
				iff, ok := in.(*ssa.If)
				if !ok {
					return
				}
				// the condition itself, or the operands of a short-circuit && / || compiled to a phi of booleans
				conds := []ssa.Value{iff.Cond}
				if phi, isPhi := iff.Cond.(*ssa.Phi); isPhi {
					conds = nil
					for _, e := range phi.Edges {
						if _, isC := e.(*ssa.Const); !isC {
							conds = append(conds, e)
						}
					}
				}
				for _, cv := range conds {
					cond, cneg := an.Not(cv)
					if x, trueMeansNil, ok := an.NilCheck(cond); ok && an.TypeIs(x.Type(), G, "EntryAttribute") {
						// value of the condition when the attribute was found: `x != nil` true, `x == nil` false, through the Not prefix;
						// SearchCorr keeps per key the value of the un-negated comparison: condition value != kneg
						k, kneg := an.CondKey(cv)
						condWhenFound := (!trueMeansNil) != cneg
						foundKeys[k] = condWhenFound != kneg
					}
					// the position form: `at >= 0`, `at < 0`, `at != -1`, `at == -1` on an index that is -1 when nothing was
					// found (a loop-carried phi with a -1 edge, or the int result of a lookup helper given the entry's attributes)
					if bo, isB := cond.(*ssa.BinOp); isB {
						x, kc, swapped := bo.X, bo.Y, false
						if _, isK := an.IntConst(x); isK {
							x, kc, swapped = bo.Y, bo.X, true
						}
						kv, isK := an.IntConst(kc)
						if !isK || !isIndexLike(x, rooted) {
							continue
						}
						op := bo.Op
						if swapped {
							op = map[token.Token]token.Token{token.LSS: token.GTR, token.LEQ: token.GEQ, token.GTR: token.LSS, token.GEQ: token.LEQ, token.EQL: token.EQL, token.NEQ: token.NEQ}[op]
						}
						var trueMeansFound, okForm bool
						switch {
						case op == token.GEQ && kv == 0, op == token.GTR && kv == -1, op == token.NEQ && kv == -1:
							trueMeansFound, okForm = true, true
						case op == token.LSS && kv == 0, op == token.LEQ && kv == -1, op == token.EQL && kv == -1:
							trueMeansFound, okForm = false, true
						}
						if okForm {
							k, kneg := an.CondKey(cv)
							condWhenFound := trueMeansFound != cneg
							foundKeys[k] = condWhenFound != kneg
						} else if !badIndexTest[iff] {
							// a comparison of the lookup's index with a constant that is not the found / not-found distinction
							badIndexTest[iff] = true
							R.Fail("C20-arms", fname(h)+": found test on the lookup index", c.pos(iff), sprintf("the handler tests the index a lookup returned (-1 when nothing was found) with `%s %d`, which is not the found / not-found distinction: an attribute found at index 0 (or a missing one) takes the wrong arm", op.String(), kv))
						}
					}
				}
			})
			var w []ssa.Instruction
			cases := []bool{true} // attribute present
			if op == 0 {
				cases = []bool{true, false} // add must change the entry in both cases
			}
			for _, g := range ifs {
				for _, present := range cases {
					known := map[string]bool{}
					// the arm is entered when `Operation == op` holds, i.e. when the If's condition has the value !g.Neg;
					// SearchCorr keeps, per key, the value of the un-negated comparison: condition value != kneg
					k, kneg := an.CondKey(g.If.Cond)
					known[k] = (!g.Neg) != kneg
					for fk, fv := range foundKeys {
						if present {
							known[fk] = fv
						} else {
							known[fk] = !fv
						}
					}
					arm := succOn(g.If, !g.Neg)
					if x := an.SearchCorr(an.Point{B: arm, I: 0}, leaves, isEffect(needVals), known); x != nil && w == nil {
						w = x
					}
				}
			}
			if w != nil {
				what := "performs no store into the matched entry"
				if needVals {
					what = "performs no store of the change's values into the matched entry (a value that is computed and never stored is not an effect)"
				}
				R.Fail("C20-arms", key, c.pos(ifs[0].If), "on a path where the attribute exists the "+opName[op]+" arm "+what+": the modification reports success and changes nothing: "+c.trail(w))
			} else {
				R.OK("C20-arms", key, c.pos(ifs[0].If), "every path through the arm (with the attribute present"+map[bool]string{true: ", or absent", false: ""}[op == 0]+") stores into memory reachable from the matched entry")
			}
		}
		// ---- C20-lookup (helper form): a lookup helper of the handler that scans the entry's attributes tries all of
		// them: it leaves its loop early only where the names were found equal (an early "not found" - e.g. one that
		// assumes the attributes are sorted - makes a change miss an attribute the entry has)
		for _, ci := range an.Calls(h) {
			call, isCall := ci.(*ssa.Call)
			if !isCall {
				continue
			}
			g := an.StaticCallee(call.Common())
			if g == nil || !an.InModule(g) || len(g.Blocks) == 0 {
				continue
			}
			argRooted := false
			for _, a := range call.Common().Args {
				if rooted(a, 0) {
					argRooted = true
				}
			}
			if !argRooted {
				continue
			}
			var heads []*ssa.If
			an.Instrs(g, func(in ssa.Instruction) {
				if iff, ok := in.(*ssa.If); ok && an.IsRangeHeader(iff) {
					heads = append(heads, iff)
				}
			})
			if len(heads) == 0 {
				continue
			}
			isNameEq := func(v ssa.Value) bool {
				bo, ok := v.(*ssa.BinOp)
				if !ok || bo.Op != token.EQL {
					return false
				}
				for _, o := range []ssa.Value{bo.X, bo.Y} {
					if _, isName := fieldLoad(o, G, "EntryAttribute", "Name"); isName {
						return true
					}
				}
				return false
			}
			key := fname(h) + ": lookup helper " + fname(g) + " tries every attribute"
			bad := ""
			for _, ret := range an.Returns(g) {
				for _, hd := range heads {
					body, exit := hd.Block().Succs[0], hd.Block().Succs[1]
					if body.Dominates(ret.Block()) && !exit.Dominates(ret.Block()) && !hasFact(ret.Block(), true, isNameEq) {
						bad = c.pos(ret)
					}
				}
			}
			R.Check(bad == "", "C20-lookup", key, c.pos(call), "it returns from inside its loop only where the attribute's name equals the one asked for", "the lookup returns from inside its loop at "+bad+" without having found the name (e.g. assuming sorted attributes): attributes further on are never compared, so a change can miss an attribute the entry has")
		}
		// ---- C20-lookup: each change is applied to the attribute looked up FOR THAT CHANGE: what the arms test
		// and index with (the found attribute, its position) must not be carried over from the previous change
		{
			var chgHead *ssa.BasicBlock
			an.Instrs(h, func(in ssa.Instruction) {
				iff, ok := in.(*ssa.If)
				if !ok || !an.IsRangeHeader(iff) {
					return
				}
				if bo, ok := iff.Cond.(*ssa.BinOp); ok {
					if lc, ok := bo.Y.(*ssa.Call); ok && len(lc.Common().Args) == 1 {
						if _, names := an.FieldChain(lc.Common().Args[0]); len(names) > 0 && names[len(names)-1] == "Changes" {
							chgHead = iff.Block()
						}
					}
				}
			})
			key := fname(h) + ": the attribute lookup is redone for every change"
			if chgHead == nil {
				R.Unknown("C20-lookup", key, c.P.Pos(h.Pos()), "cannot find the loop over m.Changes")
			} else {
				// values the arms depend on: nil tests of *EntryAttribute, and indices / slice bounds, inside the loop
				var roots []ssa.Value
				an.Instrs(h, func(in ssa.Instruction) {
					if !chgHead.Dominates(in.Block()) {
						return
					}
					switch x := in.(type) {
					case *ssa.If:
						v, _ := an.Not(x.Cond)
						if y, _, ok := an.NilCheck(v); ok && an.TypeIs(y.Type(), G, "EntryAttribute") {
							roots = append(roots, y)
						}
					case *ssa.IndexAddr:
						roots = append(roots, x.Index)
					case *ssa.Slice:
						if x.Low != nil {
							roots = append(roots, x.Low)
						}
						if x.High != nil {
							roots = append(roots, x.High)
						}
					}
				})
				seen := map[ssa.Value]bool{}
				var carried *ssa.Phi
				var walk func(v ssa.Value)
				walk = func(v ssa.Value) {
					if v == nil || seen[v] {
						return
					}
					seen[v] = true
					switch x := v.(type) {
					case *ssa.Phi:
						if x.Block() == chgHead && !an.IsRangeIdx(x) && !isRangeIndex(x) {
							// the induction variable itself is phi(-1, i+1) with i+1 in the header
							isInd := false
							for _, ref := range *x.Referrers() {
								if bo, ok := ref.(*ssa.BinOp); ok && bo.Op == token.ADD && an.IsRangeIdx(bo) {
									isInd = true
								}
							}
							if !isInd {
								carried = x
							}
						}
						for _, e := range x.Edges {
							walk(e)
						}
					case *ssa.BinOp:
						walk(x.X)
						walk(x.Y)
					case *ssa.UnOp:
						if x.Op != token.MUL {
							walk(x.X)
						}
					case *ssa.Convert:
						walk(x.X)
					case *ssa.ChangeType:
						walk(x.X)
					}
				}
				for _, r := range roots {
					walk(r)
				}
				if carried != nil {
					R.Fail("C20-lookup", key, c.pos(chgHead.Instrs[len(chgHead.Instrs)-1]), "variable "+carried.Comment+" keeps its value from the previous change of the same request (it is a loop-carried value of the loop over m.Changes): a change naming an attribute the entry does not have is applied to the attribute the previous change found")
				} else {
					R.OK("C20-lookup", key, c.pos(chgHead.Instrs[len(chgHead.Instrs)-1]), sprintf("none of the %d values the arms test or index with is carried across iterations of the loop over m.Changes", len(roots)))
				}
			}
		}
		// success only after the change loop; default code
		c.checkDefaultCode(h, "NewModifyResponse", "ResultNoSuchObject", "C20-codes")
		R.Count("C20-arms/effects", len(effects))
	}

	// ------------------------------------------------------------ add
	if h := handlerClosure(c, "handleAdd"); h != nil {
		var store *ssa.Store
		for _, fs := range fieldStores([]*ssa.Function{h}, TD, "Directory", "users") {
			store = fs.Store
		}
		okStore := false
		if store != nil {
			if call, ok := store.Val.(*ssa.Call); ok {
				if b, ok := call.Common().Value.(*ssa.Builtin); ok && b.Name() == "append" {
					if _, ok := fieldLoad(call.Common().Args[0], TD, "Directory", "users"); ok {
						// appended: NewEntry(m.DN, attrs from m.Attributes)
						okStore = derivesFrom(call.Common().Args[1], "DN", 0, map[ssa.Value]bool{}) || strings.Contains(an.Canon(call.Common().Args[1]), "alloc")
						for _, ci := range an.Calls(h) {
							if an.CalleeIs(ci.Common(), G, "NewEntry") {
								okStore = derivesFrom(ci.Common().Args[0], "DN", 0, map[ssa.Value]bool{})
							}
						}
					}
				}
			}
		}
		R.Check(okStore, "C20-pairing", fname(h)+": add appends NewEntry(m.DN, attributes) to d.users", c.P.Pos(h.Pos()), "d.users = append(d.users, gldap.NewEntry(m.DN, attrs))", "add does not append the new entry to the directory's users")
		if store != nil {
			okAfter := true
			for _, b := range h.Blocks {
				for _, in := range b.Instrs {
					if isSuccess(in) && an.Search(an.Entry(h), isInstr(in), isInstr(store)) != nil {
						okAfter = false
					}
				}
			}
			okNoFail := an.Search(an.After(store), an.IsReturn, isSuccess) == nil
			R.Check(okAfter && okNoFail, "C20-pairing", fname(h)+": success iff the entry was stored", c.pos(store), "every success is preceded by the store and every path after the store reports success", "add reports success without storing the entry, or stores it and reports failure")
		}
		// entryAlreadyExists under `found`
		exists, _ := c.P.ConstInt(G, "ResultEntryAlreadyExists")
		okExists := false
		an.Instrs(h, func(in ssa.Instruction) {
			if isSetCode(in, exists) {
				okExists = hasFact(in.Block(), true, func(v ssa.Value) bool {
					ex, ok := an.Strip(v).(*ssa.Extract)
					if !ok || ex.Index != 0 {
						return false
					}
					call, ok := ex.Tuple.(*ssa.Call)
					if !ok || !an.CalleeIs(call.Common(), TD, "find") {
						return false
					}
					_, isUsers := fieldLoad(call.Common().Args[2], TD, "Directory", "users")
					return isUsers && derivesFrom(call.Common().Args[1], "DN", 0, map[ssa.Value]bool{})
				})
				// and nothing is stored on that path
				if okExists && store != nil && an.Search(an.After(in), isInstr(store), nil) != nil {
					okExists = false
				}
			}
		})
		R.Check(okExists && exists == 68, "C20-codes", fname(h)+": existing DN -> entryAlreadyExists, nothing stored", c.P.Pos(h.Pos()), "SetResultCode(68) under find(\"(DN)\", d.users) found, followed by return", "adding an existing DN does not fail with entryAlreadyExists before anything is stored")
	}

	// ------------------------------------------------------------ delete
	if h := handlerClosure(c, "handleDelete"); h != nil {
		c.checkDefaultCode(h, "NewResponse", "ResultNoSuchObject", "C20-codes")
		n := 0
		// removal stores: `X = append(X[:i], X[i+1:]...)` where X is d.users / d.groups, named directly or through a
		// pointer taken from a local table of their addresses ({&d.users, &d.groups})
		covered := map[string]bool{}
		var removals []*ssa.Store
		an.Instrs(h, func(in ssa.Instruction) {
			st, ok := in.(*ssa.Store)
			if !ok {
				return
			}
			flds := directoryTables(st.Addr)
			if len(flds) == 0 {
				return
			}
			n++
			okShape := false
			cv := an.Canon(st.Val)
			if call, ok := st.Val.(*ssa.Call); ok {
				if b, ok := call.Common().Value.(*ssa.Builtin); ok && b.Name() == "append" && len(call.Common().Args) == 2 {
					a0, ok0 := call.Common().Args[0].(*ssa.Slice)
					a1, ok1 := call.Common().Args[1].(*ssa.Slice)
					if ok0 && ok1 && a0.Low == nil && a0.High != nil && a1.High == nil && a1.Low != nil {
						sameLoc := func(v ssa.Value) bool {
							ld, ok := v.(*ssa.UnOp)
							return ok && ld.Op == token.MUL && (ld.X == st.Addr || an.Path(ld.X) == an.Path(st.Addr))
						}
						// low bound of the tail = high bound of the head + 1
						hi := an.Canon(a0.High)
						okIdx := an.Canon(a1.Low) == "+("+hi+",1)" || an.Canon(a1.Low) == "+(1,"+hi+")"
						if bo, isB := a1.Low.(*ssa.BinOp); isB && bo.Op == token.ADD {
							if k, isK := an.IntConst(bo.Y); isK && k == 1 && an.Canon(bo.X) == hi {
								okIdx = true
							}
						}
						okShape = sameLoc(a0.X) && sameLoc(a1.X) && okIdx
					}
				}
			}
			if !okShape {
				// the fresh-copy form, inline or through a helper: append(append(make(..., 0, ...), X[:i]...), X[i+1:]...)
				if base, _, ok := removalShape(st.Val, 0); ok {
					ld, isLd := an.Strip(base).(*ssa.UnOp)
					okShape = isLd && ld.Op == token.MUL && (ld.X == st.Addr || an.Path(ld.X) == an.Path(st.Addr))
				}
			}
			okAfter := an.Search(an.After(st), an.IsReturn, isSuccess) == nil
			for _, f := range flds {
				covered[f] = true
			}
			removals = append(removals, st)
			R.Check(okShape && okAfter, "C20-pairing", fname(h)+": delete removes the found element of d."+strings.Join(flds, "/")+" and then reports success", c.pos(st), cv, "delete does not remove the element from d."+strings.Join(flds, "/")+" before reporting success ("+cv+")")
		})
		for _, b := range h.Blocks {
			for _, in := range b.Instrs {
				if isSuccess(in) {
					pre := false
					for _, st := range removals {
						if an.InstrDominates(st, in) {
							pre = true
						}
					}
					R.Check(pre, "C20-pairing", fname(h)+": success only after a removal", c.pos(in), "dominated by the store that removes the entry", "delete reports success on a path that removed nothing")
				}
			}
		}
		if covered["users"] && covered["groups"] {
			n = 2 // both tables are handled (possibly by one store through a pointer that ranges over both)
		} else {
			n = 0
		}
		if n < 2 {
			R.Fail("C20-pairing", fname(h)+": delete handles users and groups", c.P.Pos(h.Pos()), sprintf("%d removal stores found", n))
		}
	}

	// ------------------------------------------------------------ search sources
	for _, name := range []string{"handleSearchUsers", "handleSearchGroups", "handleSearchGeneric"} {
		h := handlerClosure(c, name)
		if h == nil {
			continue
		}
		c.checkDefaultCode(h, "NewSearchDoneResponse", "ResultNoSuchObject", "C20-codes")
		n := 0
		// (the entry may be built by a helper that is given the directory entry: `newSearchEntry(r, e)`)
		type buildSite struct {
			fn      *ssa.Function             // where NewSearchResponseEntry is called
			ci      ssa.CallInstruction       // that call
			fromDir func(base ssa.Value) bool // the entry whose DN is used is one of the directory's
		}
		var sites []buildSite
		for _, ci := range an.Calls(h) {
			if an.CalleeIs(ci.Common(), G, "(*Request).NewSearchResponseEntry") {
				sites = append(sites, buildSite{h, ci, func(base ssa.Value) bool { return c.entryFromDirectory(base, h, 0) }})
				continue
			}
			g := an.StaticCallee(ci.Common())
			if g == nil || !an.InModule(g) || len(g.Blocks) == 0 || !isCall(ci) {
				continue
			}
			for _, ic := range an.Calls(g) {
				if !an.CalleeIs(ic.Common(), G, "(*Request).NewSearchResponseEntry") {
					continue
				}
				outer := ci
				sites = append(sites, buildSite{g, ic, func(base ssa.Value) bool {
					for i, p := range g.Params {
						if an.Strip(base) == ssa.Value(p) && i < len(outer.Common().Args) {
							return c.entryFromDirectory(outer.Common().Args[i], h, 0)
						}
					}
					return false
				}})
			}
		}
		for _, bs := range sites {
			ci, h := bs.ci, bs.fn
			n++
			dn := ci.Common().Args[1]
			// e.DN of an element of a list
			base, okDN := fieldLoad(dn, G, "Entry", "DN")
			okSrc := false
			if okDN {
				okSrc = bs.fromDir(base)
			}
			// attributes: AddAttribute(attr.Name, attr.Values) over e.Attributes in order
			okAttr := false
			call := ci.(*ssa.Call)
			for _, ac := range an.Calls(h) {
				if an.CalleeIs(ac.Common(), G, "(*SearchResponseEntry).AddAttribute") && an.Strip(ac.Common().Args[0]) == ssa.Value(call) {
					n1, v1 := an.Canon(ac.Common().Args[1]), an.Canon(ac.Common().Args[2])
					if strings.HasSuffix(n1, ".Attributes[*].Name") && strings.HasSuffix(v1, ".Attributes[*].Values") && strings.TrimSuffix(n1, ".Name") == strings.TrimSuffix(v1, ".Values") {
						// executed for every attribute: no path through the loop body skips it
						if head := loopHeadOf(ac); head != nil {
							body := head.Succs[0]
							if an.Search(an.Point{B: body, I: 0}, func(in ssa.Instruction) bool { return in.Block() == head }, isInstr(ac)) == nil {
								okAttr = true
							}
						}
					}
				}
			}
			R.Check(okSrc && okAttr, "C20-search-source", fname(h)+": result entries are directory entries with all their attributes", c.pos(ci), "NewSearchResponseEntry(e.DN) + AddAttribute(a.Name, a.Values) for every a of e.Attributes, e an element of the directory's lists", sprintf("search results are not built from the directory's own entries (entry from directory: %v, all attributes in order: %v)", okSrc, okAttr))
		}
		if n == 0 {
			R.Fail("C20-search-source", fname(h)+": writes entries", c.P.Pos(h.Pos()), "handler never builds a result entry")
		}
	}
	// find returns elements of the list it is given, in order
	if f := c.fn(TD, "find"); f != nil {
		ok := false
		for _, ret := range an.Returns(f) {
			res := an.ReturnResults(ret)
			cv := an.Canon(res[2])
			_ = cv
		}
		// matches = append(matches, e) with e = entries[*]
		for _, ci := range an.Calls(f) {
			if b, isB := ci.Common().Value.(*ssa.Builtin); isB && b.Name() == "append" {
				if sl, isS := ci.Common().Args[1].(*ssa.Slice); isS {
					if al, isA := sl.X.(*ssa.Alloc); isA {
						for _, r := range *al.Referrers() {
							if ia, isI := r.(*ssa.IndexAddr); isI {
								for _, rr := range *ia.Referrers() {
									if st, isSt := rr.(*ssa.Store); isSt && an.Canon(st.Val) == "$2[*]" {
										ok = true
									}
								}
							}
						}
					}
				}
			}
		}
		R.Check(ok, "C20-search-source", "find: matches are elements of the given list", c.P.Pos(f.Pos()), "matches = append(matches, entries[i]) in index order", "find does not return elements of the list it searches")
	}
	// ------------------------------------------------------------ value slices may be shared between entries
	// NewEntryAttribute keeps the caller's slice and NewUsers gives one slice to every user: nothing may write
	// into the backing array of an existing Values / ByteValues slice (element store, or truncate-and-refill).
	nAlias := 0
	sharedByCtor := false
	if nea := c.fn(G, "NewEntryAttribute"); nea != nil {
		for _, fs := range fieldStores([]*ssa.Function{nea}, G, "EntryAttribute", "Values") {
			if an.Strip(fs.Store.Val) == ssa.Value(nea.Params[1]) {
				sharedByCtor = true
			}
		}
	}
	if sharedByCtor {
		for _, f := range c.shippedFuncs(G, TD) {
			an.Instrs(f, func(in ssa.Instruction) {
				st, ok := in.(*ssa.Store)
				if !ok {
					return
				}
				for _, fld := range []string{"Values", "ByteValues"} {
					// (1) x.Values = x.Values[:k]  (keeps the old backing array for later appends)
					if _, isF := fieldAddr(st.Addr, G, "EntryAttribute", fld); isF {
						if sl, isS := st.Val.(*ssa.Slice); isS && sl.High != nil {
							if _, isOld := fieldLoad(sl.X, G, "EntryAttribute", fld); isOld {
								nAlias++
								R.Fail("C20-noalias", fname(f)+": EntryAttribute."+fld+" truncated in place", c.pos(st), "an attribute's "+fld+" slice is truncated and then refilled: its backing array can be shared with other entries (NewEntryAttribute keeps the caller's slice, NewUsers passes one slice to all users), so the refill overwrites their values")
							}
						}
					}
					// (2) x.Values[i] = v
					if ia, isI := st.Addr.(*ssa.IndexAddr); isI {
						if _, isOld := fieldLoad(ia.X, G, "EntryAttribute", fld); isOld {
							nAlias++
							R.Fail("C20-noalias", fname(f)+": element of EntryAttribute."+fld+" overwritten", c.pos(st), "an element of an attribute's "+fld+" slice is overwritten in place; the backing array can be shared with other entries")
						}
					}
				}
			})
		}
		R.Trivial("C20-noalias", "no in-place write into a possibly shared Values / ByteValues backing array", "-", "NewEntryAttribute keeps the caller's slice; all writers install fresh slices or append to the full slice")
	}
	// the directory lock every handler takes is released again: a d.mu left locked makes every later operation
	// on the directory block, so nothing is "reflected in later searches" any more
	c.checkLockRelease("C20-lockrelease", c.shippedFuncs(TD), "every later request to the directory blocks for ever")
	// ---- C20-stateless: a handler (the closure a handle* method returns) keeps nothing between requests except the
	// directory itself: a map, slice, channel or pointer it captures from the enclosing method is created once, when
	// the route is registered, and shared by every later request on every connection
	{
		n := 0
		for _, outer := range c.shippedFuncs(TD) {
			if outer.Signature.Recv() == nil || !strings.HasPrefix(outer.Name(), "handle") {
				continue
			}
			for _, ret := range an.Returns(outer) {
				for _, rv := range ret.Results {
					mc, ok := an.Strip(rv).(*ssa.MakeClosure)
					if !ok {
						continue
					}
					h := mc.Fn.(*ssa.Function)
					n++
					bad := ""
					for i, fv := range h.FreeVars {
						t := fv.Type()
						// captured by reference: a cell holding the variable
						if i < len(mc.Bindings) {
							if al, isAl := mc.Bindings[i].(*ssa.Alloc); isAl {
								t = al.Type().(*types.Pointer).Elem()
								// a captured cell that the handler (or a closure of it) assigns is shared state as well
								if sts, _ := an.CellStores(al); len(sts) > 1 {
									for _, st := range sts {
										if st.Parent() != outer {
											bad = fv.Name() + " (assigned by the handler)"
										}
									}
								}
							}
						}
						switch u := t.Underlying().(type) {
						case *types.Map, *types.Slice, *types.Chan:
							bad = fv.Name() + " (" + types.TypeString(t, shortq) + ")"
						case *types.Pointer:
							if !an.TypeIs(u, TD, "Directory") {
								if _, isStruct := u.Elem().Underlying().(*types.Struct); isStruct {
									bad = fv.Name() + " (" + types.TypeString(t, shortq) + ")"
								}
							}
						}
					}
					R.Check(bad == "", "C20-stateless", fname(outer)+": the handler captures no mutable state of its own", c.P.Pos(h.Pos()), "captures only the directory, the test handle and immutable values", "the handler closure captures "+bad+" from the enclosing method: it is created once and shared by all requests, so what one request leaves in it shows up in the next (an added entry with another request's attributes, a result carried over)")
				}
			}
		}
		R.Count("C20-stateless/handlers", n)
	}
	// ---- C20-set: a Set* call replaces the population by exactly the entries it is given: what SetUsers / SetGroups
	// store into d.users / d.groups is their (variadic) parameter itself or a fresh copy of it - never something built
	// on top of the previous population's backing array, which Users() / Groups() (and Defaults) share with the caller:
	// overwriting that array in place changes slices the caller still holds and hands back later.
	for _, sf := range []struct{ fn, field string }{{"(*Directory).SetUsers", "users"}, {"(*Directory).SetGroups", "groups"}} {
		f := c.P.Func(TD, sf.fn)
		if f == nil || len(f.Blocks) == 0 || len(f.Params) != 2 {
			continue
		}
		sts := fieldStores([]*ssa.Function{f}, TD, "Directory", sf.field)
		for _, fs := range sts {
			why := freshCopyOf(fs.Store.Val, f.Params[1], 0)
			R.Check(why == "", "C20-set", fname(f)+": d."+sf.field+" <- the entries given", c.pos(fs.Store), "the parameter itself or a fresh copy of it", "d."+sf.field+" is not set to the given entries or a fresh copy of them ("+why+"): the directory would write into memory the caller still holds (the slice Users()/Groups() returned or Defaults supplied), so a population handed back later is not the one the caller saved")
		}
		if len(sts) == 0 {
			R.Fail("C20-set", fname(f)+": d."+sf.field+" <- the entries given", c.P.Pos(f.Pos()), "no store to d."+sf.field+" found in "+fname(f))
		}
	}
	R.Floor("C20-set", 2)
	R.Floor("C20-lockrelease", 4)
	R.Floor("C20-arms", 3)
	R.Floor("C20-pairing", 2)
	R.Floor("C20-search-source", 2)
	R.NotDecided = append(R.NotDecided, "whole-history consistency against a reference model", "match()'s substring semantics", "concurrent histories (C15)")
}

// freshCopyOf: v is the slice parameter p itself, nil, or a copy of p in
// storage allocated for it (append onto nil / an empty literal, slices.Clone,
// make + copy), possibly produced by a module helper that is handed p.
// Returns "" when it is, otherwise what it is instead.
func freshCopyOf(v ssa.Value, p ssa.Value, depth int) string {
	if depth > 4 {
		return "too deep"
	}
	v = an.Strip(v)
	if v == an.Strip(p) || an.IsNilConst(v) {
		return ""
	}
	switch x := v.(type) {
	case *ssa.Phi:
		for _, e := range x.Edges {
			if why := freshCopyOf(e, p, depth+1); why != "" {
				return why
			}
		}
		return ""
	case *ssa.MakeSlice:
		// make([]T, len(p)) filled by copy(dst, p)
		ok := false
		for _, ref := range *x.Referrers() {
			if call, isC := ref.(*ssa.Call); isC {
				if b, isB := call.Common().Value.(*ssa.Builtin); isB && b.Name() == "copy" && call.Common().Args[0] == ssa.Value(x) && an.Strip(call.Common().Args[1]) == an.Strip(p) {
					ok = true
				}
			}
		}
		if ok {
			return ""
		}
		return "a made slice that is not filled by copy(dst, the entries)"
	case *ssa.Call:
		cc := x.Common()
		if b, isB := cc.Value.(*ssa.Builtin); isB && b.Name() == "append" && len(cc.Args) == 2 {
			if an.Strip(cc.Args[1]) != an.Strip(p) {
				return "append of something other than the entries"
			}
			base := an.Strip(cc.Args[0])
			if an.IsNilConst(base) {
				return ""
			}
			if ms, isM := base.(*ssa.MakeSlice); isM {
				if k, isK := an.IntConst(ms.Len); isK && k == 0 {
					return ""
				}
			}
			if sl, isS := base.(*ssa.Slice); isS {
				if al, isA := sl.X.(*ssa.Alloc); isA && len(*al.Referrers()) == 1 {
					return "" // empty literal []T{}
				}
			}
			return "appended onto " + an.Path(cc.Args[0]) + ", whose backing array is reused"
		}
		g := cc.StaticCallee()
		if g == nil {
			return "result of a dynamic call"
		}
		if (an.FuncPkgPath(g) == "slices" || an.FuncPkgPath(g) == "golang.org/x/exp/slices") && (g.Name() == "Clone" || g.Origin() != nil && g.Origin().Name() == "Clone") && len(cc.Args) == 1 && an.Strip(cc.Args[0]) == an.Strip(p) {
			return ""
		}
		if an.InModule(g) && len(g.Blocks) > 0 {
			idx := -1
			for i, a := range cc.Args {
				if an.Strip(a) == an.Strip(p) && i < len(g.Params) {
					idx = i
				}
			}
			if idx < 0 {
				return fname(g) + " is not given the entries"
			}
			for _, ret := range an.Returns(g) {
				res := an.ReturnResults(ret)
				if len(res) != 1 {
					return fname(g) + " returns more than one value"
				}
				if why := freshCopyOf(res[0], g.Params[idx], depth+1); why != "" {
					return "in " + fname(g) + ": " + why
				}
			}
			return ""
		}
		return "result of " + g.String()
	}
	return an.Path(v)
}

// entryFromDirectory: v is an element of d.users / d.groups / d.tokenGroups[...] or of
// a slice returned by find/findMembers (which return elements of the lists) or of a local slice built from such elements.
func (c *Ctx) entryFromDirectory(v ssa.Value, h *ssa.Function, depth int) bool {
	if depth > 8 {
		return false
	}
	cv := an.Canon(v)
	for _, pre := range []string{"$0.users[", "$0.groups[", "$0.tokenGroups["} {
		if strings.HasPrefix(cv, pre) {
			return true
		}
	}
	ld, ok := an.Strip(v).(*ssa.UnOp)
	if !ok {
		return false
	}
	ia, ok := ld.X.(*ssa.IndexAddr)
	if !ok {
		return false
	}
	return c.sliceOfDirectoryEntries(ia.X, h, depth+1, map[ssa.Value]bool{})
}

func (c *Ctx) sliceOfDirectoryEntries(s ssa.Value, h *ssa.Function, depth int, seen map[ssa.Value]bool) bool {
	if depth > 10 || seen[s] {
		return true
	}
	seen[s] = true
	s = an.Strip(s)
	cv := an.Canon(s)
	if cv == "$0.users" || cv == "$0.groups" || strings.HasPrefix(cv, "$0.tokenGroups[") {
		return true
	}
	switch x := s.(type) {
	case *ssa.Extract:
		if call, ok := x.Tuple.(*ssa.Call); ok {
			if an.CalleeIs(call.Common(), TD, "find") && x.Index == 2 {
				return c.sliceOfDirectoryEntries(call.Common().Args[2], h, depth+1, seen)
			}
			if an.CalleeIs(call.Common(), TD, "(*Directory).findMembers") && x.Index == 1 {
				return true // checked separately: findMembers appends elements of d.groups
			}
		}
	case *ssa.Phi:
		for _, e := range x.Edges {
			if an.IsNilConst(e) {
				continue
			}
			if !c.sliceOfDirectoryEntries(e, h, depth+1, seen) {
				return false
			}
		}
		return true
	case *ssa.Call:
		if b, ok := x.Common().Value.(*ssa.Builtin); ok && b.Name() == "append" {
			if !c.sliceOfDirectoryEntries(x.Common().Args[0], h, depth+1, seen) {
				return false
			}
			// appended elements
			if sl, ok := x.Common().Args[1].(*ssa.Slice); ok {
				if al, ok := sl.X.(*ssa.Alloc); ok {
					for _, r := range *al.Referrers() {
						if ia, ok := r.(*ssa.IndexAddr); ok {
							for _, rr := range *ia.Referrers() {
								if st, ok := rr.(*ssa.Store); ok {
									if !c.entryFromDirectory(st.Val, h, depth+1) {
										return false
									}
								}
							}
						}
					}
					return true
				}
			}
			return false
		}
	case *ssa.Const:
		return x.IsNil()
	case *ssa.MakeSlice:
		// make([]*gldap.Entry, 0, n): empty, pre-sized
		if k, isK := an.IntConst(x.Len); isK && k == 0 {
			return true
		}
	case *ssa.Slice:
		// make with a constant capacity is an array allocation sliced [:0]
		if al, isAl := x.X.(*ssa.Alloc); isAl && al.Heap && x.Low == nil {
			if k, isK := an.IntConst(x.High); isK && k == 0 {
				return true
			}
		}
	}
	return false
}

// checkDefaultCode: the response of the handler is created with the given default result code.
func (c *Ctx) checkDefaultCode(h *ssa.Function, ctor, codeConst, rule string) {
	S := c.opts()
	want, _ := c.P.ConstInt(G, codeConst)
	ok := false
	var at ssa.Instruction
	for _, ci := range an.Calls(h) {
		if !an.CalleeIs(ci.Common(), G, "(*Request)."+ctor) {
			continue
		}
		at = ci
		args := ci.Common().Args
		if list, okl := S.variadicOptions(args[len(args)-1]); okl {
			for _, o := range list {
				if o.Ctor.Fn.Name() == "WithResponseCode" {
					if k, isK := an.IntConst(o.Args[0]); isK && k == want {
						ok = true
					}
				}
			}
		}
	}
	pos := c.P.Pos(h.Pos())
	if at != nil {
		pos = c.pos(at)
	}
	c.R.Check(ok, rule, fname(h)+": default result "+codeConst, pos, "response created with WithResponseCode("+codeConst+")", "the handler's default result is not "+codeConst)
}

// isIndexLike: v is an int that is -1 when a lookup found nothing: a phi with
// a constant -1 edge, or the int result of a module helper that is given
// something reachable from the matched entry.
func isIndexLike(v ssa.Value, rooted func(ssa.Value, int) bool) bool {
	v = an.Strip(v)
	if b, ok := v.Type().Underlying().(*types.Basic); !ok || b.Info()&types.IsInteger == 0 {
		return false
	}
	switch x := v.(type) {
	case *ssa.Phi:
		for _, e := range x.Edges {
			if k, ok := an.IntConst(e); ok && k == -1 {
				return true
			}
		}
	case *ssa.Call:
		f := an.StaticCallee(x.Common())
		if f == nil || !an.InModule(f) {
			return false
		}
		for _, a := range x.Common().Args {
			if rooted(a, 0) {
				return true
			}
		}
	}
	return false
}

// removalShape recognises a value that is the slice base without its element
// idx, built without writing to base's backing array: either
// append(append(fresh, base[:idx]...), base[idx+1:]...) with fresh an empty
// slice made for the purpose, or the call of a module helper whose only
// return value has that shape over its parameters.
func removalShape(v ssa.Value, depth int) (base, idx ssa.Value, ok bool) {
	if depth > 2 {
		return nil, nil, false
	}
	call, isCall := v.(*ssa.Call)
	if !isCall {
		return nil, nil, false
	}
	appendArgs := func(x ssa.Value) (ssa.Value, *ssa.Slice, bool) {
		ac, ok := x.(*ssa.Call)
		if !ok {
			return nil, nil, false
		}
		b, ok := ac.Common().Value.(*ssa.Builtin)
		if !ok || b.Name() != "append" || len(ac.Common().Args) != 2 {
			return nil, nil, false
		}
		sl, ok := ac.Common().Args[1].(*ssa.Slice)
		return ac.Common().Args[0], sl, ok
	}
	if inner, tail, ok := appendArgs(call); ok {
		fresh, head, ok2 := appendArgs(inner)
		if !ok2 {
			return nil, nil, false
		}
		// fresh: make([]T, 0, n) or a nil / empty slice
		isFresh := false
		switch x := an.Strip(fresh).(type) {
		case *ssa.MakeSlice:
			if k, isK := an.IntConst(x.Len); isK && k == 0 {
				isFresh = true
			}
		case *ssa.Const:
			isFresh = x.IsNil()
		case *ssa.Slice:
			// make([]T, 0, k) with constant k is an array allocation sliced [:0]
			if al, isAl := x.X.(*ssa.Alloc); isAl && al.Heap && x.Low == nil {
				if k, isK := an.IntConst(x.High); isK && k == 0 {
					isFresh = true
				}
			}
		}
		if !isFresh || head.Low != nil || head.High == nil || tail.High != nil || tail.Low == nil || an.Strip(head.X) != an.Strip(tail.X) {
			if !isFresh || head.Low != nil || head.High == nil || tail.High != nil || tail.Low == nil || an.Canon(head.X) != an.Canon(tail.X) {
				return nil, nil, false
			}
		}
		bo, isB := tail.Low.(*ssa.BinOp)
		if !isB || bo.Op != token.ADD {
			return nil, nil, false
		}
		if k, isK := an.IntConst(bo.Y); !isK || k != 1 || an.Strip(bo.X) != an.Strip(head.High) && an.Canon(bo.X) != an.Canon(head.High) {
			return nil, nil, false
		}
		return head.X, head.High, true
	}
	g := an.StaticCallee(call.Common())
	if g == nil || !an.InModule(g) || len(g.Blocks) == 0 || g.Signature.Results().Len() != 1 {
		return nil, nil, false
	}
	rets := an.Returns(g)
	if len(rets) != 1 {
		return nil, nil, false
	}
	b, i, ok := removalShape(an.ReturnResults(rets[0])[0], depth+1)
	if !ok {
		return nil, nil, false
	}
	argOf := func(x ssa.Value) ssa.Value {
		for pi, p := range g.Params {
			if an.Strip(x) == ssa.Value(p) && pi < len(call.Common().Args) {
				return call.Common().Args[pi]
			}
		}
		return nil
	}
	ba, ia := argOf(b), argOf(i)
	if ba == nil || ia == nil {
		return nil, nil, false
	}
	// the helper writes to nothing but its fresh slice
	pure := true
	an.Instrs(g, func(in ssa.Instruction) {
		switch in.(type) {
		case *ssa.Store, *ssa.MapUpdate, *ssa.Send, *ssa.Go:
			pure = false
		}
	})
	if !pure {
		return nil, nil, false
	}
	return ba, ia, true
}
