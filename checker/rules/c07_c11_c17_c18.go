package rules

import (
	"go/token"
	"go/types"
	"strings"

	"gldapverif/an"
	"gldapverif/report"

	"golang.org/x/tools/go/ssa"
)

func init() {
	Registry["C07"] = checkC07
	Registry["C11"] = checkC11
	Registry["C17"] = checkC17
	Registry["C18"] = checkC18
	Descriptions["C07"] = "C07-recover (every goroutine gldap starts that can run a handler or the decode slice registers, before any such call and exactly under !disablePanicRecovery, a deferred function that calls recover() directly), " +
		"C07-accept (a failing Accept that is not the shutting-down case has a path back to the accept loop), C07-noexit (no os.Exit / log.Fatal / runtime.Goexit / undischarged explicit panic reachable from connection or request goroutines), " +
		"C07-contained (connection/request goroutines never cancel the server context or close the listener), C07-nolock-io (no Server.mu / Mux.mu can be held at a call that reaches blocking socket I/O), C07-isolated (a connection's reader/writer pair is built in initConn from its own socket and never reset or replaced elsewhere: rules C13-pair / C05-owner), C07-accept-nonblocking (Run and its synchronous helpers perform no handshake / read / write on an accepted connection), C07-lockbalance (every Unlock/RUnlock, explicit or deferred, finds its mutex locked on every path: unlocking an unlocked mutex is a fatal error no recover() contains), C07-wg-nonneg (no connWg place is given back twice: a negative WaitGroup counter panics outside every recover; rule C12-nonneg), C07-map-locked (a map field of Server / Mux / conn that is written somewhere is accessed only with a mutex held: concurrent map access is a fatal error). Decides fencing and survival of the accept loop; does not decide that bystanders receive correct answers."
	Descriptions["C11"] = "Necessary structural condition for bounded Stop: C11-sites (blocking socket I/O sites on connection/request goroutines enumerated), " +
		"C11-lockrelease (every Lock/RLock in gldap is released on every path to the function's exit), C11-accounting (every connWg.Add is matched by a Done on every path, rules C12-done-last / C12-add-vs-wait), C11-waker-lifetime (a watcher goroutine that can be told to stop is told so only after (*conn).close has waited for the handlers), C11-waker (some code that runs asynchronously to those goroutines closes or deadlines every connection's socket once shutdownCtx is cancelled, and it is started for every accepted connection before its first read), C11-waker-first (no call that reaches ber.ReadPacket, a bufio.Writer write/flush, a net.Conn/tls.Conn read/write or a TLS handshake lies on a path of the connection goroutine before the watcher start), C11-deadline-kept (every holder of a connection socket is followed; a Set*Deadline that may clear the deadline runs only on the shutdown path, in connection setup, synchronously in the read loop or as the closing half of an arm/clear pair), C11-noblock (the connection goroutine contains no bare channel operation, select without a shutdown case or foreign Wait), " +
		"C11-stop-order (listener.Close and cancel precede connWg.Wait), C11-run-nil (shutdown exits of Run return nil), C11-nolock (connection goroutines never take Server.mu, which Stop holds across Wait). The time bound itself is not decided."
	Descriptions["C17"] = "C17-guard (every store of true to Server.listenerReady is control-dependent on net.Listen's error being nil), C17-who (the flag is written only in Run (true) / Stop (false), under Server.mu), " +
		"C17-errors (no error return of Run before or at the listen failure follows a store of true), C17-serves (no error return of Run between making Ready true and the first Accept), C17-accept-retry (a temporary Accept error never ends Run), C17-accept-unblocked (connection goroutines never take Server.mu, which the accept loop needs for every Accept: rule C11-nolock), C17-addr-narrowing (no number parsed from the address is narrowed to a smaller integer type without a range check), C17-timeouts (a deadline armed at connection setup from a configured timeout is guarded by that timeout being non-zero), C17-accept-nonblocking (the accept loop, helpers included, performs no handshake / read / write on an accepted connection: rule C07-accept-nonblocking), C17-getter (Ready returns the field under the lock). Kernel-level accept behaviour is not decided."
	Descriptions["C18"] = "C18-wrap (when opts.withTLSConfig != nil the listener Accept is called on is tls.NewListener(plain, thatConfig), installed before the accept loop and never replaced), " +
		"C18-noplain (newConn receives the Accept result itself; every stream handed to initConn traces back to Accept's result, conn.netConn or tls.Server of those; no code reads the underlying socket; read errors end the connection), " +
		"C18-directory (testdirectory.GetTLSConfig with WithMTLS sets ClientAuth = RequireAndVerifyClientCert and ClientCAs = the pool of the CA created in the same call, and never weakens verification; Start passes that config to Run unless WithNoTLS), C18-own-connection (the accept loop performs no handshake / read on an accepted connection: rule C07-accept-nonblocking). crypto/tls itself is trusted."
}

// ------------------------------------------------------------------ C17

func checkC17(c *Ctx) {
	R := c.R
	m := c.serverModel()
	if m == nil {
		return
	}
	ready := c.fn(G, "(*Server).Ready")
	if ready == nil {
		return
	}
	shipped := c.shippedFuncs(G)
	listen := c.listenCall(m.run)
	if listen == nil {
		R.Fatal("Run: no net.Listen* / tls.Listen call found")
		return
	}
	listenFn := listen.Parent()
	errPred := map[*ssa.Function]func(ssa.Value) bool{}
	listenPoint := map[*ssa.Function]*ssa.Call{}
	for _, f := range []*ssa.Function{listenFn, m.run} {
		p, pt, why := c.listenErrIn(f, listen)
		listenPoint[f] = pt
		if p == nil {
			R.Unknown("C17-guard", "(*Server).Run: listen error", c.pos(listen), "cannot relate the listen's error to "+fname(f)+": "+why)
			return
		}
		errPred[f] = p
	}
	isListenErr := func(v ssa.Value) bool {
		x, _, ok := an.NilCheck(v)
		if !ok {
			return false
		}
		for _, p := range errPred {
			if p(x) {
				return true
			}
		}
		return false
	}
	inRunOrListen := func(root *ssa.Function) bool { return root == m.run || root == listenFn }
	afterListen := func(in ssa.Instruction) bool {
		pt := listenPoint[in.Parent()]
		return pt != nil && an.InstrDominates(pt, in)
	}
	listenOK := func(b *ssa.BasicBlock) bool {
		for _, f := range an.BranchFacts(b) {
			cond, neg := an.Not(f.Cond)
			if !isListenErr(cond) {
				continue
			}
			_, trueMeansNil, _ := an.NilCheck(cond)
			pol := f.True != neg
			if pol == trueMeansNil { // condition says err == nil
				return true
			}
		}
		return false
	}
	listenFailed := func(b *ssa.BasicBlock) bool {
		for _, f := range an.BranchFacts(b) {
			cond, neg := an.Not(f.Cond)
			if !isListenErr(cond) {
				continue
			}
			_, trueMeansNil, _ := an.NilCheck(cond)
			if (f.True != neg) != trueMeansNil {
				return true
			}
		}
		return false
	}
	// which Server fields does Ready() depend on?
	readyFields := map[string]bool{}
	an.Instrs(ready, func(in ssa.Instruction) {
		if fa, ok := in.(*ssa.FieldAddr); ok && an.TypeIs(fa.X.Type(), G, "Server") {
			if n := an.FieldAddrName(fa); n != "mu" {
				readyFields[n] = true
			}
		}
	})
	if len(readyFields) == 0 {
		R.Fail("C17-getter", "(*Server).Ready reads server state", c.P.Pos(ready.Pos()), "Ready does not depend on any Server field")
	}
	for fld := range readyFields {
		if fld == "listenerReady" {
			continue
		}
		// Ready derives readiness from another field (e.g. listener != nil): every store in Run that can make it
		// non-zero must be control-dependent on the listen having succeeded
		for _, fs := range fieldStores(shipped, G, "Server", fld) {
			if an.IsNilConst(an.Strip(fs.Store.Val)) {
				continue
			}
			if z, isC := an.BoolConst(fs.Store.Val); isC && !z {
				continue
			}
			root := fs.Fn
			for root.Parent() != nil {
				root = root.Parent()
			}
			if !inRunOrListen(root) {
				if _, isAlloc := an.Strip(fs.Base).(*ssa.Alloc); isAlloc {
					continue // constructor
				}
				R.Fail("C17-who", fname(fs.Fn)+": store Server."+fld, c.pos(fs.Store), "Ready depends on Server."+fld+", which is written outside Run")
				continue
			}
			okG := listenOK(fs.Store.Block()) && afterListen(fs.Store)
			R.Check(okG, "C17-guard", "(*Server).Run: Server."+fld+" (read by Ready) set only after a successful Listen", c.pos(fs.Store), "store is control-dependent on the listen error being nil", "Ready() depends on Server."+fld+", which is assigned even when the listen failed (a typed nil stored in an interface is non-nil): Ready can report true although Run returned a listen error")
		}
	}
	nTrue := 0
	for _, fs := range fieldWrites(shipped, G, "Server", "listenerReady") {
		val, isConst := an.BoolConst(fs.Val)
		root := fs.Fn
		for root.Parent() != nil {
			root = root.Parent()
		}
		key := fname(fs.Fn) + ": listenerReady = " + an.Path(fs.Val)
		// who
		switch {
		case !isConst:
			R.Unknown("C17-who", key, c.pos(fs.At), "listenerReady is assigned a non-constant")
			continue
		case val && !inRunOrListen(root):
			R.Fail("C17-who", key, c.pos(fs.At), "Ready is set to true outside Run")
			continue
		case !val && root != m.stop && !inRunOrListen(root):
			R.Fail("C17-who", key, c.pos(fs.At), "Ready is reset outside Run/Stop")
			continue
		}
		if fs.Atomic {
			R.OK("C17-who", key+" atomically", c.pos(fs.At), "sync/atomic store: needs no lock")
		} else {
			ls := an.LockSets(fs.Fn, nil)
			held := ls[fs.At]
			base := an.Path(an.Strip(fs.Base))
			R.Check(held.Holds(base+".mu", false), "C17-who", key+" under Server.mu", c.pos(fs.At), "must-held "+held.String(), "listenerReady is written without holding Server.mu (held "+held.String()+")")
		}
		if val {
			nTrue++
			if listenOK(fs.At.Block()) && afterListen(fs.At) {
				R.OK("C17-guard", "(*Server).Run: listenerReady = true only after a successful Listen", c.pos(fs.At), "store is control-dependent on net.Listen's err == nil")
			} else {
				R.Fail("C17-guard", "(*Server).Run: listenerReady = true only after a successful Listen", c.pos(fs.At), "Ready becomes true even when net.Listen failed (port in use): the store is not control-dependent on err == nil")
			}
		}
	}
	if nTrue == 0 && readyFields["listenerReady"] {
		R.Fail("C17-guard", "(*Server).Run: listenerReady = true only after a successful Listen", c.pos(listen), "Run never sets listenerReady")
	}
	// C17-errors: error returns that do not pass a successful Listen never follow a store of true
	trueWrites := map[ssa.Instruction]bool{}
	for _, fw := range fieldWrites([]*ssa.Function{m.run}, G, "Server", "listenerReady") {
		if v, isC := an.BoolConst(fw.Val); isC && v {
			trueWrites[fw.At] = true
		}
	}
	isTrueStore := func(in ssa.Instruction) bool { return trueWrites[in] }
	cnt := an.CountEvents(m.run, an.Entry(m.run), isTrueStore, nil)
	for _, ret := range an.Returns(m.run) {
		res := an.ReturnResults(ret)
		if an.IsNilConst(an.Strip(res[0])) {
			continue
		}
		if listenOK(ret.Block()) {
			continue // later failures (accept) are outside the statement
		}
		if listenFailed(ret.Block()) {
			// same immutable SSA value `err` as in C17-guard: a path cannot both store true (err == nil) and take this return (err != nil)
			R.OK("C17-errors", "(*Server).Run: error return at listen failure", c.pos(ret), "control-dependent on net.Listen's err != nil, which excludes every store of true (each control-dependent on err == nil, C17-guard)")
			continue
		}
		R.Check(cnt[ret] == an.C0, "C17-errors", "(*Server).Run: error return at "+retKindListen(ret, listen), c.pos(ret), "no store of true on any path to it", "Run returns an error after having set Ready to true")
	}
	// C17-serves: once the listen has succeeded (and Ready is, or is about to be, true) Run goes on to Accept: it
	// does not give up with an error of its own making between making Ready true and the first Accept - its deferred listener.Close would
	// leave Ready() true with nothing listening. (Returning nil because Stop was called is the statement's end.)
	if pt := listenPoint[m.run]; pt != nil {
		giveUp := func(in ssa.Instruction) bool {
			ret, ok := in.(*ssa.Return)
			if !ok {
				return false
			}
			res := an.ReturnResults(ret)
			return len(res) == 1 && !an.IsNilConst(an.Strip(res[0])) && !listenFailed(ret.Block())
		}
		// from the store(s) that make Ready true when they are Run's own, else from the listen helper's return
		var starts []an.Point
		for in := range trueWrites {
			starts = append(starts, an.After(in))
		}
		if len(starts) == 0 {
			starts = append(starts, an.After(pt))
		}
		var w []ssa.Instruction
		for _, st := range starts {
			if w == nil {
				w = an.SearchCorr(st, giveUp, isInstr(m.accept), nil)
			}
		}
		if w != nil {
			R.Fail("C17-serves", "(*Server).Run: after a successful listen Run reaches Accept", c.pos(w[len(w)-1]), "Run can return an error after the listen succeeded and before it ever accepts (its deferred Close then unbinds the port while Ready() stays true): "+c.trail(w))
		} else {
			R.OK("C17-serves", "(*Server).Run: after a successful listen Run reaches Accept", c.pos(m.accept), "no error return lies between the successful listen and the first Accept")
		}
	}
	// C17-accept-unblocked: the accept loop takes Server.mu in every iteration; a connection goroutine that takes it
	// too (e.g. around a user callback) can stall accepting although Ready() is true (rule C11-nolock, imported)
	if !c.Sub {
		tmp := &Ctx{P: c.P, R: report.New("tmp"), Tier: c.Tier, Sub: true}
		checkC11(tmp)
		for _, o := range tmp.R.Obls {
			if o.Rule == "C11-nolock" {
				switch o.Status {
				case report.Discharged:
					R.OK("C17-accept-unblocked", o.Construct, o.Pos, o.Detail)
				default:
					R.Fail("C17-accept-unblocked", o.Construct, o.Pos, o.Detail+": the accept loop needs that lock for every Accept, so connections are no longer accepted while Ready() is true")
				}
			}
		}
		R.Floor("C17-accept-unblocked", 1)
		// ... and the accept loop itself waits for no single client between two Accepts (rule C07-accept-nonblocking):
		// a peer that connects and stays silent in a handshake run by the accept loop keeps everyone else from being
		// accepted although Ready() is true
		tmp7 := &Ctx{P: c.P, R: report.New("tmp"), Tier: c.Tier, Sub: true}
		checkC07(tmp7)
		for _, o := range tmp7.R.Obls {
			if o.Rule == "C07-accept-nonblocking" {
				switch o.Status {
				case report.Discharged:
					R.OK("C17-accept-nonblocking", o.Construct, o.Pos, o.Detail)
				default:
					R.Fail("C17-accept-nonblocking", o.Construct, o.Pos, o.Detail+" (Ready() is true all the while)")
				}
			}
		}
		R.Floor("C17-accept-nonblocking", 1)
	}
	// C17-addr-narrowing: "if Run cannot listen (port in use, malformed address) it returns an error": a number parsed
	// from the address (the port) is never narrowed to a smaller integer type without a range check - a silent
	// truncation maps an out-of-range port to some other port, Run listens there and Ready() becomes true
	{
		pre := syncReach(m.run)
		nN := 0
		size := func(t types.Type) int64 {
			if b, ok := t.Underlying().(*types.Basic); ok {
				switch b.Kind() {
				case types.Int8, types.Uint8:
					return 8
				case types.Int16, types.Uint16:
					return 16
				case types.Int32, types.Uint32:
					return 32
				case types.Int, types.Int64, types.Uint, types.Uint64, types.Uintptr:
					return 64
				}
			}
			return 0
		}
		for f := range pre {
			if !an.InModule(f) || c.P.IsTestFile(f.Pos()) || f == m.serve || syncReach(m.connFn)[f] {
				continue
			}
			an.Instrs(f, func(in ssa.Instruction) {
				cv, ok := in.(*ssa.Convert)
				if !ok || size(cv.Type()) == 0 || size(cv.X.Type()) <= size(cv.Type()) {
					return
				}
				ex, ok := an.Strip(cv.X).(*ssa.Extract)
				if !ok {
					return
				}
				pc, ok := ex.Tuple.(*ssa.Call)
				if !ok {
					return
				}
				g := pc.Common().StaticCallee()
				if g == nil || an.FuncPkgPath(g) != "strconv" || !(g.Name() == "Atoi" || g.Name() == "ParseInt" || g.Name() == "ParseUint") {
					return
				}
				nN++
				// ParseInt / ParseUint with a bit size that fits the target reject the out-of-range value themselves
				fits := false
				if g.Name() != "Atoi" && len(pc.Common().Args) == 3 {
					if bs, isK := an.IntConst(pc.Common().Args[2]); isK && bs > 0 && bs <= size(cv.Type()) {
						fits = true
					}
				}
				// or both bounds are tested on the way
				lo, hi := false, false
				for _, fct := range an.BranchFacts(cv.Block()) {
					cond, _ := an.Not(fct.Cond)
					if bo, isB := cond.(*ssa.BinOp); isB && (an.Strip(bo.X) == ssa.Value(ex) || an.Strip(bo.Y) == ssa.Value(ex)) {
						switch bo.Op {
						case token.LSS, token.LEQ, token.GTR, token.GEQ:
							k, isKx := an.IntConst(bo.X)
							if !isKx {
								k, _ = an.IntConst(bo.Y)
							}
							if k <= 0 {
								lo = true
							} else {
								hi = true
							}
						}
					}
				}
				R.Check(fits || lo && hi, "C17-addr-narrowing", fname(f)+": parsed number narrowed to "+cv.Type().String(), c.pos(cv), "the parse itself or a range test on the way bounds the value", "the result of strconv."+g.Name()+" is converted to "+cv.Type().String()+" without a range check: an out-of-range port in the address is silently truncated to another port, Run listens there instead of returning an error, and Ready() becomes true for an address nobody asked for")
			})
		}
		R.Count("C17-addr-narrowing/conversions", nN)
	}
	// C17-timeouts: "a connection attempt ... is served": a deadline armed at connection setup from a configured timeout
	// (now + d) is armed only when that timeout is configured (d != 0): with d == 0 the deadline is "now" and every read
	// (or write) on the connection fails at once, although Ready() is true
	{
		nT := 0
		sameDur := func(x, d ssa.Value) bool {
			if an.Strip(x) == an.Strip(d) {
				return true
			}
			_, nx := an.FieldChain(an.Strip(x))
			_, nd := an.FieldChain(an.Strip(d))
			return len(nx) > 0 && len(nd) > 0 && nx[len(nx)-1] == nd[len(nd)-1]
		}
		guarded := func(at ssa.Instruction, d ssa.Value) bool {
			return hasFact(at.Block(), true, func(v ssa.Value) bool {
				bo, ok := v.(*ssa.BinOp)
				if !ok {
					return false
				}
				x, k, op := bo.X, bo.Y, bo.Op
				if _, isK := an.IntConst(x); isK {
					x, k = bo.Y, bo.X
					op = map[token.Token]token.Token{token.LSS: token.GTR, token.GTR: token.LSS, token.NEQ: token.NEQ}[op]
				}
				kv, isK := an.IntConst(k)
				return isK && kv == 0 && (op == token.NEQ || op == token.GTR) && sameDur(x, d)
			})
		}
		// the duration added to "now" in the time argument of a Set*Deadline call
		durOf := func(t ssa.Value) ssa.Value {
			call, ok := an.Strip(t).(*ssa.Call)
			if !ok {
				return nil
			}
			g := call.Common().StaticCallee()
			if g == nil || an.FuncPkgPath(g) != "time" || g.Name() != "Add" || len(call.Common().Args) != 2 {
				return nil
			}
			return call.Common().Args[1]
		}
		for _, u := range c.socketUses() {
			if !strings.HasPrefix(u.Kind, "method:Set") || !strings.HasSuffix(u.Kind, "Deadline") {
				continue
			}
			ci, isCI := u.Instr.(ssa.CallInstruction)
			if !isCI || len(ci.Common().Args) == 0 {
				continue
			}
			d := durOf(ci.Common().Args[len(ci.Common().Args)-1])
			if d == nil {
				continue
			}
			f := u.Fn
			key := fname(f) + ": " + u.Kind[7:] + "(now + timeout) only when the timeout is configured"
			// where the duration comes from and where the guard has to be: here, or at the setup call sites of a helper
			type need struct {
				at ssa.Instruction
				d  ssa.Value
			}
			var needs []need
			if p, isP := an.Strip(d).(*ssa.Parameter); isP && p.Parent() == f {
				idx := -1
				for i, q := range f.Params {
					if q == p {
						idx = i
					}
				}
				for _, g := range shipped {
					for _, cs := range an.Calls(g) {
						if an.StaticCallee(cs.Common()) == f && isCall(cs) && idx >= 0 && idx < len(cs.Common().Args) && c.isConnSetup(cs, m) {
							needs = append(needs, need{cs, cs.Common().Args[idx]})
						}
					}
				}
			} else if c.isConnSetup(ci, m) {
				needs = append(needs, need{ci, d})
			}
			for _, nd := range needs {
				if k, isK := an.IntConst(nd.d); isK {
					nT++
					R.Check(k > 0, "C17-timeouts", key, c.pos(nd.at), "a positive constant", "the connection's deadline is armed at `now` (a zero duration) during connection setup: nothing can be read or written on it")
					continue
				}
				if _, names := an.FieldChain(an.Strip(nd.d)); len(names) == 0 {
					continue // not a configured timeout
				}
				nT++
				ok := guarded(nd.at, nd.d) || (nd.at != ssa.Instruction(ci) && guarded(ci, d))
				R.Check(ok, "C17-timeouts", key, c.pos(nd.at), "control-dependent on that timeout being non-zero", "the deadline is armed from "+an.Path(nd.d)+" without a test that this timeout is configured (non-zero): when it is not, the deadline is `now`, every read or write on the new connection fails at once, and no request is served although Ready() is true")
			}
		}
		R.Count("C17-timeouts/sites", nT)
	}
	// C17-getter
	ls := an.LockSets(ready, nil)
	for _, ret := range an.Returns(ready) {
		res := an.ReturnResults(ret)
		_ = res
		okLock := true
		nLoads := 0
		an.Instrs(ready, func(in ssa.Instruction) {
			ld, isLd := in.(*ssa.UnOp)
			if !isLd || ld.Op != token.MUL {
				return
			}
			fa, isF := ld.X.(*ssa.FieldAddr)
			if !isF || !an.TypeIs(fa.X.Type(), G, "Server") || an.FieldAddrName(fa) == "mu" {
				return
			}
			nLoads++
			if !ls[ld].Holds(an.Path(an.Strip(fa.X))+".mu", true) {
				okLock = false
			}
		})
		// a sync/atomic typed field read with Load() needs no lock
		for _, ci := range an.Calls(ready) {
			if _, ok := atomicLoadOf(ci.Common(), G, "Server"); ok {
				nLoads++
			}
		}
		R.Check(nLoads > 0 && okLock, "C17-getter", "(*Server).Ready reads its state under Server.mu", c.pos(ret), "fields read under the (read) lock", "Ready reads server state without holding Server.mu")
	}
	if readyFields["listenerReady"] {
		R.Floor("C17-who", 1)
	}
	R.Floor("C17-errors", 2)
	R.NotDecided = append(R.NotDecided, "that the kernel completes handshakes from the moment of bind", "name resolution inside validateAddrPort")
	// ---- C17-accept-retry: between Ready()==true and Stop the server keeps accepting: a temporary Accept error
	// must not end Run (whose deferred listener.Close would stop the listening while Ready() stays true)
	if errSucc, head, ok := c.acceptErrBranch(m); ok {
		c.checkAcceptRetry("C17-accept-retry", m, errSucc, head)
	} else {
		R.Unknown("C17-accept-retry", "(*Server).Run: accept error handling", c.pos(m.accept), "cannot find the err != nil test on Accept's error")
	}
}

func retKindListen(ret *ssa.Return, listen *ssa.Call) string {
	if an.InstrDominates(listen, ret) {
		return "listen failure"
	}
	return "address validation"
}

// ------------------------------------------------------------------ C18

func checkC18(c *Ctx) {
	R := c.R
	m := c.serverModel()
	if m == nil {
		return
	}
	// ---- C18-own-connection: "such attempts end only their own connection": a TLS handshake (or any read of the
	// accepted connection) performed by the accept loop itself lets one peer that connects and stays silent keep every
	// later client from being served (rule C07-accept-nonblocking, imported)
	if c.importRules(checkC07, func(o report.Obligation) bool { return o.Rule == "C07-accept-nonblocking" }, "C18-own-connection", " - a peer that never completes the handshake then holds up every other client, not only its own connection") > 0 {
		R.Floor("C18-own-connection", 1)
	}
	S := c.opts()
	run := m.run
	// opts := getConfigOpts(opt...)
	var getCall *ssa.Call
	for _, ci := range an.Calls(run) {
		if call, ok := ci.(*ssa.Call); ok {
			if g := S.Getters[call.Common().StaticCallee()]; g != nil && g.Struct == "configOptions" {
				getCall = call
			}
		}
	}
	if getCall == nil {
		R.Fail("C18-wrap", "(*Server).Run: options from getConfigOpts(opt...)", c.P.Pos(run.Pos()), "Run does not obtain its options through the canonical getConfigOpts")
		return
	}
	g := S.Getters[getCall.Common().StaticCallee()]
	last := run.Params[len(run.Params)-1]
	R.Check(g.OK && getCall.Common().Args[0] == ssa.Value(last), "C18-wrap", "(*Server).Run: options from getConfigOpts(opt...)", c.pos(getCall), "defaults ∘ caller's options, applied by the canonical loop", "getConfigOpts is not the canonical defaults+apply ("+g.Why+") or is not given Run's options")
	setters := S.settersOf("configOptions", "withTLSConfig")
	okSet := len(setters) == 1 && setters[0].OK && len(setters[0].Sets) == 1 && setters[0].Sets[0].Kind == "param" && !setters[0].Sets[0].Conditional
	R.Check(okSet, "C18-wrap", "WithTLSConfig stores its argument into configOptions.withTLSConfig", c.P.Pos(getCall.Common().StaticCallee().Pos()), "single unconditional setter: field = the *tls.Config the caller passed", "configOptions.withTLSConfig is not (only) the caller's WithTLSConfig argument")
	if _, has := g.Defaults["withTLSConfig"]; has {
		R.Fail("C18-wrap", "configOptions.withTLSConfig default is nil", c.P.Pos(g.Fn.Pos()), "a default TLS config is installed")
	}
	isCfgLoad := func(v ssa.Value) bool {
		// opts.withTLSConfig where opts is the getter's result (possibly spilled to a local)
		root, names := an.FieldChain(v)
		if len(names) != 1 || names[0] != "withTLSConfig" {
			return false
		}
		root = an.Strip(root)
		if root == ssa.Value(getCall) {
			return true
		}
		if al, ok := root.(*ssa.Alloc); ok {
			st, esc := an.CellStores(al)
			return !esc && len(st) == 1 && st[0].Val == ssa.Value(getCall)
		}
		return false
	}
	// local struct `opts` is an Alloc whose loads go through FieldAddr: handle "&t1.withTLSConfig" on Alloc t1 with *t1 = getCall
	isCfgLoad2 := func(v ssa.Value) bool {
		if isCfgLoad(v) {
			return true
		}
		u, ok := an.Strip(v).(*ssa.UnOp)
		if !ok || u.Op != token.MUL {
			return false
		}
		fa, ok := u.X.(*ssa.FieldAddr)
		if !ok || an.FieldAddrName(fa) != "withTLSConfig" {
			return false
		}
		al, ok := fa.X.(*ssa.Alloc)
		if !ok {
			return false
		}
		st, _ := an.CellStores(al)
		return len(st) == 1 && st[0].Val == ssa.Value(getCall)
	}
	// value is the configured config, directly or via s.tlsConfig stored from it
	var isCfg func(v ssa.Value, depth int) bool
	partOfRun := func(f *ssa.Function) bool {
		if f == run {
			return true
		}
		ok, _ := syncOnlyFrom(f, run, c.shippedFuncs(G), 0)
		return ok
	}
	isCfg = func(v ssa.Value, depth int) bool {
		if isCfgLoad2(v) {
			return true
		}
		// a private copy of the configured config: (*tls.Config).Clone() copies every policy field
		if cl, ok := an.Strip(v).(*ssa.Call); ok && depth <= 3 {
			if g := cl.Common().StaticCallee(); g != nil && an.FuncPkgPath(g) == "crypto/tls" && g.Name() == "Clone" && len(cl.Common().Args) == 1 {
				return isCfg(cl.Common().Args[0], depth+1)
			}
		}
		// parameter of a helper of Run with a single call site: the argument given there
		if p, ok := an.Strip(v).(*ssa.Parameter); ok {
			if a, ok := an.UniqueCallerArg[p]; ok && partOfRun(p.Parent()) {
				return isCfg(a, depth)
			}
		}
		if depth > 2 {
			return false
		}
		if _, ok := fieldLoad(v, G, "Server", "tlsConfig"); ok {
			ld := an.Strip(v).(ssa.Instruction)
			n := 0
			good := true
			for _, fs := range fieldStores(c.shippedFuncs(G), G, "Server", "tlsConfig") {
				n++
				if !partOfRun(fs.Fn) || !isCfg(fs.Store.Val, depth+1) || fs.Fn != ld.Parent() || !an.InstrDominates(fs.Store, ld) {
					good = false
				}
			}
			return n > 0 && good
		}
		return false
	}
	// the variable the accept loop takes its listener from: the field Server.listener, or a local of Run (a cell,
	// e.g. `ln`, captured by the deferred Close) - the rules below are about that variable
	var lcell *ssa.Alloc
	lname := "s.listener"
	if ld, isLd := an.Strip(m.accept.Common().Value).(*ssa.UnOp); isLd && ld.Op == token.MUL {
		if al, isAl := an.CellRoot(ld.X).(*ssa.Alloc); isAl && al.Parent() == run {
			if _, esc := an.CellStores(al); !esc {
				lcell = al
				lname = "Run's listener variable"
			}
		}
	}
	listenerStores := func(fns []*ssa.Function) []fieldStore {
		if lcell == nil {
			return fieldStores(fns, G, "Server", "listener")
		}
		var out []fieldStore
		sts, _ := an.CellStores(lcell)
		for _, st := range sts {
			out = append(out, fieldStore{st.Parent(), st, lcell})
		}
		return out
	}
	isListenerLoad := func(v ssa.Value) bool {
		if lcell == nil {
			_, ok := fieldLoad(v, G, "Server", "listener")
			return ok
		}
		ld, ok := an.Strip(v).(*ssa.UnOp)
		return ok && ld.Op == token.MUL && an.CellRoot(ld.X) == ssa.Value(lcell)
	}
	isListenerAddr := func(a ssa.Value) bool {
		if lcell == nil {
			_, ok := fieldAddr(a, G, "Server", "listener")
			return ok
		}
		return an.CellRoot(a) == ssa.Value(lcell)
	}
	var wrapStoreG *ssa.Store   // the store that installs the TLS listener
	var wrapAtG ssa.Instruction // where that happens in Run (the store or the helper call)
	{
		key := "(*Server).Run: TLS listener installed when configured"
		// the wrap happens in Run or in a helper that runs only as part of Run
		var wrapFns []*ssa.Function
		for _, f := range c.shippedFuncs(G) {
			if partOfRun(f) {
				wrapFns = append(wrapFns, f)
			}
		}
		var wrapStore *ssa.Store
		var wrapHelperCall *ssa.Call      // the call, in Run, of a helper that decides itself whether to wrap and returns the listener
		var wrapCallBlock *ssa.BasicBlock // where tls.NewListener is called, when that is not the store's block (phi form)
		for _, fs := range listenerStores(wrapFns) {
			call, ok := an.Strip(fs.Store.Val).(*ssa.Call)
			// the TLS listener built by a helper of Run: `s.listener, s.tlsConfig = newTLSListener(s.listener, cfg)`
			if hv := an.Strip(fs.Store.Val); true {
				var hc *ssa.Call
				idx := 0
				if ex, isEx := hv.(*ssa.Extract); isEx {
					hc, _ = ex.Tuple.(*ssa.Call)
					idx = ex.Index
				} else if ok && !an.CalleeIs(call.Common(), "crypto/tls", "NewListener") {
					hc = call
				}
				if hc != nil {
					if hf := an.StaticCallee(hc.Common()); hf != nil && an.InModule(hf) && len(hf.Blocks) > 0 && partOfRun(hf) {
						var inner *ssa.Call
						same := true
						condInHelper := false
						for _, ret := range an.Returns(hf) {
							res := an.ReturnResults(ret)
							if idx >= len(res) {
								same = false
								continue
							}
							ic, isC := an.Strip(res[idx]).(*ssa.Call)
							if phi, isPhi := an.Strip(res[idx]).(*ssa.Phi); isPhi && inner == nil {
								// `if cfg != nil { l = tls.NewListener(l, cfg) }; return l, nil`: one return, the listener a phi of
								// the plain listener and the TLS listener
								var pc *ssa.Call
								plain := true
								for _, e := range phi.Edges {
									ev := an.Strip(e)
									if ec, isEC := ev.(*ssa.Call); isEC && an.CalleeIs(ec.Common(), "crypto/tls", "NewListener") && pc == nil {
										pc = ec
										continue
									}
									_, isParam := ev.(*ssa.Parameter)
									isListen := false
									if ex, isEx := ev.(*ssa.Extract); isEx {
										if lc, isLC := ex.Tuple.(*ssa.Call); isLC && an.CalleeIs(lc.Common(), "net", "Listen") {
											isListen = true
										}
									}
									if !isParam && !isListen {
										plain = false
									}
								}
								if pc != nil && plain {
									inner = pc
									condInHelper = true
									continue
								}
							}
							if !isC || !an.CalleeIs(ic.Common(), "crypto/tls", "NewListener") || (inner != nil && inner != ic) {
								// the helper decides itself whether to wrap: its other returns hand back the plain listener
								// (its parameter, or the result of the Listen it made) or nothing at all on an error
								rv := an.Strip(res[idx])
								_, isParam := rv.(*ssa.Parameter)
								isListen := false
								if ex, isEx := rv.(*ssa.Extract); isEx {
									if lc, isLC := ex.Tuple.(*ssa.Call); isLC && an.CalleeIs(lc.Common(), "net", "Listen") {
										isListen = true
									}
								}
								if isParam || isListen || an.IsNilConst(rv) {
									condInHelper = true
									continue
								}
								same = false
								continue
							}
							inner = ic
						}
						if same && inner != nil {
							call, ok = inner, true
							if condInHelper {
								wrapCallBlock = inner.Block()
								wrapHelperCall = hc
							}
						}
					}
				}
			}
			if !ok {
				// `ln := listen(); if cfg != nil { ln = tls.NewListener(ln, cfg) }; s.listener = ln`: the stored value is
				// a phi of the plain listener and the TLS listener
				if phi, isPhi := an.Strip(fs.Store.Val).(*ssa.Phi); isPhi {
					for _, e := range phi.Edges {
						if ec, isC := an.Strip(e).(*ssa.Call); isC && an.CalleeIs(ec.Common(), "crypto/tls", "NewListener") {
							call, ok = ec, true
							wrapCallBlock = ec.Block()
						}
					}
				}
			}
			if !ok {
				// the same with the local kept in a variable cell (it is captured by the deferred Close): the stored value
				// is a load of the cell, one of whose assignments is the TLS listener
				if ld, isLd := fs.Store.Val.(*ssa.UnOp); isLd && ld.Op == token.MUL {
					if al, isAl := an.CellRoot(ld.X).(*ssa.Alloc); isAl && al.Parent() == fs.Store.Parent() {
						sts, _ := an.CellStores(al)
						for _, cs := range sts {
							if ec, isC := an.Strip(cs.Val).(*ssa.Call); isC && an.CalleeIs(ec.Common(), "crypto/tls", "NewListener") && an.InstrDominates(cs, fs.Store) == false && an.Search(an.After(cs), isInstr(fs.Store), nil) != nil || isC && an.CalleeIs(ec.Common(), "crypto/tls", "NewListener") && an.InstrDominates(cs, fs.Store) {
								call, ok = ec, true
								wrapCallBlock = ec.Block()
							}
						}
					}
				}
			}
			if ok && an.CalleeIs(call.Common(), "crypto/tls", "NewListener") {
				if wrapStore != nil {
					R.Fail("C18-wrap", "(*Server).Run: single TLS wrap", c.pos(fs.Store), "listener wrapped twice")
				}
				wrapStore = fs.Store
				inner := call.Common().Args[0]
				innerOK := isListenerLoad(inner) || isListenerLoad(an.StripX(inner))
				if ex, isEx := an.Strip(inner).(*ssa.Extract); isEx {
					if lc, ok := ex.Tuple.(*ssa.Call); ok && an.CalleeIs(lc.Common(), "net", "Listen") {
						innerOK = true
					}
				}
				cfgOK := isCfg(call.Common().Args[1], 0)
				// the listener's config is the caller's (or a Clone of it) as configured: nothing that runs as part of Run
				// assigns a field of a tls.Config or calls one of its mutating methods (SetSessionTicketKeys, ...)
				for _, wf := range wrapFns {
					an.Instrs(wf, func(in ssa.Instruction) {
						switch x := in.(type) {
						case *ssa.Store:
							if fa, isFA := x.Addr.(*ssa.FieldAddr); isFA && an.TypeIs(fa.X.Type(), "crypto/tls", "Config") {
								R.Fail("C18-wrap", "(*Server).Run: the TLS configuration is used as configured", c.pos(in), "tls.Config."+an.FieldAddrName(fa)+" is assigned while the server starts: the listener no longer enforces exactly the configuration Run was given (a changed copy can, for instance, accept resumed sessions the configured policy never admitted)")
							}
						case ssa.CallInstruction:
							if g := x.Common().StaticCallee(); g != nil && an.FuncPkgPath(g) == "crypto/tls" && g.Signature.Recv() != nil && an.TypeIs(g.Signature.Recv().Type(), "crypto/tls", "Config") && g.Name() != "Clone" {
								R.Fail("C18-wrap", "(*Server).Run: the TLS configuration is used as configured", c.pos(in), "(*tls.Config)."+g.Name()+" is called while the server starts: the listener no longer enforces exactly the configuration Run was given (shared session-ticket keys, for instance, let a client resume a session that another listener's policy admitted)")
							}
						}
					})
				}
				R.Check(innerOK && cfgOK, "C18-wrap", "(*Server).Run: tls.NewListener(plain listener, configured tls.Config)", c.pos(call), "wraps "+lname+" with exactly the WithTLSConfig value", sprintf("TLS listener is not built from the plain listener and the caller's config (listener=%v config=%v: %s)", innerOK, cfgOK, an.Path(call.Common().Args[1])))
			}
		}
		// tests of "a TLS config was given": nil checks of the configured value, in Run or in a helper (on the
		// parameter that receives it)
		type cfgTest struct {
			fn      *ssa.Function
			iff     *ssa.If
			withTLS *ssa.BasicBlock // successor taken when a config was given
		}
		var tests []cfgTest
		for _, f := range wrapFns {
			for _, g := range ifsOn(f, func(v ssa.Value) bool {
				x, _, ok := an.NilCheck(v)
				return ok && isCfg(x, 0)
			}) {
				v, _ := an.Not(g.If.Cond)
				_, trueMeansNil, _ := an.NilCheck(v)
				tests = append(tests, cfgTest{f, g.If, succOn(g.If, trueMeansNil == g.Neg)})
			}
		}
		switch {
		case wrapStore == nil:
			R.Fail("C18-wrap", key, c.pos(m.accept), "no store of tls.NewListener(...) into "+lname)
		default:
			h := wrapStore.Parent()
			// where, in Run, the TLS listener gets installed
			var wrapAt ssa.Instruction = wrapStore
			if h != run {
				wrapAt = nil
				for _, ci := range an.Calls(run) {
					if an.StaticCallee(ci.Common()) == h && isCall(ci) {
						wrapAt = ci
					}
				}
			}
			wrapStoreG, wrapAtG = wrapStore, wrapAt
			// the test that guards the wrap: in the wrap's own function its "configured" side dominates the store; or, for
			// a wrap in a helper, a test in Run whose "configured" side dominates the helper call
			var gd *cfgTest
			guarded := wrapStore.Block()
			if wrapCallBlock != nil {
				guarded = wrapCallBlock
			}
			for i := range tests {
				t := &tests[i]
				if t.fn == guarded.Parent() && t.withTLS.Dominates(guarded) {
					gd = t
				}
			}
			crossFn := guarded.Parent() != h
			if gd != nil && crossFn {
				// the helper decides: with a config every path of the helper to a return passes the tls.NewListener call
				inCallBlock := func(in ssa.Instruction) bool { return in.Block() == wrapCallBlock }
				if w := an.Search(an.Point{B: gd.withTLS, I: 0}, an.IsReturn, inCallBlock); w != nil {
					R.Fail("C18-wrap", key, c.pos(wrapStore), "with a TLS config a path of "+fname(guarded.Parent())+" returns the listener without wrapping it: "+c.trail(w))
				}
			}
			// phi form: with a config, the value that reaches the store is the TLS listener (every path from the
			// "configured" side to the store passes the tls.NewListener call)
			if gd != nil && wrapCallBlock != nil && !crossFn {
				inCallBlock := func(in ssa.Instruction) bool { return in.Block() == wrapCallBlock }
				if w := an.Search(an.Point{B: gd.withTLS, I: 0}, isInstr(wrapStore), inCallBlock); w != nil {
					R.Fail("C18-wrap", key, c.pos(wrapStore), "with a TLS config a path stores the listener without wrapping it: "+c.trail(w))
				}
			}
			if gd == nil && h != run && wrapAt != nil {
				for i := range tests {
					t := &tests[i]
					if t.fn == run && t.withTLS.Dominates(wrapAt.Block()) {
						gd = t
					}
				}
			}
			switch {
			case wrapAt == nil:
				R.Fail("C18-wrap", key, c.pos(wrapStore), fname(h)+", which installs the TLS listener, is not called by Run")
			case gd == nil:
				R.Fail("C18-wrap", key, c.pos(wrapStore), "the TLS wrap is not guarded by a test of the configured tls.Config")
			default:
				bad := ""
				if crossFn && wrapHelperCall != nil {
					// the helper tests the config and returns the listener to use; Run calls it on every path to Accept and
					// installs what it returned - unconditionally, or unless the helper's own bool result says "not wrapped"
					hf := guarded.Parent()
					if w := an.SearchCorr(an.Entry(run), isInstr(m.accept), isInstr(wrapHelperCall), nil); w != nil {
						bad = "a path reaches Accept without calling " + fname(hf) + ": " + c.trail(w)
					} else if w := an.SearchCorr(an.After(wrapHelperCall), isInstr(m.accept), isInstr(wrapStore), nil); w != nil {
						// allowed when skipped only under "the helper reported false", and the helper reports true exactly
						// where it returns the TLS listener
						okSkip := false
						if refs := wrapHelperCall.Referrers(); refs != nil {
							for _, ref := range *refs {
								ex, isEx := ref.(*ssa.Extract)
								if !isEx {
									continue
								}
								if bt, isB := ex.Type().Underlying().(*types.Basic); !isB || bt.Kind() != types.Bool {
									continue
								}
								pairs := true
								for _, ret := range an.Returns(hf) {
									res := an.ReturnResults(ret)
									b, isC := an.BoolConst(res[ex.Index])
									_, isWrap := an.Strip(res[0]).(*ssa.Call)
									if !isC || b != isWrap {
										pairs = false
									}
								}
								k, kneg := an.CondKey(ex)
								if pairs && an.SearchKnown(an.After(wrapHelperCall), isInstr(m.accept), isInstr(wrapStore), map[string]bool{k: !kneg}) == nil {
									okSkip = true
								}
							}
						}
						if !okSkip {
							bad = "Run can reach Accept without installing the listener " + fname(hf) + " returned: " + c.trail(w)
						}
					}
				} else if gd.fn == run {
					// guard in Run: with a config every path to Accept installs the listener; every path to Accept is tested
					if w := an.SearchCorr(an.Point{B: gd.withTLS, I: 0}, isInstr(m.accept), isInstr(wrapAt), nil); w != nil {
						bad = "with a TLS config a path reaches Accept without installing the TLS listener: " + c.trail(w)
					} else if an.SearchCorr(an.Entry(run), isInstr(m.accept), isInstr(gd.iff), nil) != nil {
						bad = "a path reaches Accept without testing for a TLS config"
					}
					if h != run && bad == "" && an.Search(an.Entry(h), an.IsReturn, isInstr(wrapStore)) != nil {
						bad = fname(h) + " can return without installing the TLS listener"
					}
				} else {
					// guard inside the helper: Run calls the helper on every path to Accept, and inside it the
					// "configured" side always installs the listener
					if w := an.SearchCorr(an.Entry(run), isInstr(m.accept), isInstr(wrapAt), nil); w != nil {
						bad = "a path reaches Accept without calling " + fname(h) + ": " + c.trail(w)
					} else if w := an.Search(an.Point{B: gd.withTLS, I: 0}, an.IsReturn, isInstr(wrapStore)); w != nil {
						bad = fname(h) + " can return without installing the TLS listener although a config was given: " + c.trail(w)
					} else if an.Search(an.Entry(h), an.IsReturn, isInstr(gd.iff)) != nil && an.Search(an.Entry(h), isInstr(wrapStore), isInstr(gd.iff)) != nil {
						bad = fname(h) + " can install a TLS listener without testing the config"
					}
				}
				if bad != "" {
					R.Fail("C18-wrap", key, c.pos(wrapStore), bad)
				} else {
					R.OK("C18-wrap", key, c.pos(wrapStore), "every path with a TLS config stores tls.NewListener(listener, config) into "+lname+" before the first Accept")
				}
				// never replaced afterwards
				later := func(in ssa.Instruction) bool {
					st, ok := in.(*ssa.Store)
					if !ok {
						return false
					}
					return isListenerAddr(st.Addr)
				}
				if w := an.Search(an.After(wrapAt), later, nil); w != nil {
					R.Fail("C18-wrap", "(*Server).Run: TLS listener not replaced", c.pos(wrapStore), lname+" is assigned again after the TLS wrap: "+c.trail(w))
				} else {
					R.OK("C18-wrap", "(*Server).Run: TLS listener not replaced", c.pos(wrapStore), "no later store to "+lname)
				}
			}
		}
	}
	// stores to the listener variable elsewhere
	for _, fs := range listenerStores(c.shippedFuncs(G)) {
		if fs.Fn == run {
			continue
		}
		// a helper that runs only as a synchronous part of Run: either the one that installs the TLS listener (judged
		// above), or one that runs only before the TLS listener is installed (e.g. the listen itself)
		okHelper := false
		if ok, _ := syncOnlyFrom(fs.Fn, run, c.shippedFuncs(G), 0); ok {
			okHelper = true
			for _, ci := range an.Calls(run) {
				if an.StaticCallee(ci.Common()) != fs.Fn {
					continue
				}
				if an.Search(an.After(ci), isInstr(ci), nil) != nil {
					okHelper = false // re-entered (in a loop)
				}
				if fs.Store == wrapStoreG {
					continue
				}
				if wrapAtG != nil && an.Search(an.After(wrapAtG), isInstr(ci), nil) != nil {
					okHelper = false // replaces the listener after the TLS wrap
				}
			}
		}
		R.Check(okHelper, "C18-wrap", fname(fs.Fn)+": store Server.listener", c.pos(fs.Store), "part of Run, executed before Run installs the TLS listener", "the listener is replaced outside Run")
	}
	// Accept on s.listener
	okAcc := isListenerLoad(m.accept.Common().Value)
	if okAcc && wrapAtG != nil {
		// the listener value Accept uses is read after the TLS listener was installed (a copy taken earlier would
		// still be the plain listener)
		if ld, isLd := an.Strip(m.accept.Common().Value).(*ssa.UnOp); isLd {
			if an.Search(an.After(ld), isInstr(wrapAtG), nil) != nil {
				okAcc = false
			}
		}
	}
	R.Check(okAcc, "C18-wrap", "(*Server).Run: Accept on s.listener", c.pos(m.accept), "the accept loop uses the (possibly TLS) listener held in "+lname+", read after the TLS wrap", "Accept is called on "+an.Path(m.accept.Common().Value)+", not on "+lname+" as it is after the TLS wrap")

	// ---- C18-noplain
	sock := an.Strip(m.newConn.Common().Args[2])
	ex, isEx := sock.(*ssa.Extract)
	R.Check(isEx && ex.Tuple == ssa.Value(m.accept) && ex.Index == 0, "C18-noplain", "(*Server).Run: newConn gets the accepted connection itself", c.pos(m.newConn), "the (TLS) connection returned by Accept is what the read loop reads from", "newConn receives "+an.Path(m.newConn.Common().Args[2])+" instead of Accept's result")
	c.checkSocketDiscipline("C18-noplain")
	c.checkStreamProvenance("C18-noplain", m)
	c.checkReadErrorsEndConnection("C18-noplain", m)

	// ---- C18-directory
	c.checkDirectoryTLS()
	R.NotDecided = append(R.NotDecided, "crypto/tls enforcing the configured policy during the handshake")
}

// checkReadErrorsEndConnection: every error of readRequest leads serveRequests to return (no continue).
func (c *Ctx) checkReadErrorsEndConnection(rule string, m *serverModel) {
	R := c.R
	// err of readRequest
	var errIfs []errNilIf
	for _, r := range *m.readReq.Referrers() {
		if ex, isEx := r.(*ssa.Extract); isEx && ex.Index == 1 {
			errIfs = append(errIfs, errNilIfs(m.serve, ex)...)
		}
	}
	if len(errIfs) != 1 {
		R.Unknown(rule, "(*conn).serveRequests: read error ends the connection", c.pos(m.readReq), sprintf("expected one err != nil test on readRequest's error, found %d", len(errIfs)))
		return
	}
	g := errIfs[0]
	errSucc := g.ErrSucc
	okSucc := g.NilSucc
	bad := or(inBlock(m.loopHead), isInstr(m.readReq), callPred(isMuxServe), callPred(isHandlerInvoke), func(in ssa.Instruction) bool { _, ok := in.(*ssa.Go); return ok })
	if w := an.Search(an.Point{B: errSucc, I: 0}, bad, nil); w != nil {
		R.Fail(rule, "(*conn).serveRequests: read error ends the connection", c.pos(g.If), "after a failed read/decode (e.g. failed TLS handshake, plaintext on a TLS port) the loop can continue or dispatch: "+c.trail(w))
	} else {
		R.OK(rule, "(*conn).serveRequests: read error ends the connection", c.pos(g.If), "from the err != nil edge every path returns from serveRequests without dispatching")
	}
	// dispatch only on the ok edge
	for _, ci := range an.Calls(m.serve) {
		cc := ci.Common()
		if isMuxServe(cc) || isHandlerInvoke(cc) || (isGo(ci) && goTarget(ci.(*ssa.Go)) == m.reqFn) {
			R.Check(okSucc.Dominates(ci.Block()), rule, "(*conn).serveRequests: dispatch only after a successful read", c.pos(ci), "dominated by readRequest's err == nil edge", "a dispatch site is reachable without a successfully decoded request")
		}
	}
}

func (c *Ctx) checkDirectoryTLS() {
	R := c.R
	getTLS := c.fn(TD, "GetTLSConfig")
	start := c.fn(TD, "Start")
	if getTLS == nil || start == nil {
		return
	}
	// the client-authentication policy of a tls.Config is fixed when the config is built: a later assignment through
	// any alias of a config that may be the one given to Run changes what the listener enforces at its next handshake
	{
		policy := map[string]bool{"ClientAuth": true, "ClientCAs": true, "VerifyPeerCertificate": true, "VerifyConnection": true, "GetConfigForClient": true, "InsecureSkipVerify": true}
		n := 0
		for _, f := range c.shippedFuncs(G, TD) {
			an.Instrs(f, func(in ssa.Instruction) {
				st, ok := in.(*ssa.Store)
				if !ok {
					return
				}
				fa, ok := st.Addr.(*ssa.FieldAddr)
				if !ok || !an.TypeIs(fa.X.Type(), "crypto/tls", "Config") || !policy[an.FieldAddrName(fa)] {
					return
				}
				n++
				base := an.Strip(fa.X)
				fresh := false
				switch b := base.(type) {
				case *ssa.Alloc:
					fresh = true // a config literal being built
				case *ssa.Call:
					if g := b.Common().StaticCallee(); g != nil && an.FuncPkgPath(g) == "crypto/tls" && g.Name() == "Clone" {
						fresh = true // a private copy
					}
				}
				R.Check(fresh, "C18-directory", fname(f)+": tls.Config."+an.FieldAddrName(fa)+" assigned only while the config is built", c.pos(st), "assignment to a config literal (or a Clone) under construction", "tls.Config."+an.FieldAddrName(fa)+" is assigned through "+an.Path(fa.X)+", a config that already exists and may be the one the TLS listener uses: the client-certificate policy enforced by the listener changes at run time")
			})
		}
		R.Count("C18-directory/policy-stores", n)
	}
	// the server config: first result of GetTLSConfig
	rets := an.Returns(getTLS)
	if len(rets) == 0 {
		R.Unknown("C18-directory", "GetTLSConfig: returns", c.P.Pos(getTLS.Pos()), "no return")
		return
	}
	srv := an.Strip(an.ReturnResults(rets[0])[0])
	for _, ret := range rets[1:] {
		if an.Strip(an.ReturnResults(ret)[0]) != srv {
			R.Unknown("C18-directory", "GetTLSConfig: one server config", c.pos(ret), "different returns hand out different server configs")
			return
		}
	}
	srvAlloc, ok := srv.(*ssa.Alloc)
	if !ok || !an.TypeIs(srvAlloc.Type(), "crypto/tls", "Config") {
		R.Unknown("C18-directory", "GetTLSConfig: server config literal", c.pos(rets[0]), "server config is not a local &tls.Config{...}")
		return
	}
	// with-mTLS condition: opts.withMTLS
	isMTLS := func(v ssa.Value) bool {
		_, names := an.FieldChain(v)
		return len(names) >= 1 && names[len(names)-1] == "withMTLS"
	}
	var clientAuth, clientCAs *ssa.Store
	var auths []*ssa.Store
	an.Instrs(getTLS, func(in ssa.Instruction) {
		st, ok := in.(*ssa.Store)
		if !ok {
			return
		}
		fa, ok := st.Addr.(*ssa.FieldAddr)
		if !ok || an.Strip(fa.X) != ssa.Value(srvAlloc) {
			return
		}
		switch an.FieldAddrName(fa) {
		case "ClientAuth":
			auths = append(auths, st)
		case "ClientCAs":
			clientCAs = st
		case "Certificates", "MinVersion", "MaxVersion", "NextProtos", "ServerName", "CipherSuites":
		case "InsecureSkipVerify", "VerifyPeerCertificate", "VerifyConnection", "GetConfigForClient", "GetCertificate":
			R.Fail("C18-directory", "GetTLSConfig: server config sets "+an.FieldAddrName(fa), c.pos(st), "the server TLS config overrides certificate verification")
		default:
			R.Unknown("C18-directory", "GetTLSConfig: server config sets "+an.FieldAddrName(fa), c.pos(st), "unexpected field of the server tls.Config is set; cannot show it does not weaken client verification")
		}
	})
	// several assignments of ClientAuth (a default in the literal, the mTLS value later): the one that counts is the
	// one no other assignment can follow
	{
		var last []*ssa.Store
		for _, st := range auths {
			isOther := func(in ssa.Instruction) bool {
				for _, o := range auths {
					if o != st && ssa.Instruction(o) == in {
						return true
					}
				}
				return false
			}
			if an.Search(an.After(st), isOther, nil) == nil {
				last = append(last, st)
			}
		}
		switch {
		case len(last) == 1:
			clientAuth = last[0]
		case len(auths) > 0:
			R.Fail("C18-directory", "GetTLSConfig: ClientAuth set once", c.pos(auths[len(auths)-1]), "ClientAuth is assigned in several places and no assignment is the last one on every path")
			clientAuth = auths[len(auths)-1]
		}
	}
	// server config must not be passed to a function that could modify it
	for _, r := range *srvAlloc.Referrers() {
		if ci, ok := r.(ssa.CallInstruction); ok {
			R.Unknown("C18-directory", "GetTLSConfig: server config escapes", c.pos(ci), "server config passed to a call before being returned")
		}
	}
	reqConst, okc := c.P.ConstInt("crypto/tls", "RequireAndVerifyClientCert")
	if !okc {
		R.Fatal("crypto/tls.RequireAndVerifyClientCert not found")
		return
	}
	if clientAuth == nil || clientCAs == nil {
		R.Fail("C18-directory", "GetTLSConfig: WithMTLS requires and verifies client certificates", c.P.Pos(getTLS.Pos()), "ClientAuth / ClientCAs are not set on the server config")
		return
	}
	// the value a store writes when withMTLS is set: the stored value itself when the store is under the withMTLS
	// branch, or - for a value chosen earlier (`clientAuth := NoClientCert; if withMTLS { clientAuth = Require... }`) -
	// the phi operand coming from the withMTLS branch
	underMTLS := func(st *ssa.Store) (val ssa.Value, always bool, ok bool) {
		if hasFact(st.Block(), true, isMTLS) {
			return st.Val, false, true
		}
		phi, isPhi := st.Val.(*ssa.Phi)
		if !isPhi {
			return st.Val, true, false
		}
		var mv ssa.Value
		for i, p := range phi.Block().Preds {
			if hasFact(p, true, isMTLS) {
				if mv != nil && mv != phi.Edges[i] {
					return nil, true, false
				}
				mv = phi.Edges[i]
			}
		}
		return mv, true, mv != nil
	}
	authVal, authAlways, okA := underMTLS(clientAuth)
	casVal, casAlways, okC := underMTLS(clientCAs)
	k, isK := int64(0), false
	if okA {
		k, isK = an.IntConst(authVal)
	}
	R.Check(okA && isK && k == reqConst, "C18-directory", "GetTLSConfig: ClientAuth = RequireAndVerifyClientCert", c.pos(clientAuth), "constant tls.RequireAndVerifyClientCert when WithMTLS is given", sprintf("ClientAuth is %s, not RequireAndVerifyClientCert: clients without a valid certificate are admitted", an.Path(clientAuth.Val)))
	// every path with withMTLS reaches both stores before return
	mIfs := ifsOn(getTLS, isMTLS)
	reach := len(mIfs) >= 1
	for _, st := range []*ssa.Store{clientAuth, clientCAs} {
		always := authAlways
		if st == clientCAs {
			always = casAlways
		}
		if always {
			// unconditional store: on every path to a return
			if an.Search(an.Entry(getTLS), an.IsReturn, isInstr(st)) != nil {
				reach = false
			}
			continue
		}
		okOne := false
		for _, mi := range mIfs {
			withM := succOn(mi.If, !mi.Neg)
			if withM.Dominates(st.Block()) && an.Search(an.Point{B: withM, I: 0}, an.IsReturn, isInstr(st)) == nil && an.Search(an.Entry(getTLS), an.IsReturn, isInstr(mi.If)) == nil {
				okOne = true
			}
		}
		if !okOne {
			reach = false
		}
	}
	R.Check(okA && okC && reach, "C18-directory", "GetTLSConfig: WithMTLS always installs the client-cert policy", c.pos(clientAuth), "both stores are executed on every path where withMTLS is set", "with WithMTLS a path returns the server config without ClientAuth/ClientCAs")
	// ClientCAs = pool filled from the CA generated here
	pool := an.Strip(clientCAs.Val)
	if okC {
		pool = an.Strip(casVal)
	}
	pc, isCall := pool.(*ssa.Call)
	okPool := isCall && an.CalleeIs(pc.Common(), "crypto/x509", "NewCertPool")
	okFilled := false
	if okPool {
		for _, r := range *pc.Referrers() {
			ci, ok := r.(*ssa.Call)
			if !ok {
				continue
			}
			if f := ci.Common().StaticCallee(); f != nil && an.FuncPkgPath(f) == "crypto/x509" && (f.Name() == "AppendCertsFromPEM" || f.Name() == "AddCert") {
				// argument derives from caPEM which was encoded from caBytes = x509.CreateCertificate(..., ca, ca, ...)
				if derivesFromSelfSignedCA(ci.Common().Args[1], getTLS) && an.InstrDominates(ci, clientCAs) {
					okFilled = true
				}
			}
		}
	}
	R.Check(okPool && okFilled, "C18-directory", "GetTLSConfig: ClientCAs = pool of the CA generated in this call", c.pos(clientCAs), "x509.NewCertPool() filled from the PEM of the self-signed CA created above", "ClientCAs is not (only) the CA generated for this directory")
	// the certificates the directory's CA issues (server, mTLS client) are leaves: a certificate with IsCA set is a
	// sub-CA, and whoever holds its key can mint client certificates "issued by the configured CA" at will
	{
		var isCAOf func(v ssa.Value, bind map[*ssa.Parameter]ssa.Value, depth int) (bool, bool)
		isCAOf = func(v ssa.Value, bind map[*ssa.Parameter]ssa.Value, depth int) (val bool, known bool) {
			v = an.Strip(v)
			if depth > 3 {
				return false, false
			}
			switch x := v.(type) {
			case *ssa.Alloc:
				if !an.TypeIs(x.Type(), "crypto/x509", "Certificate") {
					return false, false
				}
				val, known = false, true
				for _, f := range an.WithClosures(x.Parent()) {
					an.Instrs(f, func(in ssa.Instruction) {
						st, ok := in.(*ssa.Store)
						if !ok {
							return
						}
						fa, ok := st.Addr.(*ssa.FieldAddr)
						if !ok || an.FieldAddrName(fa) != "IsCA" || an.Strip(fa.X) != ssa.Value(x) {
							return
						}
						sv := an.Strip(st.Val)
						if p, isP := sv.(*ssa.Parameter); isP && bind[p] != nil {
							sv = an.Strip(bind[p])
						}
						if b, isC := an.BoolConst(sv); isC {
							val = val || b
						} else {
							known = false
						}
					})
				}
				return val, known
			case *ssa.Call:
				g := x.Common().StaticCallee()
				if g == nil || !an.InModule(g) || len(g.Blocks) == 0 {
					return false, false
				}
				b2 := map[*ssa.Parameter]ssa.Value{}
				for i, p := range g.Params {
					if i < len(x.Common().Args) {
						b2[p] = x.Common().Args[i]
					}
				}
				val, known = false, true
				for _, ret := range an.Returns(g) {
					res := an.ReturnResults(ret)
					if len(res) == 0 {
						return false, false
					}
					rv, rk := isCAOf(res[0], b2, depth+1)
					if !rk {
						known = false
					}
					val = val || rv
				}
				return val, known
			}
			return false, false
		}
		nLeaf := 0
		for _, f := range c.shippedFuncs(TD) {
			for _, ci := range an.Calls(f) {
				if !an.CalleeIs(ci.Common(), TD, "genCert") || len(ci.Common().Args) < 4 {
					continue
				}
				nLeaf++
				key := fname(f) + ": certificate issued by the directory's CA is a leaf"
				isCA, known := isCAOf(ci.Common().Args[3], nil, 0)
				switch {
				case !known:
					R.Unknown("C18-directory", key, c.pos(ci), "cannot tell whether the certificate template handed to genCert has IsCA set")
				case isCA:
					R.Fail("C18-directory", key, c.pos(ci), "the template handed to genCert has IsCA set: the issued certificate is a sub-CA, and whoever holds its key can issue client certificates that chain to the configured CA - clients the CA never issued a certificate to pass RequireAndVerifyClientCert")
				default:
					R.OK("C18-directory", key, c.pos(ci), "IsCA is not set on the template")
				}
			}
		}
		R.Count("C18-directory/issued-certificates", nLeaf)
	}
	// Start: unless withNoTLS, Run gets WithTLSConfig(d.server) and d.server = GetTLSConfig()#0
	S := c.opts()
	var runCall ssa.CallInstruction
	for _, f := range an.WithClosures(start) {
		for _, ci := range an.Calls(f) {
			if an.CalleeIs(ci.Common(), G, "(*Server).Run") {
				runCall = ci
			}
		}
	}
	if runCall == nil {
		R.Fail("C18-directory", "testdirectory.Start: Run(..., connOpts...)", c.P.Pos(start.Pos()), "Start does not call Server.Run")
		return
	}
	optsArg := an.Strip(runCall.Common().Args[2])
	// connOpts is a slice variable appended to under !withNoTLS
	okStart := false
	detail := "options passed to Run: " + an.Path(optsArg)
	// find append(connOpts, WithTLSConfig(d.server)) feeding optsArg
	var findAppend func(v ssa.Value, depth int) *ssa.Call
	findAppend = func(v ssa.Value, depth int) *ssa.Call {
		if depth > 6 {
			return nil
		}
		switch x := v.(type) {
		case *ssa.Phi:
			for _, e := range x.Edges {
				if r := findAppend(e, depth+1); r != nil {
					return r
				}
			}
		case *ssa.Call:
			if b, ok := x.Common().Value.(*ssa.Builtin); ok && b.Name() == "append" {
				return x
			}
		case *ssa.UnOp:
			if x.Op == token.MUL {
				stores, _ := an.CellStores(x.X)
				for _, st := range stores {
					if r := findAppend(st.Val, depth+1); r != nil {
						return r
					}
				}
			}
		}
		return nil
	}
	var rawOpts ssa.Value = runCall.Common().Args[2]
	// every append that can feed the options (`if !noTLS {append}`; or one append per arm of a switch)
	var allAppends []*ssa.Call
	{
		seenV := map[ssa.Value]bool{}
		var collect func(v ssa.Value, depth int)
		collect = func(v ssa.Value, depth int) {
			if v == nil || depth > 8 || seenV[v] {
				return
			}
			seenV[v] = true
			switch x := v.(type) {
			case *ssa.Phi:
				for _, e := range x.Edges {
					collect(e, depth+1)
				}
			case *ssa.Call:
				if b, ok := x.Common().Value.(*ssa.Builtin); ok && b.Name() == "append" {
					allAppends = append(allAppends, x)
					collect(x.Common().Args[0], depth+1)
				}
			case *ssa.UnOp:
				if x.Op == token.MUL {
					stores, _ := an.CellStores(x.X)
					for _, st := range stores {
						collect(st.Val, depth+1)
					}
				}
			}
		}
		collect(rawOpts, 0)
	}
	isTLSAppend := func(in ssa.Instruction) bool {
		for _, a := range allAppends {
			if ssa.Instruction(a) == in {
				return true
			}
		}
		return false
	}
	if ap := findAppend(rawOpts, 0); ap != nil {
		if list, ok := S.variadicOptions(ap.Common().Args[1]); ok && len(list) == 1 && list[0].Ctor.Fn.Name() == "WithTLSConfig" && an.FuncPkgPath(list[0].Ctor.Fn) == G {
			cfg := list[0].Args[0]
			// the config comes from a field of the Directory (d.server on the pinned tree; whatever its name)
			cfgField := ""
			if ld, isLd := an.Strip(cfg).(*ssa.UnOp); isLd && ld.Op == token.MUL {
				if fa, isFA := ld.X.(*ssa.FieldAddr); isFA && an.TypeIs(fa.X.Type(), TD, "Directory") {
					cfgField = an.FieldAddrName(fa)
				}
			}
			if cfgField != "" {
				// d.server = serverTLSConfig = GetTLSConfig(...)#0
				good := false
				for _, fs := range fieldStores([]*ssa.Function{start}, TD, "Directory", cfgField) {
					if e, ok := an.Strip(fs.Store.Val).(*ssa.Extract); ok && e.Index == 0 {
						if gc, ok := e.Tuple.(*ssa.Call); ok && an.CalleeIs(gc.Common(), TD, "GetTLSConfig") && an.InstrDominates(fs.Store, ap) {
							// GetTLSConfig gets Start's own options (so WithMTLS is honoured)
							if gc.Common().Args[len(gc.Common().Args)-1] == ssa.Value(start.Params[len(start.Params)-1]) {
								good = true
							}
						}
					}
				}
				// the append is under !withNoTLS and the only alternative is withNoTLS
				noTLS := func(v ssa.Value) bool {
					_, names := an.FieldChain(v)
					return len(names) >= 1 && names[len(names)-1] == "withNoTLS"
				}
				// the test may be on withNoTLS itself or on a field of the new Directory that Start set from it
				// just before (d.useTLS = !opts.withNoTLS; if d.useTLS {...})
				resolve := func(v ssa.Value) (ssa.Value, bool) {
					neg := false
					for i := 0; i < 4; i++ {
						inner, n := an.Not(v)
						if n {
							neg = !neg
						}
						v = inner
						ld, ok := v.(*ssa.UnOp)
						if !ok || ld.Op != token.MUL {
							break
						}
						fa, ok := ld.X.(*ssa.FieldAddr)
						if !ok || !an.TypeIs(fa.X.Type(), TD, "Directory") {
							break
						}
						fss := fieldStores(c.shippedFuncs(TD), TD, "Directory", an.FieldAddrName(fa))
						if len(fss) != 1 || fss[0].Fn != start || !an.InstrDominates(fss[0].Store, ld) {
							break
						}
						if _, fresh := an.Strip(fa.X).(*ssa.Alloc); !fresh {
							break
						}
						v = fss[0].Store.Val
					}
					return v, neg
				}
				noTLSFact := func(b *ssa.BasicBlock) bool { // b is reached only with withNoTLS == false
					for _, fct := range an.BranchFacts(b) {
						v, neg := resolve(fct.Cond)
						if noTLS(v) && (fct.True != neg) == false {
							return true
						}
					}
					return false
				}
				var tlsIfs []*ssa.If
				var tlsSuccs []*ssa.BasicBlock
				an.Instrs(start, func(in ssa.Instruction) {
					if iff, ok := in.(*ssa.If); ok {
						if v, neg := resolve(iff.Cond); noTLS(v) {
							tlsIfs = append(tlsIfs, iff)
							// successor taken when withNoTLS is false
							if neg {
								tlsSuccs = append(tlsSuccs, iff.Block().Succs[0])
							} else {
								tlsSuccs = append(tlsSuccs, iff.Block().Succs[1])
							}
						}
					}
				})
				// several appends: each must be the same WithTLSConfig(<that field>) under !withNoTLS
				for _, o := range allAppends {
					if o == ap {
						continue
					}
					lst, okL := S.variadicOptions(o.Common().Args[1])
					same := okL && len(lst) == 1 && lst[0].Ctor.Fn.Name() == "WithTLSConfig" && an.FuncPkgPath(lst[0].Ctor.Fn) == G
					if same {
						ld, isLd := an.Strip(lst[0].Args[0]).(*ssa.UnOp)
						same = isLd && ld.Op == token.MUL
						if same {
							fa, isFA := ld.X.(*ssa.FieldAddr)
							same = isFA && an.TypeIs(fa.X.Type(), TD, "Directory") && an.FieldAddrName(fa) == cfgField
						}
					}
					if !same || !noTLSFact(o.Block()) {
						good = false
					}
				}
				if good && noTLSFact(ap.Block()) {
					// every path with !withNoTLS to the Run go passes the append
					if len(tlsIfs) >= 1 {
						tlsSucc := tlsSuccs[0]
						var goRun ssa.Instruction
						for _, ci := range an.Calls(start) {
							if g, ok := ci.(*ssa.Go); ok {
								if t := goTarget(g); t != nil && syncReach(t)[runCall.Parent()] {
									goRun = g
								}
							}
						}
						if goRun == nil && runCall.Parent() == start {
							goRun = runCall
						}
						if goRun != nil && an.Search(an.Point{B: tlsSucc, I: 0}, isInstr(goRun), isTLSAppend) == nil {
							okStart = true
						}
					}
				}
			}
		}
	}
	R.Check(okStart, "C18-directory", "testdirectory.Start: Run receives WithTLSConfig(GetTLSConfig's server config) unless WithNoTLS", c.pos(runCall), "connOpts = append(connOpts, gldap.WithTLSConfig(d.server)) on every path without withNoTLS; d.server is GetTLSConfig(t, opt...)'s first result", "cannot show that a TLS directory passes its server config (with the mTLS policy) to Run: "+detail)
	R.Floor("C18-directory", 3)
}

// derivesFromSelfSignedCA: v is bytes of a buffer that pem.Encode filled from
// the DER returned by x509.CreateCertificate(_, ca, ca, ...) (template == parent).
func derivesFromSelfSignedCA(v ssa.Value, fn *ssa.Function) bool {
	// the DER of a self-signed certificate: x509.CreateCertificate(_, ca, ca, ...)#0
	selfSignedDER := func(d ssa.Value) bool {
		ex, ok := an.Strip(d).(*ssa.Extract)
		if !ok || ex.Index != 0 {
			return false
		}
		cc, ok := ex.Tuple.(*ssa.Call)
		if !ok || !an.CalleeIs(cc.Common(), "crypto/x509", "CreateCertificate") {
			return false
		}
		a := cc.Common().Args
		return an.Strip(a[1]) == an.Strip(a[2])
	}
	// the Bytes field of a &pem.Block{...} literal
	blockBytes := func(b ssa.Value) ssa.Value {
		blk, ok := an.Strip(b).(*ssa.Alloc)
		if !ok {
			return nil
		}
		for _, r := range *blk.Referrers() {
			if fa, ok := r.(*ssa.FieldAddr); ok && an.FieldAddrName(fa) == "Bytes" {
				for _, rr := range *fa.Referrers() {
					if st, ok := rr.(*ssa.Store); ok {
						return st.Val
					}
				}
			}
		}
		return nil
	}
	call, ok := an.Strip(v).(*ssa.Call)
	if !ok {
		return false
	}
	// v = pem.EncodeToMemory(&pem.Block{Bytes: der})
	if an.CalleeIs(call.Common(), "encoding/pem", "EncodeToMemory") {
		d := blockBytes(call.Common().Args[0])
		return d != nil && selfSignedDER(d)
	}
	// v = pemBlock(_, der): a module helper that returns pem.EncodeToMemory(&pem.Block{Bytes: <its parameter>})
	if g := call.Common().StaticCallee(); g != nil && an.InModule(g) && len(g.Blocks) > 0 && len(an.Returns(g)) == 1 {
		if res := an.ReturnResults(an.Returns(g)[0]); len(res) == 1 {
			if ic, isC := an.Strip(res[0]).(*ssa.Call); isC && an.CalleeIs(ic.Common(), "encoding/pem", "EncodeToMemory") {
				if d := blockBytes(ic.Common().Args[0]); d != nil {
					for i, p := range g.Params {
						if an.Strip(d) == ssa.Value(p) && i < len(call.Common().Args) {
							return selfSignedDER(call.Common().Args[i])
						}
					}
				}
			}
		}
		return false
	}
	// v = (*bytes.Buffer).Bytes(buf)
	if !an.CalleeIs(call.Common(), "bytes", "(*Buffer).Bytes") {
		return false
	}
	buf := an.Strip(call.Common().Args[0])
	// pem.Encode(buf, &pem.Block{Bytes: der})
	for _, ci := range an.Calls(fn) {
		if !an.CalleeIs(ci.Common(), "encoding/pem", "Encode") {
			continue
		}
		if an.Strip(ci.Common().Args[0]) != buf {
			continue
		}
		blk, ok := an.Strip(ci.Common().Args[1]).(*ssa.Alloc)
		if !ok {
			continue
		}
		for _, r := range *blk.Referrers() {
			fa, ok := r.(*ssa.FieldAddr)
			if !ok || an.FieldAddrName(fa) != "Bytes" {
				continue
			}
			for _, rr := range *fa.Referrers() {
				st, ok := rr.(*ssa.Store)
				if !ok {
					continue
				}
				ex, ok := an.Strip(st.Val).(*ssa.Extract)
				if !ok || ex.Index != 0 {
					continue
				}
				cc, ok := ex.Tuple.(*ssa.Call)
				if !ok || !an.CalleeIs(cc.Common(), "crypto/x509", "CreateCertificate") {
					continue
				}
				a := cc.Common().Args
				if an.Strip(a[1]) == an.Strip(a[2]) {
					return true
				}
			}
		}
	}
	return false
}

// ------------------------------------------------------------------ C07

func callsRecoverDirectly(f *ssa.Function) bool {
	found := false
	an.Instrs(f, func(in ssa.Instruction) {
		if call, ok := in.(*ssa.Call); ok {
			if b, ok := call.Common().Value.(*ssa.Builtin); ok && b.Name() == "recover" {
				found = true
			}
		}
	})
	return found
}

// isDisableFlag: load of Server.disablePanicRecovery or of a conn field that
// is only ever stored from it.
func (c *Ctx) isDisableFlag(v ssa.Value) bool {
	if _, ok := fieldLoad(v, G, "Server", "disablePanicRecovery"); ok {
		return true
	}
	base, name, ok := an.LoadField(v)
	if !ok || !an.TypeIs(base.Type(), G, "conn") {
		return false
	}
	n := 0
	for _, fs := range fieldStores(c.shippedFuncs(G), G, "conn", name) {
		n++
		if _, ok := fieldLoad(fs.Store.Val, G, "Server", "disablePanicRecovery"); !ok {
			return false
		}
	}
	return n > 0
}

func checkC07(c *Ctx) {
	R := c.R
	m := c.serverModel()
	if m == nil {
		return
	}
	shipped := c.shippedFuncs(G)
	readRequest := c.fn(G, "(*conn).readRequest")
	// ---- C07-recover
	nGo := 0
	for _, f := range shipped {
		for _, ci := range an.Calls(f) {
			g, ok := ci.(*ssa.Go)
			if !ok {
				continue
			}
			t := goTarget(g)
			if t == nil {
				R.Unknown("C07-recover", fname(f)+": go <dynamic>", c.pos(g), "goroutine with a dynamic target")
				continue
			}
			reach := syncReach(t)
			risky := reach[m.muxServe] || (readRequest != nil && reach[readRequest])
			hasHandler := false
			for rf := range reach {
				for _, ic := range an.Calls(rf) {
					if _, _, rep := onCloseReport(ic.Common()); isHandlerInvoke(ic.Common()) || rep {
						hasHandler = true
					}
				}
			}
			if !risky && !hasHandler {
				R.Trivial("C07-recover", fname(t)+": goroutine runs no handler or decode code", c.pos(g), "not subject to the recover rule")
				continue
			}
			nGo++
			key := fname(t) + ": deferred recover under !disablePanicRecovery"
			// find defer of a function that calls recover directly
			var rec *ssa.Defer
			for _, tc := range an.Calls(t) {
				d, ok := tc.(*ssa.Defer)
				if !ok {
					continue
				}
				if df := an.StaticCallee(d.Common()); df != nil && callsRecoverDirectly(df) {
					rec = d
				}
			}
			if rec == nil {
				R.Fail("C07-recover", key, c.pos(g), "the goroutine that runs handlers/decoding has no deferred recover(): a panic in any handler it runs kills the whole process even with recovery enabled")
				continue
			}
			// registered before any risky call on every path where recovery is enabled
			riskyCall := func(in ssa.Instruction) bool {
				call, ok := in.(*ssa.Call)
				if !ok {
					return false
				}
				cc := call.Common()
				if _, _, rep := onCloseReport(cc); isHandlerInvoke(cc) || rep {
					return true
				}
				if sf := an.StaticCallee(cc); sf != nil && an.InModule(sf) {
					r := syncReach(sf)
					return r[m.muxServe] || r[readRequest] || sf == m.serve
				}
				return false
			}
			// condition of the defer: only !disable
			var conds []an.EdgeCond = an.BranchFacts(rec.Block())
			okCond := true
			flagIf := (*ssa.If)(nil)
			for _, fct := range conds {
				cond, neg := an.Not(fct.Cond)
				pol := fct.True != neg
				if c.isDisableFlag(cond) && !pol {
					continue
				}
				okCond = false
			}
			for _, x := range ifsOn(t, c.isDisableFlag) {
				flagIf = x.If
			}
			switch {
			case !okCond:
				R.Fail("C07-recover", key, c.pos(rec), "the recover is registered only under an additional condition")
			case len(conds) == 0:
				if w := an.Search(an.Entry(t), riskyCall, isInstr(rec)); w != nil {
					R.Fail("C07-recover", key, c.pos(rec), "handler/decode code can run before the recover is registered: "+c.trail(w))
				} else {
					R.OK("C07-recover", key, c.pos(rec), "unconditional deferred recover() registered before any handler/decode call")
				}
			default:
				// conditional on !disable: from the enabled edge no risky call before registration; and every path to a risky call passes the flag test
				neg := false
				for _, x := range ifsOn(t, c.isDisableFlag) {
					neg = x.Neg
				}
				enabled := succOn(flagIf, neg) // successor where flag is false
				w1 := an.Search(an.Point{B: enabled, I: 0}, riskyCall, isInstr(rec))
				w2 := an.Search(an.Entry(t), riskyCall, isInstr(flagIf))
				if w1 != nil || w2 != nil {
					R.Fail("C07-recover", key, c.pos(rec), "with recovery enabled, handler/decode code can run before the recover is registered")
				} else {
					R.OK("C07-recover", key, c.pos(rec), "defer of a function calling recover() directly, registered exactly when disablePanicRecovery is false, before any handler/decode call")
				}
			}
		}
	}
	R.Floor("C07-recover", 2)
	R.Count("C07-recover/handler-goroutines", nGo)
	// the recovery code must not panic itself: a panic raised inside the deferred function that called recover() (an
	// unchecked assertion on the recovered value, an index, ...) is not recovered by anybody and ends the process
	{
		var recFns []*ssa.Function
		for _, f := range shipped {
			if callsRecoverDirectly(f) {
				recFns = append(recFns, f)
			}
		}
		if len(recFns) > 0 {
			e := c.newPF()
			sites, _ := e.run(recFns, false)
			nBad := 0
			for _, st := range sites {
				if !st.OK {
					nBad++
					R.Fail("C07-recover", "recovery code is panic-free: "+st.Key, c.pos(st.Instr), "the function that recovers a panic can panic itself ("+st.Detail+"): that second panic is not recovered and takes the whole process down")
				}
			}
			if nBad == 0 {
				R.OK("C07-recover", "recovery code is panic-free", c.P.Pos(recFns[0].Pos()), sprintf("%d function(s) calling recover() and what they call: %d potential panic sites, all discharged", len(recFns), len(sites)))
			}
		}
	}

	// ---- C07-accept
	errIfs := ifsOn(m.run, func(v ssa.Value) bool {
		x, _, ok := an.NilCheck(v)
		if !ok {
			return false
		}
		ex, ok := an.Strip(x).(*ssa.Extract)
		return ok && ex.Tuple == ssa.Value(m.accept) && ex.Index == 1
	})
	if len(errIfs) != 1 {
		R.Unknown("C07-accept", "(*Server).Run: accept error handling", c.pos(m.accept), "cannot find the err != nil test on Accept's error")
	} else {
		g := errIfs[0]
		v, _ := an.Not(g.If.Cond)
		_, trueMeansNil, _ := an.NilCheck(v)
		errSucc := succOn(g.If, trueMeansNil == g.Neg)
		head := loopHeadOf(m.accept)
		if w := an.Search(an.Point{B: errSucc, I: 0}, inBlock(head), nil); w != nil {
			R.OK("C07-accept", "(*Server).Run: accept errors other than shutdown are retried", c.pos(g.If), "a path leads from the Accept error back to the accept loop: "+c.trail(w))
		} else {
			R.Fail("C07-accept", "(*Server).Run: accept errors other than shutdown are retried", c.pos(g.If), "every Accept error makes Run return: a transient error (EMFILE at descriptor exhaustion) stops the server from accepting for good")
		}
		// shutdown returns keep returning nil (shared with C11-run-nil)
		c.checkAcceptRetry("C07-accept", m, errSucc, head)
	}

	// ---- C07-accept-nonblocking: the accept goroutine itself never performs per-connection I/O
	// (a single client stalling in a handshake / read / write would stop the server from accepting).
	nAcc := 0
	inAccept := syncReach(m.run) // Run and what it calls synchronously (helpers, deferred closures); not the goroutines it starts
	for _, u := range c.socketUses() {
		if !(u.Fn == m.run || inAccept[u.Fn] && an.InModule(u.Fn)) || len(u.Kind) < 8 || u.Kind[:7] != "method:" {
			continue
		}
		meth := u.Kind[7:]
		nAcc++
		switch meth {
		case "Handshake", "HandshakeContext", "Read", "Write", "VerifyHostname":
			R.Fail("C07-accept-nonblocking", fname(u.Fn)+": "+meth+" on the accepted connection", c.pos(u.Instr), "the accept loop itself (here through "+fname(u.Fn)+") performs "+meth+" on the accepted connection: one client that stalls there keeps the server from accepting anyone else")
		default:
			R.OK("C07-accept-nonblocking", fname(u.Fn)+": "+meth+" on the accepted connection", c.pos(u.Instr), meth+" does not wait for the peer")
		}
	}
	for _, ci := range an.Calls(m.run) {
		if isGo(ci) || isDefer(ci) {
			continue
		}
		if sf := an.StaticCallee(ci.Common()); sf != nil && an.InModule(sf) && sf != m.run {
			r := syncReach(sf)
			if r[m.serve] || (readRequest != nil && r[readRequest]) || r[m.muxServe] {
				R.Fail("C07-accept-nonblocking", "(*Server).Run: synchronous call of "+fname(sf), c.pos(ci), "the accept loop runs connection/request code synchronously")
			}
		}
	}
	R.Trivial("C07-accept-nonblocking", "(*Server).Run: accept loop does no per-connection I/O", c.P.Pos(m.run.Pos()), sprintf("%d uses of the accepted socket in Run examined", nAcc))

	// ---- C07-noexit / explicit panics
	connSlice := map[*ssa.Function]bool{}
	for f := range syncReach(m.connFn) {
		connSlice[f] = true
		for _, a := range an.WithClosures(f) {
			connSlice[a] = true
		}
	}
	if m.reqFn != nil {
		for f := range syncReach(m.reqFn) {
			connSlice[f] = true
		}
	}
	nScan := 0
	for f := range connSlice {
		if !an.InModule(f) {
			continue
		}
		nScan++
		for _, b := range f.Blocks {
			for _, in := range b.Instrs {
				switch x := in.(type) {
				case *ssa.Panic:
					c.dischargeExplicitPanic("C07-noexit", f, x, m)
				case ssa.CallInstruction:
					if sf := x.Common().StaticCallee(); sf != nil {
						k := an.FuncPkgPath(sf) + "." + sf.Name()
						switch k {
						case "os.Exit", "runtime.Goexit", "log.Fatal", "log.Fatalf", "log.Fatalln", "log.Panic", "log.Panicf", "log.Panicln":
							R.Fail("C07-noexit", fname(f)+": "+k, c.pos(in), k+" reachable from a connection/request goroutine ends the process or goroutine abruptly")
						}
					}
				}
			}
		}
	}
	R.Trivial("C07-noexit", "connection/request slice scanned", c.P.Pos(m.connFn.Pos()), sprintf("%d functions reachable from the connection and request goroutines scanned for os.Exit, log.Fatal*, runtime.Goexit and explicit panic", nScan))

	// ---- C07-contained
	for f := range connSlice {
		if !an.InModule(f) {
			continue
		}
		for _, ci := range an.Calls(f) {
			cc := ci.Common()
			switch {
			case isDynCallOfField(cc, G, "Server", "shutdownCancel"):
				R.Fail("C07-contained", fname(f)+": shutdownCancel", c.pos(ci), "a connection/request goroutine cancels the server-wide context")
			case isListenerClose(cc):
				R.Fail("C07-contained", fname(f)+": listener.Close", c.pos(ci), "a connection/request goroutine closes the listener")
			case an.CalleeIs(cc, G, "(*Server).Stop"):
				R.Fail("C07-contained", fname(f)+": Server.Stop", c.pos(ci), "a connection/request goroutine stops the server")
			}
		}
	}
	R.Trivial("C07-contained", "connection/request slice has no server-level effect", c.P.Pos(m.connFn.Pos()), "only connWg.Done, logging and onCloseHandler touch the Server")

	// ---- C07-map-locked: concurrent access to a Go map is not a data race that merely gives a stale value: the runtime
	// detects it and raises a fatal error ("concurrent map read and map write") that no recover() contains - the whole
	// process dies. A map kept in a field of Server, Mux or conn that is written somewhere in the module is therefore
	// read and written only with a mutex held (every access site has a non-empty must-held lock set).
	{
		shared := map[string]bool{"Server": true, "Mux": true, "conn": true}
		type acc struct {
			in    ssa.Instruction
			fn    *ssa.Function
			write bool
			name  string
		}
		var accs []acc
		written := map[string]bool{}
		mapField := func(v ssa.Value) string {
			ld, ok := v.(*ssa.UnOp)
			if !ok || ld.Op != token.MUL {
				return ""
			}
			fa, ok := ld.X.(*ssa.FieldAddr)
			if !ok {
				return ""
			}
			nt := an.StructOf(fa.X.Type())
			if nt == nil || !shared[nt.Obj().Name()] || nt.Obj().Pkg() == nil || nt.Obj().Pkg().Path() != G {
				return ""
			}
			if _, isMap := ld.Type().Underlying().(*types.Map); !isMap {
				return ""
			}
			if _, fresh := an.Strip(fa.X).(*ssa.Alloc); fresh {
				return "" // an object under construction, not yet visible to another goroutine
			}
			return nt.Obj().Name() + "." + an.FieldAddrName(fa)
		}
		for _, f := range c.shippedFuncs(G) {
			an.Instrs(f, func(in ssa.Instruction) {
				switch x := in.(type) {
				case *ssa.MapUpdate:
					if n := mapField(x.Map); n != "" {
						accs = append(accs, acc{in, f, true, n})
						written[n] = true
					}
				case *ssa.Lookup:
					if n := mapField(x.X); n != "" {
						accs = append(accs, acc{in, f, false, n})
					}
				case *ssa.Range:
					if n := mapField(x.X); n != "" {
						accs = append(accs, acc{in, f, false, n})
					}
				case *ssa.Call:
					if b, ok := x.Common().Value.(*ssa.Builtin); ok && b.Name() == "delete" {
						if n := mapField(x.Common().Args[0]); n != "" {
							accs = append(accs, acc{in, f, true, n})
							written[n] = true
						}
					}
				}
			})
		}
		nM := 0
		sets := map[*ssa.Function]map[ssa.Instruction]an.LockSet{}
		for _, a := range accs {
			if !written[a.name] {
				continue
			}
			nM++
			if sets[a.fn] == nil {
				sets[a.fn] = an.LockSets(a.fn, nil)
			}
			held := sets[a.fn][a.in]
			if len(held) == 0 && a.fn.Parent() == nil && !token.IsExported(a.fn.Name()) {
				// a private helper that every caller calls with a mutex held (`m.register(r)` under m.mu)
				nCalls, allHeld := 0, true
				for _, g := range c.shippedFuncs(G) {
					for _, ci := range an.Calls(g) {
						if an.StaticCallee(ci.Common()) != a.fn {
							continue
						}
						nCalls++
						if sets[g] == nil {
							sets[g] = an.LockSets(g, nil)
						}
						if !isCall(ci) || len(sets[g][ci]) == 0 {
							allHeld = false
						}
					}
				}
				if nCalls > 0 && allHeld {
					held = an.LockSet{"(the caller's mutex)": true}
				}
			}
			kind := "read"
			if a.write {
				kind = "write"
			}
			R.Check(len(held) > 0, "C07-map-locked", fname(a.fn)+": "+kind+" of map "+a.name, c.pos(a.in), "under "+held.String(),
				"the map "+a.name+" is "+kind+" without any mutex held while another function of the module writes it: when the two overlap the runtime raises the fatal error \"concurrent map read and map write\", which no recover() contains - the process dies")
		}
		R.Count("C07-map-locked/accesses", nM)
	}

	// ---- C07-wg-nonneg: "the server process keeps running": a WaitGroup counter that goes negative panics, in the accept
	// loop or in a teardown after its recover(), where nothing contains it (rule C12-nonneg, imported)
	c.importRules(checkC12, func(o report.Obligation) bool { return o.Rule == "C12-nonneg" }, "C07-wg-nonneg", " - that panic is raised outside every recover() and takes the whole process down")
	// ---- C07-isolated: "affects only that connection ... every other connection keeps receiving correct responses": the
	// buffered reader/writer pair of a connection belongs to that connection alone for as long as anything can still
	// use it - it is built in initConn from the connection's own socket and never re-pointed, reset or replaced
	// anywhere else (rules C13-pair and C05-owner). A pair taken from or returned to a pool while a handler of the old
	// connection can still write would deliver that handler's response to another connection.
	if !c.Sub {
		n := 0
		for _, imp := range []struct {
			run   func(*Ctx)
			rules map[string]bool
		}{{checkC13, map[string]bool{"C13-pair": true}}, {checkC05, map[string]bool{"C05-owner": true}}} {
			tmp := &Ctx{P: c.P, R: report.New("tmp"), Tier: c.Tier, Sub: true}
			imp.run(tmp)
			for _, o := range tmp.R.Obls {
				if !imp.rules[o.Rule] {
					continue
				}
				n++
				switch o.Status {
				case report.Discharged:
					R.OK("C07-isolated", o.Construct, o.Pos, o.Detail)
				default:
					R.Fail("C07-isolated", o.Construct, o.Pos, o.Detail+" - a connection's stream would no longer be its own: a late or failing write on one connection reaches another")
				}
			}
		}
		R.Floor("C07-isolated", 3)
	}

	// ---- C07-nolock-io: no lock that all connections share (Server.mu, Mux.mu) can be held while gldap does blocking
	// socket I/O on one connection: a client that stops reading would otherwise stall, through that lock, the requests
	// of every other connection ("a client that stops reading affects only that connection")
	{
		nIO := 0
		for _, f := range c.shippedFuncs(G) {
			var may map[ssa.Instruction]an.LockSet
			for _, ci := range an.Calls(f) {
				if isGo(ci) {
					continue
				}
				if _, isDefer := ci.(*ssa.Defer); isDefer {
					continue
				}
				site := c.blockingSocketIO(ci, map[*ssa.Function]bool{})
				if site == "" {
					continue
				}
				if may == nil {
					may = an.MayLockSets(f, nil)
				}
				nIO++
				bad := ""
				for k := range may[ci] {
					if o := lockOwnerType(f, k); o == "Server" || o == "Mux" || o == "package" {
						bad = o + "." + strings.TrimSuffix(k[strings.LastIndex(k, ".")+1:], "(r)")
					}
				}
				key := fname(f) + ": " + site + " without a server-wide lock"
				if bad == "" {
					R.OK("C07-nolock-io", key, c.pos(ci), "no mutex shared by all connections can be held at this blocking I/O")
				} else {
					R.Fail("C07-nolock-io", key, c.pos(ci), bad+" can be held while this call blocks on one client's socket: a client that stops reading stalls every connection that needs the lock")
				}
			}
		}
		R.Count("C07-nolock-io/sites", nIO)
		R.Floor("C07-nolock-io", 2)
	}

	// ---- C07-lockbalance: unlocking a mutex that is not locked is a runtime FATAL error ("sync: unlock of
	// unlocked mutex"), which no recover() can contain: it ends the whole process. Every Unlock/RUnlock in the
	// shipped packages must find its mutex held on every path, including deferred unlocks at function exit.
	nUnl := 0
	var lockFns []*ssa.Function
	lockFns = append(lockFns, c.shippedFuncs(G)...)
	lockFns = append(lockFns, c.shippedFuncs(TD)...)
	for _, f := range lockFns {
		var ls map[ssa.Instruction]an.LockSet
		sets := func() map[ssa.Instruction]an.LockSet {
			if ls == nil {
				ls = an.LockSets(f, nil)
			}
			return ls
		}
		for _, ci := range an.Calls(f) {
			kind, mv := an.LockOp(ci.Common())
			if kind != "Unlock" && kind != "RUnlock" {
				continue
			}
			mp := an.MutexPath(mv)
			heldKey := mp
			if kind == "RUnlock" {
				heldKey = mp + "(r)"
			}
			nUnl++
			key := fname(f) + ": " + kind + " of " + mp + " finds it locked"
			switch x := ci.(type) {
			case *ssa.Call:
				if sets()[x][heldKey] {
					R.OK("C07-lockbalance", key, c.pos(x), "the mutex is held on every path reaching this "+kind)
				} else {
					R.Fail("C07-lockbalance", key, c.pos(x), mp+" is not held on every path reaching this "+kind+": unlocking an unlocked mutex is a fatal runtime error that recover() cannot stop; one request takes the whole server down")
				}
			case *ssa.Defer:
				// between the defer and the function's exit no path may leave the mutex unlocked:
				// an explicit Unlock of the same mutex not followed by a re-Lock before the exit
				bad := ""
				for _, u := range an.Calls(f) {
					uc, isCall := u.(*ssa.Call)
					if !isCall {
						continue
					}
					k2, m2 := an.LockOp(uc.Common())
					if k2 != kind || an.MutexPath(m2) != mp {
						continue
					}
					if an.Search(an.After(x), func(in ssa.Instruction) bool { return in == ssa.Instruction(uc) }, nil) == nil {
						continue
					}
					relock := func(in ssa.Instruction) bool {
						c2, ok := in.(*ssa.Call)
						if !ok {
							return false
						}
						k3, m3 := an.LockOp(c2.Common())
						return (k3 == "Lock" && kind == "Unlock" || k3 == "RLock" && kind == "RUnlock") && an.MutexPath(m3) == mp
					}
					if w := an.Search(an.After(uc), func(in ssa.Instruction) bool { _, isRD := in.(*ssa.RunDefers); return isRD }, relock); w != nil {
						bad = c.pos(uc)
					}
				}
				// and the lock must have been taken before the defer is registered
				held := sets()[x][heldKey]
				switch {
				case bad != "":
					R.Fail("C07-lockbalance", key+" (deferred)", c.pos(x), "after the explicit "+kind+" at "+bad+" a path reaches the function's exit without re-locking "+mp+": the deferred "+kind+" then unlocks an unlocked mutex, a fatal runtime error that recover() cannot stop")
				case !held:
					R.Fail("C07-lockbalance", key+" (deferred)", c.pos(x), mp+" is not held when its "+kind+" is deferred")
				default:
					R.OK("C07-lockbalance", key+" (deferred)", c.pos(x), "locked before the defer; no path from the defer to the exit leaves it unlocked")
				}
			}
		}
	}
	R.Floor("C07-lockbalance", 4)
	R.Extra["C07-lockbalance/unlock-sites"] = nUnl
	R.NotDecided = append(R.NotDecided, "that bystander connections keep receiving correct responses (behavioural)", "resource exhaustion inside libraries")
}

// acceptErrBranch finds the successor taken when Accept returned an error and
// the head of the accept loop.
func (c *Ctx) acceptErrBranch(m *serverModel) (errSucc, head *ssa.BasicBlock, ok bool) {
	errIfs := ifsOn(m.run, func(v ssa.Value) bool {
		x, _, ok := an.NilCheck(v)
		if !ok {
			return false
		}
		ex, ok := an.Strip(x).(*ssa.Extract)
		return ok && ex.Tuple == ssa.Value(m.accept) && ex.Index == 1
	})
	if len(errIfs) != 1 {
		return nil, nil, false
	}
	g := errIfs[0]
	v, _ := an.Not(g.If.Cond)
	_, trueMeansNil, _ := an.NilCheck(v)
	return succOn(g.If, trueMeansNil == g.Neg), loopHeadOf(m.accept), true
}

// checkAcceptRetry: a temporary Accept error (net.Error.Temporary(): EMFILE,
// ENFILE, ECONNABORTED ...) never makes Run return. Either the error branch
// tests Temporary() and no path from its true edge reaches a return without
// going back to the accept loop, or no return other than the closed-listener
// case is reachable from the error branch at all.
func (c *Ctx) checkAcceptRetry(rule string, m *serverModel, errSucc, head *ssa.BasicBlock) {
	R := c.R
	key := "(*Server).Run: a temporary Accept error never ends Run"
	isTemp := func(v ssa.Value) bool {
		call, ok := v.(*ssa.Call)
		return ok && call.Common().IsInvoke() && call.Common().Method.Name() == "Temporary"
	}
	isRet := func(in ssa.Instruction) bool { _, ok := in.(*ssa.Return); return ok }
	var temps []condIf
	for _, x := range ifsOn(m.run, isTemp) {
		if x.If.Block() == errSucc || an.Search(an.Point{B: errSucc, I: 0}, isInstr(x.If), inBlock(head)) != nil {
			temps = append(temps, x)
		}
	}
	if len(temps) == 0 {
		bad := ""
		for _, ret := range an.Returns(m.run) {
			if hasFact(ret.Block(), true, isClosedAtom) {
				continue
			}
			if w := an.Search(an.Point{B: errSucc, I: 0}, isInstr(ret), inBlock(head)); w != nil {
				bad = c.trail(w)
			}
		}
		if bad == "" {
			R.OK(rule, key, c.P.Pos(m.run.Pos()), "no return other than the closed-listener case is reachable from the Accept error branch")
		} else {
			R.Fail(rule, key, c.pos(m.accept), "the Accept error branch does not single out temporary errors (net.Error.Temporary()) and can return: running out of file descriptors while a client connects ends Run and closes the listener although Stop was never called (Ready() stays true): "+bad)
		}
		return
	}
	for _, t := range temps {
		tSucc := succOn(t.If, !t.Neg)
		if w := an.Search(an.Point{B: tSucc, I: 0}, isRet, inBlock(head)); w != nil {
			R.Fail(rule, key, c.pos(t.If), "a temporary Accept error can still make Run return: "+c.trail(w))
		} else {
			R.OK(rule, key, c.pos(t.If), "from Temporary() == true every path goes back to the accept loop")
		}
	}
}

// dischargeExplicitPanic: an explicit panic is acceptable only when its guard
// is provably false for every caller in the module.
func (c *Ctx) dischargeExplicitPanic(rule string, f *ssa.Function, p *ssa.Panic, m *serverModel) {
	R := c.R
	key := fname(f) + ": explicit panic"
	if s, ok := an.StrConst(p.X); ok && s == "blocking select matched no case" {
		R.Trivial(rule, key+" (select fallthrough)", c.pos(p), "compiler-generated unreachable arm of a blocking select")
		return
	}
	// pattern: guarded by `param == nil` where every in-module caller passes a value that is never nil
	for _, fct := range an.BranchFacts(p.Block()) {
		cond, neg := an.Not(fct.Cond)
		x, trueMeansNil, ok := an.NilCheck(cond)
		if !ok {
			continue
		}
		pol := fct.True != neg
		if pol != trueMeansNil {
			continue
		}
		par, ok := an.Strip(x).(*ssa.Parameter)
		if !ok {
			continue
		}
		idx := -1
		for i, q := range f.Params {
			if q == par {
				idx = i
			}
		}
		if idx < 0 {
			continue
		}
		all := true
		n := 0
		for _, g := range c.shippedFuncs(G) {
			for _, ci := range an.Calls(g) {
				if an.StaticCallee(ci.Common()) != f {
					continue
				}
				n++
				if !c.neverNil(ci.Common().Args[idx], ci) {
					all = false
				}
			}
		}
		if all && n > 0 {
			R.OK(rule, key, c.pos(p), sprintf("guarded by %s == nil, and all %d callers pass a value that is never nil there", par.Name(), n))
			return
		}
	}
	R.Fail(rule, key, c.pos(p), "explicit panic reachable from a connection/request goroutine whose guard cannot be shown false")
}

// neverNil: v (at instruction `at`) is the non-error result of a constructor
// whose error was checked to be nil, and that constructor returns a fresh
// allocation whenever it returns a nil error.
func (c *Ctx) neverNil(v ssa.Value, at ssa.Instruction) bool {
	if p, ok := an.Strip(v).(*ssa.Parameter); ok {
		// a parameter of a helper with a single caller: judge the argument at that call site
		if a, ok := an.UniqueCallerArg[p]; ok {
			for _, f := range c.shippedFuncs(G) {
				for _, ci := range an.Calls(f) {
					if an.StaticCallee(ci.Common()) == p.Parent() {
						return c.neverNil(a, ci)
					}
				}
			}
		}
	}
	v = an.Strip(v)
	if _, ok := v.(*ssa.Alloc); ok {
		return true
	}
	ex, ok := v.(*ssa.Extract)
	if !ok {
		return false
	}
	call, ok := ex.Tuple.(*ssa.Call)
	if !ok {
		return false
	}
	callee := call.Common().StaticCallee()
	if callee == nil || !an.InModule(callee) {
		return false
	}
	ei := errResultIndex(callee)
	if ei < 0 {
		return false
	}
	// callee: every return with nil error returns an Alloc at ex.Index
	for _, ret := range an.Returns(callee) {
		res := an.ReturnResults(ret)
		if !an.IsNilConst(an.Strip(res[ei])) {
			continue
		}
		if _, ok := an.Strip(res[ex.Index]).(*ssa.Alloc); !ok {
			return false
		}
	}
	// at the use, err == nil is known
	isErr := func(cond ssa.Value) (bool, bool) {
		x, trueMeansNil, ok := an.NilCheck(cond)
		if !ok {
			return false, false
		}
		e, ok := an.Strip(x).(*ssa.Extract)
		return ok && e.Tuple == ssa.Value(call) && e.Index == ei, trueMeansNil
	}
	// the use may be inside a closure: walk up through the closure site
	blk := at.Block()
	for blk != nil {
		for _, fct := range an.BranchFacts(blk) {
			cond, neg := an.Not(fct.Cond)
			if is, trueMeansNil := isErr(cond); is && (fct.True != neg) == trueMeansNil {
				return true
			}
		}
		fn := blk.Parent()
		if mc := an.ClosureSite(fn); mc != nil {
			blk = mc.Block()
		} else {
			blk = nil
		}
	}
	return false
}

// ------------------------------------------------------------------ C11

func checkC11(c *Ctx) {
	R := c.R
	m := c.serverModel()
	if m == nil {
		return
	}
	shipped := c.shippedFuncs(G)
	// ---- C11-sites
	nSites := 0
	for _, f := range shipped {
		for _, ci := range an.Calls(f) {
			cc := ci.Common()
			what := ""
			switch {
			case an.CalleeIs(cc, an.PkgBer, "ReadPacket"):
				what = "ber.ReadPacket(c.reader) (also performs the TLS handshake on a TLS listener)"
			case func() bool { n, _, ok := isBufioWriterMethod(cc); return ok && (n == "Write" || n == "Flush") }():
				what = "bufio.Writer." + cc.StaticCallee().Name()
			case cc.StaticCallee() != nil && an.FuncPkgPath(cc.StaticCallee()) == "crypto/tls" && cc.StaticCallee().Name() == "Handshake":
				what = "tls.Conn.Handshake (StartTLS)"
			}
			if what != "" {
				nSites++
				R.Trivial("C11-sites", fname(f)+": "+what, c.pos(ci), "blocking socket I/O on a connection/request goroutine that Stop waits for")
			}
		}
	}
	R.Floor("C11-sites", 2)

	// ---- C11-deadline-kept: the deadlines with which the shutdown watcher interrupts blocked reads and writes stay in
	// force. (a) every holder of a connection's socket is one the analysis follows - a copy kept in some other field or
	// handed to unknown code could clear or re-arm them; (b) a Set*Deadline call that may clear the deadline (zero time,
	// or a time the analysis cannot show to be non-zero) runs only where it cannot undo the watcher's: in the watcher
	// itself, during connection setup before the watcher starts, or synchronously in the read loop, which tests the
	// shutdown at every iteration. Anywhere else (a handler's Write path, a helper goroutine) it can erase the
	// deadline a blocked handler is waiting on, and the teardown's Wait - and so Stop - never returns.
	{
		tmp := &Ctx{P: c.P, R: report.New("tmp"), Tier: c.Tier, Sub: true}
		tmp.checkSocketDiscipline("x")
		for _, o := range tmp.R.Obls {
			switch o.Status {
			case report.Discharged:
				R.OK("C11-deadline-kept", o.Construct, o.Pos, o.Detail)
			default:
				if strings.Contains(o.Construct, "method:Read") || strings.Contains(o.Construct, "method:Write") {
					R.OK("C11-deadline-kept", o.Construct, o.Pos, "direct I/O on the socket does not touch its deadlines (whether it may bypass the buffered pair is C13/C18's concern)")
					continue
				}
				R.Fail("C11-deadline-kept", o.Construct, o.Pos, "a holder or user of the connection's socket that the analysis cannot follow: it could clear or re-arm the deadlines with which the shutdown watcher interrupts blocked handlers ("+o.Detail+")")
			}
		}
		n := 0
		for _, u := range c.socketUses() {
			if !strings.HasPrefix(u.Kind, "method:Set") || !strings.HasSuffix(u.Kind, "Deadline") {
				continue
			}
			ci, isCall := u.Instr.(ssa.CallInstruction)
			if !isCall || len(ci.Common().Args) == 0 {
				continue
			}
			n++
			f := u.Fn
			key := fname(f) + ": " + u.Kind[7:] + " cannot undo the shutdown deadline"
			arg := ci.Common().Args[len(ci.Common().Args)-1]
			inReadLoop := f == m.serve
			if !inReadLoop {
				inReadLoop, _ = syncOnlyFrom(f, m.serve, shipped, 0)
			}
			switch {
			case nonZeroTime(arg):
				R.OK("C11-deadline-kept", key, c.pos(ci), "arms a deadline at a finite time from now: blocked I/O still ends")
			case f == m.stop || c.dominatedByShutdownRecv(ci):
				R.OK("C11-deadline-kept", key, c.pos(ci), "runs on the shutdown path itself")
			case c.isConnSetup(ci, m):
				R.OK("C11-deadline-kept", key, c.pos(ci), "connection setup, before the connection's first read")
			case inReadLoop:
				R.OK("C11-deadline-kept", key, c.pos(ci), "runs synchronously in the read loop, which tests the shutdown before every read")
			case func() bool {
				// the closing half of an arm ... clear pair in one function (a bounded handshake inside StartTLS): the clear
				// is dominated by a Set*Deadline of the same function (or of the function whose deferred closure this is)
				// that arms a finite deadline
				for _, o := range c.socketUses() {
					oc, isC := o.Instr.(ssa.CallInstruction)
					if !isC || oc == ci || !strings.HasPrefix(o.Kind, "method:Set") || !strings.HasSuffix(o.Kind, "Deadline") || len(oc.Common().Args) == 0 {
						continue
					}
					if !nonZeroTime(oc.Common().Args[len(oc.Common().Args)-1]) {
						continue
					}
					if o.Fn == f && an.InstrDominates(oc, ci) || f.Parent() == o.Fn {
						return true
					}
				}
				return false
			}():
				R.OK("C11-deadline-kept", key, c.pos(ci), "the clear that ends an arm ... clear pair of one function (a bounded step such as the StartTLS handshake); the window in which it could erase a deadline set by the shutdown watcher in between is accepted")
			default:
				R.Fail("C11-deadline-kept", key, c.pos(ci), "this call can clear the socket's deadline (its time argument is not shown to be non-zero) and runs outside the shutdown path, the connection setup and the read loop: it can erase the deadline with which the shutdown watcher interrupts a handler blocked on this connection; the handler then blocks for ever and Stop never returns")
			}
		}
		R.Count("C11-deadline-kept/deadline-sites", n)
		R.Floor("C11-deadline-kept", 2)
	}

	// ---- C11-noblock: the connection goroutine (its read loop, its teardown, and what they call synchronously, handlers
	// aside) blocks only in operations the shutdown ends: socket I/O (rules C11-waker*), the teardown's wait for the
	// handlers, or a select that also listens for the shutdown. A bare channel send / receive, a select without such a
	// case, or a wait on some other synchronisation object is woken by nobody when the server stops: the goroutine
	// never reaches connWg.Done and Stop waits for ever.
	{
		slice := syncReach(m.connFn)
		for f := range syncReach(m.muxServe) {
			delete(slice, f) // handlers are user code
		}
		nb := 0
		for f := range slice {
			if !an.InModule(f) || c.P.IsTestFile(f.Pos()) {
				continue
			}
			an.Instrs(f, func(in ssa.Instruction) {
				bad := ""
				switch x := in.(type) {
				case *ssa.Send:
					bad = "channel send"
				case *ssa.UnOp:
					if x.Op == token.ARROW && !c.isShutdownDone(x.X) && c.derivedShutdownDone(x.X) == nil {
						bad = "channel receive"
					}
				case *ssa.Select:
					if x.Blocking {
						bad = "select without a shutdown case"
						for _, stt := range x.States {
							if stt.Dir == types.RecvOnly && (c.isShutdownDone(stt.Chan) || c.derivedShutdownDone(stt.Chan) != nil) {
								bad = ""
							}
						}
					}
				case ssa.CallInstruction:
					cc := x.Common()
					if cf := cc.StaticCallee(); cf != nil && an.FuncPkgPath(cf) == "sync" && cf.Name() == "Wait" && !isWG(cc, "Wait", G, "conn", "requestsWg") {
						bad = "sync." + cf.Signature.Recv().Type().String() + ".Wait"
					}
				}
				if bad == "" {
					return
				}
				nb++
				R.Fail("C11-noblock", fname(f)+": "+bad, c.pos(in), "the connection goroutine can block in this "+bad+", which nothing wakes when the server stops (the shutdown watcher only sets socket deadlines): the connection never reaches connWg.Done and Stop never returns")
			})
		}
		R.Trivial("C11-noblock", "connection goroutine: no unwakeable blocking operation", c.P.Pos(m.connFn.Pos()), sprintf("%d functions that run synchronously on the connection goroutine scanned for channel operations, selects and waits", len(slice)))
	}

	// ---- C11-waker
	type waker struct {
		fn     *ssa.Function
		call   ssa.CallInstruction
		method string
		start  ssa.Instruction // the go / AfterFunc that starts fn
	}
	var wakers []waker
	for _, u := range c.socketUses() {
		if len(u.Kind) < 8 || u.Kind[:7] != "method:" {
			continue
		}
		meth := u.Kind[7:]
		if meth != "Close" && meth != "SetDeadline" && meth != "SetReadDeadline" && meth != "SetWriteDeadline" {
			continue
		}
		ci, ok := u.Instr.(ssa.CallInstruction)
		if !ok {
			continue
		}
		// a deadline interrupts blocked I/O only if it is a real instant: the zero time.Time CLEARS the deadline
		if meth != "Close" && (len(ci.Common().Args) == 0 || !nonZeroTime(ci.Common().Args[len(ci.Common().Args)-1])) {
			R.Note("%s at %s is not counted as interrupting blocked I/O: its time argument is not shown to be a non-zero instant", meth, c.pos(ci))
			continue
		}
		f := u.Fn
		// (a) in Stop before connWg.Wait
		if f == m.stop {
			wakers = append(wakers, waker{f, ci, meth, nil})
			continue
		}
		// (b) f (or an ancestor closure) is the target of a go / AfterFunc, and the call is dominated by a receive from shutdownCtx.Done()
		startOf := func(f *ssa.Function) ssa.Instruction {
			var start ssa.Instruction
			for _, g := range shipped {
				for _, gi := range an.Calls(g) {
					if gg, ok := gi.(*ssa.Go); ok && goTarget(gg) == f {
						start = gg
					}
					if an.CalleeIs(gi.Common(), "context", "AfterFunc") {
						if t := an.StaticCallee(&ssa.CallCommon{Value: gi.Common().Args[1]}); t == f && c.isShutdownCtx(gi.Common().Args[0]) {
							start = gi
						}
					}
				}
			}
			return start
		}
		start := startOf(f)
		at := ci // the instruction of the started function that leads to the deadline / close
		if start == nil {
			// (c) the call sits in a helper that performs it on every path, called from such a function
			succRet := func(in ssa.Instruction) bool {
				ret, ok := in.(*ssa.Return)
				if !ok {
					return false
				}
				ei := errResultIndex(f)
				return ei < 0 || !definitelyError(an.ReturnResults(ret)[ei], ret)
			}
			if an.Search(an.Entry(f), succRet, isInstr(ci)) == nil {
				for _, g := range shipped {
					for _, cs := range an.Calls(g) {
						if an.StaticCallee(cs.Common()) == f && isCall(cs) {
							if st := startOf(g); st != nil {
								start, at = st, cs
							}
						}
					}
				}
			}
		}
		if start == nil {
			continue
		}
		if _, isAfter := start.(*ssa.Go); isAfter {
			if !c.dominatedByShutdownRecv(at) {
				continue
			}
		}
		wakers = append(wakers, waker{f, ci, meth, start})
	}
	covR, covW := false, false
	var used []waker
	for _, w := range wakers {
		// started for every connection before its first read
		if w.start != nil && !c.startedBeforeFirstRead(w.start, m) {
			continue
		}
		if w.start == nil {
			// in Stop: must precede Wait
			var wait ssa.CallInstruction
			for _, ci := range an.Calls(m.stop) {
				if isWG(ci.Common(), "Wait", G, "Server", "connWg") {
					wait = ci
				}
			}
			if wait == nil || an.Search(an.Entry(m.stop), isInstr(wait), isInstr(w.call)) != nil {
				continue
			}
		}
		used = append(used, w)
		switch w.method {
		case "Close", "SetDeadline":
			covR, covW = true, true
		case "SetReadDeadline":
			covR = true
		case "SetWriteDeadline":
			covW = true
		}
	}
	key := "shutdown interrupts blocked connection I/O"
	switch {
	case covR && covW:
		w := used[0]
		R.OK("C11-waker", key, c.pos(w.call), sprintf("%s on the connection's socket runs asynchronously to the read loop once shutdownCtx is cancelled (%s), started for every connection before its first read", w.method, fname(w.fn)))
	case covR:
		R.Fail("C11-waker", key, c.pos(used[0].call), "only reads are interrupted on shutdown; a client that does not read its responses still blocks Stop in a write")
	default:
		R.Fail("C11-waker", key, c.pos(m.readReq), "nothing closes or deadlines a connection that is blocked in ReadPacket/Write when Stop is called: the shutdown check runs only between requests, so one idle client keeps Stop from returning")
	}

	// ---- C11-waker-first: the connection goroutine does no blocking socket I/O (a read, a write, a handshake) before
	// the waker that covers it is started: I/O begun earlier is not interrupted by Stop
	for _, w := range used {
		if w.start == nil {
			continue
		}
		sf := w.start.Parent()
		var regions []struct {
			fn   *ssa.Function
			stop ssa.Instruction
		}
		switch sf {
		case m.connFn:
			regions = append(regions, struct {
				fn   *ssa.Function
				stop ssa.Instruction
			}{m.connFn, w.start})
		case m.serve:
			regions = append(regions, struct {
				fn   *ssa.Function
				stop ssa.Instruction
			}{m.connFn, m.serveCall}, struct {
				fn   *ssa.Function
				stop ssa.Instruction
			}{m.serve, w.start})
		default:
			continue // started before the connection goroutine exists
		}
		bad := 0
		for _, rg := range regions {
			for _, ci := range an.Calls(rg.fn) {
				if isGo(ci) || ci == rg.stop {
					continue
				}
				if _, isDefer := ci.(*ssa.Defer); isDefer {
					continue
				}
				site := c.blockingSocketIO(ci, map[*ssa.Function]bool{})
				if site == "" {
					continue
				}
				if an.Search(an.Entry(rg.fn), isInstr(ci), isInstr(rg.stop)) != nil {
					bad++
					R.Fail("C11-waker-first", fname(rg.fn)+": no blocking socket I/O before the shutdown watcher is started", c.pos(ci), "the connection goroutine can block in "+site+" before the watcher that interrupts its I/O on shutdown is started ("+c.pos(w.start)+"): a client stalling there keeps Stop waiting")
				}
			}
		}
		if bad == 0 {
			R.OK("C11-waker-first", fname(sf)+": no blocking socket I/O before the shutdown watcher is started", c.pos(w.start), "no call that reaches ReadPacket, a bufio.Writer write/flush, a net.Conn read/write or a TLS handshake lies on a path of the connection goroutine before the watcher start")
		}
		break
	}

	// ---- C11-waker-lifetime: a goroutine waker that can also be told to stop (select with another channel)
	// must stay armed until the connection's handlers have ended, i.e. until (*conn).close has returned in the
	// teardown: a handler blocked in a write after the read loop ended still has to be interrupted by Stop.
	// cancelLate: every call of the cancel function of the context made by wc happens only after (*conn).close
	cancelLate := func(wc *ssa.Call, key string) int {
		n := 0
		for _, f := range shipped {
			for _, ci := range an.Calls(f) {
				cc := ci.Common()
				if cc.IsInvoke() || cc.StaticCallee() != nil {
					continue
				}
				cex, ok := an.StripX(cc.Value).(*ssa.Extract)
				if !ok || cex.Tuple != ssa.Value(wc) || cex.Index != 1 {
					continue
				}
				n++
				okLate := false
				switch x := ci.(type) {
				case *ssa.Call:
					okLate = f == m.teardown && an.InstrDominates(m.closeCall, x)
				case *ssa.Defer:
					// defers run last-in first-out: registered before the teardown's defer = runs after it
					okLate = f == m.connFn && m.tdDefer != nil && an.InstrDominates(x, m.tdDefer)
				}
				R.Check(okLate, "C11-waker-lifetime", key, c.pos(ci), "the watcher's context is cancelled only after (*conn).close, which waits for the handlers, has returned",
					"the shutdown watcher's context is cancelled before (*conn).close has waited for the connection's handlers (deferred calls run last-in first-out): if the read loop ends (Unbind, EOF) while a handler is blocked writing to a client that does not read, a later Stop() no longer arms the write deadline and never returns")
			}
		}
		return n
	}
	// a watcher registered with context.AfterFunc(shutdownCtx, f): the stop function it returns is what disarms it
	seenAF := map[ssa.Instruction]bool{}
	for _, w := range used {
		af, isCallI := w.start.(*ssa.Call)
		if !isCallI || !an.CalleeIs(af.Common(), "context", "AfterFunc") || seenAF[af] {
			continue
		}
		seenAF[af] = true
		key := fname(w.fn) + ": stays armed until the handlers have ended (stop function of context.AfterFunc)"
		n := 0
		for _, f := range shipped {
			for _, ci := range an.Calls(f) {
				cc := ci.Common()
				if cc.IsInvoke() || cc.StaticCallee() != nil || an.StripX(cc.Value) != ssa.Value(af) {
					continue
				}
				n++
				okLate := false
				switch x := ci.(type) {
				case *ssa.Call:
					okLate = f == m.teardown && an.InstrDominates(m.closeCall, x)
				case *ssa.Defer:
					// defers run last-in first-out: registered before the teardown's defer = runs after it
					okLate = f == m.connFn && m.tdDefer != nil && an.InstrDominates(x, m.tdDefer)
				}
				R.Check(okLate, "C11-waker-lifetime", key, c.pos(ci), "the watcher is disarmed only after (*conn).close, which waits for the handlers, has returned",
					"the shutdown watcher is disarmed before (*conn).close has waited for the connection's handlers (deferred calls run last-in first-out): if the read loop ends (Unbind, EOF) while a handler is blocked writing to a client that does not read, a later Stop() no longer arms the write deadline and never returns")
			}
		}
		// the stop function handed on as a value (stored, passed to a helper): who calls it, and when, is not followed
		for _, ref := range *af.Referrers() {
			switch x := ref.(type) {
			case ssa.CallInstruction:
				if x.Common().Value == ssa.Value(af) {
					continue
				}
				n++
				R.Unknown("C11-waker-lifetime", key+": passed on", c.pos(x), "the stop function is handed to another function: when it is called is not followed")
			case *ssa.MakeClosure, *ssa.DebugRef:
			case *ssa.Store:
				if _, isAlloc := an.Strip(x.Addr).(*ssa.Alloc); !isAlloc {
					n++
					R.Unknown("C11-waker-lifetime", key+": stored", c.pos(x), "the stop function is stored: when it is called is not followed")
				}
			}
		}
		if n == 0 {
			R.OK("C11-waker-lifetime", key, c.pos(af), "the stop function is never called: the watcher lives until shutdown")
		}
	}
	seenWaker := map[*ssa.Function]bool{}
	for _, w := range used {
		if _, isGo := w.start.(*ssa.Go); !isGo || seenWaker[w.fn] {
			continue
		}
		seenWaker[w.fn] = true
		// the watcher waits on one context derived from shutdownCtx (fires on shutdown and on its own cancel)
		an.Instrs(w.fn, func(in ssa.Instruction) {
			u, ok := in.(*ssa.UnOp)
			if !ok || u.Op != token.ARROW {
				return
			}
			if wc := c.derivedShutdownDone(u.X); wc != nil {
				key := fname(w.fn) + ": stays armed until the handlers have ended (derived context " + an.Path(an.Strip(u.X)) + ")"
				if cancelLate(wc, key) == 0 {
					R.OK("C11-waker-lifetime", key, c.pos(u), "the derived context's cancel function is never called: the watcher lives until shutdown")
				}
			}
		})
		an.Instrs(w.fn, func(in ssa.Instruction) {
			sel, ok := in.(*ssa.Select)
			if !ok {
				return
			}
			for _, stt := range sel.States {
				if stt.Dir != types.RecvOnly || c.isShutdownDone(stt.Chan) {
					continue
				}
				ch := an.Strip(stt.Chan)
				key := fname(w.fn) + ": stays armed until the handlers have ended (stop channel " + an.Path(ch) + ")"
				n := 0
				for _, f := range shipped {
					for _, ci := range an.Calls(f) {
						cc := ci.Common()
						b, isB := cc.Value.(*ssa.Builtin)
						if !isB || b.Name() != "close" || an.Strip(cc.Args[0]) != ch {
							continue
						}
						n++
						okLate := false
						switch x := ci.(type) {
						case *ssa.Call:
							okLate = f == m.teardown && an.InstrDominates(m.closeCall, x)
						case *ssa.Defer:
							// defers run last-in first-out: registered before the teardown's defer = runs after it
							okLate = f == m.connFn && m.tdDefer != nil && an.InstrDominates(x, m.tdDefer)
						}
						R.Check(okLate, "C11-waker-lifetime", key, c.pos(ci), "the stop channel is closed only after (*conn).close, which waits for the handlers, has returned",
							"the shutdown watcher is told to stop before (*conn).close has waited for the connection's handlers (deferred calls run last-in first-out): if the read loop ends (Unbind, EOF) while a handler is blocked writing to a client that does not read, a later Stop() no longer arms the write deadline and never returns")
					}
					// the channel handed to a helper that closes it: fine only for the teardown's close helper, after
					// (or deferred around) its conn.close call
					for _, ci := range an.Calls(f) {
						g := an.StaticCallee(ci.Common())
						if g == nil || !an.InModule(g) || len(g.Blocks) == 0 {
							continue
						}
						for ai, a := range ci.Common().Args {
							if an.Strip(a) != ch || ai >= len(g.Params) {
								continue
							}
							gp := g.Params[ai]
							for _, gi := range an.Calls(g) {
								gb, isB := gi.Common().Value.(*ssa.Builtin)
								if !isB || gb.Name() != "close" || an.Strip(gi.Common().Args[0]) != ssa.Value(gp) {
									continue
								}
								n++
								okLate := false
								if g == m.teardown {
									// the teardown itself is a named function that is given the channel
									switch x := gi.(type) {
									case *ssa.Defer:
										okLate = true // runs when the teardown returns, after its conn.close call
									case *ssa.Call:
										okLate = an.InstrDominates(m.closeCall, x)
									}
								} else if g == m.closeHelper && ci == m.closeCall {
									inner := callTo(g, G, "(*conn).close")
									switch x := gi.(type) {
									case *ssa.Defer:
										okLate = true // runs when the helper returns, i.e. after its conn.close call
									case *ssa.Call:
										okLate = len(inner) == 1 && an.InstrDominates(inner[0], x)
									}
								}
								R.Check(okLate, "C11-waker-lifetime", key, c.pos(gi), "the stop channel is closed by the teardown's close helper, only after (*conn).close has returned",
									"the shutdown watcher is told to stop (in "+fname(g)+") before (*conn).close has waited for the connection's handlers")
							}
						}
					}
					an.Instrs(f, func(in2 ssa.Instruction) {
						if snd, ok := in2.(*ssa.Send); ok && an.Strip(snd.Chan) == ch {
							n++
							R.Check(f == m.teardown && an.InstrDominates(m.closeCall, snd), "C11-waker-lifetime", key, c.pos(snd), "sent only after (*conn).close returned", "the shutdown watcher is told to stop before the connection's handlers have ended")
						}
					})
				}
				// stop channel = Done() of a context made by context.WithCancel: its cancel function is what fires it
				if dc, ok := ch.(*ssa.Call); ok && dc.Common().IsInvoke() && dc.Common().Method.Name() == "Done" {
					if ex, ok := an.StripX(dc.Common().Value).(*ssa.Extract); ok && ex.Index == 0 {
						if wc, ok := ex.Tuple.(*ssa.Call); ok && an.CalleeIs(wc.Common(), "context", "WithCancel") {
							n += cancelLate(wc, key)
						}
					}
				}
				if n == 0 {
					R.OK("C11-waker-lifetime", key, c.pos(sel), "nothing ever fires the stop channel: the watcher lives until shutdown")
				}
			}
		})
	}

	// ---- C11-accounting: Stop() ends in connWg.Wait(): it returns only if every connWg.Add is matched by a
	// Done on every path (rules of C12, imported)
	{
		tmp := &Ctx{P: c.P, R: report.New("tmp"), Tier: c.Tier, Sub: true}
		checkC12(tmp)
		n := 0
		for _, o := range tmp.R.Obls {
			if o.Rule == "C12-done-last" || o.Rule == "C12-add-vs-wait" {
				n++
				switch o.Status {
				case report.Discharged:
					R.OK("C11-accounting", o.Construct, o.Pos, o.Detail)
				default:
					R.Fail("C11-accounting", o.Construct, o.Pos, o.Detail)
				}
			}
		}
		R.Floor("C11-accounting", 2)
	}

	// ---- C11-lockrelease: a mutex of gldap that stays locked blocks the goroutines Stop waits for (or Stop itself)
	c.checkLockRelease("C11-lockrelease", shipped, "every later user of the mutex blocks for ever, and with it the connection goroutine Stop() waits for")
	R.Floor("C11-lockrelease", 4)

	// ---- C11-stop-order
	c.checkStopOrder("C11-stop-order", m)
	// ---- C11-run-nil
	isShutdownAtom := func(b *ssa.BasicBlock) bool {
		if hasFact(b, true, isClosedAtom) {
			return true
		}
		for _, fct := range an.BranchFacts(b) {
			cond, neg := an.Not(fct.Cond)
			if tms, ok := c.shutdownTest(cond); ok {
				if (fct.True != neg) == tms { // Err() != nil
					return true
				}
			}
		}
		// select on shutdownCtx.Done(): block dominated by `index == 0` of a select whose state 0 receives from Done()
		return hasFact(b, true, func(v ssa.Value) bool {
			bo, ok := v.(*ssa.BinOp)
			if !ok || bo.Op != token.EQL {
				return false
			}
			ex, ok := an.Strip(bo.X).(*ssa.Extract)
			if !ok {
				return false
			}
			sel, ok := ex.Tuple.(*ssa.Select)
			if !ok {
				return false
			}
			k, ok := an.IntConst(bo.Y)
			if !ok || int(k) >= len(sel.States) {
				return false
			}
			return c.isShutdownDone(sel.States[k].Chan)
		})
	}
	// `if !s.reserveConn() { return nil }`: a helper that reports false only when the server is shutting down
	var viaHelper []*ssa.BasicBlock
	for _, f := range shipped {
		for _, ci := range an.Calls(f) {
			if !isWG(ci.Common(), "Add", G, "Server", "connWg") || ci.Parent() == m.run {
				continue
			}
			if hc, _, not, _ := c.reserveHelper(ci, m); hc != nil {
				onlyShutdown := true
				for _, ret := range an.Returns(ci.Parent()) {
					if v, isC := an.BoolConst(an.ReturnResults(ret)[0]); isC && !v && !isShutdownAtom(ret.Block()) {
						onlyShutdown = false
					}
				}
				if onlyShutdown {
					viaHelper = append(viaHelper, not)
				}
			}
		}
	}
	nNil := 0
	for _, ret := range an.Returns(m.run) {
		via := false
		for _, b := range viaHelper {
			if b.Dominates(ret.Block()) {
				via = true
			}
		}
		if !isShutdownAtom(ret.Block()) && !via {
			continue
		}
		nNil++
		res := an.ReturnResults(ret)
		R.Check(an.IsNilConst(an.Strip(res[0])), "C11-run-nil", "(*Server).Run: shutdown exit returns nil at "+retKind(c, m, ret), c.pos(ret), "constant nil", "Run returns an error on an orderly shutdown")
	}
	R.Floor("C11-run-nil", 2)
	// ---- C11-nolock
	slice := map[*ssa.Function]bool{}
	for f := range syncReach(m.connFn) {
		for _, a := range an.WithClosures(f) {
			slice[a] = true
		}
	}
	if m.reqFn != nil {
		for f := range syncReach(m.reqFn) {
			slice[f] = true
		}
	}
	nl := 0
	for f := range slice {
		for _, ci := range an.Calls(f) {
			if k, mu := an.LockOp(ci.Common()); k != "" {
				if _, ok := fieldAddr(mu, G, "Server", "mu"); ok {
					nl++
					R.Fail("C11-nolock", fname(f)+": Server.mu."+k, c.pos(ci), "a connection goroutine takes Server.mu, which Stop holds while waiting for that goroutine")
				}
			}
		}
	}
	R.Trivial("C11-nolock", "connection goroutines never take Server.mu", c.P.Pos(m.connFn.Pos()), sprintf("%d functions scanned", len(slice)))
	R.NotDecided = append(R.NotDecided, "the time bound itself", "kernel / TLS stack behaviour after Close or deadline", "progress of user handlers")
	R.Assumptions = append(R.Assumptions, "net.Conn.SetDeadline/Close unblock pending Read and Write calls (net package contract)")
}

// isShutdownErrAtom: `shutdownCtx.Err() != nil` / `== nil`.
func (c *Ctx) isShutdownErrAtom(v ssa.Value) bool {
	x, _, ok := an.NilCheck(v)
	if !ok {
		return false
	}
	call, ok := an.Strip(x).(*ssa.Call)
	if !ok || !call.Common().IsInvoke() || call.Common().Method.Name() != "Err" {
		return false
	}
	return c.isShutdownCtx(call.Common().Value)
}

// shutdownTest: cond (negation-stripped) tells whether the server is stopping:
// `ctx.Err() != nil` / `== nil` on the shutdown context, or a call of a module
// accessor that returns exactly that (`func (s *Server) stopping() bool`).
// Returns whether a true value of cond means "stopping".
func (c *Ctx) shutdownTest(cond ssa.Value) (trueMeansStopping bool, ok bool) {
	if c.isShutdownErrAtom(cond) {
		_, trueMeansNil, _ := an.NilCheck(cond)
		return !trueMeansNil, true
	}
	if hc, isCall := cond.(*ssa.Call); isCall {
		if g := an.StaticCallee(hc.Common()); g != nil && an.InModule(g) && len(g.Blocks) > 0 && len(an.Returns(g)) == 1 {
			if res := an.ReturnResults(an.Returns(g)[0]); len(res) == 1 {
				inner, ineg := an.Not(res[0])
				if c.isShutdownErrAtom(inner) {
					_, tmn, _ := an.NilCheck(inner)
					return (!tmn) != ineg, true
				}
			}
		}
	}
	return false, false
}

// condIfOf returns the If instruction branching on cond (possibly negated).
// condIfsOf lists every If that branches on cond (possibly through negations).
func condIfsOf(cond ssa.Value) []*ssa.If {
	var out []*ssa.If
	var visit func(v ssa.Value)
	visit = func(v ssa.Value) {
		refs := v.Referrers()
		if refs == nil {
			return
		}
		for _, r := range *refs {
			switch x := r.(type) {
			case *ssa.If:
				out = append(out, x)
			case *ssa.UnOp:
				visit(x)
			}
		}
	}
	visit(cond)
	return out
}

func condIfOf(cond ssa.Value) *ssa.If {
	var out *ssa.If
	var visit func(v ssa.Value)
	visit = func(v ssa.Value) {
		refs := v.Referrers()
		if refs == nil {
			return
		}
		for _, r := range *refs {
			switch x := r.(type) {
			case *ssa.If:
				out = x
			case *ssa.UnOp:
				visit(x)
			}
		}
	}
	visit(cond)
	return out
}

func (c *Ctx) isShutdownCtx(v ssa.Value) bool {
	_, names := an.FieldChain(v)
	return len(names) >= 1 && (names[len(names)-1] == "shutdownCtx" || names[len(names)-1] == fld("Server", "shutdownCtx") || names[len(names)-1] == fld("conn", "shutdownCtx"))
}

// derivedShutdownDone: ch is X.Done() for X, _ := context.WithCancel / WithTimeout /
// WithDeadline(<shutdownCtx>, ...); returns that With* call.
func (c *Ctx) derivedShutdownDone(ch ssa.Value) *ssa.Call {
	dc, ok := an.Strip(ch).(*ssa.Call)
	if !ok || !dc.Common().IsInvoke() || dc.Common().Method.Name() != "Done" {
		return nil
	}
	ex, ok := an.StripX(dc.Common().Value).(*ssa.Extract)
	if !ok || ex.Index != 0 {
		return nil
	}
	wc, ok := ex.Tuple.(*ssa.Call)
	if !ok {
		return nil
	}
	f := wc.Common().StaticCallee()
	if f == nil || an.FuncPkgPath(f) != "context" || !strings.HasPrefix(f.Name(), "With") || len(wc.Common().Args) == 0 || !c.isShutdownCtx(wc.Common().Args[0]) {
		return nil
	}
	return wc
}

func (c *Ctx) isShutdownDone(ch ssa.Value) bool {
	call, ok := an.Strip(ch).(*ssa.Call)
	if !ok || !call.Common().IsInvoke() || call.Common().Method.Name() != "Done" {
		return false
	}
	return c.isShutdownCtx(call.Common().Value)
}

// nonZeroTime: time.Now() or time.Now().Add(d) - never the zero time.Time,
// which as a deadline means "no deadline".
func nonZeroTime(v ssa.Value) bool {
	call, ok := an.Strip(v).(*ssa.Call)
	if !ok {
		return false
	}
	g := call.Common().StaticCallee()
	if g == nil || an.FuncPkgPath(g) != "time" {
		return false
	}
	if g.Name() == "Now" {
		return true
	}
	if g.Name() == "Add" && len(call.Common().Args) == 2 {
		if in, ok := an.Strip(call.Common().Args[0]).(*ssa.Call); ok {
			if h := in.Common().StaticCallee(); h != nil && an.FuncPkgPath(h) == "time" && h.Name() == "Now" {
				return true
			}
		}
	}
	return false
}

// dominatedByShutdownRecv: the instruction only executes after a receive from
// shutdownCtx.Done() (plain receive, or the matching case of a blocking select).
func (c *Ctx) dominatedByShutdownRecv(in ssa.Instruction) bool {
	fn := in.Parent()
	ok := false
	// the callback of context.AfterFunc(shutdownCtx, f) runs only once the server is stopping
	for _, g := range c.shippedFuncs(G) {
		for _, gi := range an.Calls(g) {
			if an.CalleeIs(gi.Common(), "context", "AfterFunc") && len(gi.Common().Args) == 2 && c.isShutdownCtx(gi.Common().Args[0]) {
				if t := an.StaticCallee(&ssa.CallCommon{Value: gi.Common().Args[1]}); t != nil && (t == fn || fn.Parent() == t) {
					return true
				}
			}
		}
	}
	an.Instrs(fn, func(x ssa.Instruction) {
		if u, isU := x.(*ssa.UnOp); isU && u.Op == token.ARROW && an.InstrDominates(u, in) {
			if c.isShutdownDone(u.X) {
				ok = true
			} else if c.derivedShutdownDone(u.X) != nil {
				// a context derived from shutdownCtx: fires when the server stops (and when its own cancel is
				// called, which rule C11-waker-lifetime holds to "only after conn.close")
				ok = true
			}
		}
	})
	if ok {
		return true
	}
	return hasFact(in.Block(), true, func(v ssa.Value) bool {
		bo, isB := v.(*ssa.BinOp)
		if !isB || bo.Op != token.EQL {
			return false
		}
		ex, isE := an.Strip(bo.X).(*ssa.Extract)
		if !isE {
			return false
		}
		sel, isS := ex.Tuple.(*ssa.Select)
		if !isS || !sel.Blocking {
			return false
		}
		k, isK := an.IntConst(bo.Y)
		return isK && int(k) < len(sel.States) && sel.States[k].Dir == types.RecvOnly && c.isShutdownDone(sel.States[k].Chan)
	}) || c.selectCaseDominates(in)
}

// selectCaseDominates handles the two-case blocking select, where go/ssa
// branches on `index == 0` and the other case is the else edge.
func (c *Ctx) selectCaseDominates(in ssa.Instruction) bool {
	for _, fct := range an.BranchFacts(in.Block()) {
		cond, neg := an.Not(fct.Cond)
		bo, isB := cond.(*ssa.BinOp)
		if !isB || bo.Op != token.EQL {
			continue
		}
		ex, isE := an.Strip(bo.X).(*ssa.Extract)
		if !isE {
			continue
		}
		sel, isS := ex.Tuple.(*ssa.Select)
		if !isS || !sel.Blocking || len(sel.States) != 2 {
			continue
		}
		k, isK := an.IntConst(bo.Y)
		if !isK {
			continue
		}
		taken := int(k)
		if fct.True == neg { // condition false: the other case
			taken = 1 - taken
		}
		if taken >= 0 && taken < 2 && sel.States[taken].Dir == types.RecvOnly && c.isShutdownDone(sel.States[taken].Chan) {
			return true
		}
	}
	return false
}

// startedBeforeFirstRead: the go/AfterFunc instruction lies on every path
// from the accept of a connection to its first blocking read.
func (c *Ctx) startedBeforeFirstRead(start ssa.Instruction, m *serverModel) bool {
	f := start.Parent()
	switch f {
	case m.run:
		return an.InstrDominates(m.accept, start) && an.Search(an.After(m.accept), isInstr(m.connGo), isInstr(start)) == nil
	case m.connFn:
		return an.Search(an.Entry(m.connFn), isInstr(m.serveCall), isInstr(start)) == nil
	case m.serve:
		return an.Search(an.Entry(m.serve), isInstr(m.readReq), isInstr(start)) == nil
	}
	if nc := c.P.Func(G, "newConn"); nc != nil && f == nc {
		// every success return passes it
		for _, ret := range an.Returns(nc) {
			res := an.ReturnResults(ret)
			if an.IsNilConst(an.Strip(res[1])) && an.Search(an.Entry(nc), isInstr(ret), isInstr(start)) != nil {
				return false
			}
		}
		return true
	}
	return false
}

// listenCall finds the call that binds the listening socket: any net / tls
// Listen* function returning (listener, error), in Run itself or in a helper
// that runs only as a synchronous part of Run.
func (c *Ctx) listenCall(run *ssa.Function) *ssa.Call {
	var out *ssa.Call
	shipped := c.shippedFuncs(G)
	for _, fn := range shipped {
		if fn != run {
			if ok, _ := syncOnlyFrom(fn, run, shipped, 0); !ok {
				continue
			}
		}
		for _, ci := range an.Calls(fn) {
			call, ok := ci.(*ssa.Call)
			if !ok {
				continue
			}
			f := call.Common().StaticCallee()
			if f == nil {
				continue
			}
			pp := an.FuncPkgPath(f)
			if (pp == "net" || pp == "crypto/tls") && strings.HasPrefix(f.Name(), "Listen") && f.Signature.Results().Len() == 2 && isErrorType(f.Signature.Results().At(1).Type()) {
				if out != nil {
					c.R.Fatal("Run has several listen calls")
				}
				out = call
			}
		}
	}
	return out
}

// listenErrIn returns a predicate recognising, inside fn, "the error of the
// listen": in the function that calls Listen it is the call's second result;
// in Run, when the listen lives in a helper, it is the helper's error result,
// provided the helper returns nil exactly when the listen succeeded.
func (c *Ctx) listenErrIn(fn *ssa.Function, listen *ssa.Call) (func(ssa.Value) bool, *ssa.Call, string) {
	direct := func(x ssa.Value) bool {
		ex, ok := an.Strip(x).(*ssa.Extract)
		return ok && ex.Tuple == ssa.Value(listen) && ex.Index == 1
	}
	if listen.Parent() == fn {
		return direct, listen, ""
	}
	// find the (chain of) helper call(s) in fn leading to listen.Parent()
	h := listen.Parent()
	var hcall *ssa.Call
	for _, ci := range an.Calls(fn) {
		if call, ok := ci.(*ssa.Call); ok && an.StaticCallee(call.Common()) == h {
			hcall = call
		}
	}
	if hcall == nil {
		return nil, nil, "the listen is more than one call away from " + fname(fn)
	}
	nres := h.Signature.Results().Len()
	ei := nres - 1
	if nres == 0 || !isErrorType(h.Signature.Results().At(ei).Type()) {
		return nil, nil, fname(h) + " does not return an error as its last result"
	}
	// nil error <=> listen ok
	for _, ret := range an.Returns(h) {
		res := an.ReturnResults(ret)
		res = []ssa.Value{res[ei]}
		isNil := an.IsNilConst(an.Strip(res[0]))
		okFact, failFact := false, false
		for _, f := range an.BranchFacts(ret.Block()) {
			cond, neg := an.Not(f.Cond)
			x, trueMeansNil, ok := an.NilCheck(cond)
			if !ok || !direct(x) {
				continue
			}
			if (f.True != neg) == trueMeansNil {
				okFact = true
			} else {
				failFact = true
			}
		}
		switch {
		case isNil && okFact:
		case !isNil && direct(res[0]):
			// `return err`: nil exactly when the listen succeeded
		case !isNil && failFact && definitelyError(res[0], ret):
			// a freshly built error on the failure side
		default:
			return nil, nil, fname(h) + " can return " + map[bool]string{true: "nil", false: "an error"}[isNil] + " independently of the listen result at " + c.pos(ret)
		}
	}
	if nres == 1 {
		return func(x ssa.Value) bool { return an.Strip(x) == ssa.Value(hcall) }, hcall, ""
	}
	return func(x ssa.Value) bool {
		ex, ok := an.Strip(x).(*ssa.Extract)
		return ok && ex.Tuple == ssa.Value(hcall) && ex.Index == ei
	}, hcall, ""
}

// blockingSocketIO reports the blocking socket I/O a call performs, directly
// or in a module function it runs synchronously: ber.ReadPacket, a bufio.Writer
// Write/Flush, a Read/Write on a net.Conn / tls.Conn, or a TLS handshake.
func (c *Ctx) blockingSocketIO(ci ssa.CallInstruction, seen map[*ssa.Function]bool) string {
	cc := ci.Common()
	switch {
	case an.CalleeIs(cc, an.PkgBer, "ReadPacket"):
		return "ber.ReadPacket"
	case func() bool { n, _, ok := isBufioWriterMethod(cc); return ok && (n == "Write" || n == "Flush") }():
		return "bufio.Writer." + cc.StaticCallee().Name()
	}
	if f := cc.StaticCallee(); f != nil && an.FuncPkgPath(f) == "crypto/tls" && f.Signature.Recv() != nil {
		switch f.Name() {
		case "HandshakeContext":
			// a handshake bound to the shutdown context (or one derived from it) is interrupted when the server stops
			if len(cc.Args) == 2 {
				ctx := an.StripX(cc.Args[1])
				if c.isShutdownCtx(ctx) {
					return ""
				}
				if ex, ok := ctx.(*ssa.Extract); ok && ex.Index == 0 {
					if wc, ok := ex.Tuple.(*ssa.Call); ok {
						if g := wc.Common().StaticCallee(); g != nil && an.FuncPkgPath(g) == "context" && strings.HasPrefix(g.Name(), "With") && len(wc.Common().Args) > 0 && c.isShutdownCtx(wc.Common().Args[0]) {
							return ""
						}
					}
				}
			}
			return "tls.Conn." + f.Name()
		case "Handshake", "Read", "Write":
			return "tls.Conn." + f.Name()
		}
	}
	if cc.IsInvoke() && (cc.Method.Name() == "Read" || cc.Method.Name() == "Write") && an.TypeIs(cc.Value.Type(), "net", "Conn") {
		return "net.Conn." + cc.Method.Name()
	}
	for _, u := range syncCalleesOf(ci) {
		if seen[u] {
			continue
		}
		seen[u] = true
		for _, ic := range an.Calls(u) {
			if isGo(ic) {
				continue
			}
			if s := c.blockingSocketIO(ic, seen); s != "" {
				return s + " (via " + fname(u) + ")"
			}
		}
	}
	return ""
}

// syncCalleesOf: the module functions one call instruction runs.
func syncCalleesOf(ci ssa.CallInstruction) []*ssa.Function {
	if f := an.StaticCallee(ci.Common()); f != nil && an.InModule(f) && len(f.Blocks) > 0 {
		return []*ssa.Function{f}
	}
	return invokeTargets(ci.Parent().Prog, ci.Common())
}

// checkStreamProvenance: the connection a conn reads requests from is the one
// Accept returned (the TLS connection on a TLS listener) or a TLS layer built
// on the conn's current socket - never a socket dug out from somewhere else
// (the raw connection underneath a failed handshake, a fresh dial, ...).
func (c *Ctx) checkStreamProvenance(rule string, m *serverModel) {
	shipped := c.shippedFuncs(G)
	var origin func(v ssa.Value, seen map[ssa.Value]bool) string
	origin = func(v ssa.Value, seen map[ssa.Value]bool) string {
		if seen[v] {
			return ""
		}
		seen[v] = true
		switch x := v.(type) {
		case *ssa.MakeInterface:
			return origin(x.X, seen)
		case *ssa.ChangeInterface:
			return origin(x.X, seen)
		case *ssa.ChangeType:
			return origin(x.X, seen)
		case *ssa.TypeAssert:
			return origin(x.X, seen)
		case *ssa.Phi:
			for _, e := range x.Edges {
				if why := origin(e, seen); why != "" {
					return why
				}
			}
			return ""
		case *ssa.Extract:
			if ta, ok := x.Tuple.(*ssa.TypeAssert); ok && x.Index == 0 {
				return origin(ta.X, seen)
			}
			if x.Tuple == ssa.Value(m.accept) && x.Index == 0 {
				return ""
			}
			// a result of a module helper: what the helper returns there
			if hc, ok := x.Tuple.(*ssa.Call); ok {
				if hf := an.StaticCallee(hc.Common()); hf != nil && an.InModule(hf) && len(hf.Blocks) > 0 {
					n := 0
					for _, ret := range an.Returns(hf) {
						res := an.ReturnResults(ret)
						if x.Index >= len(res) || an.IsNilConst(an.Strip(res[x.Index])) {
							continue
						}
						n++
						if why := origin(res[x.Index], seen); why != "" {
							return why
						}
					}
					if n > 0 {
						return ""
					}
				}
			}
			return "comes from " + an.Path(x)
		case *ssa.UnOp:
			if x.Op == token.MUL {
				if _, ok := fieldAddr(x.X, G, "conn", "netConn"); ok {
					return ""
				}
				if al, ok := an.CellRoot(x.X).(*ssa.Alloc); ok {
					sts, esc := an.CellStores(al)
					if esc {
						return "is held in a variable whose address escapes"
					}
					for _, st := range sts {
						if why := origin(st.Val, seen); why != "" {
							return why
						}
					}
					return ""
				}
			}
			return "comes from " + an.Path(x)
		case *ssa.Call:
			if an.CalleeIs(x.Common(), "crypto/tls", "Server") {
				return origin(x.Common().Args[0], seen)
			}
			if _, isAcc := fieldLoad(x, G, "conn", "netConn"); isAcc {
				return "" // an accessor that returns conn.netConn
			}
			if hf := an.StaticCallee(x.Common()); hf != nil && an.InModule(hf) && len(hf.Blocks) > 0 && hf.Signature.Results().Len() == 1 {
				n := 0
				for _, ret := range an.Returns(hf) {
					res := an.ReturnResults(ret)
					if an.IsNilConst(an.Strip(res[0])) {
						continue
					}
					n++
					if why := origin(res[0], seen); why != "" {
						return why
					}
				}
				if n > 0 {
					return ""
				}
			}
			return "comes from " + an.Path(x)
		case *ssa.FreeVar:
			if b := an.FreeVarBinding(x); b != nil {
				return origin(b, seen)
			}
			return "comes from a captured variable"
		case *ssa.Parameter:
			fn := x.Parent()
			idx := -1
			for i, p := range fn.Params {
				if p == x {
					idx = i
				}
			}
			sites := callSites(shipped, func(cc *ssa.CallCommon) bool { return an.StaticCallee(cc) == fn })
			if len(sites) == 0 || idx < 0 {
				return "is parameter " + x.Name() + " of " + fname(fn) + ", which has no resolvable caller"
			}
			for _, ci := range sites {
				if why := origin(ci.Common().Args[idx], seen); why != "" {
					return why
				}
			}
			return ""
		}
		return "comes from " + an.Path(v)
	}
	n := 0
	for _, ci := range callSites(shipped, func(cc *ssa.CallCommon) bool { return an.CalleeIs(cc, G, "(*conn).initConn") }) {
		n++
		why := origin(ci.Common().Args[1], map[ssa.Value]bool{})
		c.R.Check(why == "", rule, fname(ci.Parent())+": initConn installs the accepted connection or a TLS layer on it", c.pos(ci), "the stream given to initConn is Accept's result, conn.netConn, or tls.Server(...) of those", "the connection's reader/writer are re-pointed at a socket that "+why+": bytes that did not arrive through the accepted (TLS) connection would be served")
	}
	if n == 0 {
		c.R.Unknown(rule, "initConn call sites", c.pos(m.newConn), "no call of (*conn).initConn found")
	}
}
